/-
Lemmas about the block-manager model: lists, `rollBack`, the store write, and the
loop invariant of `handleHeadersMsg`.
-/
import Neutrino.Spec.BlockMgr
namespace Neutrino.BM

/-- A well-formed stored chain, built from the right: genesis, then headers each
naming the current tip as parent and valid on their own branch. -/
inductive Good (t : Tbl) : List Nat → Prop
  | gen : Good t [0]
  | snoc {l : List Nat} {h : Nat} : Good t l → t.parent h = some (tipId l) → t.valid h = true → Good t (l ++ [h])

theorem Good.ne_nil {t : Tbl} {l : List Nat} (g : Good t l) : l ≠ [] := by
  cases g <;> simp

theorem tipId_append (l : List Nat) (h : Nat) : tipId (l ++ [h]) = h := by
  simp [tipId]

theorem tipHeight_append (l : List Nat) (h : Nat) : tipHeight (l ++ [h]) = l.length := by
  simp [tipHeight]

theorem Good.length_pos {t : Tbl} {l : List Nat} (g : Good t l) : 0 < l.length :=
  List.length_pos_iff.mpr g.ne_nil

/-- prefixes (of at least one header) of a good chain are good -/
theorem Good.take {t : Tbl} {l : List Nat} (g : Good t l) (n : Nat) : Good t (l.take (n + 1)) := by
  induction g with
  | gen => simpa using Good.gen
  | @snoc l h g hp hv ih =>
    by_cases hn : n + 1 ≤ l.length
    · rw [List.take_append_of_le_length hn]; exact ih
    · have : (l ++ [h]).take (n + 1) = l ++ [h] := by
        apply List.take_of_length_le; simp; omega
      rw [this]; exact Good.snoc g hp hv

theorem Good.dropLast {t : Tbl} {l : List Nat} (g : Good t l) (h2 : 2 ≤ l.length) : Good t l.dropLast := by
  have : l.dropLast = l.take ((l.length - 2) + 1) := by
    rw [List.dropLast_eq_take]; congr 1; omega
  rw [this]; exact g.take _

/-! ### idxOf -/

/-- a hash resolves exactly when it is on the list (the index the model keeps is the stored chain) -/
theorem idxOf_isSome_iff (l : List Nat) (x : Nat) : (idxOf l x).isSome = true ↔ x ∈ l := by
  induction l with
  | nil => simp [idxOf]
  | cons y ys ih =>
    simp only [idxOf, List.mem_cons]
    by_cases hy : y = x
    · simp [hy]
    · simp only [hy, ↓reduceIte, Option.isSome_map, ih]
      constructor
      · intro h; exact Or.inr h
      · intro h; rcases h with h | h
        · exact absurd h.symm hy
        · exact h

theorem idxOf_some {l : List Nat} {x i : Nat} (h : idxOf l x = some i) : i < l.length ∧ l[i]? = some x := by
  induction l generalizing i with
  | nil => simp [idxOf] at h
  | cons y ys ih =>
    simp only [idxOf] at h
    by_cases hy : y = x
    · simp only [hy, ↓reduceIte, Option.some.injEq] at h
      subst h; subst hy; simp
    · simp only [hy, ↓reduceIte, Option.map_eq_some_iff] at h
      obtain ⟨j, hj, rfl⟩ := h
      have := ih hj
      refine ⟨by simp; omega, ?_⟩
      simpa using this.2

theorem idxOf_none {l : List Nat} {x : Nat} (h : idxOf l x = none) : x ∉ l := by
  induction l with
  | nil => simp
  | cons y ys ih =>
    simp only [idxOf] at h
    by_cases hy : y = x
    · simp [hy] at h
    · simp only [hy, ↓reduceIte, Option.map_eq_none_iff] at h
      simp only [List.mem_cons, not_or]
      exact ⟨fun e => hy e.symm, ih h⟩

/-- the header at index `i` of a chain is the tip of the prefix of length `i+1` -/
theorem tipId_take {l : List Nat} {i x : Nat} (h : l[i]? = some x) : tipId (l.take (i + 1)) = x := by
  have hi : i < l.length := by
    rcases Nat.lt_or_ge i l.length with h' | h'
    · exact h'
    · rw [List.getElem?_eq_none h'] at h; simp at h
  simp only [tipId, List.getLast?_take]
  simp [h]

/-! ### rollBack -/

theorem rollBack_log (h : Nat) (fuel : Nat) (log : List Nat) (fst : Nat) (ft : Node) (out : List Ntfn)
    (hf : log.length ≤ fuel + (h + 1)) :
    (rollBack h fuel log fst ft out).1 = log.take (h + 1) := by
  induction fuel generalizing log fst ft out with
  | zero =>
    simp only [rollBack]
    rw [List.take_of_length_le]; omega
  | succ n ih =>
    simp only [rollBack]
    by_cases hgt : tipHeight log > h
    · simp only [hgt, ↓reduceIte]
      simp only [tipHeight] at hgt
      rw [ih]
      · rw [List.dropLast_eq_take, List.take_take]; congr 1; omega
      · simp; omega
    · simp only [hgt, ↓reduceIte]
      simp only [tipHeight] at hgt
      rw [List.take_of_length_le]; omega

theorem rollBackTo_log (s : State) (h : Nat) : (s.rollBackTo h).1.log = s.log.take (h + 1) := by
  simp only [State.rollBackTo]
  have := rollBack_log h s.log.length s.log s.fst s.ftip [] (by omega)
  generalize rollBack h s.log.length s.log s.fst s.ftip [] = r at this
  obtain ⟨a, b, c, d⟩ := r
  exact this

theorem rollBackTo_corrupt (s : State) (h : Nat) : (s.rollBackTo h).1.corrupt = s.corrupt := by
  simp only [State.rollBackTo]

end Neutrino.BM

namespace Neutrino.BM

/-! ### the C01 part of the invariant and the loop invariant of `handleHeadersMsg` -/

/-- `ListAnchored`: the back of the in-memory header list is the stored tip. -/
def ListAnchored (s : State) : Prop := s.hl.head? = some ⟨tipId s.log, tipHeight s.log⟩

structure Inv1 (c : Cfg) (s : State) : Prop where
  good : Good c.tbl s.log
  clean : s.corrupt = false
  anchored : ListAnchored s

/-- inside the loop: `l.batch` is pushed on `headerList` but not yet written -/
structure LI (c : Cfg) (s : State) (l : Loc) (rest : List Nat) : Prop where
  good : Good c.tbl (s.log ++ l.batch)
  goodLog : Good c.tbl s.log
  clean : s.corrupt = false
  anchored : s.hl.head? = some ⟨tipId (s.log ++ l.batch), tipHeight (s.log ++ l.batch)⟩
  first : l.batch ≠ [] → l.batchFirst = s.log.length
  next : l.batch ≠ [] → ∀ h, rest.head? = some h → c.tbl.parent h = some (tipId (s.log ++ l.batch))

theorem anchored_anchor (log : List Nat) (s : State) (h : s.log = log) (hh : s.hl = anchor log) : ListAnchored s := by
  simp [ListAnchored, hh, h, anchor, hlReset]

theorem finish_inv (c : Cfg) (s : State) (l : Loc) (ntf : List Ntfn) (rest : List Nat)
    (li : LI c s l rest) : Inv1 c (finish c s l ntf).1 := by
  have key : Inv1 c (s.write l.batchFirst l.batch) := by
    simp only [State.write]
    by_cases hb : l.batch = []
    · simp only [hb, ↓reduceIte]
      have := li.anchored; simp only [hb, List.append_nil] at this
      exact ⟨li.goodLog, li.clean, this⟩
    · simp only [hb, ↓reduceIte]
      refine ⟨li.good, ?_, li.anchored⟩
      simp [li.clean, li.first hb]
  simp only [finish]
  by_cases hr : l.recvCp = true
  · simp only [hr, ↓reduceIte]; exact ⟨key.good, key.clean, key.anchored⟩
  · simp only [hr]; exact ⟨key.good, key.clean, key.anchored⟩

theorem rollBack_anchor_inv (c : Cfg) (s : State) (k : Nat) (p : Nat) (g : Good c.tbl s.log) (hc : s.corrupt = false) :
    Inv1 c { (s.rollBackTo k).1 with peers := disconnect (s.rollBackTo k).1.peers p,
                                     hl := anchor (s.rollBackTo k).1.log } := by
  refine ⟨?_, ?_, ?_⟩
  · simp only [rollBackTo_log]; exact g.take k
  · simp only [rollBackTo_corrupt]; exact hc
  · exact anchored_anchor _ _ rfl rfl

theorem cpTest_inv (c : Cfg) (p h : Nat) (s : State) (l : Loc) (ntf : List Ntfn) (nh : Nat) (rest : List Nat)
    (li : LI c s l rest) (r : State × List Ntfn) (hr : cpTest c p h s l ntf nh = some r) : Inv1 c r.1 := by
  simp only [cpTest] at hr
  split at hr
  · rename_i cp _
    by_cases h1 : nh = cp.height
    · simp only [h1, ↓reduceIte] at hr
      by_cases h2 : h = cp.id
      · simp only [h2, ↓reduceIte, Option.some.injEq] at hr
        subst hr
        exact finish_inv c s _ ntf rest ⟨li.good, li.goodLog, li.clean, li.anchored, li.first, li.next⟩
      · simp only [h2, ↓reduceIte, Option.some.injEq] at hr
        subst hr
        exact rollBack_anchor_inv c s _ p li.goodLog li.clean
    · simp only [h1, ↓reduceIte] at hr; cases hr
  · cases hr

theorem linked_tail {t : Tbl} {a : Nat} {l : List Nat} (h : linked t (a :: l) = true) : linked t l = true := by
  cases l with
  | nil => rfl
  | cons b rest => simp only [linked, Bool.and_eq_true] at h; exact h.2

theorem linked_head {t : Tbl} {a b : Nat} {l : List Nat} (h : linked t (a :: b :: l) = true) : t.parent b = some a := by
  simp only [linked, Bool.and_eq_true, beq_iff_eq] at h; exact h.1

theorem doReorg_inv (c : Cfg) (hw : 1 ≤ c.win) (s : State) (p h bh : Nat) (g : Good c.tbl s.log) (hc : s.corrupt = false)
    (hidx : (c.tbl.parent h).bind (idxOf s.log) = some bh) (hv : c.tbl.valid h = true) :
    Good c.tbl (doReorg c s p h bh).1.log ∧ (doReorg c s p h bh).1.corrupt = false ∧ ListAnchored (doReorg c s p h bh).1 := by
  obtain ⟨q, hq, hi⟩ := Option.bind_eq_some_iff.mp hidx
  obtain ⟨hlt, hget⟩ := idxOf_some hi
  have hlog : ({ s with sync := some p }.rollBackTo bh).1.log = s.log.take (bh + 1) := rollBackTo_log _ _
  have hcor : ({ s with sync := some p }.rollBackTo bh).1.corrupt = false := by
    rw [rollBackTo_corrupt]; exact hc
  have hlen : (s.log.take (bh + 1)).length = bh + 1 := by simp; omega
  simp only [doReorg, State.write, List.cons_ne_nil, ↓reduceIte, hlog, hcor]
  refine ⟨?_, ?_, ?_⟩
  · apply Good.snoc (g.take bh)
    · rw [tipId_take hget]; exact hq
    · exact hv
  · simp [hlen]
  · simp only [ListAnchored, hlPush, hlReset, tipId_append, tipHeight_append, hlen]
    have : c.win = (c.win - 1) + 1 := by omega
    rw [this]; simp

theorem reorg_adopt_facts (c : Cfg) (s : State) (p : Nat) (prev : Node) (h : Nat) (rest : List Nat) (bh : Nat)
    (hd : reorgDecision c s p prev h rest = .adopt bh) :
    (c.tbl.parent h).bind (idxOf s.log) = some bh ∧ (h :: rest).all c.tbl.valid = true ∧
    ¬ bh < (findPrevCp c.cps (prev.height + 1)).height ∧
    knownWalk c.tbl s.log (prev.height - bh) s.hl prev.id 0 < sumWork c.tbl (h :: rest) ∧
    (s.sync = some p ∨ synced c s = true) := by
  simp only [reorgDecision] at hd
  split at hd; · cases hd
  rename_i hlisten
  split at hd; · cases hd
  split at hd; · cases hd
  split at hd
  · cases hd
  · rename_i bh' hb
    split at hd; · cases hd
    rename_i hfloor
    split at hd; · cases hd
    rename_i hval
    split at hd; · cases hd
    rename_i hgt
    split at hd; · cases hd
    rename_i heq
    simp only [Reorg.adopt.injEq] at hd
    subst hd
    refine ⟨hb, by simpa using hval, hfloor, by omega, ?_⟩
    by_cases hs : s.sync = some p
    · exact Or.inl hs
    · right
      simp only [Bool.and_eq_true, bne_iff_ne, ne_eq, hs, not_false_eq_true, true_and,
        Bool.not_eq_true', not_and, Bool.not_eq_false] at hlisten
      cases hsy : synced c s with
      | true => rfl
      | false => simp [hsy, hs] at hlisten

end Neutrino.BM

namespace Neutrino.BM

theorem LI_of_inv1 (c : Cfg) (s : State) (l : Loc) (rest : List Nat) (g : Good c.tbl s.log) (hc : s.corrupt = false)
    (ha : ListAnchored s) (hb : l.batch = []) : LI c s l rest :=
  ⟨by simpa [hb] using g, g, hc, by simpa [hb, ListAnchored] using ha, fun h => absurd hb h, fun h => absurd hb h⟩

theorem pushBatch_batch (l : Loc) (h nh : Nat) : (pushBatch l h nh).batch = l.batch ++ [h] := by
  simp only [pushBatch]
  by_cases hb : l.batch = []
  · simp [hb]
  · simp [hb]

theorem pushBatch_first (l : Loc) (h nh : Nat) :
    (pushBatch l h nh).batchFirst = if l.batch = [] then nh else l.batchFirst := by
  simp only [pushBatch]
  by_cases hb : l.batch = []
  · simp [hb]
  · simp [hb]

/-- **The loop of `handleHeadersMsg` re-establishes the invariant on every path out of it**
(normal end, `break` at a checkpoint, every early return), for every window size ≥ 1. -/
theorem loop_inv (c : Cfg) (hw : 1 ≤ c.win) (p : Nat) (rest : List Nat) :
    ∀ (s : State) (l : Loc) (ntf : List Ntfn), linked c.tbl rest = true → LI c s l rest →
      Inv1 c (loop c p rest s l ntf).1 := by
  induction rest with
  | nil => intro s l ntf _ li; exact finish_inv c s l ntf [] li
  | cons h rest ih =>
    intro s l ntf hlk li
    simp only [loop]
    cases hhd : s.hl.head? with
    | none => rw [li.anchored] at hhd; cases hhd
    | some prev =>
      have hprev : prev = ⟨tipId (s.log ++ l.batch), tipHeight (s.log ++ l.batch)⟩ := by
        rw [li.anchored] at hhd; exact (Option.some.inj hhd).symm
      simp only []
      by_cases hpar : c.tbl.parent h = some prev.id
      · simp only [hpar, ↓reduceIte]
        by_cases hv : c.tbl.valid h = true
        · simp only [hv, Bool.not_true, Bool.false_eq_true, ↓reduceIte]
          -- the state and locals after the push
          have hlen : 0 < (s.log ++ l.batch).length := li.good.length_pos
          have li' : LI c { s with peers := updLast s.peers p (prev.height + 1),
                                   hl := hlPush c.win s.hl ⟨h, prev.height + 1⟩ }
                        (pushBatch { l with finalId := h } h (prev.height + 1)) rest := by
            have hbatch : s.log ++ (pushBatch { l with finalId := h } h (prev.height + 1)).batch
                = (s.log ++ l.batch) ++ [h] := by
              rw [pushBatch_batch]; simp
            refine ⟨?_, li.goodLog, li.clean, ?_, ?_, ?_⟩
            · rw [hbatch]
              exact Good.snoc li.good (by rw [hpar, hprev]) hv
            · rw [hbatch, tipId_append, tipHeight_append]
              simp only [hlPush]
              have : c.win = (c.win - 1) + 1 := by omega
              rw [this]
              simp only [List.take_succ_cons, List.head?_cons, Option.some.injEq, Node.mk.injEq, true_and]
              rw [hprev]; simp only [tipHeight]; omega
            · intro _
              rw [pushBatch_first]
              by_cases hb : l.batch = []
              · simp only [hb, ↓reduceIte]
                rw [hprev]; simp only [hb, List.append_nil, tipHeight]
                have := li.goodLog.length_pos; omega
              · simp only [hb, ↓reduceIte]; exact li.first hb
            · intro _ h' hh'
              rw [hbatch, tipId_append]
              cases rest with
              | nil => cases hh'
              | cons b bs =>
                simp only [List.head?_cons, Option.some.injEq] at hh'
                subst hh'
                exact linked_head hlk
          cases hcp : cpTest c p h _ (pushBatch { l with finalId := h } h (prev.height + 1)) ntf (prev.height + 1) with
          | some r => exact cpTest_inv c p h _ _ ntf _ rest li' r hcp
          | none => exact ih _ _ ntf (linked_tail hlk) li'
        · simp only [hv, Bool.not_false, ↓reduceIte]
          exact ⟨li.goodLog, li.clean, anchored_anchor _ _ rfl rfl⟩
      · simp only [hpar, ↓reduceIte]
        -- nothing of this message can be pending: a pending header would be `h`'s parent
        have hb : l.batch = [] := by
          apply Classical.byContradiction
          intro hb
          have := li.next hb h rfl
          rw [hprev] at hpar
          exact hpar this
        have hanch : ListAnchored s := by
          have := li.anchored; simpa [hb, ListAnchored] using this
        cases hd : reorgDecision c s p prev h rest with
        | ignore => exact ⟨li.goodLog, li.clean, hanch⟩
        | skip =>
          exact ih s _ ntf (linked_tail hlk) (LI_of_inv1 c s _ rest li.goodLog li.clean hanch hb)
        | disconnect => exact ⟨li.goodLog, li.clean, hanch⟩
        | adopt bh =>
          simp only []
          obtain ⟨hidx, hval, _, _, _⟩ := reorg_adopt_facts c s p prev h rest bh hd
          have hvh : c.tbl.valid h = true := by
            simp only [List.all_cons, Bool.and_eq_true] at hval; exact hval.1
          obtain ⟨g', c', a'⟩ := doReorg_inv c hw s p h bh li.goodLog li.clean hidx hvh
          have li' : LI c (doReorg c s p h bh).1 { l with finalId := h } rest :=
            LI_of_inv1 c _ _ rest g' c' a' hb
          cases hcp : cpTest c p h (doReorg c s p h bh).1 { l with finalId := h } (ntf ++ (doReorg c s p h bh).2) 0 with
          | some r => exact cpTest_inv c p h _ _ _ _ rest li' r hcp
          | none => exact ih _ _ _ (linked_tail hlk) li'

end Neutrino.BM

namespace Neutrino.BM

/-! ### every event preserves the invariant -/

theorem startSync_fields (s : State) : (startSync s).log = s.log ∧ (startSync s).corrupt = s.corrupt ∧ (startSync s).hl = s.hl
    ∧ (startSync s).fst = s.fst ∧ (startSync s).ftip = s.ftip ∧ (startSync s).ncp = s.ncp := by
  simp only [startSync]
  cases s.sync <;> simp

theorem handleHeaders_inv (c : Cfg) (hw : 1 ≤ c.win) (s : State) (p : Nat) (hs : List Nat) (h : Inv1 c s) :
    Inv1 c (handleHeaders c s p hs).1 := by
  simp only [handleHeaders]
  by_cases h1 : hs = []
  · simp only [h1, ↓reduceIte]; exact h
  · simp only [h1, ↓reduceIte]
    by_cases h2 : linked c.tbl hs = true
    · simp only [h2, Bool.not_true, Bool.false_eq_true, ↓reduceIte]
      exact loop_inv c hw p hs s {} [] h2 (LI_of_inv1 c s {} hs h.good h.clean h.anchored rfl)
    · simp only [h2, Bool.not_false, ↓reduceIte]
      exact ⟨h.good, h.clean, h.anchored⟩

theorem cfWrite_fields (s : State) (stop n : Nat) (ok : Bool) :
    (cfWrite s stop n ok).1.log = s.log ∧ (cfWrite s stop n ok).1.corrupt = s.corrupt ∧ (cfWrite s stop n ok).1.hl = s.hl := by
  simp only [cfWrite]
  split
  · exact ⟨rfl, rfl, rfl⟩
  · split
    · exact ⟨rfl, rfl, rfl⟩
    · split <;> exact ⟨rfl, rfl, rfl⟩

theorem chainOk_good (c : Cfg) : ∀ (blocks log : List Nat), Good c.tbl log → chainOk c log blocks = true →
    Good c.tbl (log ++ blocks) := by
  intro blocks
  induction blocks with
  | nil => intro log g _; simpa using g
  | cons b bs ih =>
    intro log g hok
    simp only [chainOk, Bool.and_eq_true, beq_iff_eq] at hok
    have := ih (log ++ [b]) (Good.snoc g hok.1.1.1 hok.1.1.2) hok.2
    simpa using this

/-- `BM.inv_step` (C01 part) -/
theorem inv1_step (c : Cfg) (hw : 1 ≤ c.win) (s : State) (e : Ev) (h : Inv1 c s) : Inv1 c (step c s e).1 := by
  cases e with
  | newPeer p =>
    simp only [step, newPeer]
    split
    · exact h
    · obtain ⟨a, b, d, _⟩ := startSync_fields { s with cand := s.cand ++ [p] }
      exact ⟨by rw [a]; exact h.good, by rw [b]; exact h.clean, by simp only [ListAnchored, a, d]; exact h.anchored⟩
  | donePeer p =>
    simp only [step, donePeer]
    split
    · obtain ⟨a, b, d, _⟩ := startSync_fields { s with cand := s.cand.erase p, sync := none, hl := anchor s.log }
      refine ⟨by rw [a]; exact h.good, by rw [b]; exact h.clean, ?_⟩
      simp only [ListAnchored, a, d]; simp [anchor, hlReset]
    · exact ⟨h.good, h.clean, h.anchored⟩
  | peerHeight p k => exact ⟨h.good, h.clean, h.anchored⟩
  | inv p id =>
    simp only [step, invMsg]
    split
    · split
      · exact ⟨h.good, h.clean, h.anchored⟩
      · exact h
    · exact h
  | headers p hs => exact handleHeaders_inv c hw s p hs h
  | cfWrite stop n ok =>
    obtain ⟨a, b, d⟩ := cfWrite_fields s stop n ok
    simp only [step]
    exact ⟨by rw [a]; exact h.good, by rw [b]; exact h.clean, by simp only [ListAnchored, a, d]; exact h.anchored⟩
  | backlog k => exact h
  | headersFailWrite p hs =>
    simp only [step, handleHeadersFailWrite]
    split
    · exact ⟨h.good, h.clean, anchored_anchor _ _ rfl rfl⟩
    · exact handleHeaders_inv c hw s p hs h
  | importReset blocks nf =>
    simp only [step, importReset]
    refine ⟨?_, h.clean, anchored_anchor _ _ rfl rfl⟩
    split
    · rename_i hok; exact chainOk_good c _ _ h.good hok
    · exact h.good

theorem inv1_init (c : Cfg) (peers : List Peer) : Inv1 c (init c peers) :=
  ⟨Good.gen, rfl, rfl⟩

theorem inv1_run (c : Cfg) (hw : 1 ≤ c.win) (s : State) (es : List Ev) (h : Inv1 c s) : Inv1 c (run c s es) := by
  induction es generalizing s with
  | nil => exact h
  | cons e es ih => exact ih _ (inv1_step c hw s e h)

/-! ### `Good` is what the observation-level oracle checks -/

theorem linkedFrom_append (t : Tbl) (a : Nat) (l : List Nat) (h : Nat) :
    linkedFrom t a (l ++ [h]) = (linkedFrom t a l && (t.parent h == some (l.getLast?.getD a))) := by
  induction l generalizing a with
  | nil => simp [linkedFrom]
  | cons b bs ih =>
    simp only [List.cons_append, linkedFrom, ih, Bool.and_assoc]
    congr 2
    cases bs with
    | nil => simp
    | cons x xs =>
      have : ∀ d e : Nat, (x :: xs).getLast?.getD d = (x :: xs).getLast?.getD e := by
        intro d e
        have : (x :: xs).getLast? = some ((x :: xs).getLast (by simp)) := List.getLast?_eq_some_getLast (by simp)
        rw [this]; rfl
      simp [List.getLast?_cons_cons, this b a]

theorem Good.chainLinkedValid {t : Tbl} {l : List Nat} (g : Good t l) : chainLinkedValid t l = true := by
  induction g with
  | gen => simp [BM.chainLinkedValid, linkedFrom]
  | @snoc l h g hp hv ih =>
    cases l with
    | nil => exact absurd rfl g.ne_nil
    | cons g0 rest =>
      simp only [BM.chainLinkedValid, Bool.and_eq_true] at ih
      simp only [List.cons_append, BM.chainLinkedValid, linkedFrom_append, List.all_append, List.all_cons, List.all_nil,
        Bool.and_true, Bool.and_eq_true, ih.1.1, ih.1.2, ih.2, hv, true_and, and_true, beq_iff_eq]
      rw [hp]
      have hg0 : g0 = 0 := by simpa using ih.1.1
      subst hg0
      simp only [tipId]
      cases rest with
      | nil => simp
      | cons x xs => simp [List.getLast?_cons_cons]

end Neutrino.BM
