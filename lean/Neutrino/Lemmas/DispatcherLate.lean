/-
Lemmas for C12, results that arrive after their worker's address was taken over
by a newer connection (`Ev2.late`, `swapIn`): the accounting invariant `KW` and
the verdict invariant `InvA` are preserved by every step of `step2`.
-/
import Neutrino.Lemmas.DispatcherJobs
namespace Neutrino.Disp

theorem swap_perm {α} (job : α) (A wa L : List α) :
    (([job] ++ A) ++ (wa ++ L)).Perm ((wa ++ A) ++ (job :: L)) := by
  refine List.Perm.trans ?_ (List.perm_middle).symm
  simp only [List.cons_append, List.nil_append]
  refine List.Perm.cons _ ?_
  rw [← List.append_assoc]
  exact (List.perm_append_comm).append_right _

theorem perm_take_out {α} (f : α → Nat) (job : α) : ∀ (l : List α), (l.map f).Nodup → job ∈ l →
    l.Perm (job :: l.filter (fun j => f j != f job))
  | [], _, h => absurd h List.not_mem_nil
  | x :: xs, hn, h => by
    simp only [List.map_cons, List.nodup_cons] at hn
    by_cases hx : x = job
    · subst hx
      have : (x :: xs).filter (fun j => f j != f x) = xs := by
        simp only [List.filter_cons, bne_self_eq_false, Bool.false_eq_true, ↓reduceIte]
        apply List.filter_eq_self.mpr
        intro y hy
        simp only [bne_iff_ne, ne_eq]
        intro e; exact hn.1 (by rw [← e]; exact List.mem_map_of_mem hy)
      rw [this]
    · have hm : job ∈ xs := by
        cases List.mem_cons.mp h with
        | inl e => exact absurd e.symm hx
        | inr e => exact e
      have hne : f x ≠ f job := fun e => hn.1 (by rw [e]; exact List.mem_map_of_mem hm)
      have hb : (f x != f job) = true := by simp only [bne_iff_ne, ne_eq]; exact hne
      simp only [List.filter_cons, hb, ↓reduceIte]
      exact ((perm_take_out f job xs hn.2 hm).cons x).trans (List.Perm.swap _ _ _)

theorem lost_nodup {s : State} (h : KW s) : (s.lost.map (·.idx)).Nodup := by
  have hs : s.lost.Sublist (jobsOf s) :=
    (List.sublist_append_right _ _).trans (List.sublist_append_right _ _)
  exact List.Pairwise.sublist (hs.map (·.idx)) h.k.nodup

/-- re-associating a lost job with the entry of its address moves jobs between `lost` and `workers` only -/
theorem KW_swapIn {s : State} (h : KW s) {p : Nat} {w : Worker} {job : Job}
    (hw : findW s.workers p = some w) (hj : job ∈ s.lost) : KW (swapIn s w job) := by
  have h1 := actives_split h.wn hw
  have h2 := perm_take_out (fun j : Job => j.idx) job s.lost (lost_nodup h) hj
  refine KW_same_jobs h ?_ (twin_refl _) rfl rfl rfl rfl rfl rfl (nodup_setW _ _ h.wn)
  unfold jobsOf swapIn
  dsimp only
  rw [actives_setW]
  dsimp only
  rw [findW_addr hw]
  refine List.Perm.append_left _ ?_
  refine (swap_perm job _ _ _).trans ?_
  exact (h1.symm).append (h2.symm)

theorem KW_stepLateResult {s : State} (h : KW s) (p idx : Nat) (e : Err) :
    KW (stepLateResult s p idx e).1 := by
  unfold stepLateResult
  cases hf : s.lost.find? (fun j => j.idx == idx) with
  | none => exact h
  | some job =>
    dsimp only
    cases hw : findW s.workers p with
    | none => exact h
    | some w => exact KW_stepResult (KW_swapIn h hw (List.mem_of_find?_eq_some hf)) p e

theorem stepLateResult_R (s : State) (hq : s.quit = false) (p idx : Nat) (e : Err) :
    R (abs s) (abs (stepLateResult s p idx e).1) := by
  unfold stepLateResult
  cases hf : s.lost.find? (fun j => j.idx == idx) with
  | none => exact R.same _
  | some job =>
    dsimp only
    cases hw : findW s.workers p with
    | none => exact R.same _
    | some w =>
      have hq' : (swapIn s w job).quit = false := hq
      exact stepResult_R (swapIn s w job) hq' p e

theorem step2_late_eq (s : State) (p idx : Nat) (e : Err) :
    step2 s (.late p idx e) =
      if (s.quit || offering s) = true then (s, [Out.ignored]) else stepLateResult s p idx e := rfl

theorem step2_R (s : State) (e : Ev2) : R (abs s) (abs (step2 s e).1) := by
  cases e with
  | base e => exact step_R s e
  | late p idx er =>
    rw [step2_late_eq]
    by_cases hc : (s.quit || offering s) = true
    · rw [if_pos hc]; exact R.same _
    · rw [if_neg hc]
      have hq : s.quit = false := by cases hh : s.quit <;> simp_all
      exact stepLateResult_R s hq p idx er

theorem KW_step2 {s : State} (h : KW s) (a : InvA (abs s)) (e : Ev2) : KW (step2 s e).1 := by
  cases e with
  | base e => exact KW_step h a e
  | late p idx er =>
    rw [step2_late_eq]
    by_cases hc : (s.quit || offering s) = true
    · rw [if_pos hc]; exact h
    · rw [if_neg hc]; exact KW_stepLateResult h p idx er

theorem inv_run2 (s : State) (es : List Ev2) (h : KW s) (a : InvA (abs s)) :
    KW (run2 s es) ∧ InvA (abs (run2 s es)) := by
  induction es generalizing s with
  | nil => exact ⟨h, a⟩
  | cons e es ih => exact ih _ (KW_step2 h a e) (invA_R a (step2_R s e))

/-- `run2` over plain dispatcher events is `run` -/
theorem run2_base (s : State) (es : List Ev) : run2 s (es.map Ev2.base) = run s es := by
  induction es generalizing s with
  | nil => rfl
  | cons e es ih => exact ih _

end Neutrino.Disp
