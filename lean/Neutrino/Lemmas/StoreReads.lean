import Neutrino.Model.StoreReads
import Neutrino.Lemmas.StoreRep
namespace Neutrino.Store

theorem step_down (dec height : Nat) (hdec : 1 ≤ dec) (hpos : 0 < height) :
    (if dec > height then 0 else height - dec) < height := by
  split <;> omega

/-- the locator's heights, newest first, never go up and each step goes down -/
theorem locatorHeights_go_desc (fuel : Nat) :
    ∀ (height dec count : Nat) (acc : List Nat), 1 ≤ dec → acc.head? = some height →
      List.Pairwise (· < ·) acc →
      List.Pairwise (· > ·) (locatorHeights.go fuel height dec count acc) := by
  induction fuel with
  | zero =>
    intro height dec count acc _ _ hp
    simp only [locatorHeights.go]
    exact List.pairwise_reverse.mpr hp
  | succ fuel ih =>
    intro height dec count acc hdec hhead hp
    simp only [locatorHeights.go]
    by_cases hstop : height = 0 ∨ count ≥ 500
    · simp only [hstop, ↓reduceIte]
      exact List.pairwise_reverse.mpr hp
    · simp only [hstop, ↓reduceIte]
      have hpos : 0 < height := by
        cases Nat.eq_zero_or_pos height with
        | inl h => exact absurd (Or.inl h) hstop
        | inr h => exact h
      -- the next height is strictly below the current one
      have hdec' : 1 ≤ (if count > 10 then dec * 2 else dec) := by split <;> omega
      have hlt : (if (if count > 10 then dec * 2 else dec) > height then 0
                  else height - (if count > 10 then dec * 2 else dec)) < height :=
        step_down _ _ hdec' hpos
      apply ih _ _ _ _ hdec' (by simp)
      rw [List.pairwise_cons]
      refine ⟨?_, hp⟩
      intro a ha
      cases acc with
      | nil => cases ha
      | cons x xs =>
        simp only [List.head?_cons, Option.some.injEq] at hhead
        subst hhead
        rcases List.mem_cons.mp ha with rfl | ha'
        · exact hlt
        · exact Nat.lt_trans hlt ((List.pairwise_cons.mp hp).1 a ha')

theorem locatorHeights_desc (tipH : Nat) : List.Pairwise (· > ·) (locatorHeights tipH) := by
  unfold locatorHeights
  exact locatorHeights_go_desc _ _ _ _ _ (Nat.le_refl 1) rfl (by simp)

theorem locatorHeights_go_head (fuel : Nat) :
    ∀ (height dec count : Nat) (acc : List Nat) (t : Nat), acc.getLast? = some t →
      (locatorHeights.go fuel height dec count acc).head? = some t := by
  induction fuel with
  | zero =>
    intro height dec count acc t h
    simp only [locatorHeights.go, List.head?_reverse, h]
  | succ fuel ih =>
    intro height dec count acc t h
    simp only [locatorHeights.go]
    split
    · simp only [List.head?_reverse, h]
    · apply ih
      cases acc with
      | nil => simp at h
      | cons x xs => simpa [List.getLast?_cons_cons] using h

/-- the locator starts at the tip -/
theorem locatorHeights_head (tipH : Nat) : (locatorHeights tipH).head? = some tipH := by
  unfold locatorHeights
  exact locatorHeights_go_head _ _ _ _ _ _ (by simp)

/-- every height of the locator is at most the tip height -/
theorem locatorHeights_le (tipH : Nat) : ∀ h ∈ locatorHeights tipH, h ≤ tipH := by
  intro h hm
  have hd := locatorHeights_desc tipH
  have hh := locatorHeights_head tipH
  cases hl : locatorHeights tipH with
  | nil => rw [hl] at hm; cases hm
  | cons x xs =>
    rw [hl] at hm hd hh
    simp only [List.head?_cons, Option.some.injEq] at hh
    subst hh
    rcases List.mem_cons.mp hm with rfl | hm'
    · exact Nat.le_refl _
    · exact Nat.le_of_lt ((List.pairwise_cons.mp hd).1 h hm')

/-- … and it reaches genesis unless it was cut at the message limit of 500 entries -/
theorem locatorHeights_go_last (fuel : Nat) :
    ∀ (height dec count : Nat) (acc : List Nat), 1 ≤ dec → height < fuel → acc.head? = some height →
      count = acc.length →
      (locatorHeights.go fuel height dec count acc).getLast? = some 0 ∨
      500 ≤ (locatorHeights.go fuel height dec count acc).length := by
  induction fuel with
  | zero => intro height dec count acc _ h; omega
  | succ fuel ih =>
    intro height dec count acc hdec hf hhead hcount
    simp only [locatorHeights.go]
    by_cases h0 : height = 0
    · simp only [h0, true_or, ↓reduceIte, List.getLast?_reverse]
      left; rw [hhead, h0]
    · by_cases hc : count ≥ 500
      · simp only [hc, or_true, ↓reduceIte, List.length_reverse]
        right; omega
      · have hstop : ¬ (height = 0 ∨ count ≥ 500) := by simp [h0, hc]
        simp only [hstop, ↓reduceIte]
        have hpos : 0 < height := Nat.pos_of_ne_zero h0
        have hdec' : 1 ≤ (if count > 10 then dec * 2 else dec) := by split <;> omega
        apply ih
        · exact hdec'
        · have := step_down (if count > 10 then dec * 2 else dec) height hdec' hpos
          omega
        · simp
        · simp [hcount]

theorem locatorHeights_last (tipH : Nat) :
    (locatorHeights tipH).getLast? = some 0 ∨ 500 ≤ (locatorHeights tipH).length := by
  unfold locatorHeights
  exact locatorHeights_go_last _ _ _ _ _ (Nat.le_refl 1) (Nat.lt_succ_self _) rfl rfl

theorem readRange_rep {d : Durable} {l : Log} (hrep : Rep d l) (lo hi : Nat) (h1 : hi < l.blocks.length) (h2 : lo ≤ hi) :
    readRange d.bf lo hi = some ((l.blocks.drop lo).take (hi - lo + 1)) := by
  simp [readRange, hrep.bents, h1, h2]

theorem mapM_get_of_le {l : List Nat} (hs : List Nat) (h : ∀ x ∈ hs, x < l.length) :
    hs.mapM (fun i => l[i]?) = some (hs.filterMap (fun i => l[i]?)) := by
  induction hs with
  | nil => rfl
  | cons x xs ih =>
    have hx : x < l.length := h x (by simp)
    have ih' := ih (fun y hy => h y (by simp [hy]))
    simp only [List.mapM_cons, List.getElem?_eq_getElem hx, List.filterMap_cons, ih']
    rfl

end Neutrino.Store
