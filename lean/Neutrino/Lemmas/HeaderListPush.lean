/-
`PushBack` preserves the ring invariant; hence `ancestor_correct` holds in every ring built by
`ResetHeaderState` / `PushBack` with consecutive heights, and the ring refines the abstract
live list.
-/
import Neutrino.Lemmas.HeaderList
namespace Neutrino.HL

/-! ### index arithmetic (no `%`) -/

theorem next_lt {cap t : Nat} (h : t < cap) : next cap t < cap := by
  simp only [next]; split <;> omega

theorem slotAt_zero (cap t : Nat) : slotAt cap t 0 = t := by simp [slotAt]

theorem slotAt_succ {cap t k : Nat} (ht : t < cap) (hk : k < cap) :
    slotAt cap (next cap t) (k + 1) = slotAt cap t k := by
  simp only [slotAt, next]
  split <;> split <;> split <;> omega

theorem slotAt_inj {cap t k1 k2 : Nat} (ht : t < cap) (h1 : k1 < cap) (h2 : k2 < cap)
    (h : slotAt cap t k1 = slotAt cap t k2) : k1 = k2 := by
  simp only [slotAt] at h
  split at h <;> split at h <;> omega

theorem slotAt_last {cap t : Nat} (ht : t < cap) : slotAt cap t (cap - 1) = next cap t := by
  simp only [slotAt, next]
  split <;> split <;> omega

theorem slotAt_eq_next {cap t k : Nat} (ht : t < cap) (hk : k < cap) (h : slotAt cap t k = next cap t) : k = cap - 1 :=
  slotAt_inj ht hk (by omega) (by rw [h, slotAt_last ht])

/-- the head moves exactly when the ring is full -/
theorem movehead_iff {cap t len : Nat} (ht : t < cap) (h1 : 0 < len) (h2 : len ≤ cap) (hnf : len < cap → t + 1 = len) :
    next cap t ≤ slotAt cap t (len - 1) ↔ len = cap := by
  simp only [slotAt, next]
  constructor
  · intro h
    rcases Nat.lt_or_ge len cap with hl | hl
    · have := hnf hl
      split at h <;> split at h <;> omega
    · omega
  · intro h; subst h
    split <;> split <;> omega

/-! ### `pushRaw` under the invariant -/

section
variable {r : Ring} {t top : Nat}

theorem pushRaw_cap (r : Ring) (h id : Nat) : (pushRaw r h id).cap = r.cap := rfl
theorem pushRaw_len (r : Ring) (h id : Nat) : (pushRaw r h id).len = min (r.len + 1) r.cap := rfl

theorem pushRaw_tail (inv : RInv r t top) (h id : Nat) : (pushRaw r h id).tail = some (next r.cap t) := by
  simp [pushRaw, inv.tail]

theorem pushRaw_head (inv : RInv r t top) (h id : Nat) :
    (pushRaw r h id).head = some (if r.len = r.cap then next r.cap (next r.cap t) else slotAt r.cap t (r.len - 1)) := by
  have hm := movehead_iff inv.tcap inv.lenpos inv.lencap inv.notfull
  by_cases hf : r.len = r.cap
  · have hle : next r.cap t ≤ slotAt r.cap t (r.len - 1) := hm.mpr hf
    have hl : slotAt r.cap t (r.len - 1) = next r.cap t := by rw [hf]; exact slotAt_last inv.tcap
    rw [if_pos hf]
    simp only [pushRaw, inv.tail, inv.head, hl, Nat.le_refl, decide_true, ↓reduceIte]
  · have hle : ¬ next r.cap t ≤ slotAt r.cap t (r.len - 1) := fun x => hf (hm.mp x)
    rw [if_neg hf]
    simp only [pushRaw, inv.tail, inv.head, hle, decide_false, Bool.false_eq_true, ↓reduceIte]

theorem pushRaw_slots (inv : RInv r t top) (h id j : Nat) :
    (pushRaw r h id).slots j =
      if j = next r.cap t then { height := h, id := id, prev := if r.cap = 1 then none else some t, anc := none }
      else if r.len = r.cap ∧ j = next r.cap (next r.cap t) then { r.slots j with prev := none }
      else r.slots j := by
  have hm := movehead_iff inv.tcap inv.lenpos inv.lencap inv.notfull
  by_cases hf : r.len = r.cap
  · have hle : next r.cap t ≤ slotAt r.cap t (r.len - 1) := hm.mpr hf
    have hl : slotAt r.cap t (r.len - 1) = next r.cap t := by rw [hf]; exact slotAt_last inv.tcap
    have hc : (r.len = r.cap ∧ j = next r.cap (next r.cap t)) = (j = next r.cap (next r.cap t)) := by simp [hf]
    simp only [hc]
    simp only [pushRaw, inv.tail, inv.head, hl, Nat.le_refl, decide_true, ↓reduceIte, Option.getD_some, upd]
  · have hle : ¬ next r.cap t ≤ slotAt r.cap t (r.len - 1) := fun x => hf (hm.mp x)
    have hc : (r.len = r.cap ∧ j = next r.cap (next r.cap t)) = False := by simp [hf]
    simp only [hc, ↓reduceIte]
    simp only [pushRaw, inv.tail, inv.head, hle, decide_false, Bool.false_eq_true, ↓reduceIte, upd]

end

end Neutrino.HL

namespace Neutrino.HL

/-- the old live slot `k` is the new live slot `k+1`, and `pushRaw` changed at most its `prev` -/
theorem pushRaw_old {r : Ring} {t top : Nat} (inv : RInv r t top) (h id k : Nat) (hk : k + 1 < min (r.len + 1) r.cap) :
    slotAt r.cap (next r.cap t) (k + 1) = slotAt r.cap t k ∧
    (pushRaw r h id).slots (slotAt r.cap t k) =
      (if r.len = r.cap ∧ k + 2 = r.cap then { r.slots (slotAt r.cap t k) with prev := none } else r.slots (slotAt r.cap t k)) := by
  have htc := inv.tcap
  have hkc : k < r.cap := by omega
  have h1 := slotAt_succ htc hkc
  refine ⟨h1, ?_⟩
  rw [pushRaw_slots inv]
  have hne : slotAt r.cap t k ≠ next r.cap t := by
    intro e; have := slotAt_eq_next htc hkc e; omega
  simp only [hne, ↓reduceIte]
  have hcap2 : 2 ≤ r.cap := by omega
  have hnn : next r.cap (next r.cap t) = slotAt r.cap t (r.cap - 2) := by
    rw [← slotAt_last (next_lt htc)]
    have := slotAt_succ htc (show r.cap - 2 < r.cap by omega)
    rw [← this]; congr 1; omega
  by_cases hf : r.len = r.cap
  · by_cases hk2 : k + 2 = r.cap
    · have : slotAt r.cap t k = next r.cap (next r.cap t) := by rw [hnn]; congr 1; omega
      simp [hf, hk2, this]
    · have : slotAt r.cap t k ≠ next r.cap (next r.cap t) := by
        intro e; rw [hnn] at e
        have := slotAt_inj htc hkc (by omega) e; omega
      simp [hf, hk2, this]
  · simp [hf]

/-- `PushBack` before `buildAncestor` keeps the ring invariant (the new node has no skip pointer yet) -/
theorem pushRaw_inv {r : Ring} {t top : Nat} (inv : RInv r t top) (id : Nat) :
    RInv (pushRaw r (top + 1) id) (next r.cap t) (top + 1) ∧
    (pushRaw r (top + 1) id).slots (next r.cap t) =
      { height := top + 1, id := id, prev := if r.cap = 1 then none else some t, anc := none } := by
  have htc := inv.tcap
  have hlp := inv.lenpos
  have hlc := inv.lencap
  have hlt := inv.lentop
  have hnew : (pushRaw r (top + 1) id).slots (next r.cap t) =
      { height := top + 1, id := id, prev := if r.cap = 1 then none else some t, anc := none } := by
    rw [pushRaw_slots inv]; simp
  refine ⟨⟨pushRaw_tail inv _ _, next_lt htc, by rw [pushRaw_len]; omega, by rw [pushRaw_len]; exact Nat.min_le_right _ _,
    by rw [pushRaw_len]; omega, ?_, ?_, ?_, ?_, ?_⟩, hnew⟩
  · -- head
    rw [pushRaw_head inv, pushRaw_len, pushRaw_cap]
    by_cases hf : r.len = r.cap
    · simp only [hf, ↓reduceIte]
      have : min (r.cap + 1) r.cap - 1 = r.cap - 1 := by omega
      rw [this, slotAt_last (next_lt htc)]
    · simp only [hf, ↓reduceIte]
      have : min (r.len + 1) r.cap - 1 = (r.len - 1) + 1 := by omega
      rw [this, slotAt_succ htc (by omega)]
  · -- notfull
    rw [pushRaw_len, pushRaw_cap]
    intro hlt'
    have hl : r.len < r.cap := by omega
    have := inv.notfull hl
    simp only [next]; split <;> omega
  · -- heights
    intro k' hk'
    rw [pushRaw_len] at hk'
    rw [pushRaw_cap]
    cases k' with
    | zero => rw [slotAt_zero, hnew]; simp
    | succ k =>
      obtain ⟨e1, e2⟩ := pushRaw_old inv (top + 1) id k hk'
      rw [e1, e2]
      have hk : k < r.len := by omega
      have := inv.hts k hk
      split <;> simp [this] <;> omega
  · -- prev
    intro k' hk'
    rw [pushRaw_len] at hk' ⊢
    rw [pushRaw_cap]
    cases k' with
    | zero =>
      rw [slotAt_zero, hnew]
      by_cases hc1 : r.cap = 1
      · have : ¬ (0 + 1 < min (r.len + 1) r.cap) := by omega
        simp [hc1, this]
      · have : 0 + 1 < min (r.len + 1) r.cap := by omega
        simp only [hc1, ↓reduceIte, this]
        have := slotAt_succ htc (show 0 < r.cap by omega)
        rw [this, slotAt_zero]
    | succ k =>
      obtain ⟨e1, e2⟩ := pushRaw_old inv (top + 1) id k hk'
      rw [e1, e2]
      have hk : k < r.len := by omega
      have hp := inv.prevs k hk
      by_cases hfk : r.len = r.cap ∧ k + 2 = r.cap
      · have : ¬ (k + 1 + 1 < min (r.len + 1) r.cap) := by omega
        simp [hfk, this]
      · simp only [hfk, ↓reduceIte, hp]
        by_cases hk1 : k + 1 < r.len
        · have h2 : k + 1 + 1 < min (r.len + 1) r.cap := by
            rcases Nat.lt_or_ge r.len r.cap with hl | hl
            · omega
            · have : r.len = r.cap := by omega
              have : ¬ (k + 2 = r.cap) := fun e => hfk ⟨this, e⟩
              omega
          simp only [hk1, h2, ↓reduceIte]
          rw [slotAt_succ htc (by omega)]
        · have h2 : ¬ (k + 1 + 1 < min (r.len + 1) r.cap) := by omega
          simp [hk1, h2]
  · -- skip pointers
    intro k' hk' a ha
    rw [pushRaw_len] at hk'
    rw [pushRaw_cap] at ha ⊢
    rw [pushRaw_len]
    cases k' with
    | zero => rw [slotAt_zero, hnew] at ha; simp at ha
    | succ k =>
      obtain ⟨e1, e2⟩ := pushRaw_old inv (top + 1) id k hk'
      rw [e1, e2] at ha
      have hk : k < r.len := by omega
      have ha' : (r.slots (slotAt r.cap t k)).anc = some a := by
        split at ha <;> simpa using ha
      have hsub : top + 1 - (k + 1) = top - k := by omega
      rw [hsub]
      -- the height now stored in slot `a`
      have hnewh : a = next r.cap t → ((pushRaw r (top + 1) id).slots a).height = top + 1 := by
        intro e; rw [e, hnew]
      have holdh : a ≠ next r.cap t → ((pushRaw r (top + 1) id).slots a).height = (r.slots a).height := by
        intro e; rw [pushRaw_slots inv]; simp only [e, ↓reduceIte]; split <;> rfl
      rcases inv.ancs k hk a ha' with ⟨j, hkj, hj, haj, hgj⟩ | hstale
      · by_cases hj1 : j + 1 < min (r.len + 1) r.cap
        · left
          refine ⟨j + 1, by omega, hj1, ?_, ?_⟩
          · rw [haj, slotAt_succ htc (by omega)]
          · have : top + 1 - (j + 1) = top - j := by omega
            rw [this]; exact hgj
        · right
          have hjc : j = r.cap - 1 := by omega
          have : a = next r.cap t := by rw [haj, hjc]; exact slotAt_last htc
          rw [hnewh this]; omega
      · right
        by_cases e : a = next r.cap t
        · rw [hnewh e]; omega
        · rw [holdh e]; exact hstale

end Neutrino.HL

namespace Neutrino.HL

theorem build_slots_ne (r : Ring) (t j : Nat) (ht : r.tail = some t) (hj : j ≠ t) : (build r).slots j = r.slots j := by
  simp only [build, ht]
  split
  · rfl
  · simp [upd, hj]

theorem build_fields (r : Ring) : (build r).cap = r.cap ∧ (build r).len = r.len ∧ (build r).tail = r.tail ∧ (build r).head = r.head := by
  simp only [build]
  split
  · exact ⟨rfl, rfl, rfl, rfl⟩
  · split <;> exact ⟨rfl, rfl, rfl, rfl⟩

theorem build_tail_slot (r : Ring) (t : Nat) (ht : r.tail = some t) :
    ((build r).slots t).height = (r.slots t).height ∧ ((build r).slots t).id = (r.slots t).id ∧
    ((build r).slots t).prev = (r.slots t).prev ∧
    ((build r).slots t).anc = match (r.slots t).prev with
      | none => (r.slots t).anc
      | some pe => ancestor r (some pe) (gah (r.slots t).height) := by
  simp only [build, ht]
  cases hp : (r.slots t).prev with
  | none => simp [hp]
  | some pe => simp [upd, hp]

/-- `buildAncestor` keeps the ring invariant: by `ancestor_correct` on the ring as it is when the
walk runs, the new skip pointer is the live node at `getAncestorHeight`, or nil. -/
theorem build_inv {r : Ring} {t top : Nat} (inv : RInv r t top) (hanc : (r.slots t).anc = none) : RInv (build r) t top := by
  obtain ⟨fc, fl, ft, fh⟩ := build_fields r
  obtain ⟨th, _, tp, ta⟩ := build_tail_slot r t inv.tail
  have htc := inv.tcap
  have hslot : ∀ k, 0 < k → k < r.len → (build r).slots (slotAt r.cap t k) = r.slots (slotAt r.cap t k) := by
    intro k hk0 hk
    apply build_slots_ne r t _ inv.tail
    intro e
    have := slotAt_inj htc (show k < r.cap by have := inv.lencap; omega) (show 0 < r.cap by omega) (by rw [e, slotAt_zero])
    omega
  have hheights : ∀ j, ((build r).slots j).height = (r.slots j).height := by
    intro j
    by_cases e : j = t
    · rw [e]; exact th
    · rw [build_slots_ne r t j inv.tail e]
  refine ⟨by rw [ft]; exact inv.tail, by rw [fc]; exact htc, by rw [fl]; exact inv.lenpos, by rw [fl, fc]; exact inv.lencap,
    by rw [fl]; exact inv.lentop, by rw [fh, fl, fc]; exact inv.head, by rw [fl, fc]; exact inv.notfull, ?_, ?_, ?_⟩
  · intro k hk; rw [fl] at hk; rw [fc, hheights]; exact inv.hts k hk
  · intro k hk; rw [fl] at hk ⊢; rw [fc]
    cases k with
    | zero => rw [slotAt_zero, tp]; have := inv.prevs 0 hk; rw [slotAt_zero] at this; exact this
    | succ k => rw [hslot (k + 1) (by omega) hk]; exact inv.prevs (k + 1) hk
  · intro k hk a ha; rw [fl] at hk ⊢; rw [fc] at ha ⊢
    rw [hheights]
    cases k with
    | succ k => rw [hslot (k + 1) (by omega) hk] at ha; exact inv.ancs (k + 1) hk a ha
    | zero =>
      rw [slotAt_zero, ta] at ha
      have hp := inv.prevs 0 hk
      rw [slotAt_zero] at hp
      rw [hp] at ha
      by_cases h1 : 0 + 1 < r.len
      · simp only [h1, ↓reduceIte] at ha
        have hh := inv.hts 0 hk
        rw [slotAt_zero] at hh
        rw [hh, ancestor_correct r t top inv 1 _ h1] at ha
        simp only [Nat.sub_zero] at ha ⊢
        by_cases hc : gah top ≤ top - 1 ∧ top + 1 - r.len ≤ gah top
        · rw [if_pos hc, Option.some.injEq] at ha
          left
          have hlt := inv.lentop
          refine ⟨top - gah top, by omega, by omega, ha.symm, by omega⟩
        · rw [if_neg hc] at ha; cases ha
      · simp only [h1, ↓reduceIte] at ha
        rw [hanc] at ha; cases ha

/-- **`PushBack` of the next height preserves the ring invariant.** -/
theorem push_preserves_RInv (r : Ring) (t top id : Nat) (inv : RInv r t top) :
    RInv (push r (top + 1) id) (next r.cap t) (top + 1) := by
  obtain ⟨i1, i2⟩ := pushRaw_inv inv id
  have := build_inv i1 (by rw [i2])
  exact this

end Neutrino.HL
