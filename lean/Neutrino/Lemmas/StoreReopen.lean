import Neutrino.Lemmas.StoreExec
namespace Neutrino.Store

/-- `Ahead d l`: the index represents the log `l`, and each flat file holds the
log's entries followed by further whole entries and possibly a partial one —
the shape every crash leaves behind (the files are never behind the index). -/
structure Ahead (d : Durable) (l : Log) (xb xf : List Nat) : Prop where
  bents : d.bf.ents = l.blocks ++ xb
  fents : d.ff.ents = l.filters ++ xf
  bclean : d.bf.corrupt = false
  fclean : d.ff.corrupt = false
  neB   : l.blocks ≠ []
  neF   : l.filters ≠ []
  nodup : (l.blocks ++ xb).Nodup
  idxPos  : ∀ i id, l.blocks[i]? = some id → d.db.height? id = some i
  idxOnly : ∀ id h, d.db.height? id = some h → l.blocks[h]? = some id
  btip  : d.db.btip = l.blocks.getLast?
  ftip  : ∃ b, d.db.ftip = some b ∧ d.db.height? b = some (l.filters.length - 1)
  fle   : l.filters.length ≤ l.blocks.length

theorem Rep.ahead {d : Durable} {l : Log} (h : Rep d l) : Ahead d l [] [] :=
  { bents := by simp [h.bents], fents := by simp [h.fents],
    bclean := by simp [h.bents], fclean := by simp [h.fents], neB := h.neB, neF := h.neF,
    nodup := by simpa using h.nodup, idxPos := h.idxPos, idxOnly := h.idxOnly, btip := h.btip,
    ftip := h.ftip, fle := h.fle }

theorem take_append_len {α} (a b : List α) : (a ++ b).take a.length = a := by simp

/-- Start-up reconciliation brings every `Ahead` state back to a state that
represents the indexed log exactly. -/
theorem reopen_ahead_eq {d : Durable} {l : Log} {xb xf : List Nat} (h : Ahead d l xb xf) :
    ∃ r, reopen d = some r ∧ (r.bf = { ents := l.blocks } ∧ r.ff = { ents := l.filters } ∧ r.db = d.db) ∧ Rep r l := by
  obtain ⟨tip, htip, hbt⟩ : ∃ tip, l.blocks.getLast? = some tip ∧
      btipHeight? d = some (tip, l.blocks.length - 1) := by
    obtain ⟨tip, htip⟩ : ∃ tip, l.blocks.getLast? = some tip := by
      cases hl : l.blocks.getLast? with
      | none => exact absurd (List.getLast?_eq_none_iff.mp hl) h.neB
      | some t => exact ⟨t, rfl⟩
    refine ⟨tip, htip, ?_⟩
    have hpos : l.blocks[l.blocks.length - 1]? = some tip := by
      rw [← htip, List.getLast?_eq_getElem?]
    have := h.idxPos _ _ hpos
    simp [btipHeight?, h.btip, htip, this]
  obtain ⟨b, hb, hbh⟩ := h.ftip
  have hlenB := len_pred_succ h.neB
  have hlenF := len_pred_succ h.neF
  -- the block store
  have hB : ∃ d1, openStore .B d = some d1 ∧ d1.bf = { ents := l.blocks } ∧ d1.ff = d.ff ∧ d1.db = d.db := by
    have hne : (l.blocks ++ xb) ≠ [] := by simp [h.neB]
    obtain ⟨latest, hlatest⟩ : ∃ x, (l.blocks ++ xb).getLast? = some x := by
      cases hl : (l.blocks ++ xb).getLast? with
      | none => exact absurd (List.getLast?_eq_none_iff.mp hl) hne
      | some t => exact ⟨t, rfl⟩
    have hht : d.db.hasTip .B = true := by simp [Db.hasTip, h.btip, htip]
    simp only [openStore, Durable.file, Durable.setFile, hht, Bool.true_eq_false, and_false,
      h.bclean, Bool.false_eq_true, ↓reduceIte, h.bents, hlatest]
    have hbt' : btipHeight? { bf := { ents := l.blocks ++ xb, junk := 0, corrupt := false }, ff := d.ff, db := d.db }
        = some (tip, l.blocks.length - 1) := hbt
    simp only [hbt', true_and]
    by_cases heq : latest = tip
    · -- then there are no extra entries
      have hx : xb = [] := by
        cases hxb : xb with
        | nil => rfl
        | cons x xs =>
          exfalso
          have h1 : (l.blocks ++ xb).getLast? = xb.getLast? := by
            rw [List.getLast?_append, hxb]
            cases hg : (x :: xs).getLast? with
            | none => exact absurd (List.getLast?_eq_none_iff.mp hg) (by simp)
            | some t => rfl
          have hmem1 : tip ∈ xb := by
            have : xb.getLast? = some tip := by rw [← h1, hlatest, heq]
            exact List.mem_of_getLast? this
          have hmem2 : tip ∈ l.blocks := List.mem_of_getLast? htip
          exact (List.nodup_append.mp h.nodup).2.2 tip hmem2 tip hmem1 rfl
      simp [heq, hx]
    · simp only [heq, ↓reduceIte]
      have hlen : (l.blocks ++ xb).length - 1 ≥ l.blocks.length - 1 := by simp; omega
      have hnot : ¬ (l.blocks.length - 1 > (l.blocks ++ xb).length - 1) := by omega
      simp only [hnot, ↓reduceIte]
      simp only [FileSt.truncateBy, FileSt.size, List.length_append]
      have hk : l.blocks.length + xb.length - 1 - (l.blocks.length - 1) = xb.length := by omega
      simp only [hk]
      have h1 : ¬ (xb.length * width .B > (l.blocks.length + xb.length) * width .B + 0) := by
        have := width_pos .B
        have : xb.length * width .B ≤ (l.blocks.length + xb.length) * width .B :=
          Nat.mul_le_mul_right _ (by omega)
        omega
      simp only [h1, ↓reduceIte]
      have h2 : xb.length ≤ l.blocks.length + xb.length := by omega
      simp only [h2, ↓reduceIte, Nat.add_sub_cancel]
      exact ⟨_, rfl, by simp, rfl, rfl⟩
  obtain ⟨d1, hd1, hbf1, hff1, hdb1⟩ := hB
  -- the filter store: always truncated down to the indexed tip height
  have hF : ∃ d2, openStore .F d1 = some d2 ∧ d2.ff = { ents := l.filters } ∧ d2.bf = d1.bf ∧ d2.db = d1.db := by
    have hne : (l.filters ++ xf) ≠ [] := by simp [h.neF]
    obtain ⟨latest, hlatest⟩ : ∃ x, (l.filters ++ xf).getLast? = some x := by
      cases hl : (l.filters ++ xf).getLast? with
      | none => exact absurd (List.getLast?_eq_none_iff.mp hl) hne
      | some t => exact ⟨t, rfl⟩
    have hft : ftipHeight? { bf := d1.bf, ff := { ents := l.filters ++ xf, junk := 0, corrupt := false }, db := d1.db }
        = some (b, l.filters.length - 1) := by
      simp [ftipHeight?, hdb1, hb, hbh]
    have hht : d1.db.hasTip .F = true := by simp [Db.hasTip, hdb1, hb]
    simp only [openStore, Durable.file, Durable.setFile, hht, Bool.true_eq_false, and_false,
      hff1, h.fclean, Bool.false_eq_true, ↓reduceIte, h.fents, hlatest, hft]
    have hw : ¬ (Which.F = Which.B ∧ latest = b) := by simp
    simp only [hw, ↓reduceIte]
    have hnot : ¬ (l.filters.length - 1 > (l.filters ++ xf).length - 1) := by simp; omega
    simp only [hnot, ↓reduceIte]
    simp only [FileSt.truncateBy, FileSt.size, List.length_append]
    have hk : l.filters.length + xf.length - 1 - (l.filters.length - 1) = xf.length := by omega
    simp only [hk]
    have h1 : ¬ (xf.length * width .F > (l.filters.length + xf.length) * width .F + 0) := by
      have : xf.length * width .F ≤ (l.filters.length + xf.length) * width .F :=
        Nat.mul_le_mul_right _ (by omega)
      omega
    simp only [h1, ↓reduceIte]
    have h2 : xf.length ≤ l.filters.length + xf.length := by omega
    simp only [h2, ↓reduceIte, Nat.add_sub_cancel]
    exact ⟨_, rfl, by simp, rfl, rfl⟩
  obtain ⟨d2, hd2, hff2, hbf2, hdb2⟩ := hF
  have hdb : d2.db = d.db := by rw [hdb2, hdb1]
  refine ⟨d2, by simp [reopen, hd1, hd2], ⟨by rw [hbf2, hbf1], hff2, hdb⟩, ?_⟩
  exact { bents := by rw [hbf2, hbf1], fents := hff2, neB := h.neB, neF := h.neF,
          nodup := (List.nodup_append.mp h.nodup).1,
          idxPos := by rw [hdb]; exact h.idxPos, idxOnly := by rw [hdb]; exact h.idxOnly,
          btip := by rw [hdb]; exact h.btip, ftip := by rw [hdb]; exact ⟨b, hb, hbh⟩, fle := h.fle }

theorem reopen_ahead {d : Durable} {l : Log} {xb xf : List Nat} (h : Ahead d l xb xf) :
    ∃ r, reopen d = some r ∧ Rep r l := by
  obtain ⟨r, h1, _, h2⟩ := reopen_ahead_eq h
  exact ⟨r, h1, h2⟩

end Neutrino.Store
