/- List lemmas and the case analysis behind C02's history-level theorems. -/
import Neutrino.Lemmas.BlockMgrShape
namespace Neutrino.BM

theorem commonLen_self (l : List Nat) : commonLen l l = l.length := by
  induction l with
  | nil => rfl
  | cons a as ih => simp [commonLen, ih]

theorem commonLen_append_right (l e : List Nat) : commonLen l (l ++ e) = l.length := by
  induction l with
  | nil => cases e <;> rfl
  | cons a as ih => simp [commonLen, ih]

theorem commonLen_fork (A B C : List Nat) (x y : Nat) (h : y ≠ x) : commonLen (A ++ y :: B) (A ++ x :: C) = A.length := by
  induction A with
  | nil => simp [commonLen, h]
  | cons a as ih => simp [commonLen, ih]

theorem isPrefix_take (l : List Nat) (k : Nat) : isPrefix (l.take k) l = true := by
  induction l generalizing k with
  | nil => simp [isPrefix]
  | cons a as ih =>
    cases k with
    | zero => simp [isPrefix]
    | succ k => simp [isPrefix, ih]

theorem isPrefix_refl_take (l : List Nat) (d : Nat) : isPrefix (l.take d) l = true := isPrefix_take l d

/-- the stored chain splits at the fork point into the kept prefix, the first displaced header and the rest -/
theorem split_at {log : List Nat} {bh : Nat} (h : bh + 1 < log.length) :
    ∃ y B, log = log.take (bh + 1) ++ y :: B ∧ y ∈ log ∧ log.drop (bh + 1) = y :: B := by
  have hd : log.drop (bh + 1) ≠ [] := by
    intro e; have := congrArg List.length e; simp at this; omega
  obtain ⟨y, B, hyB⟩ := List.exists_cons_of_ne_nil hd
  refine ⟨y, B, ?_, ?_, hyB⟩
  · rw [← hyB]; exact (List.take_append_drop _ _).symm
  · have : y ∈ log.drop (bh + 1) := by rw [hyB]; simp
    exact List.mem_of_mem_drop this

end Neutrino.BM

namespace Neutrino.BM

/-- under the invariant the known-work walk of the reorg arm is the work of the displaced suffix -/
theorem known_is_displaced (c : Cfg) (s : State) (inv : Inv c s) (bh : Nat) (hbh : bh < tipHeight s.log) :
    knownWalk c.tbl s.log (tipHeight s.log - bh) s.hl (tipId s.log) 0 = sumWork c.tbl (s.log.drop (bh + 1)) := by
  obtain ⟨m, hm, hhl⟩ := inv.anch
  rw [hhl, knownWalk_good c.tbl s.log inv.good (fun x hx => hx) (tipHeight s.log - bh) m (tipId s.log) 0
    (by simp only [tipHeight]; omega) (fun h0 => by omega)]
  have : s.log.length - (tipHeight s.log - bh) = bh + 1 := by simp only [tipHeight] at hbh ⊢; omega
  rw [this]; simp

theorem prevcp_below_fork (c : Cfg) (ok : CpsOk c.cps) (s : State) (inv : Inv c s) (cp : Cp) (hn : s.ncp = some cp) (bh : Nat)
    (hfloor : ¬ bh < (findPrevCp c.cps (tipHeight s.log + 1)).height) :
    (findPrevCp c.cps cp.height).height ≤ bh := by
  have hK := floor_covers ok hfloor
  have hnc := inv.ncp; rw [hn] at hnc
  rcases (foldl_prev_spec cp.height c.cps ok.sorted ⟨0, 0⟩).1 with h | ⟨hm, hlt⟩
  · simp only [findPrevCp]; rw [h]; simp
  · have hle : (findPrevCp c.cps cp.height).height ≤ tipHeight s.log := by
      rcases Nat.lt_or_ge (tipHeight s.log) (findPrevCp c.cps cp.height).height with h1 | h1
      · have := (findNextCp_least ok.sorted hnc.symm _ hm h1).1
        simp only [findPrevCp] at this hlt ⊢; omega
      · exact h1
    exact hK _ hm hle

/-- how stored headers get replaced: a checkpoint-failure rollback (the result is a prefix of
what was stored) or a reorganisation with all its guards. -/
def ReplaceShape (c : Cfg) (p : Nat) (s : State) (hs out : List Nat) : Prop :=
  isPrefix out s.log = true ∨
  ∃ bh h suf ext pre, bh + 1 < s.log.length ∧ commonLen s.log out = bh + 1 ∧ out = s.log.take (bh + 1) ++ h :: ext ∧
    isPrefix ext suf = true ∧ hs = pre ++ h :: suf ∧ (∀ x ∈ pre, x ∈ s.log) ∧ h ∉ s.log ∧
    (h :: suf).all c.tbl.valid = true ∧ floorAt c.cps (tipHeight s.log) ≤ bh ∧
    sumWork c.tbl (s.log.drop (bh + 1)) < sumWork c.tbl (h :: suf) ∧ (s.sync = some p ∨ synced c s = true) ∧
    (ext = suf ∨ (ext.length < suf.length ∧ ∃ cp ∈ c.cps, out.length = cp.height + 1 ∧ tipId out = cp.id))

theorem replace_shape (c : Cfg) (ok : CpsOk c.cps) (hw : 1 ≤ c.win) (p : Nat) (s : State) (inv : Inv c s) (hs : List Nat)
    (hrem : s.log.drop (commonLen s.log (handleHeaders c s p hs).1.log) ≠ []) :
    ReplaceShape c p s hs (handleHeaders c s p hs).1.log := by
  have hout := handle_shape c ok hw p s inv hs
  generalize (handleHeaders c s p hs).1.log = out at hout hrem
  rcases hout with h1 | ⟨pre, suf, he, hp, hc⟩ | ⟨pre, h, suf, bh, he, hp, hn, hbh, hd, hc⟩
  · exfalso; rw [h1, commonLen_self] at hrem; simp at hrem
  · rcases hc with ⟨_, h1⟩ | h1 | ⟨d, cp, _, _, _, _, h1, _⟩ | ⟨d, cp, _, _, _, _, h1⟩
    · exfalso; rw [h1, commonLen_self] at hrem; simp at hrem
    · exfalso; rw [h1, commonLen_append_right] at hrem; simp at hrem
    · exfalso; rw [h1, commonLen_append_right] at hrem; simp at hrem
    · left; rw [h1]; exact isPrefix_take _ _
  · obtain ⟨hidx, hval, hfloor, hwork, hlisten⟩ := reorg_adopt_facts c s p _ h suf bh hd
    simp only at hfloor hwork
    have hlen : bh + 1 < s.log.length := by simp only [tipHeight] at hbh; omega
    obtain ⟨y, B, hsplit, hy, hdrop⟩ := split_at hlen
    have hyh : y ≠ h := fun e => hn (e ▸ hy)
    have htl : (s.log.take (bh + 1)).length = bh + 1 := by simp; omega
    have hk : ∀ ext, commonLen s.log (s.log.take (bh + 1) ++ h :: ext) = bh + 1 := by
      intro ext
      have := commonLen_fork (s.log.take (bh + 1)) B ext h y hyh
      rw [← hsplit, htl] at this; exact this
    rw [known_is_displaced c s inv bh hbh] at hwork
    have hfl : floorAt c.cps (tipHeight s.log) ≤ bh := by simp only [floorAt]; omega
    have hsuf : suf.all c.tbl.valid = true := by
      simp only [List.all_cons, Bool.and_eq_true] at hval; exact hval.2
    rcases hc with ⟨hinv, _⟩ | h1 | ⟨d, cp, hd0, hdl, hncp, hlenq, h1, htip⟩ | ⟨d, cp, hd0, hdl, hncp, hlenq, h1⟩
    · rw [hsuf] at hinv; cases hinv
    · right
      refine ⟨bh, h, suf, suf, pre, hlen, ?_, ?_, ?_, he, hp, hn, hval, hfl, hwork, hlisten, Or.inl rfl⟩
      · rw [h1, List.append_assoc]; exact hk suf
      · rw [h1, List.append_assoc]; rfl
      · have := isPrefix_take suf suf.length; simpa using this
    · right
      have hout : out = s.log.take (bh + 1) ++ h :: suf.take d := by rw [h1, List.append_assoc]; rfl
      refine ⟨bh, h, suf, suf.take d, pre, hlen, ?_, hout, isPrefix_take _ _, he, hp, hn, hval, hfl, hwork, hlisten, ?_⟩
      · rw [hout]; exact hk _
      · rcases Nat.lt_or_ge d suf.length with hlt | hge
        · right
          refine ⟨by simp; omega, cp, ?_, ?_, htip⟩
          · have := inv.ncp; rw [hncp] at this; exact (findNextCp_mem this.symm).1
          · rw [hout]; simp [htl]; simp at hlenq; omega
        · left; exact List.take_of_length_le hge
    · left
      have hpp := prevcp_below_fork c ok s inv cp hncp bh hfloor
      rw [h1, List.take_append_of_le_length (by rw [htl]; omega), List.take_take]
      have : min ((findPrevCp c.cps cp.height).height + 1) (bh + 1) = (findPrevCp c.cps cp.height).height + 1 := by omega
      rw [this]; exact isPrefix_take _ _

end Neutrino.BM
