/-
The range arithmetic and the store requests of `prepareCFiltersQuery` as the CODE defines them
(Gen/TransQuery.lean, regenerated from query.go on every run) against the model's `rangeOf`.
-/
import Neutrino.Gen.TransQuery
import Neutrino.Model.GetCFilter
namespace Neutrino.GetCFilter
open Neutrino.Gen.TransQuery Neutrino.GoInt

/-- `optimisticBatchType` values as the model's `Batch` (through the regenerated constants) -/
def absBatch (n : Nat) : Option Batch :=
  if n = K_neutrino_noBatch then some .none
  else if n = K_neutrino_forwardBatch then some .forward
  else if n = K_neutrino_reverseBatch then some .reverse
  else none

theorem trans_batch_distinct : K_neutrino_noBatch ≠ K_neutrino_forwardBatch ∧
    K_neutrino_noBatch ≠ K_neutrino_reverseBatch ∧ K_neutrino_forwardBatch ≠ K_neutrino_reverseBatch := by decide

theorem absBatch_cases (n : Nat) : (n = 0 ∧ absBatch n = some .none) ∨ (n = 1 ∧ absBatch n = some .forward) ∨
    (n = 2 ∧ absBatch n = some .reverse) ∨ (n ≠ 0 ∧ n ≠ 1 ∧ n ≠ 2 ∧ absBatch n = none) := by
  by_cases h0 : n = 0
  · subst h0; exact Or.inl ⟨rfl, by decide⟩
  · by_cases h1 : n = 1
    · subst h1; exact Or.inr (Or.inl ⟨rfl, by decide⟩)
    · by_cases h2 : n = 2
      · subst h2; exact Or.inr (Or.inr (Or.inl ⟨rfl, by decide⟩))
      · refine Or.inr (Or.inr (Or.inr ⟨h0, h1, h2, ?_⟩))
        unfold absBatch
        have e0 : K_neutrino_noBatch = 0 := by decide
        have e1 : K_neutrino_forwardBatch = 1 := by decide
        have e2 : K_neutrino_reverseBatch = 2 := by decide
        simp only [e0, e1, e2, h0, h1, h2, ↓reduceIte]

/-- peeling the failing branches of a translated function that returns `(result, error)` -/
theorem ite_fail_right {α : Type} {c : Prop} [Decidable c] {A : Option α × Bool} {q : α} :
    ((if c then A else (none, true)) = (some q, false)) ↔ c ∧ A = (some q, false) := by
  by_cases h : c <;> simp [h]

theorem ite_fail_left {α : Type} {c : Prop} [Decidable c] {A : Option α × Bool} {q : α} :
    ((if c then (none, true) else A) = (some q, false)) ↔ ¬ c ∧ A = (some q, false) := by
  by_cases h : c <;> simp [h]

section
variable (blockHash : Atom) (ft bt : Nat) (mb : Int) (self : Atom) (f1 : T_wire_BlockHeader → Atom)
  (f2 : Option T_headerfs_BlockStamp × Bool) (f3 : Atom → Option T_wire_BlockHeader × Nat × Bool)
  (f4 : Nat → Atom → List T_wire_BlockHeader × Nat × Bool) (f5 : Int → Atom × Bool)
  (f6 : Nat → Atom → List Atom × Nat × Bool)

/-- **No query above the filter-header tip, as the code says it**: with both lookups succeeding
and the block's height above the best filter-header height, `prepareCFiltersQuery` fails, in
every batching mode and for every batch size (the repair `C05_no_query_above_tip` is about). -/
theorem trans_prepare_above_tip (herr1 : (f3 blockHash).2.2 = false) (herr2 : f2.2 = false)
    (h : (deref f2.1).Height < ((f3 blockHash).2.1 : Int)) :
    prepareCFiltersQuery blockHash ft bt mb self f1 f2 f3 f4 f5 f6 = (none, true) := by
  unfold prepareCFiltersQuery
  simp only [herr1, herr2, h, ↓reduceIte]

/-- a failing header lookup or best-block lookup fails the preparation -/
theorem trans_prepare_lookup_err (h : (f3 blockHash).2.2 = true ∨ f2.2 = true) :
    prepareCFiltersQuery blockHash ft bt mb self f1 f2 f3 f4 f5 f6 = (none, true) := by
  unfold prepareCFiltersQuery
  simp only []
  rcases h with h | h
  · simp [h]
  · by_cases h' : (f3 blockHash).2.2 = false <;> simp [h, h']

/-- **The prepared range is the model's `rangeOf`, and the stores are asked for exactly that
range**: whenever `prepareCFiltersQuery` returns a query, both lookups succeeded, the target is at
or below the best filter-header height, the batch type is one of the three known ones, start/stop
are `rangeOf height best batch maxBatch`, the stop hash is what `GetBlockHash(stop)` answered, both
`FetchHeaderAncestors` calls were asked for `uint32(stop-start+1)` ancestors of that hash and each
answered with exactly one more entry, and the query carries the target hash and filter type.

The proof does not look at how the function is spelled (clamps as `if` or `min`/`max`, the range
computation inline or in a local closure, which part became a continuation def): it unfolds
everything, turns clamps into `max`/`min`, splits every remaining test and closes the arithmetic
with `omega`. -/
theorem trans_prepare_ok (q : T_neutrino_cfiltersQuery)
    (h : prepareCFiltersQuery blockHash ft bt mb self f1 f2 f3 f4 f5 f6 = (some q, false)) :
    (f3 blockHash).2.2 = false ∧ f2.2 = false ∧ ((f3 blockHash).2.1 : Int) ≤ (deref f2.1).Height ∧
    ∃ b, absBatch bt = some b ∧
      (q.startHeight, q.stopHeight) = rangeOf ((f3 blockHash).2.1 : Int) (deref f2.1).Height b mb ∧
      (f5 q.stopHeight) = (q.stopHash, false) ∧
      (f4 (toU 32 (q.stopHeight - q.startHeight + 1)) q.stopHash).2.2 = false ∧
      len (f4 (toU 32 (q.stopHeight - q.startHeight + 1)) q.stopHash).1
        = ((toU 32 (q.stopHeight - q.startHeight + 1) : Nat) : Int) + 1 ∧
      (f6 (toU 32 (q.stopHeight - q.startHeight + 1)) q.stopHash).2.2 = false ∧
      q.filterHeaders = (f6 (toU 32 (q.stopHeight - q.startHeight + 1)) q.stopHash).1 ∧
      len q.filterHeaders = ((toU 32 (q.stopHeight - q.startHeight + 1) : Nat) : Int) + 1 ∧
      q.headerIndex = prepareCFiltersQuery_loop1 f1 (f4 (toU 32 (q.stopHeight - q.startHeight + 1)) q.stopHash).1
        (rangeUp 1 (len (f4 (toU 32 (q.stopHeight - q.startHeight + 1)) q.stopHash).1)) [] ∧
      q.targetHash = blockHash ∧ q.filterType = ft ∧ q.cs = self := by
  have hmr : maxRange = 1000 := rfl
  have ite_max : ∀ a b : Int, (if a < b then b else a) = max a b := by intro a b; split <;> omega
  have ite_min : ∀ a b : Int, (if b < a then b else a) = min a b := by intro a b; split <;> omega
  rcases absBatch_cases bt with ⟨hb, ha⟩ | ⟨hb, ha⟩ | ⟨hb, ha⟩ | ⟨hb0, hb1, hb2, ha⟩
  case inr.inr.inr =>
    revert h
    simp only [prepareCFiltersQuery, prepareCFiltersQuery_k1, hb0, hb1, hb2, ↓reduceIte, ite_fail_right, ite_fail_left,
      and_imp]
    intros
    simp_all
  all_goals
    subst hb
    revert h
    simp only [prepareCFiltersQuery, prepareCFiltersQuery_k1, ↓reduceIte, Nat.succ_ne_self, Nat.reduceEqDiff,
      ite_max, ite_min, ite_fail_right, ite_fail_left, and_imp, Prod.mk.injEq, Option.some.injEq, and_true]
    intros
    subst_vars
    dsimp only
    refine ⟨by assumption, by assumption, by omega, _, ha, ?_, Prod.ext rfl (by assumption), by assumption,
      by assumption, by assumption, rfl, by assumption, rfl, rfl, rfl, rfl⟩
    simp only [rangeOf, hmr, Prod.mk.injEq]
    constructor <;> (repeat' split) <;> omega
end

/-! ### the header index (`for i := 1; i < len(blockHeaders); i++ { headerIndex[hash(blockHeaders[i])] = i }`) -/

theorem mhas_minsert {ν} (m : List (Nat × ν)) (a k : Nat) (v : ν) :
    mhas (minsert m a v) k = ((a == k) || mhas m k) := by
  unfold minsert merase mhas
  simp only [List.any_cons, List.any_filter]
  by_cases h : a = k
  · subst h; simp
  · have h' : (a == k) = false := by simp [h]
    simp only [h', Bool.false_or]
    congr 1
    funext e
    by_cases he : e.1 = a
    · have : ¬ e.1 = k := fun hh => h (he ▸ hh)
      simp [he, h, this]
    · simp [he]

theorem mlookup_minsert {ν} [Inhabited ν] (m : List (Nat × ν)) (a k : Nat) (v : ν) :
    mlookup (minsert m a v) k = (if a = k then v else mlookup m k) := by
  unfold minsert merase mlookup
  by_cases h : a = k
  · subst h; simp
  · have h' : (a == k) = false := by simp [h]
    simp only [List.find?_cons, h', h, ↓reduceIte, List.find?_filter]
    congr 1
    congr 1
    funext e
    by_cases he : e.1 = a
    · have : ¬ e.1 = k := fun hh => h (he ▸ hh)
      simp [he, h]
    · have hne : ¬ k = a := fun hh => h hh.symm
      by_cases hk : e.1 = k <;> simp [he, hk, hne]

theorem index_loop_eq (f1 : T_wire_BlockHeader → Atom) (bhs : List T_wire_BlockHeader) (is : List Int)
    (m : List (Atom × Int)) :
    prepareCFiltersQuery_loop1 f1 bhs is m = is.foldl (fun m i => minsert m (f1 (idx bhs i)) i) m := by
  induction is generalizing m with
  | nil => rfl
  | cons i is ih => unfold prepareCFiltersQuery_loop1; simp only [List.foldl_cons]; exact ih _

/-- invariant of the index: it holds exactly the hashes of the positions visited so far, each mapped
to a position that holds it -/
def IndexOk (key : Int → Atom) (done : List Int) (m : List (Atom × Int)) : Prop :=
  ∀ k, (mhas m k = true ↔ ∃ i ∈ done, key i = k) ∧ (mhas m k = true → ∃ i ∈ done, key i = k ∧ mlookup m k = i)

theorem indexOk_foldl (key : Int → Atom) (is done : List Int) (m : List (Atom × Int)) (h : IndexOk key done m) :
    IndexOk key (done ++ is) (is.foldl (fun m i => minsert m (key i) i) m) := by
  induction is generalizing done m with
  | nil => simpa using h
  | cons i is ih =>
    have step : IndexOk key (done ++ [i]) (minsert m (key i) i) := by
      intro k
      obtain ⟨h1, h2⟩ := h k
      rw [mhas_minsert, mlookup_minsert]
      by_cases hk : key i = k
      · simp only [hk, beq_self_eq_true, Bool.true_or, true_iff, ↓reduceIte, forall_const]
        exact ⟨⟨i, by simp, hk⟩, ⟨i, by simp, hk, rfl⟩⟩
      · have hk' : (key i == k) = false := by simp [hk]
        simp only [hk', Bool.false_or, hk, ↓reduceIte]
        constructor
        · rw [h1]
          constructor
          · rintro ⟨j, hj, e⟩; exact ⟨j, by simp [hj], e⟩
          · rintro ⟨j, hj, e⟩
            simp only [List.mem_append, List.mem_singleton] at hj
            rcases hj with hj | hj
            · exact ⟨j, hj, e⟩
            · subst hj; exact absurd e hk
        · intro hm
          obtain ⟨j, hj, e, hl⟩ := h2 hm
          exact ⟨j, by simp [hj], e, hl⟩
    have := ih (done ++ [i]) _ step
    simpa [List.append_assoc] using this

theorem mem_rangeUp (lo hi i : Int) : i ∈ rangeUp lo hi ↔ lo ≤ i ∧ i < hi := by
  unfold rangeUp
  simp only [List.mem_map, List.mem_range]
  constructor
  · rintro ⟨k, hk, rfl⟩; simp only [Int.ofNat_eq_natCast]; omega
  · rintro ⟨h1, h2⟩
    exact ⟨(i - lo).toNat, by omega, by simp only [Int.ofNat_eq_natCast]; omega⟩

/-- **The header index the code builds**: it holds exactly the hashes of `blockHeaders[1 …]` (position 0,
the header before the range, is not awaited), and the position stored for a hash is a position in
`[1, len)` that holds this hash - so a response naming block `b` is checked against the headers at
`b`'s own position (the code-level counterpart of `mem_mkIndex` / `mkIndex_covers`, on which
`C05_index_aligned` rests). -/
theorem trans_headerIndex (f1 : T_wire_BlockHeader → Atom) (bhs : List T_wire_BlockHeader) (k : Atom) :
    let ix := prepareCFiltersQuery_loop1 f1 bhs (rangeUp 1 (len bhs)) []
    (mhas ix k = true ↔ ∃ i : Int, 1 ≤ i ∧ i < len bhs ∧ f1 (idx bhs i) = k) ∧
    (mhas ix k = true → 1 ≤ mlookup ix k ∧ mlookup ix k < len bhs ∧ f1 (idx bhs (mlookup ix k)) = k) := by
  intro ix
  have h0 : IndexOk (fun i => f1 (idx bhs i)) [] [] := by
    intro k; simp [mhas]
  have h := indexOk_foldl (fun i => f1 (idx bhs i)) (rangeUp 1 (len bhs)) [] [] h0 k
  simp only [List.nil_append] at h
  have hix : ix = (rangeUp 1 (len bhs)).foldl (fun m i => minsert m (f1 (idx bhs i)) i) [] := index_loop_eq f1 bhs _ _
  rw [hix]
  constructor
  · rw [h.1]
    constructor
    · rintro ⟨i, hi, e⟩; exact ⟨i, ((mem_rangeUp 1 _ i).mp hi).1, ((mem_rangeUp 1 _ i).mp hi).2, e⟩
    · rintro ⟨i, h1, h2, e⟩; exact ⟨i, (mem_rangeUp 1 _ i).mpr ⟨h1, h2⟩, e⟩
  · intro hm
    obtain ⟨i, hi, e, hl⟩ := h.2 hm
    rw [hl]
    exact ⟨((mem_rangeUp 1 _ i).mp hi).1, ((mem_rangeUp 1 _ i).mp hi).2, e⟩

end Neutrino.GetCFilter
