/-
The range arithmetic and the store requests of `prepareCFiltersQuery` as the CODE defines them
(Gen/TransQuery.lean, regenerated from query.go on every run) against the model's `rangeOf`.
-/
import Neutrino.Gen.TransQuery
import Neutrino.Model.GetCFilter
namespace Neutrino.GetCFilter
open Neutrino.Gen.TransQuery Neutrino.GoInt

/-- `optimisticBatchType` values as the model's `Batch` (through the regenerated constants) -/
def absBatch (n : Nat) : Option Batch :=
  if n = K_neutrino_noBatch then some .none
  else if n = K_neutrino_forwardBatch then some .forward
  else if n = K_neutrino_reverseBatch then some .reverse
  else none

theorem trans_batch_distinct : K_neutrino_noBatch ≠ K_neutrino_forwardBatch ∧
    K_neutrino_noBatch ≠ K_neutrino_reverseBatch ∧ K_neutrino_forwardBatch ≠ K_neutrino_reverseBatch := by decide

theorem absBatch_cases (n : Nat) : (n = 0 ∧ absBatch n = some .none) ∨ (n = 1 ∧ absBatch n = some .forward) ∨
    (n = 2 ∧ absBatch n = some .reverse) ∨ (n ≠ 0 ∧ n ≠ 1 ∧ n ≠ 2 ∧ absBatch n = none) := by
  by_cases h0 : n = 0
  · subst h0; exact Or.inl ⟨rfl, by decide⟩
  · by_cases h1 : n = 1
    · subst h1; exact Or.inr (Or.inl ⟨rfl, by decide⟩)
    · by_cases h2 : n = 2
      · subst h2; exact Or.inr (Or.inr (Or.inl ⟨rfl, by decide⟩))
      · refine Or.inr (Or.inr (Or.inr ⟨h0, h1, h2, ?_⟩))
        unfold absBatch
        have e0 : K_neutrino_noBatch = 0 := by decide
        have e1 : K_neutrino_forwardBatch = 1 := by decide
        have e2 : K_neutrino_reverseBatch = 2 := by decide
        simp only [e0, e1, e2, h0, h1, h2, ↓reduceIte]

section
variable (blockHash : Atom) (ft bt : Nat) (mb : Int) (self : Atom) (f1 : T_wire_BlockHeader → Atom)
  (f2 : Option T_headerfs_BlockStamp × Bool) (f3 : Atom → Option T_wire_BlockHeader × Nat × Bool)
  (f4 : Nat → Atom → List T_wire_BlockHeader × Nat × Bool) (f5 : Int → Atom × Bool)
  (f6 : Nat → Atom → List Atom × Nat × Bool)

/-- **No query above the filter-header tip, as the code says it**: with both lookups succeeding
and the block's height above the best filter-header height, `prepareCFiltersQuery` fails, in
every batching mode and for every batch size (the repair `C05_no_query_above_tip` is about). -/
theorem trans_prepare_above_tip (herr1 : (f3 blockHash).2.2 = false) (herr2 : f2.2 = false)
    (h : (deref f2.1).Height < ((f3 blockHash).2.1 : Int)) :
    prepareCFiltersQuery blockHash ft bt mb self f1 f2 f3 f4 f5 f6 = (none, true) := by
  unfold prepareCFiltersQuery
  simp only [herr1, herr2, h, ↓reduceIte]

/-- a failing header lookup or best-block lookup fails the preparation -/
theorem trans_prepare_lookup_err (h : (f3 blockHash).2.2 = true ∨ f2.2 = true) :
    prepareCFiltersQuery blockHash ft bt mb self f1 f2 f3 f4 f5 f6 = (none, true) := by
  unfold prepareCFiltersQuery
  simp only []
  rcases h with h | h
  · simp [h]
  · by_cases h' : (f3 blockHash).2.2 = false <;> simp [h, h']

/-- the part of `prepareCFiltersQuery` after the batch-type switch (its continuation def): the
clamps, the stop-hash lookup, the two ancestor fetches and their length checks -/
theorem trans_prepare_tail (best start stop : Int) (q : T_neutrino_cfiltersQuery)
    (h : prepareCFiltersQuery_k1 blockHash ft self f1 f4 f5 f6 best start stop = (some q, false)) :
    q.startHeight = max start 1 ∧ q.stopHeight = min stop best ∧
      (f5 q.stopHeight) = (q.stopHash, false) ∧
      (f4 (toU 32 (q.stopHeight - q.startHeight + 1)) q.stopHash).2.2 = false ∧
      len (f4 (toU 32 (q.stopHeight - q.startHeight + 1)) q.stopHash).1
        = ((toU 32 (q.stopHeight - q.startHeight + 1) : Nat) : Int) + 1 ∧
      (f6 (toU 32 (q.stopHeight - q.startHeight + 1)) q.stopHash).2.2 = false ∧
      q.filterHeaders = (f6 (toU 32 (q.stopHeight - q.startHeight + 1)) q.stopHash).1 ∧
      len q.filterHeaders = ((toU 32 (q.stopHeight - q.startHeight + 1) : Nat) : Int) + 1 ∧
      q.targetHash = blockHash ∧ q.filterType = ft ∧ q.cs = self := by
  unfold prepareCFiltersQuery_k1 at h
  simp only [] at h
  repeat' split at h
  all_goals first | (simp at h; done) | skip
  all_goals
    simp only [Prod.mk.injEq, Option.some.injEq, and_true] at h
    subst h
    refine ⟨by simp only []; omega, by simp only []; omega, Prod.ext rfl (by assumption), by assumption,
      by assumption, by assumption, rfl, by assumption, rfl, rfl, rfl⟩

/-- **The prepared range is the model's `rangeOf`, and the stores are asked for exactly that
range**: whenever `prepareCFiltersQuery` returns a query, both lookups succeeded, the target is at
or below the best filter-header height, the batch type is one of the three known ones, start/stop
are `rangeOf height best batch maxBatch`, the stop hash is what `GetBlockHash(stop)` answered, both
`FetchHeaderAncestors` calls were asked for `uint32(stop-start+1)` ancestors of that hash and each
answered with exactly one more entry, and the query carries the target hash and filter type. -/
theorem trans_prepare_ok (q : T_neutrino_cfiltersQuery)
    (h : prepareCFiltersQuery blockHash ft bt mb self f1 f2 f3 f4 f5 f6 = (some q, false)) :
    (f3 blockHash).2.2 = false ∧ f2.2 = false ∧ ((f3 blockHash).2.1 : Int) ≤ (deref f2.1).Height ∧
    ∃ b, absBatch bt = some b ∧
      (q.startHeight, q.stopHeight) = rangeOf (((f3 blockHash).2.1 : Int)) (deref f2.1).Height b mb ∧
      (f5 q.stopHeight) = (q.stopHash, false) ∧
      (f4 (toU 32 (q.stopHeight - q.startHeight + 1)) q.stopHash).2.2 = false ∧
      len (f4 (toU 32 (q.stopHeight - q.startHeight + 1)) q.stopHash).1
        = ((toU 32 (q.stopHeight - q.startHeight + 1) : Nat) : Int) + 1 ∧
      (f6 (toU 32 (q.stopHeight - q.startHeight + 1)) q.stopHash).2.2 = false ∧
      q.filterHeaders = (f6 (toU 32 (q.stopHeight - q.startHeight + 1)) q.stopHash).1 ∧
      len q.filterHeaders = ((toU 32 (q.stopHeight - q.startHeight + 1) : Nat) : Int) + 1 ∧
      q.targetHash = blockHash ∧ q.filterType = ft ∧ q.cs = self := by
  unfold prepareCFiltersQuery at h
  simp only [] at h
  split at h
  case isFalse => simp at h
  rename_i e1
  split at h
  case isFalse => simp at h
  rename_i e2
  split at h
  case isTrue => simp at h
  rename_i e3
  refine ⟨e1, e2, by omega, ?_⟩
  have hmr : maxRange = 1000 := rfl
  rcases absBatch_cases bt with ⟨hb, ha⟩ | ⟨hb, ha⟩ | ⟨hb, ha⟩ | ⟨hb0, hb1, hb2, ha⟩
  case inr.inr.inr => simp [hb0, hb1, hb2] at h
  all_goals
    subst hb
    refine ⟨_, ha, ?_⟩
    simp only [↓reduceIte, Nat.succ_ne_self, Nat.reduceEqDiff] at h
    obtain ⟨hs, ht, rest⟩ := trans_prepare_tail blockHash ft self f1 f4 f5 f6 _ _ _ q h
    refine ⟨?_, rest⟩
    rw [hs, ht]
    simp only [rangeOf, hmr, Prod.mk.injEq]
    constructor <;> (repeat' split) <;> omega
end

end Neutrino.GetCFilter
