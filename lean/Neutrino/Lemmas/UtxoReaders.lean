import Neutrino.Model.UtxoReaders
namespace Neutrino.Utxo

theorem runR_append (o : ReqObj) (a b : List REv) :
    runR o (a ++ b) = ((runR (runR o a).1 b).1, (runR o a).2 ++ (runR (runR o a).1 b).2) := by
  induction a generalizing o with
  | nil => simp [runR]
  | cons e es ih => simp [runR, ih, List.append_assoc]

/-- an answer, once there, stays the same through every event -/
theorem answer_stable (o : ReqObj) (r : Res) (e : REv) (h : o.answer = some r) : (stepR o e).1.answer = some r := by
  obtain ⟨chan, cache⟩ := o
  cases e with
  | deliver x =>
    cases cache <;> cases chan <;> simp_all [stepR, ReqObj.deliver, ReqObj.answer]
  | read i =>
    cases cache <;> cases chan <;> simp_all [stepR, ReqObj.result, ReqObj.answer]

/-- a completing reader is given the object's answer -/
theorem read_gives_answer (o : ReqObj) (e : REv) (i : Nat) (r : Res) (h : (stepR o e).2 = some (i, r)) :
    o.answer = some r := by
  obtain ⟨chan, cache⟩ := o
  cases e with
  | deliver x => simp [stepR] at h
  | read j =>
    cases cache <;> cases chan <;> simp_all [stepR, ReqObj.result, ReqObj.answer]

/-- an answered object answers every reader at once -/
theorem read_completes (o : ReqObj) (r : Res) (i : Nat) (h : o.answer = some r) : (stepR o (.read i)).2 = some (i, r) := by
  obtain ⟨chan, cache⟩ := o
  cases cache <;> cases chan <;> simp_all [stepR, ReqObj.result, ReqObj.answer]

theorem deliver_answers (o : ReqObj) (r : Res) : ((stepR o (.deliver r)).1.answer).isSome = true := by
  obtain ⟨chan, cache⟩ := o
  cases cache <;> cases chan <;> simp [stepR, ReqObj.deliver, ReqObj.answer]

theorem answer_stable_run (o : ReqObj) (r : Res) (evs : List REv) (h : o.answer = some r) :
    (runR o evs).1.answer = some r ∧ ∀ p ∈ (runR o evs).2, p.2 = r := by
  induction evs generalizing o with
  | nil => exact ⟨h, fun p hp => by simp [runR] at hp⟩
  | cons e es ih =>
    obtain ⟨h1, h2⟩ := ih _ (answer_stable o r e h)
    refine ⟨h1, fun p hp => ?_⟩
    simp only [runR, List.mem_append] at hp
    rcases hp with hp | hp
    · cases hs : (stepR o e).2 with
      | none => rw [hs] at hp; simp at hp
      | some x =>
        rw [hs] at hp
        have hpx : p = x := by simpa using hp
        rw [hpx]
        have := read_gives_answer o e x.1 x.2 hs
        rw [h] at this
        exact (Option.some.inj this).symm
    · exact h2 p hp

/-- all answers handed out in one run agree -/
theorem answers_agree (o : ReqObj) (evs : List REv) :
    ∀ p ∈ (runR o evs).2, ∀ q ∈ (runR o evs).2, p.2 = q.2 := by
  induction evs generalizing o with
  | nil => intro p hp; simp [runR] at hp
  | cons e es ih =>
    cases hs : (stepR o e).2 with
    | none =>
      intro p hp q hq
      simp only [runR, hs, Option.toList, List.nil_append] at hp hq
      exact ih _ p hp q hq
    | some x =>
      have ha := read_gives_answer o e x.1 x.2 hs
      have hr := (answer_stable_run _ x.2 es (answer_stable o x.2 e ha)).2
      have key : ∀ p ∈ (runR o (e :: es)).2, p.2 = x.2 := by
        intro p hp
        simp only [runR, hs, List.mem_append] at hp
        rcases hp with hp | hp
        · simp at hp; rw [hp]
        · exact hr p hp
      intro p hp q hq
      rw [key p hp, key q hq]

end Neutrino.Utxo
