/-
`blockManager.NotificationsSinceHeight` as the CODE defines it (translated from blockmanager.go on every
run, Gen/TransNtfn.lean) is the model's `BM.backlog`: nothing for height 0 or the filter tip itself, an
error above the filter tip, else the blocks `h+1 … tip` in ascending order, each fetched by height from
the block header store (an error of the store fails the whole request).
-/
import Neutrino.Gen.TransNtfn
import Neutrino.Model.BlockMgr
namespace Neutrino.BM
open Neutrino.Gen.TransNtfn Neutrino.GoInt

def upFrom : Nat → Nat → List Nat
  | _, 0 => []
  | i, n + 1 => i :: upFrom (i + 1) n

theorem rangeUpN_eq_upFrom (lo hi : Nat) : rangeUpN lo hi = upFrom lo (hi - lo) := by
  unfold rangeUpN
  generalize hi - lo = k
  induction k generalizing lo with
  | zero => rfl
  | succ k ih =>
    rw [List.range_succ_eq_map, List.map_cons, List.map_map, upFrom, ← ih (lo + 1)]
    congr 1
    apply List.map_congr_left
    intro a _
    simp only [Function.comp_apply]
    omega

/-- what the block header store answers for a height, given the committed log -/
def fetchOf (log : List Nat) (hdr : Nat → T_wire_BlockHeader) (i : Nat) : Option T_wire_BlockHeader × Bool :=
  match log[i]? with
  | some id => (some (hdr id), false)
  | none => (none, true)

theorem backlog_loop (log : List Nat) (hdr : Nat → T_wire_BlockHeader)
    (newConn : T_wire_BlockHeader → Nat → Option T_blockntfns_Connected)
    (box : Option T_blockntfns_Connected → Atom) (n : Nat) :
    ∀ (i : Nat) (acc : List Atom),
      NotificationsSinceHeight_loop1 (fetchOf log hdr) newConn box (upFrom i n) acc
        = match backlogRange log i n with
          | none => Ctl.ret ([], 0, true)
          | some bl => Ctl.fall (acc ++ bl.map fun nd => box (newConn (hdr nd.id) nd.height)) := by
  induction n with
  | zero => intro i acc; simp [upFrom, NotificationsSinceHeight_loop1, backlogRange]
  | succ n ih =>
    intro i acc
    cases hl : log[i]? with
    | none =>
      have hf : fetchOf log hdr i = (none, true) := by simp only [fetchOf, hl]
      simp [upFrom, NotificationsSinceHeight_loop1, backlogRange, hf, hl]
    | some id =>
      have hf : fetchOf log hdr i = (some (hdr id), false) := by simp only [fetchOf, hl]
      simp only [upFrom, NotificationsSinceHeight_loop1, backlogRange, hf, hl, deref_some, ↓reduceIte]
      rw [ih]
      cases backlogRange log (i + 1) n with
      | none => simp
      | some bl => simp [List.append_assoc]

theorem trans_notificationsSinceHeight (s : State) (h : Nat) (hdr : Nat → T_wire_BlockHeader)
    (newConn : T_wire_BlockHeader → Nat → Option T_blockntfns_Connected)
    (box : Option T_blockntfns_Connected → Atom) (hb : s.ftip.height + 1 < 2 ^ 32) :
    NotificationsSinceHeight h s.ftip.height (fetchOf s.log hdr) newConn box
      = match (backlog s h).res with
        | .err => ([], 0, true)
        | .ok => ((backlog s h).bl.map (fun nd => box (newConn (hdr nd.id) nd.height)), (backlog s h).best, false) := by
  unfold NotificationsSinceHeight backlog
  generalize s.ftip.height = best at hb ⊢
  by_cases h0 : h = 0
  · subst h0; simp
  by_cases h1 : best = h
  · subst h1; simp [h0]
  have h1' : ¬ h = best := fun e => h1 e.symm
  by_cases h2 : best < h
  · simp [h0, h1, h1', h2]
  · have hr : best + 1 - (h + 1) = best - h := by omega
    have hu1 : uadd 32 h 1 = h + 1 := uadd_of_lt (by omega)
    have hu2 : uadd 32 best 1 = best + 1 := uadd_of_lt hb
    simp only [h0, h1, h1', h2, false_or, or_false, or_self, ↓reduceIte, hu1, hu2, rangeUpN_eq_upFrom, hr, backlog_loop]
    cases backlogRange s.log (h + 1) (best - h) <;> simp

end Neutrino.BM
