/-
C14 — header import leaves the stores equal to the file, or consistent on failure.
-/
import Neutrino.Lemmas.Import
namespace Neutrino.Import

/-- pre-state: both stores healthy (tip = last entry) -/
def Healthy (st : Stores) : Prop :=
  st.blocks ≠ [] ∧ st.filters ≠ [] ∧ st.btip = st.blocks.length - 1 ∧ st.ftip = some (st.filters.length - 1)

instance (st : Stores) : Decidable (Healthy st) := by unfold Healthy; infer_instance

/-- **Success clause, full statement** (false, see the counterexample). -/
def C14_success : Prop :=
  ∀ (F : File) (cfg : Cfg) (st : Stores), Healthy st → cfg.bs ≥ 1 →
    (importStores F cfg st).1 = none →
    successOk (obsOf st) F (obsOf (importStores F cfg st).2) = true ∧
    (importStores F { bs := cfg.bs } (importStores F cfg st).2).1 = none ∧
    (importStores F { bs := cfg.bs } (importStores F cfg st).2).2 = (importStores F cfg st).2

def cexStores : Stores := { blocks := [⟨1, 0, true⟩, ⟨2, 1, true⟩], btip := 1, filters := [1, 2], ftip := some 1 }
def cexFile : File := { bstart := 2, fstart := 2, blocks := [⟨3, 2, true⟩, ⟨4, 3, true⟩], filters := [3, 4] }

/-- F7: stores at height 1, file = heights 2..3 continuing the store's chain,
batch size 1: the import reports success and writes nothing. -/
theorem C14_success_counterexample : ¬ C14_success := by
  intro h
  have := h cexFile { bs := 1 } cexStores (by decide) (by decide) (by decide)
  exact absurd this.1 (by decide)

/-- both stores at the same height (the only pre-state from which the real
importer can append anything: with real `headerfs` stores the filter store's tip
is resolved through the block index, and a block store that is ahead is rejected
by `validateHeaderConnection`, which compares with the block TIP) -/
def EqualHeights (st : Stores) : Prop := st.blocks.length = st.filters.length

theorem healthy_eq_mk (st : Stores) (h : Healthy st) : st = mk st.blocks st.filters := by
  obtain ⟨_, _, h3, h4⟩ := h
  cases st
  simp only [mk] at *
  simp only [h3, h4]

theorem healthy_len (st : Stores) (h : Healthy st) : st.blocks.length ≥ 1 ∧ st.filters.length ≥ 1 := by
  obtain ⟨h1, h2, _, _⟩ := h
  constructor
  · cases hb : st.blocks with
    | nil => exact absurd hb h1
    | cons _ _ => simp
  · cases hb : st.filters with
    | nil => exact absurd hb h2
    | cons _ _ => simp

/-- **Success clause outside the recorded shape** — every file (start height 0,
or any start height when the file ends at or below the store tips), every length,
every batch size, every store height, every injected write failure: if `Import`
reports success, both stores are usable and hold, height for height, exactly
their earlier contents extended by the file's headers up to its last height. -/
theorem C14_success_partial (F : File) (cfg : Cfg) (st : Stores) (hh : Healthy st) (heq : EqualHeights st)
    (hbs : cfg.bs ≥ 1) (hshape : f7Shape (obsOf st) F = false)
    (hok : (importStores F cfg st).1 = none) :
    contentOk (obsOf st) F (obsOf (importStores F cfg st).2) = true := by
  obtain ⟨hl1, hl2⟩ := healthy_len st hh
  have hmk := healthy_eq_mk st hh
  unfold EqualHeights at heq
  obtain ⟨B, Fl, rfl⟩ : ∃ B Fl, st = mk B Fl := ⟨_, _, hmk⟩
  have heq : B.length = Fl.length := heq
  have hl1 : B.length ≥ 1 := hl1
  have hl2 : Fl.length ≥ 1 := hl2
  unfold importStores at hok ⊢
  simp only at hok ⊢
  have e3 : ∀ B Fl, (obsOf (mk B Fl)).blocks = B := fun _ _ => rfl
  have e4 : ∀ B Fl, (obsOf (mk B Fl)).filters = Fl := fun _ _ => rfl
  by_cases hs : F.bstart = 0
  · have hp := importRun_zero F cfg B Fl B.length hs hbs rfl heq.symm hl1
    obtain ⟨hmeta, hst⟩ := hp.1 hok
    rw [hst]
    have hu := usable_mk (B ++ F.blocks.drop B.length) (Fl ++ F.filters.drop B.length)
      (by rw [List.length_append]; omega) (by rw [List.length_append]; omega)
    rw [heq] at hu
    simp only [contentOk, hmeta, hu, e3, e4, extend, hs, Nat.sub_zero, Nat.zero_le, decide_true, Bool.and_self,
      beq_self_eq_true, heq]
  · -- file starts above 0 but ends at or below both tips: nothing to append
    have he : endHeight F ≤ B.length - 1 := by
      simp only [f7Shape, Bool.and_eq_false_iff, decide_eq_false_iff_not, e3, e4] at hshape
      rcases hshape with h | h
      · omega
      · rw [← heq, Nat.min_self] at h; omega
    have hp := importRun_covered F cfg B Fl B.length rfl heq.symm hl1 he
    obtain ⟨hmeta, hgap⟩ := hp.2 hok
    rw [hp.1]
    have hu := usable_mk B Fl hl1 hl2
    have hN : F.filters.length = F.blocks.length := by
      simp only [metaOk, Bool.and_eq_true, beq_iff_eq] at hmeta; exact hmeta.1.2.symm
    have hd1 : F.blocks.drop (B.length - F.bstart) = [] :=
      List.drop_eq_nil_of_le (by unfold endHeight at he; omega)
    have hd2 : F.filters.drop (Fl.length - F.bstart) = [] :=
      List.drop_eq_nil_of_le (by unfold endHeight at he; omega)
    have hg2 : F.bstart ≤ Fl.length := by omega
    simp only [contentOk, hmeta, hu, e3, e4, extend, hd1, hd2, List.append_nil, hgap, hg2, decide_true, Bool.and_self,
      beq_self_eq_true]

end Neutrino.Import
