/-
C14 — header import leaves the stores equal to the file, or consistent on failure.
-/
import Neutrino.Lemmas.ImportChain
import Neutrino.Lemmas.ImportValidate
import Neutrino.Gen.Import
namespace Neutrino.Import

/-- pre-state: both stores healthy (tip = last entry) -/
def Healthy (st : Stores) : Prop :=
  st.blocks ≠ [] ∧ st.filters ≠ [] ∧ st.btip = st.blocks.length - 1 ∧ st.ftip = some (st.filters.length - 1)

instance (st : Stores) : Decidable (Healthy st) := by unfold Healthy; infer_instance

/-- **Success clause, full statement** (false, see the counterexample). -/
def C14_success : Prop :=
  ∀ (F : File) (cfg : Cfg) (st : Stores), Healthy st → cfg.bs ≥ 1 →
    (importStores F cfg st).1 = none →
    successOk (obsOf st) F (obsOf (importStores F cfg st).2) = true ∧
    (importStores F { bs := cfg.bs } (importStores F cfg st).2).1 = none ∧
    (importStores F { bs := cfg.bs } (importStores F cfg st).2).2 = (importStores F cfg st).2

def cexStores : Stores := { blocks := [⟨1, 0, true⟩, ⟨2, 1, true⟩], btip := 1, filters := [1, 2], ftip := some 1 }
def cexFile : File := { bstart := 2, fstart := 2, blocks := [⟨3, 2, true⟩, ⟨4, 3, true⟩], filters := [3, 4] }

/-- F7: stores at height 1, file = heights 2..3 continuing the store's chain,
batch size 1: the import reports success and writes nothing. -/
theorem C14_success_counterexample : ¬ C14_success := by
  intro h
  have := h cexFile { bs := 1 } cexStores (by decide) (by decide) (by decide)
  exact absurd this.1 (by decide)

/-- both stores at the same height (the only pre-state from which the real
importer can append anything: with real `headerfs` stores the filter store's tip
is resolved through the block index, and a block store that is ahead is rejected
by `validateHeaderConnection`, which compares with the block TIP) -/
def EqualHeights (st : Stores) : Prop := st.blocks.length = st.filters.length

instance (st : Stores) : Decidable (EqualHeights st) := by unfold EqualHeights; infer_instance

theorem healthy_eq_mk (st : Stores) (h : Healthy st) : st = mk st.blocks st.filters := by
  obtain ⟨_, _, h3, h4⟩ := h
  cases st
  simp only [mk] at *
  simp only [h3, h4]

theorem healthy_len (st : Stores) (h : Healthy st) : st.blocks.length ≥ 1 ∧ st.filters.length ≥ 1 := by
  obtain ⟨h1, h2, _, _⟩ := h
  constructor
  · cases hb : st.blocks with
    | nil => exact absurd hb h1
    | cons _ _ => simp
  · cases hb : st.filters with
    | nil => exact absurd hb h2
    | cons _ _ => simp

/-- **Success clause outside the recorded shape** — every file (start height 0,
or any start height when the file ends at or below the store tips), every length,
every batch size, every store height, every injected write failure: if `Import`
reports success, both stores are usable and hold, height for height, exactly
their earlier contents extended by the file's headers up to its last height. -/
theorem C14_success_partial (F : File) (cfg : Cfg) (st : Stores) (hh : Healthy st) (heq : EqualHeights st)
    (hbs : cfg.bs ≥ 1) (hshape : f7Shape (obsOf st) F = false)
    (hok : (importStores F cfg st).1 = none) :
    contentOk (obsOf st) F (obsOf (importStores F cfg st).2) = true := by
  obtain ⟨hl1, hl2⟩ := healthy_len st hh
  have hmk := healthy_eq_mk st hh
  unfold EqualHeights at heq
  obtain ⟨B, Fl, rfl⟩ : ∃ B Fl, st = mk B Fl := ⟨_, _, hmk⟩
  have heq : B.length = Fl.length := heq
  have hl1 : B.length ≥ 1 := hl1
  have hl2 : Fl.length ≥ 1 := hl2
  unfold importStores at hok ⊢
  simp only at hok ⊢
  have e3 : ∀ B Fl, (obsOf (mk B Fl)).blocks = B := fun _ _ => rfl
  have e4 : ∀ B Fl, (obsOf (mk B Fl)).filters = Fl := fun _ _ => rfl
  by_cases hs : F.bstart = 0
  · have hp := importRun_zero F cfg B Fl B.length hs hbs rfl heq.symm hl1
    obtain ⟨hmeta, hst⟩ := hp.1 hok
    rw [hst]
    have hu := usable_mk (B ++ F.blocks.drop B.length) (Fl ++ F.filters.drop B.length)
      (by rw [List.length_append]; omega) (by rw [List.length_append]; omega)
    rw [heq] at hu
    simp only [contentOk, hmeta, hu, e3, e4, extend, hs, Nat.sub_zero, Nat.zero_le, decide_true, Bool.and_self,
      beq_self_eq_true, heq]
  · -- file starts above 0 but ends at or below both tips: nothing to append
    have he : endHeight F ≤ B.length - 1 := by
      simp only [f7Shape, Bool.and_eq_false_iff, decide_eq_false_iff_not, e3, e4] at hshape
      rcases hshape with h | h
      · omega
      · rw [← heq, Nat.min_self] at h; omega
    have hp := importRun_covered F cfg B Fl B.length rfl heq.symm hl1 he
    obtain ⟨hmeta, hgap⟩ := hp.2 hok
    rw [hp.1]
    have hu := usable_mk B Fl hl1 hl2
    have hN : F.filters.length = F.blocks.length := by
      simp only [metaOk, Bool.and_eq_true, beq_iff_eq] at hmeta; exact hmeta.1.2.symm
    have hd1 : F.blocks.drop (B.length - F.bstart) = [] :=
      List.drop_eq_nil_of_le (by unfold endHeight at he; omega)
    have hd2 : F.filters.drop (Fl.length - F.bstart) = [] :=
      List.drop_eq_nil_of_le (by unfold endHeight at he; omega)
    have hg2 : F.bstart ≤ Fl.length := by omega
    simp only [contentOk, hmeta, hu, e3, e4, extend, hd1, hd2, List.append_nil, hgap, hg2, decide_true, Bool.and_self,
      beq_self_eq_true]

/-- a second import can only append what lies above the stores: nothing, once
the stores reach the file's last height -/
theorem import_noop_when_full (F : File) (cfg : Cfg) (B : List BHdr) (Fl : List Nat)
    (hs : F.bstart = 0) (hbs : cfg.bs ≥ 1) (heq : B.length = Fl.length) (hl : B.length ≥ 1)
    (hfull : F.blocks.length ≤ B.length) (hfull' : F.filters.length ≤ B.length) :
    (importRun F cfg (mk B Fl)).2.st = mk B Fl := by
  have hp := importRun_zero F cfg B Fl B.length hs hbs rfl heq.symm hl
  have hd1 : F.blocks.drop B.length = [] := List.drop_eq_nil_of_le hfull
  have hd2 : F.filters.drop B.length = [] := List.drop_eq_nil_of_le hfull'
  cases hr : (importRun F cfg (mk B Fl)).1 with
  | none =>
    have := (hp.1 hr).2
    rw [this, hd1, hd2, List.append_nil, List.append_nil]
  | some e =>
    obtain ⟨j, _, hj⟩ := hp.2 e hr
    rw [hj, hd1, hd2]; simp

/-- Repeating the import with ANY batch size changes nothing (outside the
recorded shape), whatever the second import reports.  (With a different batch
size it may report `invalid`: the validator sanity-checks the file's first header
only when the first batch has length one.)  See `C14_idempotent_partial` for the
identical import. -/
theorem C14_idempotent_any_batch_partial (F : File) (cfg cfg2 : Cfg) (st : Stores) (hh : Healthy st) (heq : EqualHeights st)
    (hbs : cfg.bs ≥ 1) (hbs2 : cfg2.bs ≥ 1) (hshape : f7Shape (obsOf st) F = false)
    (hok : (importStores F cfg st).1 = none) :
    (importStores F cfg2 (importStores F cfg st).2).2 = (importStores F cfg st).2 := by
  obtain ⟨hl1, hl2⟩ := healthy_len st hh
  have hmk := healthy_eq_mk st hh
  unfold EqualHeights at heq
  obtain ⟨B, Fl, rfl⟩ : ∃ B Fl, st = mk B Fl := ⟨_, _, hmk⟩
  have heq : B.length = Fl.length := heq
  have hl1 : B.length ≥ 1 := hl1
  have hl2 : Fl.length ≥ 1 := hl2
  unfold importStores at hok ⊢
  simp only at hok ⊢
  have e3 : ∀ B Fl, (obsOf (mk B Fl)).blocks = B := fun _ _ => rfl
  have e4 : ∀ B Fl, (obsOf (mk B Fl)).filters = Fl := fun _ _ => rfl
  by_cases hs : F.bstart = 0
  · have hp := importRun_zero F cfg B Fl B.length hs hbs rfl heq.symm hl1
    obtain ⟨hmeta, hst⟩ := hp.1 hok
    have hN : F.filters.length = F.blocks.length := by
      simp only [metaOk, Bool.and_eq_true, beq_iff_eq] at hmeta; exact hmeta.1.2.symm
    rw [hst]
    apply import_noop_when_full F cfg2 _ _ hs hbs2
    · simp only [List.length_append, List.length_drop]; omega
    · simp only [List.length_append]; omega
    · simp only [List.length_append, List.length_drop]; omega
    · simp only [List.length_append, List.length_drop]; omega
  · have he : endHeight F ≤ B.length - 1 := by
      simp only [f7Shape, Bool.and_eq_false_iff, decide_eq_false_iff_not, e3, e4] at hshape
      rcases hshape with h | h
      · omega
      · rw [← heq, Nat.min_self] at h; omega
    have hp := importRun_covered F cfg B Fl B.length rfl heq.symm hl1 he
    rw [hp.1]
    exact (importRun_covered F cfg2 B Fl B.length rfl heq.symm hl1 he).1

/-- **Repeating the import reports success and changes nothing** (outside the
recorded shape): after a successful import, a second import of the same files
with the same batch size, neither of them cancelled — even with write failures
armed, none is reached —
reports success and leaves both stores exactly as they are. -/
theorem C14_idempotent_partial (F : File) (cfg cfg2 : Cfg) (st : Stores) (hh : Healthy st) (heq : EqualHeights st)
    (hbs : cfg.bs ≥ 1) (hsame : cfg2.bs = cfg.bs) (hnc : cfg.cancelAt = none) (hnc2 : cfg2.cancelAt = none)
    (hshape : f7Shape (obsOf st) F = false)
    (hok : (importStores F cfg st).1 = none) :
    (importStores F cfg2 (importStores F cfg st).2).1 = none ∧
    (importStores F cfg2 (importStores F cfg st).2).2 = (importStores F cfg st).2 := by
  refine ⟨?_, C14_idempotent_any_batch_partial F cfg cfg2 st hh heq hbs (by omega) hshape hok⟩
  obtain ⟨hl1, hl2⟩ := healthy_len st hh
  have hmk := healthy_eq_mk st hh
  unfold EqualHeights at heq
  obtain ⟨B, Fl, rfl⟩ : ∃ B Fl, st = mk B Fl := ⟨_, _, hmk⟩
  have heq : B.length = Fl.length := heq
  have hl1 : B.length ≥ 1 := hl1
  have hl2 : Fl.length ≥ 1 := hl2
  unfold importStores at hok ⊢
  simp only at hok ⊢
  obtain ⟨hpre, hc, hv0⟩ := importRun_ok_facts F cfg _ hok
  have hv : validateBlocks (validatedBody F cfg2) cfg2.bs = true := by
    rw [validatedBody_none F cfg2 hnc2, hsame]
    rw [validatedBody_none F cfg hnc] at hv0
    exact hv0
  obtain ⟨_, hne, hN, _⟩ := preChecks_none F hpre
  have hlen : F.blocks.length ≥ 1 := by
    cases hb : F.blocks with
    | nil => exact absurd hb hne
    | cons x xs => simp
  by_cases hs : F.bstart = 0
  · have hp := importRun_zero F cfg B Fl B.length hs hbs rfl heq.symm hl1
    obtain ⟨_, hst⟩ := hp.1 hok
    rw [hst]
    have hc2 := continuity_after_success F B Fl hs hl1 heq hN hlen hc
    have hcov := importRun_covered_gen F cfg2 (B ++ F.blocks.drop B.length) (Fl ++ F.filters.drop B.length)
      (by rw [List.length_append]; omega) (by rw [List.length_append]; omega)
      (by simp only [List.length_append, List.length_drop]; unfold endHeight; omega)
    exact hcov.2.mpr ⟨hpre, hc2, hv⟩
  · have e3 : ∀ B Fl, (obsOf (mk B Fl)).blocks = B := fun _ _ => rfl
    have e4 : ∀ B Fl, (obsOf (mk B Fl)).filters = Fl := fun _ _ => rfl
    have he : endHeight F ≤ B.length - 1 := by
      simp only [f7Shape, Bool.and_eq_false_iff, decide_eq_false_iff_not, e3, e4] at hshape
      rcases hshape with h | h
      · omega
      · rw [← heq, Nat.min_self] at h; omega
    have hp := importRun_covered F cfg B Fl B.length rfl heq.symm hl1 he
    rw [hp.1]
    have hcov := importRun_covered_gen F cfg2 B Fl hl1 hl2 (by omega)
    exact hcov.2.mpr ⟨hpre, hc, hv⟩

/-- **Failure clause, full statement** (false in the recorded shape, see the counterexample). -/
def C14_failure : Prop :=
  ∀ (F : File) (cfg : Cfg) (st : Stores) (e : Err), Healthy st → cfg.bs ≥ 1 →
    (importStores F cfg st).1 = some e →
    failureOk (obsOf st) F (obsOf (importStores F cfg st).2) = true

def cexStores2 : Stores := { blocks := [⟨1, 0, true⟩], btip := 0, filters := [1], ftip := some 0 }
def cexFile2 : File :=
  { bstart := 1, fstart := 1, blocks := [⟨2, 1, true⟩, ⟨3, 2, true⟩, ⟨4, 3, true⟩], filters := [2, 3, 4] }

/-- F7 on the failure side: stores at genesis, file = heights 1..3, batch size 1,
second block write fails: the first batch has put the header of height 2 at
height 1 and moved the tip to a height the file does not have. -/
theorem C14_failure_counterexample : ¬ C14_failure := by
  intro h
  have := h cexFile2 { bs := 1, failB := some 1 } cexStores2 .bwrite (by decide) (by decide) (by decide)
  exact absurd this (by decide)

theorem failContent_mk (F : File) (B : List BHdr) (Fl : List Nat) (j : Nat) (hs : F.bstart = 0)
    (heq : B.length = Fl.length) (hl1 : B.length ≥ 1) (hj : j = 0 ∨ metaOk F = true) :
    failContentOk (obsOf (mk B Fl)) F
      (obsOf (mk (B ++ (F.blocks.drop B.length).take j) (Fl ++ (F.filters.drop B.length).take j))) = true := by
  have e3 : ∀ B Fl, (obsOf (mk B Fl)).blocks = B := fun _ _ => rfl
  have e4 : ∀ B Fl, (obsOf (mk B Fl)).filters = Fl := fun _ _ => rfl
  have hu := usable_mk (B ++ (F.blocks.drop B.length).take j) (Fl ++ (F.filters.drop B.length).take j)
    (by rw [List.length_append]; omega) (by rw [List.length_append]; omega)
  have hlen : j = 0 ∨ F.filters.length = F.blocks.length := by
    rcases hj with h | h
    · exact Or.inl h
    · right; simp only [metaOk, Bool.and_eq_true, beq_iff_eq] at h; exact h.1.2.symm
  have hb : (B ++ (F.blocks.drop B.length).take j).length - B.length = ((F.blocks.drop B.length).take j).length := by
    rw [List.length_append]; omega
  have hf : (Fl ++ (F.filters.drop B.length).take j).length - Fl.length = ((F.filters.drop B.length).take j).length := by
    rw [List.length_append]; omega
  simp only [failContentOk, hu, e3, e4, hs, Nat.sub_zero, hb, hf, take_length_take, ← heq, beq_self_eq_true,
    Bool.true_and, Bool.and_true, Bool.and_eq_true, Bool.or_eq_true, decide_eq_true_eq, Nat.zero_le, and_true]
  refine ⟨⟨⟨⟨⟨?_, ?_⟩, ?_⟩, ?_⟩, ?_⟩, ?_⟩
  · right
    simp only [List.length_append, List.length_take, List.length_drop]
    rcases hlen with h | h
    · subst h; simp; omega
    · rw [h]; omega
  · simp only [List.length_append]; omega
  · simp only [List.length_append]; omega
  · have : (Fl ++ List.take j (List.drop B.length F.filters)).length - B.length =
        (List.take j (List.drop B.length F.filters)).length := by rw [List.length_append]; omega
    rw [this, take_length_take]; exact beq_self_eq_true _
  · rcases hj with h | h
    · left; subst h; simp
    · right; exact h
  · rcases hj with h | h
    · left; subst h; simp; exact heq.symm
    · right; exact h

/-- **Failure clause outside the recorded shape**: if `Import` reports an error
(wrong network/type/start/count, gap, broken connection, mismatch with existing
data, invalid header, read error, injected write failure of either store at any
batch) both stores are usable, the filter store is not ahead of the block store,
the old contents are intact, and whatever was appended is, height for height, a
prefix of the file's headers above the old tip — the same number in both stores. -/
theorem C14_failure_partial (F : File) (cfg : Cfg) (st : Stores) (e : Err) (hh : Healthy st) (heq : EqualHeights st)
    (hbs : cfg.bs ≥ 1) (hshape : f7Shape (obsOf st) F = false)
    (herr : (importStores F cfg st).1 = some e) :
    failContentOk (obsOf st) F (obsOf (importStores F cfg st).2) = true ∧
    (importStores F cfg st).2.blocks.length = (importStores F cfg st).2.filters.length := by
  obtain ⟨hl1, hl2⟩ := healthy_len st hh
  have hmk := healthy_eq_mk st hh
  unfold EqualHeights at heq
  obtain ⟨B, Fl, rfl⟩ : ∃ B Fl, st = mk B Fl := ⟨_, _, hmk⟩
  have heq : B.length = Fl.length := heq
  have hl1 : B.length ≥ 1 := hl1
  have hl2 : Fl.length ≥ 1 := hl2
  unfold importStores at herr ⊢
  simp only at herr ⊢
  have e3 : ∀ B Fl, (obsOf (mk B Fl)).blocks = B := fun _ _ => rfl
  have e4 : ∀ B Fl, (obsOf (mk B Fl)).filters = Fl := fun _ _ => rfl
  by_cases hs : F.bstart = 0
  · have hp := importRun_zero F cfg B Fl B.length hs hbs rfl heq.symm hl1
    obtain ⟨j, hj, hst⟩ := hp.2 e herr
    rw [hst]
    refine ⟨failContent_mk F B Fl j hs heq hl1 hj, ?_⟩
    simp only [mk, List.length_append, List.length_take, List.length_drop]
    rcases hj with h | h
    · subst h; simp; exact heq
    · have hN : F.filters.length = F.blocks.length := by
        simp only [metaOk, Bool.and_eq_true, beq_iff_eq] at h; exact h.1.2.symm
      rw [hN]; omega
  · have he : endHeight F ≤ B.length - 1 := by
      simp only [f7Shape, Bool.and_eq_false_iff, decide_eq_false_iff_not, e3, e4] at hshape
      rcases hshape with h | h
      · omega
      · rw [← heq, Nat.min_self] at h; omega
    have hp := importRun_covered F cfg B Fl B.length rfl heq.symm hl1 he
    rw [hp.1]
    refine ⟨?_, heq⟩
    have hu := usable_mk B Fl hl1 hl2
    simp only [failContentOk, hu, e3, e4, Nat.sub_self, List.take_zero, List.append_nil, beq_self_eq_true, heq,
      Nat.le_refl, decide_true, Bool.or_true, Bool.true_or, Bool.and_self, Nat.lt_irrefl, decide_false, Bool.false_or]

/-- chain facts for level stores and a file from height 0 that passed all checks -/
theorem chain_level_zero (F : File) (bs : Nat) (B : List BHdr) (Fl : List Nat)
    (hs : F.bstart = 0) (hl : B.length ≥ 1) (heq : B.length = Fl.length)
    (hc : continuity F (mk B Fl) = none) (hv : validateBlocks F.blocks bs = true) :
    (F.blocks.drop B.length).all (·.valid) = true ∧
    (connected B = true → connected (B ++ F.blocks.drop B.length) = true) := by
  have hpairs := validateBlocks_pairsOk _ _ hv
  constructor
  · have : F.blocks.drop B.length = (F.blocks.drop 1).drop (B.length - 1) := by
      rw [List.drop_drop]; congr 1; omega
    rw [this]
    exact all_drop _ _ _ (pairsOk_tail_valid _ hpairs)
  · intro hcb
    cases hD : F.blocks.drop B.length with
    | nil => rw [List.append_nil]; exact hcb
    | cons c D =>
      have hcD : connected (c :: D) = true := by
        rw [← hD]; exact connected_drop _ _ (pairsOk_connected _ hpairs)
      have hca : F.blocks[B.length]? = some c := by
        have := congrArg (fun l => l[0]?) hD
        simpa [List.getElem?_drop] using this
      have hlt : B.length < F.blocks.length := by
        rcases Nat.lt_or_ge B.length F.blocks.length with h | h
        · exact h
        · rw [List.drop_eq_nil_of_le h] at hD; simp at hD
      have hfacts := (continuity_overlap_iff F (mk B Fl) (B.length - 1) (Fl.length - 1)
        (bChainTip_mk B Fl hl) (fChainTip_mk B Fl (by omega)) (by omega)).mp hc
      unfold overlapFacts at hfacts
      have hoe : min (min (B.length - 1) (Fl.length - 1)) (endHeight F) = B.length - 1 := by
        unfold endHeight; omega
      rw [hoe] at hfacts
      have hconn := hfacts.2.2 (by unfold endHeight; omega)
      unfold connects at hconn
      have h1 : B.length - 1 + 1 - F.bstart = B.length := by omega
      rw [h1, hca] at hconn
      have hBm : (mk B Fl).blocks = B := rfl
      rw [hBm] at hconn
      cases hp : B[B.length - 1]? with
      | none => rw [hp] at hconn; simp at hconn
      | some p =>
        rw [hp] at hconn
        simp only [beq_iff_eq] at hconn
        exact connected_append_cons B p c D hcb (by rw [List.getLast?_eq_getElem?]; exact hp) hconn hcD

/-- **Chain clause of success, outside the recorded shape.**  If `Import` reports
success, the block chain stored is connected (given that it was before) and every
appended header is valid.  What exactly is validated: the validator pair-checks
(PrevBlock link + contextual check + sanity/proof of work of the SECOND header)
every consecutive pair of the file, inside a batch or across two batches; the
FIRST header of the file is sanity-checked only when the first batch has length
one (`validateBlocks`).  For a file starting at height 0 this gap cannot let an
unvalidated header into the stores: the stores always hold genesis (height ≥ 1
entries), so what is appended is `file.drop k` with `k ≥ 1` — headers that were
each the second element of a passed pair check — the first of them additionally
checked to link to the block-store tip (`validateHeaderConnection`); the file's
first header is never written, it is only compared with the stores' own genesis
(`verifyHeadersAtTargetHeight`).  (For a file starting above 0 the first header
can be the first one appended; that is inside the recorded shape F7.) -/
theorem C14_success_chain_valid_partial (F : File) (cfg : Cfg) (st : Stores) (hh : Healthy st) (heq : EqualHeights st)
    (hbs : cfg.bs ≥ 1) (hshape : f7Shape (obsOf st) F = false)
    (hok : (importStores F cfg st).1 = none) :
    chainOk (obsOf st) (obsOf (importStores F cfg st).2) = true := by
  obtain ⟨hl1, hl2⟩ := healthy_len st hh
  have hmk := healthy_eq_mk st hh
  unfold EqualHeights at heq
  obtain ⟨B, Fl, rfl⟩ : ∃ B Fl, st = mk B Fl := ⟨_, _, hmk⟩
  have heq : B.length = Fl.length := heq
  have hl1 : B.length ≥ 1 := hl1
  have hl2 : Fl.length ≥ 1 := hl2
  unfold importStores at hok ⊢
  simp only at hok ⊢
  have e3 : ∀ B Fl, (obsOf (mk B Fl)).blocks = B := fun _ _ => rfl
  by_cases hs : F.bstart = 0
  · have hp := importRun_zero F cfg B Fl B.length hs hbs rfl heq.symm hl1
    obtain ⟨_, hst⟩ := hp.1 hok
    by_cases hch : (importRun F cfg (mk B Fl)).2.st = mk B Fl
    · -- nothing was written (e.g. the context was cancelled during validation and there was nothing to append)
      rw [hch]
      simp only [chainOk, e3, List.drop_length, List.all_nil, Bool.and_true, Bool.or_eq_true, Bool.not_eq_true']
      cases connected B <;> simp
    obtain ⟨_, hc, hv, _⟩ := importRun_written_validated F cfg _ hch
    obtain ⟨hval, hconn⟩ := chain_level_zero F cfg.bs B Fl hs hl1 heq hc hv
    rw [hst]
    simp only [chainOk, e3, List.drop_left', hval, Bool.and_true, Bool.or_eq_true, Bool.not_eq_true']
    cases hcb : connected B with
    | false => exact Or.inl rfl
    | true => exact Or.inr (hconn hcb)
  · have he : endHeight F ≤ B.length - 1 := by
      have e4 : ∀ B Fl, (obsOf (mk B Fl)).filters = Fl := fun _ _ => rfl
      simp only [f7Shape, Bool.and_eq_false_iff, decide_eq_false_iff_not, e3, e4] at hshape
      rcases hshape with h | h
      · omega
      · rw [← heq, Nat.min_self] at h; omega
    have hp := importRun_covered F cfg B Fl B.length rfl heq.symm hl1 he
    rw [hp.1]
    simp only [chainOk, e3, List.drop_length, List.all_nil, Bool.and_true, Bool.or_eq_true, Bool.not_eq_true']
    cases connected B <;> simp

/-- **The validator's obligations.**  `validateBlocks`, the closed form the model
of `Import` uses, is exactly the validator's walk over the file in batches of the
configured size (`ValidateBatch` inside a batch — a single-header batch is
`ValidateSingle`d, a longer one pair-checks every header from its second on —
and `ValidatePair(last header of the previous batch, first header of this one)`
across batches); and in an accepted file every header except the first passed
`ValidatePair` (PrevBlock link, contextual check, sanity/proof of work) against
its predecessor.  Together with `C14_success_partial` (what is appended is
`file.drop k`, `k ≥ 1`, for file start 0) a header is appended only if its pair
check passed. -/
theorem C14_validator_obligations (body : List BHdr) (bs : Nat) (hbs : bs ≥ 1) :
    validateBlocks body bs = validateWalk bs body.length none body ∧
    (validateBlocks body bs = true → ∀ i a c, body[i]? = some a → body[i + 1]? = some c → pairOk a c = true) :=
  ⟨validateBlocks_eq_walk body bs hbs, fun h i a c ha hc => validated_pairs body bs i a c h ha hc⟩

/-- **Every imported header is validated — no off-by-one.**  (a) The validator's
verdict is exactly: every file index `1 .. len-1` (heights `(startHeight, end]`)
passes `ValidatePair` (PrevBlock link, proof of work, difficulty, timestamp)
against the index before it, plus the first-batch rule for index 0.  (b) A
successful `Import` whose context was not cancelled — any stores, any batch size —
ran that verdict over the WHOLE
file, from index 0 (`C14_source_facts`: the iterators in `Import` start at `0`),
so every header the import can write (index ≥ 1 for file start 0, see
`C14_success_chain_valid_partial`) was pair-checked, in particular the first one
above the existing tip. -/
theorem C14_validated_range (F : File) (cfg : Cfg) (st : Stores) (hnc : cfg.cancelAt = none) :
    (validateBlocks F.blocks cfg.bs = true ↔
      ((min cfg.bs F.blocks.length = 1 → (F.blocks.head?.map (·.valid)).getD true = true) ∧
       ∀ i a c, F.blocks[i]? = some a → F.blocks[i + 1]? = some c → pairOk a c = true)) ∧
    ((importStores F cfg st).1 = none →
      ∀ i a c, F.blocks[i]? = some a → F.blocks[i + 1]? = some c → pairOk a c = true) := by
  refine ⟨validateBlocks_iff F.blocks cfg.bs, fun hok i a c ha hc => ?_⟩
  obtain ⟨_, _, hv⟩ := importRun_ok_facts F cfg st hok
  rw [validatedBody_none F cfg hnc] at hv
  exact validated_pairs F.blocks cfg.bs i a c hv ha hc

/-- the validator's gap, as a fact of the model: with a first batch of two or
more headers a file whose FIRST header fails the sanity check (bad proof of work)
is accepted; with batch size 1 it is rejected -/
example : validateBlocks [⟨1, 0, false⟩, ⟨2, 1, true⟩, ⟨3, 2, true⟩] 2 = true ∧
    validateBlocks [⟨1, 0, false⟩, ⟨2, 1, true⟩, ⟨3, 2, true⟩] 1 = false := by decide

/-- **Sampled agreement with existing data**: a successful import (any healthy
stores, any file) means the file carries the stores' own block and filter headers
at the first and at the last overlapping height — a file contradicting existing
data there is refused.  (Heights strictly inside the overlap are not compared:
`validateChainContinuity` samples the two ends only; for block headers the
validator's pair checks make the ends imply the middle, for filter headers
nothing does.) -/
theorem C14_success_sample_partial (F : File) (cfg : Cfg) (st : Stores) (hh : Healthy st)
    (hok : (importStores F cfg st).1 = none) : sampleOk (obsOf st) F = true := by
  obtain ⟨hl1, hl2⟩ := healthy_len st hh
  have hmk := healthy_eq_mk st hh
  obtain ⟨B, Fl, rfl⟩ : ∃ B Fl, st = mk B Fl := ⟨_, _, hmk⟩
  obtain ⟨hpre, hc, _⟩ := importRun_ok_facts F cfg _ hok
  obtain ⟨_, hne, _, _⟩ := preChecks_none F hpre
  have hlen : F.blocks.length ≥ 1 := by
    cases hb : F.blocks with
    | nil => exact absurd hb hne
    | cons x xs => simp
  exact sample_of_continuity F B Fl hl1 hl2 hlen hc

/-- **The whole success clause of the run-time oracle**, outside the recorded shape. -/
theorem C14_success_all_partial (F : File) (cfg : Cfg) (st : Stores) (hh : Healthy st) (heq : EqualHeights st)
    (hbs : cfg.bs ≥ 1) (hshape : f7Shape (obsOf st) F = false)
    (hok : (importStores F cfg st).1 = none) :
    successOk (obsOf st) F (obsOf (importStores F cfg st).2) = true := by
  simp only [successOk, C14_success_partial F cfg st hh heq hbs hshape hok,
    C14_success_chain_valid_partial F cfg st hh heq hbs hshape hok,
    C14_success_sample_partial F cfg st hh hok, Bool.and_self]

/-- **The whole failure clause of the run-time oracle**, outside the recorded
shape, level stores: on every error the stores are usable, level, hold their old
contents plus the same number of file headers each, height for height, and what
was appended is connected to the old chain and pair-validated. -/
theorem C14_failure_all_partial (F : File) (cfg : Cfg) (st : Stores) (e : Err) (hh : Healthy st) (heq : EqualHeights st)
    (hbs : cfg.bs ≥ 1) (hshape : f7Shape (obsOf st) F = false)
    (herr : (importStores F cfg st).1 = some e) :
    failureOk (obsOf st) F (obsOf (importStores F cfg st).2) = true := by
  obtain ⟨hfc, hlevel⟩ := C14_failure_partial F cfg st e hh heq hbs hshape herr
  have hchain : chainOk (obsOf st) (obsOf (importStores F cfg st).2) = true := by
    obtain ⟨hl1, hl2⟩ := healthy_len st hh
    have hmk := healthy_eq_mk st hh
    unfold EqualHeights at heq
    obtain ⟨B, Fl, rfl⟩ : ∃ B Fl, st = mk B Fl := ⟨_, _, hmk⟩
    have heq : B.length = Fl.length := heq
    have hl1 : B.length ≥ 1 := hl1
    have e3 : ∀ B Fl, (obsOf (mk B Fl)).blocks = B := fun _ _ => rfl
    have e4 : ∀ B Fl, (obsOf (mk B Fl)).filters = Fl := fun _ _ => rfl
    have hunch : ∀ st', st' = mk B Fl → chainOk (obsOf (mk B Fl)) (obsOf st') = true := by
      intro st' h; subst h
      simp only [chainOk, e3, List.drop_length, List.all_nil, Bool.and_true, Bool.or_eq_true, Bool.not_eq_true']
      cases connected B <;> simp
    unfold importStores at herr ⊢
    simp only at herr ⊢
    by_cases hch : (importRun F cfg (mk B Fl)).2.st = mk B Fl
    · exact hunch _ hch
    · obtain ⟨_, hc, hv, _⟩ := importRun_written_validated F cfg _ hch
      by_cases hs : F.bstart = 0
      · have hp := importRun_zero F cfg B Fl B.length hs hbs rfl heq.symm hl1
        obtain ⟨j, _, hst⟩ := hp.2 e herr
        obtain ⟨hval, hconn⟩ := chain_level_zero_take F cfg.bs B Fl j hs hl1 heq hc hv
        rw [hst]
        simp only [chainOk, e3, List.drop_left', hval, Bool.and_true, Bool.or_eq_true, Bool.not_eq_true']
        cases hcb : connected B with
        | false => exact Or.inl rfl
        | true => exact Or.inr (hconn hcb)
      · have he : endHeight F ≤ B.length - 1 := by
          simp only [f7Shape, Bool.and_eq_false_iff, decide_eq_false_iff_not, e3, e4] at hshape
          rcases hshape with h | h
          · omega
          · rw [← heq, Nat.min_self] at h; omega
        exact hunch _ (importRun_covered F cfg B Fl B.length rfl heq.symm hl1 he).1
  have hlv : ((obsOf st).blocks.length != (obsOf st).filters.length ||
      (obsOf (importStores F cfg st).2).blocks.length == (obsOf (importStores F cfg st).2).filters.length) = true := by
    have : (obsOf (importStores F cfg st).2).blocks.length = (obsOf (importStores F cfg st).2).filters.length := hlevel
    rw [this]; simp
  simp only [failureOk, hfc, hchain, hlv, Bool.and_self]

/-- `NewHeadersImport`: a `WriteBatchSizePerRegion` left unset (zero or negative)
becomes the default, in the options value `Import` reads
(`Gen.Import.defaultBatchAppliedToKeptOptions`).  The batch size of the model
(`Cfg.bs`) is this effective value. -/
def effectiveBatch (requested : Int) : Nat :=
  if requested ≤ 0 then Gen.Import.defaultWriteBatchSize else requested.toNat

/-- the effective batch size is never 0: every theorem above (hypothesis
`cfg.bs ≥ 1`) applies to an import whose batch size was left unset.  (With a
batch size of 0 — what the importer would run with if the default did not reach
it — `ReadBatch(start, end, 0)` is empty for every `start ≥ 1`, the write loop
ends at once and the import reports success having written nothing.) -/
theorem C14_default_batch (requested : Int) : effectiveBatch requested ≥ 1 := by
  unfold effectiveBatch
  split
  · decide
  · omega

example : effectiveBatch 0 = 65536 ∧ effectiveBatch (-1) = 65536 ∧ effectiveBatch 7 = 7 := by decide
-- the iterator with batch size 0 above index 0: end of data at once
example : (match readBatch [1, 2, 3, 4] 1 3 0 with | .eof => true | _ => false) = true := by decide

/-! ### Context cancellation

`cfg.cancelAt = some c`: the import's context is cancelled, for good, from its
`c`-th poll on.  The importer polls it once per batch in the block-header
validator, once per batch in the filter-header validator (both RETURN NIL when
they see it cancelled — `Gen.Import.validatorsReturnNilOnCancel` — so a
cancellation during validation lets the import go on with a file that was only
partly validated) and once per iteration of the write loop, BEFORE the batch is
read and written (`Gen.Import.cancelCheckBeforeProcessBatch`).  That last check
is all that stands between a partly validated file and the stores. -/

/-- **A cancelled import is safe** — for ANY stores, file, batch size and cancel
point: (1) if the cancellation is noticed at or before the write loop's first
look at the context (before, or anywhere during, the two validation passes),
nothing is written at all; (2) whenever the import has written anything — it
may then have succeeded or failed, cancelled or not — every check had passed on
the WHOLE file (metadata, continuity with the stores, every header pair-checked
against its predecessor) and the context was not yet cancelled when the first
batch was written. -/
theorem C14_cancel_safe (F : File) (cfg : Cfg) (st : Stores) :
    (cancelled cfg (2 * valBatches F cfg) = true → (importStores F cfg st).2 = st) ∧
    ((importStores F cfg st).2 ≠ st →
      preChecks F = none ∧ continuity F st = none ∧ validateBlocks F.blocks cfg.bs = true ∧
      cancelled cfg (2 * valBatches F cfg) = false ∧
      ∀ i a c, F.blocks[i]? = some a → F.blocks[i + 1]? = some c → pairOk a c = true) := by
  have key : (importStores F cfg st).2 ≠ st →
      preChecks F = none ∧ continuity F st = none ∧ validateBlocks F.blocks cfg.bs = true ∧
      cancelled cfg (2 * valBatches F cfg) = false := importRun_written_validated F cfg st
  refine ⟨fun hcan => ?_, fun hch => ?_⟩
  · by_cases hch : (importStores F cfg st).2 = st
    · exact hch
    · have := (key hch).2.2.2
      rw [hcan] at this; cases this
  · obtain ⟨h1, h2, h3, h4⟩ := key hch
    exact ⟨h1, h2, h3, h4, fun i a c ha hc => validated_pairs F.blocks cfg.bs i a c h3 ha hc⟩

/-- a cancellation noticed by the write loop stops it there: level stores, file
from height 0 — on the error the stores hold their old contents plus a common
prefix of the file's new headers (whole batches written before the cancellation),
connected and pair-validated: the failure clause, `C14_failure_all_partial`,
covers `Err.cancel` like every other error. -/
theorem C14_cancel_failure_partial (F : File) (cfg : Cfg) (st : Stores) (hh : Healthy st) (heq : EqualHeights st)
    (hbs : cfg.bs ≥ 1) (hshape : f7Shape (obsOf st) F = false)
    (herr : (importStores F cfg st).1 = some .cancel) :
    failureOk (obsOf st) F (obsOf (importStores F cfg st).2) = true :=
  C14_failure_all_partial F cfg st .cancel hh heq hbs hshape herr

/-! ### Block store ahead of the filter store

The only unequal-height pre-state reachable with real `headerfs` stores (the
filter store's tip is resolved through the block index, so it cannot be ahead and
readable).  Block hashes are collision free: the ids in the block store are
pairwise distinct.  OBSERVATION (not a C14 violation — the stores stay intact):
in this state an honest file from height 0 that reaches above the filter tip is
ALWAYS refused (`err conn`), because `validateHeaderConnection` is handed the
block TIP height instead of the overlap end, so the importer can never bring a
lagging filter store level again; `C14_block_ahead_always_fails` is the general
statement, the `example` below the concrete witness. -/

/-- block store ahead: outside the recorded shape the stores are never touched,
whatever the import reports -/
theorem block_ahead_unchanged (F : File) (cfg : Cfg) (st : Stores) (hh : Healthy st)
    (hahead : st.filters.length < st.blocks.length) (hnd : (st.blocks.map (·.id)).Nodup)
    (hshape : f7Shape (obsOf st) F = false) :
    (importStores F cfg st).2 = st ∧
    (F.bstart = 0 → endHeight F > st.filters.length - 1 → (importStores F cfg st).1 ≠ none) ∧
    ((importStores F cfg st).1 = none →
      preChecks F = none ∧ F.bstart ≤ st.filters.length ∧ endHeight F ≤ st.filters.length - 1) := by
  obtain ⟨hl1, hl2⟩ := healthy_len st hh
  have hmk := healthy_eq_mk st hh
  obtain ⟨B, Fl, rfl⟩ : ∃ B Fl, st = mk B Fl := ⟨_, _, hmk⟩
  have hahead : Fl.length < B.length := hahead
  have hnd : (B.map (·.id)).Nodup := hnd
  have hl1 : B.length ≥ 1 := hl1
  have hl2 : Fl.length ≥ 1 := hl2
  have e3 : ∀ B Fl, (obsOf (mk B Fl)).blocks = B := fun _ _ => rfl
  have e4 : ∀ B Fl, (obsOf (mk B Fl)).filters = Fl := fun _ _ => rfl
  show (importRun F cfg (mk B Fl)).2.st = mk B Fl ∧
    (F.bstart = 0 → endHeight F > Fl.length - 1 → (importRun F cfg (mk B Fl)).1 ≠ none) ∧
    ((importRun F cfg (mk B Fl)).1 = none → preChecks F = none ∧ F.bstart ≤ Fl.length ∧ endHeight F ≤ Fl.length - 1)
  by_cases hreach : endHeight F ≤ Fl.length - 1
  · have hcov := importRun_covered_gen F cfg B Fl hl1 hl2 (by omega)
    refine ⟨hcov.1, fun _ h => absurd h (by omega), fun hn => ?_⟩
    obtain ⟨hp, hc, _⟩ := hcov.2.mp hn
    have := continuity_no_gap F B Fl hl1 hl2 hc
    exact ⟨hp, by omega, hreach⟩
  · have hs : F.bstart = 0 := by
      simp only [f7Shape, Bool.and_eq_false_iff, decide_eq_false_iff_not, e3, e4] at hshape
      rcases hshape with h | h
      · omega
      · omega
    have hun : (importRun F cfg (mk B Fl)).2.st = mk B Fl := by
      by_cases hch : (importRun F cfg (mk B Fl)).2.st = mk B Fl
      · exact hch
      · obtain ⟨_, hc, hv, _⟩ := importRun_written_validated F cfg _ hch
        exact (block_ahead_checks_fail F cfg.bs B Fl hs hl2 hahead hnd (by omega) hc hv).elim
    have hne : (importRun F cfg (mk B Fl)).1 ≠ none := by
      intro hn
      obtain ⟨hp, hc, hv⟩ := importRun_ok_facts F cfg _ hn
      cases hcan : cancelled cfg (2 * valBatches F cfg) with
      | false =>
        rw [validatedBody_full F cfg hcan] at hv
        exact block_ahead_checks_fail F cfg.bs B Fl hs hl2 hahead hnd (by omega) hc hv
      | true =>
        rw [importRun_eq_regions F cfg (mk B Fl) _ _ hp hc hv (bChainTip_mk B Fl hl1) (fChainTip_mk B Fl hl2)] at hn
        refine processRegions_cancelled_err F cfg _ _ _ hcan (Or.inl ?_) hn
        unfold regions
        have h1 : B.length - 1 ≠ Fl.length - 1 := by omega
        have h2 : min (B.length - 1) (Fl.length - 1) + 1 ≤ min (max (B.length - 1) (Fl.length - 1)) (endHeight F) := by
          omega
        simp [h1, h2]
    exact ⟨hun, fun _ _ => hne, fun hn => absurd hn hne⟩

/-- **Failure clause with the block store ahead of the filter store** (outside
the recorded shape, no `EqualHeights`): whatever error `Import` reports, both
stores are exactly as before — usable, filters below blocks, nothing appended. -/
theorem C14_failure_block_ahead_partial (F : File) (cfg : Cfg) (st : Stores) (e : Err) (hh : Healthy st)
    (hahead : st.filters.length < st.blocks.length) (hnd : (st.blocks.map (·.id)).Nodup)
    (hshape : f7Shape (obsOf st) F = false) (_herr : (importStores F cfg st).1 = some e) :
    failureOk (obsOf st) F (obsOf (importStores F cfg st).2) = true ∧ (importStores F cfg st).2 = st := by
  obtain ⟨hl1, hl2⟩ := healthy_len st hh
  have hun := (block_ahead_unchanged F cfg st hh hahead hnd hshape).1
  refine ⟨?_, hun⟩
  rw [hun]
  have hmk := healthy_eq_mk st hh
  obtain ⟨B, Fl, rfl⟩ : ∃ B Fl, st = mk B Fl := ⟨_, _, hmk⟩
  have hahead : Fl.length < B.length := hahead
  have hfc := failContent_unchanged F B Fl hl1 hl2 (Nat.le_of_lt hahead)
  have e3 : (obsOf (mk B Fl)).blocks = B := rfl
  have e4 : (obsOf (mk B Fl)).filters = Fl := rfl
  have hne : (B.length != Fl.length) = true := by
    simp only [bne_iff_ne, ne_eq]; omega
  simp only [failureOk, hfc, chainOk, e3, e4, List.drop_length, List.all_nil, Bool.and_true, Bool.true_and, hne,
    Bool.true_or, Bool.and_self]
  cases connected B <;> rfl

/-- success with the block store ahead (possible only for a file ending at or
below the filter tip): nothing to do, and nothing done -/
theorem C14_success_block_ahead_partial (F : File) (cfg : Cfg) (st : Stores) (hh : Healthy st)
    (hahead : st.filters.length < st.blocks.length) (hnd : (st.blocks.map (·.id)).Nodup)
    (hshape : f7Shape (obsOf st) F = false) (hok : (importStores F cfg st).1 = none) :
    contentOk (obsOf st) F (obsOf (importStores F cfg st).2) = true ∧
    chainOk (obsOf st) (obsOf (importStores F cfg st).2) = true ∧ (importStores F cfg st).2 = st := by
  obtain ⟨hl1, hl2⟩ := healthy_len st hh
  obtain ⟨hun, _, hfacts⟩ := block_ahead_unchanged F cfg st hh hahead hnd hshape
  obtain ⟨hp, hgap, hend⟩ := hfacts hok
  obtain ⟨hmeta, _, hN, _⟩ := preChecks_none F hp
  refine ⟨?_, ?_, hun⟩
  · rw [hun]
    have hmk := healthy_eq_mk st hh
    obtain ⟨B, Fl, rfl⟩ : ∃ B Fl, st = mk B Fl := ⟨_, _, hmk⟩
    have hahead : Fl.length < B.length := hahead
    have hgap : F.bstart ≤ Fl.length := hgap
    have hend : endHeight F ≤ Fl.length - 1 := hend
    have hl1 : B.length ≥ 1 := hl1
    have hl2 : Fl.length ≥ 1 := hl2
    have hu := usable_mk B Fl hl1 hl2
    have e3 : (obsOf (mk B Fl)).blocks = B := rfl
    have e4 : (obsOf (mk B Fl)).filters = Fl := rfl
    have hd1 : F.blocks.drop (B.length - F.bstart) = [] :=
      List.drop_eq_nil_of_le (by unfold endHeight at hend; omega)
    have hd2 : F.filters.drop (Fl.length - F.bstart) = [] :=
      List.drop_eq_nil_of_le (by unfold endHeight at hend; omega)
    have hg1 : F.bstart ≤ B.length := by omega
    simp only [contentOk, hmeta, hu, e3, e4, extend, hd1, hd2, List.append_nil, hgap, hg1, decide_true, Bool.and_self,
      beq_self_eq_true]
  · rw [hun]
    simp only [chainOk, List.drop_length, List.all_nil, Bool.and_true, Bool.or_eq_true, Bool.not_eq_true']
    cases connected (obsOf st).blocks <;> simp

/-- **The always-failing import** (observation): block store ahead, ids distinct,
file from height 0 reaching above the filter tip — `Import` reports an error for
every such file, however honest, every batch size, and changes nothing. -/
theorem C14_block_ahead_always_fails (F : File) (cfg : Cfg) (st : Stores) (hh : Healthy st)
    (hahead : st.filters.length < st.blocks.length) (hnd : (st.blocks.map (·.id)).Nodup)
    (hs : F.bstart = 0) (hreach : endHeight F > st.filters.length - 1) :
    (importStores F cfg st).1 ≠ none ∧ (importStores F cfg st).2 = st := by
  have hshape : f7Shape (obsOf st) F = false := by
    simp only [f7Shape, hs, Nat.lt_irrefl, decide_false, Bool.false_and]
  obtain ⟨hun, hf, _⟩ := block_ahead_unchanged F cfg st hh hahead hnd hshape
  exact ⟨hf hs hreach, hun⟩

/-- The facts regenerated from chainimport/headers_import.go on this run that the
model transcribes: `processBatch` hands `batchStart` — which `appendNewHeaders`
initialises with the target `startHeight` and advances by `batchEnd + 1` — to both
iterators' `ReadBatch` as the start INDEX, with the block iterator's end index and
batch size, while the iterators were created over source INDICES; and
the validators in `Import` run over file indices `0 .. headersCount-1` (the whole
file); `writeHeadersToTargetStores` writes the block store first, then the filter store,
and rolls the block store back by `len(blockHeaders)` in the filter-failure branch.
the default batch size is 65536 and reaches the options the importer keeps;
(A repair of F7 changes the first facts and forces `processBatch` in the model,
and with it `C14_success_counterexample`, to be revisited.) -/
theorem C14_source_facts :
    Gen.Import.blockReadArgs = ["batchStart", "blockIter.GetEndIndex()", "blockIter.GetBatchSize()"] ∧
    Gen.Import.filterReadArgs = ["batchStart", "blockIter.GetEndIndex()", "blockIter.GetBatchSize()"] ∧
    Gen.Import.loopStart = "startHeight" ∧ Gen.Import.loopNext = "batchEnd + 1" ∧
    Gen.Import.iteratorRanges = ["sourceStartIdx,sourceEndIdx", "sourceStartIdx,sourceEndIdx"] ∧
    Gen.Import.writeOrder = ["block.WriteHeaders", "filter.WriteHeaders", "block.RollbackBlockHeaders"] ∧
    Gen.Import.validatedRanges = ["0,metadata.headersCount - 1", "0,metadata.headersCount - 1"] ∧
    Gen.Import.cancelCheckBeforeProcessBatch = true ∧ Gen.Import.validatorsReturnNilOnCancel = true ∧
    Gen.Import.defaultWriteBatchSize = 65536 ∧ Gen.Import.defaultBatchAppliedToKeptOptions = true ∧
    Gen.Import.rollbackInFilterFailure = true ∧
    Gen.Import.rollbackCount = "uint32(len(blockHeaders))" := by decide

/-! Non-vacuity: concrete, non-trivial instances meet the hypotheses and exercise
batching with a non-dividing batch size, the rollback and the overlap path. -/
def exStores : Stores := { blocks := [⟨1, 0, true⟩, ⟨2, 1, true⟩], btip := 1, filters := [1, 2], ftip := some 1 }
def exFile : File :=
  { bstart := 0, fstart := 0,
    blocks := [⟨1, 0, true⟩, ⟨2, 1, true⟩, ⟨3, 2, true⟩, ⟨4, 3, true⟩, ⟨5, 4, true⟩, ⟨6, 5, true⟩, ⟨7, 6, true⟩],
    filters := [1, 2, 3, 4, 5, 6, 7] }

example : Healthy exStores ∧ EqualHeights exStores ∧ f7Shape (obsOf exStores) exFile = false := by decide
-- success with batch size 2 over 5 new headers (2+2+1)
example : importStores exFile { bs := 2 } exStores =
    (none, mk exFile.blocks exFile.filters) := by decide
example : successOk (obsOf exStores) exFile (obsOf (importStores exFile { bs := 2 } exStores).2) = true := by decide
-- the filter write of the second batch fails: block store rolled back, one batch kept in both stores
example : importStores exFile { bs := 2, failF := some 1 } exStores =
    (some .fwrite, mk (exFile.blocks.take 4) (exFile.filters.take 4)) := by decide
example : failureOk (obsOf exStores) exFile (obsOf (importStores exFile { bs := 2, failF := some 1 } exStores).2) = true := by
  decide
-- block store ahead of the filter store, honest file: rejected, stores untouched
example : importStores exFile { bs := 2 } { exStores with filters := [1], ftip := some 0 } =
    (some .conn, { exStores with filters := [1], ftip := some 0 }) := by decide
-- block store ahead, distinct ids: the hypotheses of the block-ahead theorems are met, and the honest file is refused
example : Healthy { exStores with filters := [1], ftip := some 0 } ∧
    (({ exStores with filters := [1], ftip := some 0 } : Stores).blocks.map (·.id)).Nodup ∧
    f7Shape (obsOf { exStores with filters := [1], ftip := some 0 }) exFile = false := by decide
-- the second identical import reports success and changes nothing
example : importStores exFile { bs := 2 } (importStores exFile { bs := 2 } exStores).2 =
    (none, (importStores exFile { bs := 2 } exStores).2) := by decide
-- the validator's walk on the example file, batch size 3 (7 headers: 3+3+1), and on a file with a broken link
example : validateWalk 3 7 none exFile.blocks = true ∧
    validateWalk 3 3 none [⟨1, 0, true⟩, ⟨2, 1, true⟩, ⟨3, 9, true⟩] = false := by decide
-- cancellation: noticed during block-header validation (poll 1 of 4+4), the corrupt rest of the file never validated:
-- the validators let it pass, the write loop stops before its first batch
def exBad : File := { exFile with blocks := [⟨1, 0, true⟩, ⟨2, 1, true⟩, ⟨3, 2, true⟩, ⟨4, 3, true⟩, ⟨5, 9, false⟩, ⟨6, 5, true⟩, ⟨7, 6, true⟩] }
example : importStores exBad { bs := 2 } exStores = (some .invalid, exStores) := by decide
example : importStores exBad { bs := 2, cancelAt := some 1 } exStores = (some .cancel, exStores) := by decide
-- noticed between the second and the third write batch of the honest file: two validated batches stay
example : importStores exFile { bs := 2, cancelAt := some 10 } exStores =
    (some .cancel, mk (exFile.blocks.take 6) (exFile.filters.take 6)) := by decide
-- the recorded shape really is what C14_success_counterexample uses
example : f7Shape (obsOf cexStores) cexFile = true ∧ f7Shape (obsOf cexStores2) cexFile2 = true := by decide

end Neutrino.Import
