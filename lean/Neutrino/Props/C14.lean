/-
C14 — header import leaves the stores equal to the file, or consistent on failure.
-/
import Neutrino.Spec.Import
namespace Neutrino.Import

/-- pre-state: both stores healthy (tip = last entry) -/
def Healthy (st : Stores) : Prop :=
  st.blocks ≠ [] ∧ st.filters ≠ [] ∧ st.btip = st.blocks.length - 1 ∧ st.ftip = some (st.filters.length - 1)

instance (st : Stores) : Decidable (Healthy st) := by unfold Healthy; infer_instance

/-- **Success clause, full statement** (false, see the counterexample). -/
def C14_success : Prop :=
  ∀ (F : File) (cfg : Cfg) (st : Stores), Healthy st → cfg.bs ≥ 1 →
    (importStores F cfg st).1 = none →
    successOk (obsOf st) F (obsOf (importStores F cfg st).2) = true ∧
    (importStores F { bs := cfg.bs } (importStores F cfg st).2).1 = none ∧
    (importStores F { bs := cfg.bs } (importStores F cfg st).2).2 = (importStores F cfg st).2

def cexStores : Stores := { blocks := [⟨1, 0, true⟩, ⟨2, 1, true⟩], btip := 1, filters := [1, 2], ftip := some 1 }
def cexFile : File := { bstart := 2, fstart := 2, blocks := [⟨3, 2, true⟩, ⟨4, 3, true⟩], filters := [3, 4] }

/-- F7: stores at height 1, file = heights 2..3 continuing the store's chain,
batch size 1: the import reports success and writes nothing. -/
theorem C14_success_counterexample : ¬ C14_success := by
  intro h
  have := h cexFile { bs := 1 } cexStores (by decide) (by decide) (by decide)
  exact absurd this.1 (by decide)

end Neutrino.Import
