/-
C07 — the header stores behave as an append/rollback log and survive reopening.
Property theorems only; lemmas live in Neutrino/Lemmas/Store*.lean.
-/
import Neutrino.Lemmas.StoreFault
import Neutrino.Lemmas.IndexBuckets
import Neutrino.Lemmas.StoreReads
import Neutrino.Lemmas.StoreSplit
namespace Neutrino.Store

/-- **Refinement to a plain pair of lists**, for every operation from every
state representing any log (hence, by induction, after every history): the
store returns exactly what the list returns and ends in a state representing
the list's result. -/
theorem C07_refines (d : Durable) (l : Log) (op : Op) (hrep : Rep d l) (hc : Contract l op) (hro : op ≠ .reopen) :
    (exec d op .none).2 = expectOut l op ∧ Rep (exec d op .none).1 (l.apply op) := by
  have h := exec_outcome d l op .none hrep hc trivial hro
  apply h.2
  intro hcr
  obtain ⟨⟨k, t, hk⟩, _⟩ := h.1 hcr
  cases hk

/-- whole histories: any sequence of operations, each under its contract -/
def ContractAll : Log → List Op → Prop
  | _, [] => True
  | l, op :: ops => Contract l op ∧ op ≠ .reopen ∧ ContractAll (l.apply op) ops

def execAll (d : Durable) : List Op → Durable
  | [] => d
  | op :: ops => execAll (exec d op .none).1 ops

def applyAll (l : Log) : List Op → Log
  | [] => l
  | op :: ops => applyAll (l.apply op) ops

theorem C07_refines_history (ops : List Op) (d : Durable) (l : Log) (hrep : Rep d l) (hc : ContractAll l ops) :
    Rep (execAll d ops) (applyAll l ops) := by
  induction ops generalizing d l with
  | nil => exact hrep
  | cons op ops ih =>
    obtain ⟨h1, h2, h3⟩ := hc
    exact ih _ _ (C07_refines d l op hrep h1 h2).2 h3

/-- **Reopening changes nothing.** -/
theorem C07_reopen_id (d : Durable) (l : Log) (hrep : Rep d l) :
    ∃ d', exec d .reopen .none = (d', .ok) ∧ Rep d' l := by
  obtain ⟨d', h1, h2⟩ := reopen_ahead hrep.ahead
  exact ⟨d', by simp [exec, h1], h2⟩

/-- **Lookups on a state representing `l` answer from `l`**: by height, by
hash (index), and the tips; an id that is not in the list is not found. -/
theorem C07_lookups (d : Durable) (l : Log) (hrep : Rep d l) :
    (∀ i, d.bf.get? i = l.blocks[i]?) ∧ (∀ i, d.ff.get? i = l.filters[i]?) ∧
    (∀ id i, d.db.height? id = some i ↔ l.blocks[i]? = some id) ∧
    (∃ tip, l.blocks.getLast? = some tip ∧ btipHeight? d = some (tip, l.blocks.length - 1)) ∧
    (∃ b, ftipHeight? d = some (b, l.filters.length - 1)) ∧
    (∀ id, id ∉ l.blocks → d.db.height? id = none) := by
  refine ⟨fun i => by simp [FileSt.get?, hrep.bents], fun i => by simp [FileSt.get?, hrep.fents],
    fun id i => ⟨hrep.idxOnly id i, hrep.idxPos i id⟩, rep_btipHeight hrep, rep_ftipHeight hrep, ?_⟩
  intro id hni
  cases hh : d.db.height? id with
  | none => rfl
  | some h => exact absurd (List.mem_of_getElem? (hrep.idxOnly id h hh)) hni

/-- **Ancestor ranges and filter lookups by block hash answer from the list.**
`FetchHeaderAncestors(n, hash)` of a stored hash at height `h` returns the
`n + 1` entries of the list ending at `h` (and their start height) when
`n ≤ h`, fails when more ancestors are asked for than exist, and fails for a
hash that is not in the list; the filter store's lookup by block hash returns
the filter entry at the block's height. -/
theorem C07_ancestors (d : Durable) (l : Log) (hrep : Rep d l) (id h n : Nat) (hid : l.blocks[h]? = some id) :
    (n ≤ h → fetchAncestors d n id = some (h - n, (l.blocks.drop (h - n)).take (n + 1))) ∧
    (n > h → fetchAncestors d n id = none) ∧
    fetchFilterByHash d id = l.filters[h]? ∧
    (∀ id', id' ∉ l.blocks → fetchAncestors d n id' = none ∧ fetchFilterByHash d id' = none) := by
  have hh : d.db.height? id = some h := hrep.idxPos h id hid
  have hlt : h < l.blocks.length := by
    have := List.getElem?_eq_some_iff.mp hid; exact this.1
  refine ⟨fun hn => ?_, fun hn => ?_, ?_, fun id' hni => ?_⟩
  · have hnot : ¬ n > h := by omega
    simp only [fetchAncestors, hh, hnot, ↓reduceIte]
    rw [readRange_rep hrep (h - n) h hlt (by omega)]
    have : h - (h - n) + 1 = n + 1 := by omega
    simp [this]
  · simp [fetchAncestors, hh, hn]
  · simp [fetchFilterByHash, hh, FileSt.get?, hrep.fents]
  · have : d.db.height? id' = none := (C07_lookups d l hrep).2.2.2.2.2 id' hni
    simp [fetchAncestors, fetchFilterByHash, this]

/-- **The block locator is the list's**: it starts at the tip, names entries of
the list at strictly decreasing heights (one step back for the first ten,
doubling afterwards), and ends at genesis unless it is cut at the 500 entries a
`getheaders` message can carry. -/
theorem C07_locator (d : Durable) (l : Log) (hrep : Rep d l) :
    let hs := locatorHeights (l.blocks.length - 1)
    locator d = some (hs.filterMap (fun i => l.blocks[i]?)) ∧
    hs.head? = some (l.blocks.length - 1) ∧ List.Pairwise (· > ·) hs ∧
    (hs.getLast? = some 0 ∨ 500 ≤ hs.length) := by
  intro hs
  obtain ⟨tip, _, hbt⟩ := rep_btipHeight hrep
  refine ⟨?_, locatorHeights_head _, locatorHeights_desc _, locatorHeights_last _⟩
  simp only [locator, hbt]
  have hget : d.bf.get? = (fun i => l.blocks[i]?) := by
    funext i; simp [FileSt.get?, hrep.bents]
  rw [hget]
  apply mapM_get_of_le
  intro x hx
  have := locatorHeights_le _ x hx
  have hne := len_pred_succ hrep.neB
  omega

/-- what `C07_ancestors` and `C07_locator` rely on in headerfs/store.go (regenerated
on every run; `wire.MaxBlockLocatorsPerMsg` = 500 is btcd's constant, trusted) -/
theorem C07_reads_source_shape :
    Gen.Store.ancestorsRangeEndsAtHash = true ∧ Gen.Store.locatorStepsBackDoubling = true := by decide

/-- **Rolled-back entries are no longer found.** -/
theorem C07_rolled_back_not_found (d : Durable) (l : Log) (n : Nat) (hrep : Rep d l)
    (hc : Contract l (.rb n)) (id : Nat) (hid : id ∈ l.blocks.drop (l.blocks.length - n)) :
    (exec d (.rb n) .none).1.db.height? id = none := by
  have h := (C07_refines d l (.rb n) hrep hc (by simp)).2
  apply (C07_lookups _ _ h).2.2.2.2.2
  simp only [Log.apply]
  intro hm
  have hnd : (l.blocks.take (l.blocks.length - n) ++ l.blocks.drop (l.blocks.length - n)).Nodup := by
    rw [List.take_append_drop]; exact hrep.nodup
  exact (List.nodup_append.mp hnd).2.2 id hm id hid rfl

/-- **A refused rollback leaves the store as it was**: past genesis for the
block store, at height 0 for the filter store. -/
theorem C07_refused (d : Durable) (l : Log) (hrep : Rep d l) :
    (∀ n, l.blocks.length ≤ n → exec d (.rb n) .none = (d, .err)) ∧
    (l.filters.length = 1 → exec d .rf .none = (d, .err)) := by
  obtain ⟨tip, htip, hbt⟩ := rep_btipHeight hrep
  obtain ⟨b, hft⟩ := rep_ftipHeight hrep
  have h0 : 0 < l.blocks.length := List.length_pos_iff.mpr hrep.neB
  constructor
  · intro n hn
    have hn0 : n ≠ 0 := by omega
    have : n > l.blocks.length - 1 := by omega
    simp [exec, rollbackBlocks, hn0, hbt, this, R.fin]
  · intro h1
    simp [exec, hft, h1]

/-- **An append that reports failure leaves the store as it was**, for every
single injected I/O fault (short write of any length, write error, index-commit
error, truncate error, at any step); an append the fault does not reach
succeeds as specified.  (Block-header store; `C07_failed_filter_append_unchanged`
is the same statement for the filter-header store.) -/
theorem C07_failed_append_unchanged (d : Durable) (l : Log) (ids : List Nat) (k : FaultKind) (fs a : Nat)
    (hrep : Rep d l) (hc : Contract l (.wb ids)) :
    let r := exec d (.wb ids) (.fault k fs a)
    (r.2 = .err ∧ r.1 = d) ∨ (r.2 = .ok ∧ Rep r.1 (l.apply (.wb ids))) := by
  obtain ⟨tip, htip, hbt⟩ := rep_btipHeight hrep
  have hlenB := len_pred_succ hrep.neB
  have := writeBlocks_fault d l ids k fs a hrep hc.1 hc.2
  simpa [exec, hbt, hlenB, Log.apply] using this

theorem C07_failed_filter_append_unchanged (d : Durable) (l : Log) (fids : List Nat) (k : FaultKind) (fs a : Nat)
    (hrep : Rep d l) (hc : Contract l (.wf fids)) :
    let r := exec d (.wf fids) (.fault k fs a)
    (r.2 = .err ∧ r.1 = d) ∨ (r.2 = .ok ∧ Rep r.1 (l.apply (.wf fids))) := by
  obtain ⟨b, hft⟩ := rep_ftipHeight hrep
  have hroom : l.filters.length + fids.length ≤ l.blocks.length := hc
  by_cases he : fids.isEmpty = true
  · have : fids = [] := by simpa using he
    subst this
    have := writeFilters_fault d l [] 0 k fs a hrep hroom (fun h => absurd rfl h)
    simpa [exec, hft, Log.apply] using this
  · have hne : fids ≠ [] := by intro hc'; subst hc'; simp at he
    have hpos : 0 < fids.length := List.length_pos_iff.mpr hne
    have h0 : 0 < l.filters.length := List.length_pos_iff.mpr hrep.neF
    obtain ⟨last, hlast⟩ : ∃ x, l.blocks[l.filters.length - 1 + fids.length]? = some x :=
      ⟨_, List.getElem?_eq_getElem (by omega)⟩
    have hg : d.bf.get? (l.filters.length - 1 + fids.length) = some last := by
      simp [FileSt.get?, hrep.bents, hlast]
    have := writeFilters_fault d l fids last k fs a hrep hroom (fun _ => hlast)
    simpa [exec, hft, he, hg, Log.apply] using this

/-- **The two-place bbolt layout of the index is invisible.**  The model's
index `Db` is a plain map; the code keeps an entry either directly in the root
bucket (databases written by older versions) or in a sub-bucket named by the
hash prefix (every new entry), pre-creating all sub-buckets at open.  For every
split of the entries over the two places in which no hash is stored twice, and
every naming of buckets `pre`: opening creates the missing buckets without
changing any answer; `addHeaders`' loop cannot fail on a missing bucket and
writes what `Db.addHeaders` writes (for hashes the root bucket does not hold —
the callers never append a hash that is already stored); `deleteHeaderEntries`
of indexed hashes succeeds and removes what `Db.delAll` removes, wherever each
hash was kept; all of this preserves "no hash stored twice" and "every bucket
exists".  Hence every theorem about `Db` holds of the code's layout, legacy
entries included. -/
theorem C07_index_layout (pre : Nat → Nat) (b : Buckets) (db : Db)
    (hd : b.Disjoint pre) (hr : b.Refines pre db) :
    (b.ensure.Ready ∧ b.ensure.Disjoint pre ∧ b.ensure.Refines pre db) ∧
    (b.Ready → ∀ ids s, (∀ id ∈ ids, b.root id = none) →
        ∃ b', Buckets.addAll pre b ids s = some b' ∧ b'.Ready ∧ b'.Disjoint pre ∧
          b'.Refines pre (Db.addHeaders.go db ids s)) ∧
    (∀ ids, (∀ id ∈ ids, db.height? id ≠ none) →
        ∃ b', b.delEntries pre ids = some b' ∧ (b.Ready → b'.Ready) ∧ b'.Disjoint pre ∧
          b'.Refines pre (db.delAll ids)) := by
  refine ⟨⟨Buckets.ready_ensure b, Buckets.disjoint_ensure pre b hd, fun id => ?_⟩, ?_, ?_⟩
  · rw [Buckets.get_ensure]; exact hr id
  · intro hready ids s hroot
    obtain ⟨h1, h2⟩ := Buckets.addAll_ready pre ids b s hready
    obtain ⟨h3, h4⟩ := Buckets.refines_putAll pre ids b db s hd hr hroot
    exact ⟨_, h1, h2, h3, h4⟩
  · intro ids hall
    obtain ⟨b', hb', hd', hr'⟩ := Buckets.refines_delAll pre b db ids hd hr hall
    exact ⟨b', hb', fun hready => Buckets.ready_delEntries pre b b' ids hready hb', hd', hr'⟩

/-- the side condition is needed, and says what it seems to: a hash kept in both
places survives its own deletion (the root copy goes, the sub-bucket copy
answers the next lookup).  Unreachable: new entries only go to sub-buckets, and
no caller appends a hash that is still stored. -/
theorem C07_index_layout_needs_disjoint :
    let b : Buckets := { root := fun j => if j = 1 then some 5 else none,
                         sub := fun _ => some (fun j => if j = 1 then some 7 else none) }
    ((b.delEntries (fun _ => 0) [1]).map (fun b' => b'.get (fun _ => 0) 1)) = some (some 7) := by
  decide

/-- **What `C07_index_layout` relies on in headerfs/index.go** (regenerated from
the working tree on every run): `getHeaderEntry` reads the sub-bucket and falls
back to the root bucket both when the bucket and when the key is missing;
`addHeaders` writes entries only through `putHeaderEntryInBucket` into the
bucket named by the hash prefix and puts nothing but the tip key into the root
bucket; `deleteHeaderEntries` deletes from the root bucket exactly the hashes
it finds there and the others from their sub-buckets, failing on a missing
bucket; `newHeaderIndex` runs `ensureIndexSubBuckets`, which creates every
two-byte prefix. -/
theorem C07_index_source_shape :
    Gen.Store.indexGetSubThenRoot = true ∧ Gen.Store.indexFallbackReadsRoot = true ∧
    Gen.Store.indexAddIntoSubBucket = true ∧ Gen.Store.indexPutKeyIsHash = true ∧
    Gen.Store.indexDeleteRootElseSub = true ∧ Gen.Store.indexOpenEnsuresSubBuckets = true ∧
    Gen.Store.indexEnsureAllPrefixes = true := by decide

/-! ### Bulk appends: the index write of one batch is ONE transaction -/

/-- **Failed bulk append, as the code writes the index** (one transaction for
the whole batch and the tip, fact `indexAddOneTransaction`): `WriteHeaders`
over the single-chunk split is all or nothing for every injected fault — a
batch of any size. -/
theorem C07_single_tx_append_unchanged (d : Durable) (l : Log) (ids : List Nat) (k : FaultKind) (fs a : Nat)
    (hrep : Rep d l) (hc : Contract l (.wb ids)) :
    let r := R.fin (writeBlocksSplit ids [stamped ids l.blocks.length] { d := d, inj := .fault k fs a })
    (r.2 = .err ∧ r.1 = d) ∨ (r.2 = .ok ∧ Rep r.1 (l.apply (.wb ids))) := by
  obtain ⟨tip, htip, hbt⟩ := rep_btipHeight hrep
  have hlenB := len_pred_succ hrep.neB
  have := C07_failed_append_unchanged d l ids k fs a hrep hc
  rw [writeBlocksSplit_single]
  simpa [exec, hbt, hlenB] using this

/-- **Every split writes the same on success**: with nothing injected, the
transactions of any split of the batch leave the index exactly as the single
transaction does — cutting the write up is invisible until something fails. -/
theorem C07_split_success_same (tip : Option Nat) (chunks : List (List (Nat × Nat))) (d : Durable) (st : Nat)
    (hne : chunks ≠ []) :
    ∃ n m, indexTxs tip chunks ⟨d, st, .none⟩ = R.ok true
        ⟨{ d with db := { (d.db.putAll chunks.flatten) with btip := tip.orElse (fun _ => d.db.btip) } }, st + n, .none⟩ ∧
      indexTxs tip [chunks.flatten] ⟨d, st, .none⟩ = R.ok true
        ⟨{ d with db := { (d.db.putAll chunks.flatten) with btip := tip.orElse (fun _ => d.db.btip) } }, st + m, .none⟩ := by
  obtain ⟨n, hn⟩ := indexTxs_none tip chunks d st hne
  obtain ⟨m, hm⟩ := indexTxs_none tip [chunks.flatten] d st (by simp)
  refine ⟨n, m, hn, ?_⟩
  simpa using hm

/-- **…but a split index write is not all-or-nothing**, even with the tip moved
by the last transaction only: two transactions, the second one fails — the
append reports the failure, the flat file is cut back and the tip has not
moved, yet the hash of a header that was never appended resolves to a height
beyond the tip (and the filter store, which shares the index, resolves it too).
The failed append has left the store changed. -/
theorem C07_split_append_counterexample :
    let r := R.fin (writeBlocksSplit [1, 2] [[(1, 1)], [(2, 2)]] { d := init, inj := .fault .dberr 2 0 })
    r.2 = .err ∧ r.1 ≠ init ∧ r.1.bf = init.bf ∧ r.1.db.btip = init.db.btip ∧
    r.1.db.height? 1 = some 1 ∧ abs r.1 = none := by decide

/-- what the two theorems above rely on in headerfs/index.go (regenerated on every run) -/
theorem C07_bulk_source_shape : Gen.Store.indexAddOneTransaction = true := by decide

/-! ### Range reads against a file shorter than the index says -/

/-- **A range that is not entirely in the file is an error — for every length**:
whatever the start, a range whose end lies beyond the last whole entry yields
no headers at all (never the part that exists, never zero-filled entries). -/
theorem C07_short_file_read_fails (f : FileSt) (lo hi : Nat) (h : f.ents.length ≤ hi) :
    readRange f lo hi = none := by
  unfold readRange
  by_cases hc : f.corrupt = true
  · simp only [hc, ↓reduceIte]
  · have : ¬ (hi < f.ents.length ∧ lo ≤ hi) := by omega
    simp only [hc, this, ↓reduceIte, Bool.false_eq_true]

/-- **The filter store's ancestor ranges answer from the list or fail**: the
height of the stop hash comes from the shared block index, so with the block
store ahead a stop hash above the filter tip names a range the filter file
does not hold; then — whether the range starts below, at or above the filter
tip — the call fails; inside the file it returns the list's entries. -/
theorem C07_filter_ancestors (d : Durable) (l : Log) (hrep : Rep d l) (id h n : Nat) (hid : l.blocks[h]? = some id) :
    (n ≤ h → h < l.filters.length →
      fetchFilterAncestors d n id = some (h - n, (l.filters.drop (h - n)).take (n + 1))) ∧
    (l.filters.length ≤ h → fetchFilterAncestors d n id = none) ∧
    (n > h → fetchFilterAncestors d n id = none) := by
  have hh : d.db.height? id = some h := hrep.idxPos h id hid
  refine ⟨fun hn hlt => ?_, fun hge => ?_, fun hn => ?_⟩
  · have hnot : ¬ n > h := by omega
    have hle : h - n ≤ h := by omega
    have e : h - (h - n) + 1 = n + 1 := by omega
    simp [fetchFilterAncestors, hh, hnot, readRange, hrep.fents, hlt, hle, e]
  · have hs : readRange d.ff (h - n) h = none :=
      C07_short_file_read_fails d.ff (h - n) h (by simp [hrep.fents, hge])
    by_cases hn : n > h
    · simp [fetchFilterAncestors, hh, hn]
    · simp [fetchFilterAncestors, hh, hn, hs]
  · simp [fetchFilterAncestors, hh, hn]

/-! Non-vacuity. -/
/-- a database written by an older version (entry 1 in the root bucket), extended by this one (entry 2) -/
example :
    let b : Buckets := { root := fun j => if j = 1 then some 1 else none,
                         sub := fun p => if p = 0 then some (fun j => if j = 2 then some 2 else none) else none }
    (b.get (fun j => j % 2) 1, b.get (fun j => j % 2) 2, b.get (fun j => j % 2) 3,
     (b.delEntries (fun j => j % 2) [1, 2]).map (fun b' => (b'.get (fun j => j % 2) 1, b'.get (fun j => j % 2) 2)),
     (b.delEntries (fun j => j % 2) [3]).isSome) =
    (some 1, some 2, none, some (none, none), false) := by rfl
example : locatorHeights 40 = [40, 39, 38, 37, 36, 35, 34, 33, 32, 31, 30, 28, 24, 16, 0] := by decide
example : fetchAncestors (exec init (.wb [1, 2, 3]) .none).1 2 3 = some (1, [1, 2, 3]) := by decide
example : ContractAll Log.init [.wb [1, 2, 3], .wf [1, 2], .rb 1, .rf, .rollto 1] := by
  simp [ContractAll, Contract, Log.init, Log.apply]
example : (exec init (.wb [1, 2]) (.fault .shortwrite 0 100)).2 = .err := by decide
example : (exec init (.wb [1, 2]) (.fault .shortwrite 0 100)).1 = init := by decide
example : (exec init (.wb [1, 2]) (.fault .dberr 1 0)) = (init, .err) := by decide
/-- block store at height 3, filter store at 1: a range straddling the filter tip fails, one inside the file answers -/
example :
    let d := (exec (exec init (.wb [1, 2, 3]) .none).1 (.wf [1]) .none).1
    (fetchFilterAncestors d 2 3, fetchFilterAncestors d 1 3, fetchFilterAncestors d 1 1) = (none, none, some (0, [0, 1])) := by
  decide
example : (R.fin (writeBlocksSplit [1, 2] [stamped [1, 2] 1] { d := init, inj := .fault .dberr 1 0 })) = (init, .err) := by decide

end Neutrino.Store
