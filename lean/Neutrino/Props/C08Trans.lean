/-
C08 - the start-up reconciliation arithmetic in terms of the functions the CODE defines
(`trimPartialHeader`, `resetInterruptedInit`; translated from headerfs/store.go on every run,
Gen/TransStore.lean): what `C08_recover` / `C08_first_init` assume of a start (a torn tail is cut back
to whole entries; an interrupted first initialisation starts over) is what the code computes.
-/
import Neutrino.Props.C08
import Neutrino.Lemmas.TransStore
namespace Neutrino.Store
open Neutrino.Gen.TransStore Neutrino.GoInt

/-- **`trimPartialHeader`**: a file of `n` whole entries plus `junk < z` torn bytes is truncated to
exactly `n * z` bytes, and left alone when there is no torn tail. -/
theorem C08_trans_trimPartialHeader (size : Atom → Int) (fi : Atom) (trunc : Int → Bool) (n junk z : Nat)
    (hz : junk < z) (hsize : size fi = ((n * z + junk : Nat) : Int)) :
    trimPartialHeader size (fi, false) trunc ((z : Int), false)
      = (if junk = 0 then false else trunc ((n * z : Nat) : Int)) :=
  trans_trimPartialHeader size fi trunc n junk z hz hsize

theorem C08_trans_trimPartialHeader_err (size : Atom → Int) (st : Atom × Bool) (trunc : Int → Bool) (sz : Int × Bool)
    (h : st.2 = true ∨ sz.2 = true) : trimPartialHeader size st trunc sz = true :=
  trans_trimPartialHeader_err size st trunc sz h

/-- **`resetInterruptedInit`**: the file is emptied exactly when it holds one entry and the index has
no chain tip; otherwise nothing is touched. -/
theorem C08_trans_resetInterruptedInit (fileSize : Int) (trunc : Int → Bool) (hasTip : Bool) (z : Int) :
    resetInterruptedInit fileSize trunc (hasTip, false) (z, false)
      = (if fileSize = z ∧ hasTip = false then (0, trunc 0) else (fileSize, false)) :=
  trans_resetInterruptedInit fileSize trunc hasTip z

example : (17 : Nat) < 80 ∧ ((fun (_ : Atom) => (257 : Int)) 0 = ((3 * 80 + 17 : Nat) : Int)) := by decide
example : trimPartialHeader (fun _ => 257) (0, false) (fun n => decide (n ≠ 240)) (80, false) = false := by decide
example : resetInterruptedInit 80 (fun _ => false) (false, false) (80, false) = (0, false) := by decide
example : resetInterruptedInit 160 (fun _ => true) (false, false) (80, false) = (160, false) := by decide

end Neutrino.Store
