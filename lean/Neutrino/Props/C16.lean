/-
C16 — cache never exceeds capacity and stays one consistent map under
concurrency.  Property theorems only; lemmas live in Neutrino/Lemmas.
-/
import Neutrino.Lemmas.LruRefine
import Neutrino.Model.LockObj
import Neutrino.Gen.Lru
import Neutrino.Lemmas.LruOracle
import Neutrino.Lemmas.LruArith
namespace Neutrino.Lru

/-- outputs of a whole operation sequence -/
def outs (s : State) : List Op → List Out
  | [] => []
  | o :: os => (step s o).2 :: outs (step s o).1 os

def Spec.outs (sp : Spec) : List Op → List Out
  | [] => []
  | o :: os => (sp.step o).2 :: Spec.outs (sp.step o).1 os

/-- **Every reachable state** (any capacity below 2^64, any operation sequence
including values whose size stops being computable): the byte counter equals the
total size of the resident entries, never exceeds the capacity, index and
recency list hold exactly the same entries, one per key, and the mutex is free
(so the cache is usable after every call, failed or not). -/
theorem C16_state_invariant (cap : Nat) (hcap : cap < two64) (ops : List Op) :
    let s := run { cap := cap } ops
    s.size ≤ cap ∧ s.size = total s.ll ∧ s.locked = false ∧
    (∀ k e, (k, e) ∈ s.idx ↔ (e ∈ s.ll ∧ e.key = k)) ∧
    (s.ll.map (·.key)).Nodup ∧ (s.idx.map (·.1)).Nodup := by
  intro s
  have h : Inv s := inv_run _ ops (inv_init cap hcap)
  have hc : s.cap = cap := run_cap _ _
  exact ⟨hc ▸ h.linv.sizeLe, h.linv.sizeEq, h.unlocked, h.linv.idxIff, h.linv.nodupLL, h.linv.nodupIx⟩

/-- **Refinement**: on every operation sequence the implementation model
(index + list + counter) returns exactly what the plain recency-ordered
association list `Spec` returns, and ends in the same abstract state. -/
theorem C16_refines_spec (cap : Nat) (hcap : cap < two64) (ops : List Op) :
    outs { cap := cap } ops = Spec.outs { cap := cap } ops ∧
    abs (run { cap := cap } ops) = Spec.run { cap := cap } ops := by
  have key : ∀ (s : State), Inv s → outs s ops = Spec.outs (abs s) ops := by
    induction ops with
    | nil => intro s _; rfl
    | cons o os ih =>
      intro s h
      simp only [outs, Spec.outs]
      rw [(refines s o h).1, ih _ (inv_step s o h), (refines s o h).2]
  exact ⟨key _ (inv_init cap hcap), refines_run _ ops (inv_init cap hcap)⟩

theorem Spec.evict_is_drop (cap : Nat) (bad : List Nat) (needed : Nat) (ll : List Entry) (ev : Bool) :
    ∃ n, (Spec.evict cap bad needed ll ev).1 = ll.drop n := by
  induction ll generalizing ev with
  | nil => exact ⟨0, by simp [Spec.evict]⟩
  | cons b rest ih =>
    simp only [Spec.evict]
    split
    · split
      · exact ⟨0, rfl⟩
      · obtain ⟨n, hn⟩ := ih true
        exact ⟨n + 1, by simpa using hn⟩
    · exact ⟨0, rfl⟩

/-- **Least-recently-used first**: a successful `put` keeps a most-recent
suffix of the other entries (it drops only an oldest prefix) and makes the new
entry the most recent one. -/
theorem C16_lru_order (sp : Spec) (k vid sz : Nat) (ev : Bool)
    (h : (sp.step (.put k vid sz)).2 = .okPut ev) :
    ∃ n, (sp.step (.put k vid sz)).1.items =
      ((match sp.find k with | some el => sp.items.erase el | none => sp.items).drop n) ++ [⟨k, vid, sz⟩] := by
  simp only [Spec.step] at h ⊢
  split at h <;> try (simp at h)
  split at h <;> try (simp at h)
  rename_i hb hc
  simp only [hb, hc, ↓reduceIte]
  cases hf : sp.find k with
  | none =>
    simp only [hf] at h ⊢
    obtain ⟨n, hn⟩ := Spec.evict_is_drop sp.cap sp.bad sz sp.items false
    generalize Spec.evict sp.cap sp.bad sz sp.items false = r at h hn ⊢
    obtain ⟨a, b, c⟩ := r
    cases c <;> simp at h ⊢
    exact ⟨n, hn⟩
  | some el =>
    simp only [hf] at h ⊢
    split at h <;> try (simp at h)
    rename_i hbe
    simp only [hbe, ↓reduceIte]
    obtain ⟨n, hn⟩ := Spec.evict_is_drop sp.cap sp.bad sz (sp.items.erase el) false
    generalize Spec.evict sp.cap sp.bad sz (sp.items.erase el) false = r at h hn ⊢
    obtain ⟨a, b, c⟩ := r
    cases c <;> simp at h ⊢
    exact ⟨n, hn⟩

/-- **Lookup returns the value most recently stored**: right after a
successful `put k v`, `get k` returns `v` (in every reachable state). -/
theorem C16_get_after_put (s : State) (h : Inv s) (k vid sz : Nat) (ev : Bool)
    (hp : (step s (.put k vid sz)).2 = .okPut ev) :
    (step (step s (.put k vid sz)).1 (.get k)).2 = .val vid := by
  have h' := inv_step s (.put k vid sz) h
  have hr := refines s (.put k vid sz) h
  have hg := refines _ (.get k) h'
  rw [hg.1, hr.2]
  rw [hr.1] at hp
  obtain ⟨n, hn⟩ := C16_lru_order (abs s) k vid sz ev hp
  have hnd : (((abs s).step (.put k vid sz)).1.items.map (·.key)).Nodup := by
    rw [← hr.2]; exact h'.linv.nodupLL
  have hmem : (⟨k, vid, sz⟩ : Entry) ∈ ((abs s).step (.put k vid sz)).1.items := by
    rw [hn]; simp
  have hfind := find_key_of_mem hnd hmem
  generalize ((abs s).step (.put k vid sz)).1 = sp' at hfind
  simp only [Spec.step, Spec.find]
  simp only at hfind
  rw [hfind]

/-- **A deleted entry is gone**: after a successful delete of `k`, `get k`
finds nothing. -/
theorem C16_get_after_del (s : State) (h : Inv s) (k v : Nat)
    (hd : (step s (.del k)).2 = .val v) :
    (step (step s (.del k)).1 (.get k)).2 = .notFound := by
  have h' := inv_step s (.del k) h
  have hr := refines s (.del k) h
  have hg := refines _ (.get k) h'
  rw [hg.1, hr.2]
  rw [hr.1] at hd
  have hnd : ((abs s).items.map (·.key)).Nodup := h.linv.nodupLL
  generalize abs s = sp at hd hnd
  simp only [Spec.step] at hd
  cases hf : sp.find k with
  | none => simp [hf] at hd
  | some el =>
    simp only [hf] at hd
    by_cases hb : el.vid ∈ sp.bad
    · simp [hb] at hd
    · have hkey : el.key = k := by
        have := List.find?_some hf
        simpa using this
      have hmem : el ∈ sp.items := List.mem_of_find?_eq_some hf
      have hnone : (sp.items.erase el).find? (·.key == k) = none := by
        apply List.find?_eq_none.mpr
        intro e he hk
        simp at hk
        have hne : e ≠ el := by
          intro heq; subst heq
          exact (List.Nodup.not_mem_erase (nodup_of_nodup_map _ hnd)) he
        have he' : e ∈ sp.items := List.mem_of_mem_erase he
        have := find_key_of_mem hnd he'
        rw [hk] at this
        have hf' : List.find? (fun x => x.key == k) sp.items = some el := hf
        rw [hf'] at this
        exact hne (Option.some.inj this).symm
      have hf' : List.find? (fun x => x.key == k) sp.items = some el := hf
      simp only [Spec.step, Spec.find, hf', hb, ↓reduceIte, hnone]

/-- **The driver's step oracle is sound.**  The clauses the driver evaluates on
the implementation's own observations around every sequential operation
(`obsClause`: a lookup returns the value most recently stored and only refreshes
it; a stored entry becomes the most recent one and only the key's old entry and
a tail of least-recently-used entries go; a delete removes exactly its key; a
failing operation changes nothing) accept every step of the abstract cache from
every reachable state — so, by `C16_refines_spec`, an `ORACLE-FAIL` with one of
their shapes is behaviour the proved cache cannot show. -/
theorem C16_oracle_sound (cap : Nat) (hcap : cap < two64) (ops : List Op) (op : Op) :
    let sp := Spec.run { cap := cap } ops
    obsClause sp.bad op (sp.step op).2 (dumpOfSpec sp) (dumpOfSpec (sp.step op).1) = none := by
  intro sp
  have hnd : (sp.items.map (·.key)).Nodup := by
    have h := (C16_state_invariant cap hcap ops).2.2.2.2.1
    have e := (C16_refines_spec cap hcap ops).2
    have : sp.items = (run { cap := cap } ops).ll := by
      show (Spec.run { cap := cap } ops).items = _
      rw [← e]; rfl
    rw [this]; exact h
  exact obsClause_sound sp op hnd

/-- the clauses are not vacuous: they reject an entry lost by a failing `Put`, an
eviction that skips the least recently used entry, and a lookup that misses a
resident key -/
example : obsClause [] (.put 4 9 11) .err
    ⟨6, 2, [⟨4, 3, 2⟩, ⟨1, 2, 4⟩], [1, 4], true⟩ ⟨4, 1, [⟨1, 2, 4⟩], [1], true⟩ = some "failed-put-changed-cache" := by decide
example : obsClause [] (.put 7 9 3) (.okPut true)
    ⟨6, 2, [⟨4, 3, 2⟩, ⟨1, 2, 4⟩], [1, 4], true⟩ ⟨7, 2, [⟨7, 9, 3⟩, ⟨1, 2, 4⟩], [1, 7], true⟩ = some "evicted-not-lru" := by decide
example : obsClause [] (.get 1) .notFound
    ⟨6, 2, [⟨4, 3, 2⟩, ⟨1, 2, 4⟩], [1, 4], true⟩ ⟨6, 2, [⟨4, 3, 2⟩, ⟨1, 2, 4⟩], [1, 4], true⟩ = some "lookup-lost" := by decide


/-- `dumpShape` names a violated clause exactly when `dumpOk` fails (the report's `shape=`
is never "ok" on a failure and never anything else on a pass) -/
theorem C16_dump_shape (cap : Nat) (d : Dump) : dumpOk cap d = true ↔ dumpShape cap d = "ok" := by
  unfold dumpOk dumpShape
  by_cases h1 : total d.filo > cap
  · have : ¬ (d.size ≤ cap ∧ d.size = total d.filo) := by omega
    simp only [h1, ↓reduceIte, Bool.and_eq_true, decide_eq_true_eq, beq_iff_eq]
    constructor
    · intro h; exact absurd ⟨h.1.1.1.1.1, h.1.1.1.1.2⟩ this
    · intro h; exact absurd h (by decide)
  · simp only [h1, ↓reduceIte]
    by_cases h2 : d.size = total d.filo
    · have hle : total d.filo ≤ cap := by omega
      by_cases h3 : d.len = d.filo.length
      · by_cases h4 : nodupKeys (d.filo.map (·.key)) = true
        · by_cases h5 : d.keys = sortNat (d.filo.map (·.key))
          · cases h6 : d.rev <;> simp [h2, hle, h3, h4, h5, h1]
          · simp [h2, hle, h3, h4, h5, h1]
        · simp [h2, hle, h3, h4, h1]
      · simp [h2, hle, h3, h1]
    · simp [h2, h1]

/-- the state the round-g seed reached (two entries of 2^63-1 and 2^63+5 resident in a cache of
capacity 2^63+1, `Size()` = 4) is rejected, and named -/
example : dumpOk 9223372036854775809 ⟨4, 2, [⟨1, 10, 9223372036854775807⟩, ⟨0, 9, 9223372036854775813⟩], [0, 1], true⟩ = false ∧
    dumpShape 9223372036854775809 ⟨4, 2, [⟨1, 10, 9223372036854775807⟩, ⟨0, 9, 9223372036854775813⟩], [0, 1], true⟩
      = "resident-total-exceeds-capacity" := by decide

/-! ## The counter arithmetic never wraps -/

/-- **No overflow.**  For every capacity below 2^64 and every operation sequence from
the empty cache — entries of ANY size, sizes at and beyond the capacity and at the top
of the `uint64` range included — every `uint64` operation the Go code performs in
`Put`, `evict` and `LoadAndDelete` (`runArith`: each evaluation of the loop condition's
`c.capacity - c.size`, each `c.size -= es`, `c.size += vs`, and the error path's
`needed - (c.capacity - c.size)`, with the operands they have at that moment) has
operands and exact result in `[0, 2^64)`: the machine word never wraps, so the model's
exact `Nat` arithmetic IS the code's arithmetic.  (No hypothesis on the entry sizes is
needed: a size above the capacity is refused by a comparison before any arithmetic.) -/
theorem C16_no_overflow (cap : Nat) (hcap : cap < two64) (ops : List Op) :
    ∀ x ∈ runArith { cap := cap } ops, x.exact = true :=
  runArith_exact _ (inv_init cap hcap) ops

/-- the list is not empty or trivial: near the top of the range it contains operands above
2^63, sums that reach the capacity 2^64-1 exactly, and the arithmetic of an eviction -/
example : runArith { cap := 18446744073709551615 }
      [.put 1 1 9223372036854775808, .put 2 2 9223372036854775807, .put 3 3 9223372036854775808, .del 2] =
    [.sub 18446744073709551615 0, .add 0 9223372036854775808,
     .sub 18446744073709551615 9223372036854775808, .add 9223372036854775808 9223372036854775807,
     .sub 18446744073709551615 18446744073709551615, .sub 18446744073709551615 9223372036854775808,
     .sub 18446744073709551615 9223372036854775807, .add 9223372036854775807 9223372036854775808,
     .sub 18446744073709551615 9223372036854775807] := by decide

/-- **The eviction loop's condition, with the machine word's wrap-around.**  The
condition found in the source on this run (`Gen.Lru.evictCond`, translated from the
`for` statement of `evict` as an expression over `uint64`, `+`/`-` wrapping at 2^64)
holds exactly when the free space `capacity - size` is smaller than what is needed — the
condition of the model's `evictLoop` — for ALL word values the invariant allows
(`size ≤ capacity < 2^64`, `needed ≤ capacity`: the state invariant and `evict`'s
up-front check). -/
theorem C16_evict_condition (cap size needed : Nat) (hcap : cap < two64)
    (hs : size ≤ cap) (hn : needed ≤ cap) :
    Gen.Lru.evictCond.holds cap size needed ↔ sub64 cap size < needed := by
  unfold Gen.Lru.evictCond
  -- written for whichever equivalent form the source uses: unfold the expression, then the
  -- wrap-around operations, split their cases, linear arithmetic
  simp only [CmpExpr.holds, U64Expr.eval, gt_iff_lt, ge_iff_le]
  simp only [wadd, wsub, sub64, two64] at *
  repeat' split
  all_goals omega

/-- the "more readable" `size + needed > capacity` is NOT that condition: above 2^63 the
sum wraps and the loop does not evict although the entry does not fit (here: free space
2^63-1, needed 2^63, wrapped sum 0); the sum is an operation `C16_no_overflow` could not
have covered -/
theorem C16_evict_condition_counterexample :
    ¬ (CmpExpr.gt (.add .size .needed) .cap).holds 18446744073709551615 9223372036854775808 9223372036854775808 ∧
    sub64 18446744073709551615 9223372036854775808 < 9223372036854775808 ∧
    (Arith.add 9223372036854775808 9223372036854775808).exact = false := by decide

/-- the hypotheses of `C16_evict_condition` are met, with the condition true, at the top of the range -/
example : ∃ cap size needed, cap < two64 ∧ size ≤ cap ∧ needed ≤ cap ∧ 0 < size ∧
    Gen.Lru.evictCond.holds cap size needed :=
  ⟨18446744073709551615, 9223372036854775808, 9223372036854775808, by decide, by decide, by decide, by decide, by decide⟩

/-- The facts regenerated from cache/lru/lru.go on this run: every access to
the index, the list and the counter in Put/Get/LoadAndDelete/Len/Size lies
inside the mutex's critical section, which is released by `defer`; eviction is
only called from Put (inside its critical section) and takes its victim from
the back of the list while Put inserts at the front and Get moves to the front. -/
theorem C16_source_shape :
    Gen.Lru.putAllInside = true ∧ Gen.Lru.getAllInside = true ∧
    Gen.Lru.loadAndDeleteAllInside = true ∧ Gen.Lru.lenAllInside = true ∧
    Gen.Lru.sizeAllInside = true ∧ Gen.Lru.evictCallers = ["Put"] ∧
    Gen.Lru.evictVictim = "Back" ∧ Gen.Lru.putInsert = "PushFront" ∧
    Gen.Lru.getTouch = "MoveToFront" ∧ Gen.Lru.rangeSafe = true := by decide

/-- The cache as a mutex-protected object, for ANY decomposition of a call's
critical section into micro-steps that composes to `step`. -/
def lruObj : LockObj.Obj State Op Out :=
  { Loc := Op, start := id, micro := fun s op => ((step s op).1, .inr (step s op).2) }

/-- **Every interleaving, any number of threads and calls**: whenever no call
is inside its critical section the cache is in the state, and every completed
call has returned the result, of running the completed calls one at a time in
the order in which they took the mutex.  Together with `C16_state_invariant`
and `C16_refines_spec` this gives linearizability to the `Spec` list.
(`LockObj.lock_serializes` holds for every micro-step decomposition; the
instance below is the coarsest one.  That all shared accesses are inside the
critical section is `C16_source_shape`.) -/
theorem C16_linearizable (cap : Nat) (evs : List (LockObj.Ev Op)) :
    let c := LockObj.crun lruObj { shared := { cap := cap }, holder := none, log := [] } evs
    c.holder = none → LockObj.Replay lruObj { cap := cap } c.log c.shared :=
  LockObj.lock_serializes lruObj _ evs

/-- Replaying a log atomically is `run` on its operations, with `step`'s outputs. -/
theorem C16_replay_is_run (s0 s : State) (log : List (Nat × Op × Out))
    (h : LockObj.Replay lruObj s0 log s) :
    s = run s0 (log.map (·.2.1)) ∧ log.map (·.2.2) = outs s0 (log.map (·.2.1)) := by
  induction h with
  | nil => exact ⟨rfl, rfl⟩
  | @snoc log s s' t i r hr hex ih =>
    obtain ⟨s1, l1, hp, hm⟩ := hex
    have hpl : s1 = s ∧ l1 = i := by
      cases hp with
      | refl => exact ⟨rfl, rfl⟩
      | step _ hc => simp [lruObj] at hc
    obtain ⟨rfl, rfl⟩ := hpl
    simp only [lruObj, Prod.mk.injEq, Sum.inr.injEq] at hm
    have run_append : ∀ (s : State) (a b : List Op), run s (a ++ b) = run (run s a) b := by
      intro s a b; induction a generalizing s with
      | nil => rfl
      | cons x xs ih => simp only [List.cons_append, run]; exact ih _
    have outs_append : ∀ (s : State) (a b : List Op), outs s (a ++ b) = outs s a ++ outs (run s a) b := by
      intro s a b; induction a generalizing s with
      | nil => rfl
      | cons x xs ih => simp only [List.cons_append, outs, run]; rw [ih]
    simp only [List.map_append, List.map_cons, List.map_nil]
    rw [run_append, outs_append, ← ih.1, ← ih.2]
    simp only [run, outs]
    exact ⟨hm.1.symm, by rw [hm.2]⟩

/-! Non-vacuity: the hypotheses are met by concrete non-trivial states. -/
example : Inv (run { cap := 5 } [.put 1 1 3, .put 2 2 2, .get 1, .put 3 3 4]) :=
  inv_run _ _ (inv_init 5 (by decide))
example : (run { cap := 5 } [.put 1 1 3, .put 2 2 2, .get 1, .put 3 3 4]).ll = [⟨3, 3, 4⟩] := by decide
example : (step (run { cap := 5 } [.put 1 1 3]) (.put 2 2 2)).2 = .okPut false := by decide

end Neutrino.Lru
