/-
C08 — a crash at any point leaves the header stores recoverable and un-torn.
Property theorems only; lemmas live in Neutrino/Lemmas/Store*.lean.
-/
import Neutrino.Lemmas.StoreFault
namespace Neutrino.Store

/-- **Every crash point of every store operation, after every history.**
`d` is any durable state representing any log `l` (`Rep`: files whole, index =
positions of the block ids, tips = last entries, filter headers not ahead);
the operation is any append, rollback or the block manager's multi-store
rollback, under the callers' contract; the crash falls before durable step `k`
(or inside it, after any `torn` bytes of a file append).  Then: the restart
succeeds, and the reopened stores represent — exactly, nothing torn, shifted or
unreadable — the log before the operation or the log after it; for the
multi-step rollback, a log the rollback passes through (each store a prefix of
what it was, at least what it will be).  If step `k` lies beyond the operation
nothing is injected and the operation completes as specified. -/
theorem C08_recover (d : Durable) (l : Log) (op : Op) (k torn : Nat)
    (hrep : Rep d l) (hc : Contract l op) (hro : op ≠ .reopen) :
    let r := exec d op (.crash k torn)
    (r.2 = .crashed →
        ∃ d' lx, reopen r.1 = some d' ∧ Rep d' lx ∧
          (match op with
           | .rollto _ => Between l (l.apply op) lx
           | _ => lx = l ∨ lx = l.apply op)) ∧
    (r.2 ≠ .crashed → r.2 = expectOut l op ∧ Rep r.1 (l.apply op)) := by
  intro r
  have h := exec_outcome d l op (.crash k torn) hrep hc trivial hro
  exact ⟨fun hcr => (h.1 hcr).2, h.2⟩

/-- After recovery the filter-header chain is not ahead of the block-header
chain, neither store is empty, and every index entry points at its header. -/
theorem C08_recovered_consistent (d : Durable) (l : Log) (h : Rep d l) :
    l.filters.length ≤ l.blocks.length ∧ l.blocks ≠ [] ∧ l.filters ≠ [] ∧
    d.bf.junk = 0 ∧ d.ff.junk = 0 ∧ d.bf.corrupt = false ∧ d.ff.corrupt = false ∧
    (∀ i id, d.bf.get? i = some id → d.db.height? id = some i) := by
  refine ⟨h.fle, h.neB, h.neF, by simp [h.bents], by simp [h.fents], by simp [h.bents], by simp [h.fents], ?_⟩
  intro i id hg
  apply h.idxPos
  simpa [FileSt.get?, h.bents] using hg

/-- Syncing resumes from the recovered state: every further operation behaves
as on a fresh store holding that log (this is `C07_refines` applied to the
recovered state; stated here for a whole further history). -/
theorem C08_resume (d : Durable) (l : Log) (op : Op) (hrep : Rep d l) (hc : Contract l op) (hro : op ≠ .reopen) :
    (exec d op .none).2 = expectOut l op ∧ Rep (exec d op .none).1 (l.apply op) := by
  have h := exec_outcome d l op .none hrep hc trivial hro
  apply h.2
  intro hcr
  obtain ⟨⟨k, t, hk⟩, _⟩ := h.1 hcr
  cases hk

/-- Restarting without a crash changes nothing. -/
theorem C08_reopen_id (d : Durable) (l : Log) (hrep : Rep d l) :
    ∃ d', reopen d = some d' ∧ Rep d' l := reopen_ahead hrep.ahead

/-- The facts regenerated from headerfs and blockmanager.go on this run that
the model's step order relies on: appends write the file before the index;
both rollbacks commit the index before truncating the file; a failed index
commit is repaired by sync + truncate; start-up trims a partial header before
looking at the file size; `appendRaw` reverts a short write to the END of the
file; the block manager rolls the filter store back before the block store;
both constructors run `resetInterruptedInit` (which empties only a file of exactly
one entry whose index has no tip) before they test the file size. -/
theorem C08_source_shape :
    Gen.Store.blockWriteFileFirst = true ∧ Gen.Store.filterWriteFileFirst = true ∧
    Gen.Store.blockRollbackIndexFirst = true ∧ Gen.Store.filterRollbackIndexFirst = true ∧
    Gen.Store.blockWriteRepairSyncThenTruncate = true ∧ Gen.Store.filterWriteRepairSyncThenTruncate = true ∧
    Gen.Store.blockOpenTrimsFirst = true ∧ Gen.Store.filterOpenTrimsFirst = true ∧
    Gen.Store.appendRawSeeksEnd = true ∧ Gen.Store.appendRawTruncatesOnShortWrite = true ∧
    Gen.Store.rollbackFilterStoreFirst = true ∧
    Gen.Store.openResetsInterruptedInit = true ∧ Gen.Store.blockOpenResetBeforeSizeTest = true ∧
    Gen.Store.filterOpenResetBeforeSizeTest = true ∧
    0 < Gen.Store.blockHeaderSize ∧ 0 < Gen.Store.regularFilterHeaderSize := by decide

/-- Every on-disk state the very first start can leave behind when it is killed
— before, within (torn write of `jb`/`jf` bytes) or after each of its file
writes and index transactions, or again while a later start is repeating an
interrupted initialisation. -/
def FirstInit (d : Durable) : Prop :=
  (∃ jb, d = { bf := { ents := [], junk := jb }, ff := { ents := [] }, db := {} }) ∨
  d = { bf := { ents := [0] }, ff := { ents := [] }, db := {} } ∨
  (∃ jf, d = { bf := { ents := [0] }, ff := { ents := [], junk := jf }, db := { idx := [(0, 0)], btip := some 0 } }) ∨
  d = { bf := { ents := [0] }, ff := { ents := [0] }, db := { idx := [(0, 0)], btip := some 0 } } ∨
  d = init

/-- **The very first start is restartable** (after the repair
`resetInterruptedInit`; before it the states with a genesis entry in a flat
file but no tip in the index made the constructors fail for ever — recorded as
`crash-during-first-init`, now `fixed:`).  From every such state the next start
succeeds and yields exactly the freshly initialised stores. -/
theorem C08_first_init (d : Durable) (h : FirstInit d) : reopen d = some init ∧ Rep init Log.init := by
  refine ⟨?_, rep_init⟩
  rcases h with ⟨jb, rfl⟩ | rfl | ⟨jf, rfl⟩ | rfl | rfl
  · rfl
  · decide
  · rfl
  · decide
  · decide

/-- the crash points the driver replays against the real constructors -/
theorem C08_first_init_points (n : Nat) : FirstInit (initCrash n) := by
  match n with
  | 0 => exact Or.inl ⟨0, rfl⟩
  | 1 => exact Or.inl ⟨0, rfl⟩
  | 2 => exact Or.inr (Or.inl rfl)
  | 3 => exact Or.inr (Or.inr (Or.inl ⟨0, rfl⟩))
  | 4 => exact Or.inr (Or.inr (Or.inr (Or.inl rfl)))
  | n + 5 => exact Or.inr (Or.inr (Or.inr (Or.inr rfl)))

/-- the repair does not touch a directory that merely lost its database: with
more than the initial entry in a flat file and no tip in the index the
constructor still refuses to start (nothing is truncated). -/
theorem C08_first_init_keeps_data (ids : List Nat) (x y : Nat) (ff : FileSt) :
    openStore .B { bf := { ents := x :: y :: ids }, ff := ff, db := {} } = none := by
  simp [openStore, Durable.file, Durable.setFile, Db.hasTip, btipHeight?]
  cases h : (y :: ids).getLast? with
  | none => exact absurd (List.getLast?_eq_none_iff.mp h) (by simp)
  | some _ => rfl

/-! Non-vacuity: concrete states and crash points. -/
example : Rep init Log.init := rep_init
example : (exec init (.wb [1, 2, 3]) (.crash 0 100)).2 = .crashed := by decide
example : (exec init (.wb [1, 2, 3]) (.crash 0 100)).1.bf = { ents := [0, 1], junk := 20 } := by decide
example : (reopen (exec init (.wb [1, 2, 3]) (.crash 0 100)).1).map (·.bf) = some { ents := [0] } := by decide
example : (exec (exec init (.wb [1, 2, 3]) .none).1 (.rb 2) (.crash 1 0)).2 = .crashed := by decide
example : Contract Log.init (.wb [1, 2, 3]) := by simp [Contract, Log.init]

end Neutrino.Store
