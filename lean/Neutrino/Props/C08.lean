/-
C08 — a crash at any point leaves the header stores recoverable and un-torn.
Property theorems only; lemmas live in Neutrino/Lemmas/Store*.lean.
-/
import Neutrino.Lemmas.StoreFault
namespace Neutrino.Store

/-- **Every crash point of every store operation, after every history.**
`d` is any durable state representing any log `l` (`Rep`: files whole, index =
positions of the block ids, tips = last entries, filter headers not ahead);
the operation is any append, rollback or the block manager's multi-store
rollback, under the callers' contract; the crash falls before durable step `k`
(or inside it, after any `torn` bytes of a file append).  Then: the restart
succeeds, and the reopened stores represent — exactly, nothing torn, shifted or
unreadable — the log before the operation or the log after it; for the
multi-step rollback, a log the rollback passes through (each store a prefix of
what it was, at least what it will be).  If step `k` lies beyond the operation
nothing is injected and the operation completes as specified. -/
theorem C08_recover (d : Durable) (l : Log) (op : Op) (k torn : Nat)
    (hrep : Rep d l) (hc : Contract l op) (hro : op ≠ .reopen) :
    let r := exec d op (.crash k torn)
    (r.2 = .crashed →
        ∃ d' lx, reopen r.1 = some d' ∧ Rep d' lx ∧
          (match op with
           | .rollto _ => Between l (l.apply op) lx
           | _ => lx = l ∨ lx = l.apply op)) ∧
    (r.2 ≠ .crashed → r.2 = expectOut l op ∧ Rep r.1 (l.apply op)) := by
  intro r
  have h := exec_outcome d l op (.crash k torn) hrep hc trivial hro
  exact ⟨fun hcr => (h.1 hcr).2, h.2⟩

/-- After recovery the filter-header chain is not ahead of the block-header
chain, neither store is empty, and every index entry points at its header. -/
theorem C08_recovered_consistent (d : Durable) (l : Log) (h : Rep d l) :
    l.filters.length ≤ l.blocks.length ∧ l.blocks ≠ [] ∧ l.filters ≠ [] ∧
    d.bf.junk = 0 ∧ d.ff.junk = 0 ∧ d.bf.corrupt = false ∧ d.ff.corrupt = false ∧
    (∀ i id, d.bf.get? i = some id → d.db.height? id = some i) := by
  refine ⟨h.fle, h.neB, h.neF, by simp [h.bents], by simp [h.fents], by simp [h.bents], by simp [h.fents], ?_⟩
  intro i id hg
  apply h.idxPos
  simpa [FileSt.get?, h.bents] using hg

/-- Syncing resumes from the recovered state: every further operation behaves
as on a fresh store holding that log (this is `C07_refines` applied to the
recovered state; stated here for a whole further history). -/
theorem C08_resume (d : Durable) (l : Log) (op : Op) (hrep : Rep d l) (hc : Contract l op) (hro : op ≠ .reopen) :
    (exec d op .none).2 = expectOut l op ∧ Rep (exec d op .none).1 (l.apply op) := by
  have h := exec_outcome d l op .none hrep hc trivial hro
  apply h.2
  intro hcr
  obtain ⟨⟨k, t, hk⟩, _⟩ := h.1 hcr
  cases hk

/-- Restarting without a crash changes nothing. -/
theorem C08_reopen_id (d : Durable) (l : Log) (hrep : Rep d l) :
    ∃ d', reopen d = some d' ∧ Rep d' l := reopen_ahead hrep.ahead

/-- The facts regenerated from headerfs and blockmanager.go on this run that
the model's step order relies on: appends write the file before the index;
both rollbacks commit the index before truncating the file; a failed index
commit is repaired by sync + truncate; start-up trims a partial header before
looking at the file size; `appendRaw` reverts a short write to the END of the
file; the block manager rolls the filter store back before the block store. -/
theorem C08_source_shape :
    Gen.Store.blockWriteFileFirst = true ∧ Gen.Store.filterWriteFileFirst = true ∧
    Gen.Store.blockRollbackIndexFirst = true ∧ Gen.Store.filterRollbackIndexFirst = true ∧
    Gen.Store.blockWriteRepairSyncThenTruncate = true ∧ Gen.Store.filterWriteRepairSyncThenTruncate = true ∧
    Gen.Store.blockOpenTrimsFirst = true ∧ Gen.Store.filterOpenTrimsFirst = true ∧
    Gen.Store.appendRawSeeksEnd = true ∧ Gen.Store.appendRawTruncatesOnShortWrite = true ∧
    Gen.Store.rollbackFilterStoreFirst = true ∧
    0 < Gen.Store.blockHeaderSize ∧ 0 < Gen.Store.regularFilterHeaderSize := by decide

/-- The very first start (empty data directory), killed right before its n-th
index transaction, must also restart cleanly.  Full statement — FALSE of the
code (recorded finding `crash-during-first-init`): once a store's genesis entry
is in its flat file but not yet in the index, the constructor fails for ever
("the key … does not exist in bucket header-index"). -/
def C08_first_init : Prop := ∀ n, ∃ d', reopen (initCrash n) = some d' ∧ Rep d' Log.init

theorem C08_first_init_counterexample : reopen (initCrash 2) = none ∧ reopen (initCrash 4) = none := by
  decide

theorem C08_first_init_false : ¬ C08_first_init := by
  intro h
  obtain ⟨d', h1, _⟩ := h 2
  have := C08_first_init_counterexample.1
  rw [this] at h1
  cases h1

/-- every other point of the first start recovers to the freshly initialised stores -/
theorem C08_first_init_partial (n : Nat) (h2 : n ≠ 2) (h4 : n ≠ 4) :
    ∃ d', reopen (initCrash n) = some d' ∧ Rep d' Log.init := by
  refine ⟨init, ?_, rep_init⟩
  match n, h2, h4 with
  | 0, _, _ => decide
  | 1, _, _ => decide
  | 3, _, _ => decide
  | n + 5, _, _ => simp only [initCrash]; decide

/-! Non-vacuity: concrete states and crash points. -/
example : Rep init Log.init := rep_init
example : (exec init (.wb [1, 2, 3]) (.crash 0 100)).2 = .crashed := by decide
example : (exec init (.wb [1, 2, 3]) (.crash 0 100)).1.bf = { ents := [0, 1], junk := 20 } := by decide
example : (reopen (exec init (.wb [1, 2, 3]) (.crash 0 100)).1).map (·.bf) = some { ents := [0] } := by decide
example : (exec (exec init (.wb [1, 2, 3]) .none).1 (.rb 2) (.crash 1 0)).2 = .crashed := by decide
example : Contract Log.init (.wb [1, 2, 3]) := by simp [Contract, Log.init]

end Neutrino.Store
