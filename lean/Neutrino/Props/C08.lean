/-
C08 — a crash at any point leaves the header stores recoverable and un-torn.
Property theorems only; lemmas live in Neutrino/Lemmas/Store*.lean.
-/
import Neutrino.Lemmas.StoreFault
import Neutrino.Lemmas.StoreStartup
import Neutrino.Lemmas.StoreSplit
namespace Neutrino.Store

/-- **Every crash point of every store operation, after every history.**
`d` is any durable state representing any log `l` (`Rep`: files whole, index =
positions of the block ids, tips = last entries, filter headers not ahead);
the operation is any append, rollback or the block manager's multi-store
rollback, under the callers' contract; the crash falls before durable step `k`
(or inside it, after any `torn` bytes of a file append).  Then: the restart
succeeds, and the reopened stores represent — exactly, nothing torn, shifted or
unreadable — the log before the operation or the log after it; for the
multi-step rollback, a log the rollback passes through (each store a prefix of
what it was, at least what it will be).  If step `k` lies beyond the operation
nothing is injected and the operation completes as specified. -/
theorem C08_recover (d : Durable) (l : Log) (op : Op) (k torn : Nat)
    (hrep : Rep d l) (hc : Contract l op) (hro : op ≠ .reopen) :
    let r := exec d op (.crash k torn)
    (r.2 = .crashed →
        ∃ d' lx, reopen r.1 = some d' ∧ Rep d' lx ∧
          (match op with
           | .rollto _ => Between l (l.apply op) lx
           | _ => lx = l ∨ lx = l.apply op)) ∧
    (r.2 ≠ .crashed → r.2 = expectOut l op ∧ Rep r.1 (l.apply op)) := by
  intro r
  have h := exec_outcome d l op (.crash k torn) hrep hc trivial hro
  exact ⟨fun hcr => (h.1 hcr).2, h.2⟩

/-- **Bulk appends: every crash point of the code's arrangement** (the index
write of a batch of any size is ONE transaction, `writeBlocksSplit` over the
single chunk, fact `Gen.Store.indexAddOneTransaction`): `C08_recover` read for
that arrangement. -/
theorem C08_single_tx_append_recover (d : Durable) (l : Log) (ids : List Nat) (k torn : Nat)
    (hrep : Rep d l) (hc : Contract l (.wb ids)) :
    let r := R.fin (writeBlocksSplit ids [stamped ids l.blocks.length] { d := d, inj := .crash k torn })
    (r.2 = .crashed → ∃ d' lx, reopen r.1 = some d' ∧ Rep d' lx ∧ (lx = l ∨ lx = l.apply (.wb ids))) ∧
    (r.2 ≠ .crashed → r.2 = expectOut l (.wb ids) ∧ Rep r.1 (l.apply (.wb ids))) := by
  obtain ⟨tip, htip, hbt⟩ := rep_btipHeight hrep
  have hlenB := len_pred_succ hrep.neB
  have := C08_recover d l (.wb ids) k torn hrep hc (by simp)
  rw [writeBlocksSplit_single]
  simpa [exec, hbt, hlenB] using this

/-- what `C08_single_tx_append_recover` relies on in headerfs/index.go (regenerated on every run) -/
theorem C08_bulk_source_shape : Gen.Store.indexAddOneTransaction = true := by decide

/-- **A split index write does not survive a crash between its transactions**,
even with the tip moved last: killed before the second of two transactions, the
restart succeeds and cuts the file back to the recorded tip — the interrupted
batch is gone by height — but the hash of its first header still resolves, to a
height beyond the tip: the reopened stores represent no list at all. -/
theorem C08_split_append_crash_counterexample :
    let r := R.fin (writeBlocksSplit [1, 2] [[(1, 1)], [(2, 2)]] { d := init, inj := .crash 2 0 })
    r.2 = .crashed ∧
    (reopen r.1).map (fun d' => (d'.bf.ents, d'.db.btip, d'.db.height? 1, (abs d').isSome)) =
      some ([0], some 0, some 1, false) := by decide

/-- After recovery the filter-header chain is not ahead of the block-header
chain, neither store is empty, and every index entry points at its header. -/
theorem C08_recovered_consistent (d : Durable) (l : Log) (h : Rep d l) :
    l.filters.length ≤ l.blocks.length ∧ l.blocks ≠ [] ∧ l.filters ≠ [] ∧
    d.bf.junk = 0 ∧ d.ff.junk = 0 ∧ d.bf.corrupt = false ∧ d.ff.corrupt = false ∧
    (∀ i id, d.bf.get? i = some id → d.db.height? id = some i) := by
  refine ⟨h.fle, h.neB, h.neF, by simp [h.bents], by simp [h.fents], by simp [h.bents], by simp [h.fents], ?_⟩
  intro i id hg
  apply h.idxPos
  simpa [FileSt.get?, h.bents] using hg

/-- Syncing resumes from the recovered state: every further operation behaves
as on a fresh store holding that log (this is `C07_refines` applied to the
recovered state; stated here for a whole further history). -/
theorem C08_resume (d : Durable) (l : Log) (op : Op) (hrep : Rep d l) (hc : Contract l op) (hro : op ≠ .reopen) :
    (exec d op .none).2 = expectOut l op ∧ Rep (exec d op .none).1 (l.apply op) := by
  have h := exec_outcome d l op .none hrep hc trivial hro
  apply h.2
  intro hcr
  obtain ⟨⟨k, t, hk⟩, _⟩ := h.1 hcr
  cases hk

/-- Restarting without a crash changes nothing. -/
theorem C08_reopen_id (d : Durable) (l : Log) (hrep : Rep d l) :
    ∃ d', reopen d = some d' ∧ Rep d' l := reopen_ahead hrep.ahead

/-- The facts regenerated from headerfs and blockmanager.go on this run that
the model's step order relies on: appends write the file before the index;
both rollbacks commit the index before truncating the file; a failed index
commit is repaired by sync + truncate; start-up trims a partial header before
looking at the file size; `appendRaw` reverts a short write to the END of the
file; the block manager rolls the filter store back before the block store;
both constructors run `resetInterruptedInit` (which empties only a file of exactly
one entry whose index has no tip) before they test the file size. -/
theorem C08_source_shape :
    Gen.Store.blockWriteFileFirst = true ∧ Gen.Store.filterWriteFileFirst = true ∧
    Gen.Store.blockRollbackIndexFirst = true ∧ Gen.Store.filterRollbackIndexFirst = true ∧
    Gen.Store.blockWriteRepairSyncThenTruncate = true ∧ Gen.Store.filterWriteRepairSyncThenTruncate = true ∧
    Gen.Store.blockOpenTrimsFirst = true ∧ Gen.Store.filterOpenTrimsFirst = true ∧
    Gen.Store.appendRawSeeksEnd = true ∧ Gen.Store.appendRawTruncatesOnShortWrite = true ∧
    Gen.Store.rollbackFilterStoreFirst = true ∧
    Gen.Store.openResetsInterruptedInit = true ∧ Gen.Store.blockOpenResetBeforeSizeTest = true ∧
    Gen.Store.filterOpenResetBeforeSizeTest = true ∧
    0 < Gen.Store.blockHeaderSize ∧ 0 < Gen.Store.regularFilterHeaderSize := by decide

/-- **A start that is itself killed.**  From a state whose files are ahead of
an index representing `l` (every state a crash in any operation leaves, and
every consistent state), a start killed before any of its durable steps — the
index's own transaction, the trim of a partial entry, the reconciling truncate
of either store — leaves such a state again; so does every further killed
start; and the first start that is left alone recovers exactly `l`. -/
theorem C08_restart_killed (d : Durable) (l : Log) (h : AheadOf l d) (ks : List (Nat × Nat)) :
    AheadOf l (ks.foldl (fun d kt => (exec d .reopen (.crash kt.1 kt.2)).1) d) ∧
    ∃ r, reopen (ks.foldl (fun d kt => (exec d .reopen (.crash kt.1 kt.2)).1) d) = some r ∧ Rep r l := by
  have step : ∀ d, AheadOf l d → ∀ k t, AheadOf l (exec d .reopen (.crash k t)).1 := by
    intro d ⟨xb, xf, hA⟩ k t
    have hR := reopenR_ahead { d := d, inj := .crash k t } l xb xf hA trivial
    simp only [exec]
    cases hres : reopenR { d := d, inj := .crash k t } with
    | crashed d' => rw [hres] at hR; exact hR.2
    | ok b c' =>
      rw [hres] at hR
      obtain ⟨hb, _, _, hrep⟩ := hR
      subst hb
      exact ⟨[], [], hrep.ahead⟩
  have all : ∀ (ks : List (Nat × Nat)) d, AheadOf l d →
      AheadOf l (ks.foldl (fun d kt => (exec d .reopen (.crash kt.1 kt.2)).1) d) := by
    intro ks
    induction ks with
    | nil => intro d hd; exact hd
    | cons kt ks ih => intro d hd; exact ih _ (step d hd kt.1 kt.2)
  obtain ⟨xb, xf, hA⟩ := all ks d h
  exact ⟨⟨xb, xf, hA⟩, reopen_ahead hA⟩

/-- an undisturbed start, taken step by step, is the `reopen` of the theorems above -/
theorem C08_start_steps_agree (d : Durable) (l : Log) (h : AheadOf l d) (s : Nat) :
    ∃ c', reopenR { d := d, step := s, inj := .none } = .ok true c' ∧ reopen d = some c'.d := by
  obtain ⟨xb, xf, hA⟩ := h
  exact reopenR_quiet d s l xb xf hA

/-- a killed start on the freshly initialised stores changes nothing (its only
durable steps are the two index transactions) -/
theorem restart_init_killed (k t : Nat) : (exec init .reopen (.crash k t)).1 = init := by
  have e : ∀ k, k = 0 ∨ k = 1 ∨ 2 ≤ k := by omega
  rcases e k with rfl | rfl | h2
  · simp [exec, reopenR, openStoreR, R.andThen, R.bind, stageIndex, dbUpdate]
  · simp [exec, reopenR, openStoreR, R.andThen, R.bind, stageIndex, stageTrim, stageReset, stageSync, dbUpdate, init,
      Durable.file, Db.hasTip, btipHeight?, ftipHeight?, Db.height?, truncateHeaders]
  · have h0 : k ≠ 0 := by omega
    have h1 : k ≠ 1 := by omega
    simp [exec, reopenR, openStoreR, R.andThen, R.bind, stageIndex, stageTrim, stageReset, stageSync, dbUpdate, init,
      Durable.file, Db.hasTip, btipHeight?, ftipHeight?, Db.height?, truncateHeaders, h0, h1]

/-- **The very first start is restartable at every instant** (after the repair
`resetInterruptedInit`; before it the states with a genesis entry in a flat
file but no tip in the index made the constructors fail for ever — recorded as
`crash-during-first-init`, now `fixed:`).  `FirstInit` (Lemmas/StoreStartup)
lists every on-disk state a killed first start can leave: the block file empty
or holding a torn genesis write of any length; the block file written but not
indexed; the block store complete and the same three stages of the filter
store.  From each of them a start that is killed again — before any durable
step, a file write at any torn length — leaves another such state, any number
of times; a start that is left alone yields exactly the freshly initialised
stores. -/
theorem C08_first_init (d : Durable) (h : FirstInit d) (ks : List (Nat × Nat)) :
    let d' := ks.foldl (fun d kt => (exec d .reopen (.crash kt.1 kt.2)).1) d
    (FirstInit d' ∨ d' = init) ∧ reopen d' = some init ∧ Rep init Log.init := by
  have pure : ∀ d, FirstInit d → reopen d = some init := by
    intro d h
    rcases h with ⟨jb, rfl⟩ | rfl | ⟨jf, rfl⟩ | rfl
    · rfl
    · decide
    · rfl
    · decide
  have hinit : reopen init = some init := by decide
  have step : ∀ d, (FirstInit d ∨ d = init) → ∀ k t,
      (FirstInit (exec d .reopen (.crash k t)).1 ∨ (exec d .reopen (.crash k t)).1 = init) := by
    intro d hd k t
    rcases hd with hd | rfl
    · have hR := reopenR_firstInit { d := d, inj := .crash k t } hd trivial
      simp only [exec]
      cases hres : reopenR { d := d, inj := .crash k t } with
      | crashed d' => rw [hres] at hR; exact Or.inl hR.2
      | ok b c' =>
        rw [hres] at hR
        obtain ⟨hb, _, hd'⟩ := hR
        subst hb
        exact Or.inr hd'
    · exact Or.inr (restart_init_killed k t)
  have all : ∀ (ks : List (Nat × Nat)) d, (FirstInit d ∨ d = init) →
      (FirstInit (ks.foldl (fun d kt => (exec d .reopen (.crash kt.1 kt.2)).1) d) ∨
        ks.foldl (fun d kt => (exec d .reopen (.crash kt.1 kt.2)).1) d = init) := by
    intro ks
    induction ks with
    | nil => intro d hd; exact hd
    | cons kt ks ih => intro d hd; exact ih _ (step d hd kt.1 kt.2)
  intro d'
  have hd' := all ks d (Or.inl h)
  refine ⟨hd', ?_, rep_init⟩
  rcases hd' with h1 | h1
  · exact pure _ h1
  · show reopen (ks.foldl _ d) = some init
    rw [h1]; exact hinit

/-- the empty data directory is where it starts -/
theorem C08_first_init_empty : FirstInit empty := Or.inl ⟨0, rfl⟩

/-- the repair does not touch a directory that merely lost its database: with
more than the initial entry in a flat file and no tip in the index the
constructor still refuses to start (nothing is truncated). -/
theorem C08_first_init_keeps_data (ids : List Nat) (x y : Nat) (ff : FileSt) :
    openStore .B { bf := { ents := x :: y :: ids }, ff := ff, db := {} } = none := by
  simp [openStore, Durable.file, Durable.setFile, Db.hasTip, btipHeight?]
  cases h : (y :: ids).getLast? with
  | none => exact absurd (List.getLast?_eq_none_iff.mp h) (by simp)
  | some _ => rfl

/-! Non-vacuity: concrete states and crash points. -/
example : Rep init Log.init := rep_init
-- the very first start killed 40 bytes into the block store's genesis write, the restart killed right before the
-- filter store's index transaction, the third start left alone
example : (exec empty .reopen (.crash 1 40)) = ({ bf := { ents := [], junk := 40 }, ff := { ents := [] }, db := {} }, .crashed) := by
  decide
example : (exec (exec empty .reopen (.crash 1 40)).1 .reopen (.crash 6 0)).1 =
    { bf := { ents := [0] }, ff := { ents := [0] }, db := { idx := [(0, 0)], btip := some 0 } } := by decide
example : reopen (exec (exec empty .reopen (.crash 1 40)).1 .reopen (.crash 6 0)).1 = some init := by decide
-- a start killed while it reconciles the block file after a crashed append
example : (exec (exec init (.wb [1, 2, 3]) (.crash 0 170)).1 .reopen (.crash 2 0)) =
    ({ bf := { ents := [0, 1, 2] }, ff := { ents := [0] }, db := { idx := [(0, 0)], btip := some 0, ftip := some 0 } }, .crashed) := by
  decide
example : (exec init (.wb [1, 2, 3]) (.crash 0 100)).2 = .crashed := by decide
example : (exec init (.wb [1, 2, 3]) (.crash 0 100)).1.bf = { ents := [0, 1], junk := 20 } := by decide
example : (reopen (exec init (.wb [1, 2, 3]) (.crash 0 100)).1).map (·.bf) = some { ents := [0] } := by decide
example : (exec (exec init (.wb [1, 2, 3]) .none).1 (.rb 2) (.crash 1 0)).2 = .crashed := by decide
example : Contract Log.init (.wb [1, 2, 3]) := by simp [Contract, Log.init]

end Neutrino.Store
