/-
C18 — concurrent use of the client is free of data races (PARTIAL).

A lockset argument over extracted facts for the shared state named in the
property's anchors, plus race-detector runs of the drivers; not a
happens-before proof of the whole program.
-/
import Neutrino.Model.Ownership
import Neutrino.Gen.AccessNames
namespace Neutrino.Lockset
open Neutrino.Gen.AccessTable

/-- display: the stable (role) name of an id and, where it differs, the Go identifier it stands for today -/
def shown (i : Nat) : String :=
  let n := nameOf i
  match Neutrino.Gen.AccessNames.goNames.find? (·.1 == n) with
  | some p => n ++ " (= " ++ p.2 ++ " in the source)"
  | none => n

def shownPair (r s : Access) : String :=
  shown r.field ++ ": " ++ (if r.write then "write" else "read") ++ " in " ++ shown r.fn ++ " (" ++ r.file ++ ":" ++ toString r.line ++ ") | " ++
  (if s.write then "write" else "read") ++ " in " ++ shown s.fn ++ " (" ++ s.file ++ ":" ++ toString s.line ++ ") share no lock"

def racyPairs : List (Access × Access) :=
  rows.flatMap (fun r => (rows.filter (fun s => !pairOk tables r s)).map (fun s => (r, s)))

def unexplained : List (Access × Access) :=
  racyPairs.filter (fun p => !isKnown tables p.1.field p.1.fn p.2.fn)

/-- Diagnostics only: name the offending pairs / entries in the build log when a theorem below is about to fail. -/
def diagnostics : List String :=
  ((unexplained.filter (fun p => p.1.write || !p.2.write)).map (fun p => "C18 unsynchronised pair: " ++ shownPair p.1 p.2)) ++
  ((allCallerHolds.filter (fun e => !callerHoldsOk tables calls e)).map (fun e =>
    "C18 callerHolds entry no longer justified by the call rows: " ++ shown e.fn ++ " under " ++ shown e.lock)) ++
  ((calls.filter (reentrant tables acquires)).map (fun c =>
    "C18 re-entrant lock: " ++ shown c.caller ++ " calls " ++ shown c.callee ++ " (line " ++ toString c.line ++ ") holding a mutex the callee locks again")) ++
  ((unguardedAccesses.filter (fun u => ordered.any (fun k => k.field == u.field && (k.fnA == u.fn || k.fnB == u.fn)))).map (fun u =>
    "C18 " ++ shown u.field ++ " is accessed in " ++ shown u.fn ++ " (line " ++ toString u.line ++
    ") on a path an ERROR verdict of the query can take: the callback that writes it may still be running (the `ordered` entry holds for the nil verdict only)")) ++
  (if callbacks == reviewedCallbacks then [] else
    ["C18 work-manager callbacks changed: extracted [" ++ ", ".intercalate (callbacks.map (fun c => shown c.fn ++ (if c.multi then " (multi)" else " (single)"))) ++ "]"]) ++
  (foreignUnlocks.map (fun u => "C18 " ++ shown u.fn ++ " unlocks " ++ shown u.lock ++ " without having locked it: its callers' lock regions are opened")) ++
  ((knownRacy.filter (fun k => !racyPairs.any (fun p => p.1.field == k.field && p.1.fn == k.fnA && (k.anyB || p.2.fn == k.fnB)))).map (fun k =>
    "C18 stale knownRacy entry: " ++ shown k.field ++ " " ++ shown k.fnA ++ " | " ++ shown k.fnB))

#eval show IO Unit from do
  unless diagnostics.isEmpty do
    throw <| IO.userError ("\n".intercalate diagnostics)

/-- **Full statement** (kept visible; false on the unchanged tree, see the counterexample): any two accesses to one
tracked field, at least one a write, from goroutine classes that can run concurrently, hold a common mutex
(a read lock on both sides does not count). -/
def C18_lockset_statement : Prop := ∀ r ∈ rows, ∀ s ∈ rows, pairOk tables r s = true

/-- rows of one field (the check is quadratic per field, not over the whole table) -/
def rowsOf (f : Nat) : List Access := rows.filter (·.field == f)

def okOrKnown (r s : Access) : Bool := pairOk tables r s || isKnown tables r.field r.fn s.fn

theorem C18_fields_cover : rows.all (fun r => fields.contains r.field) = true := by decide +kernel

theorem C18_lockset_by_field :
    fields.all (fun f => (rowsOf f).all (fun r => (rowsOf f).all (fun s => okOrKnown r s))) = true := by
  decide +kernel

theorem pairOk_of_field_ne (r s : Access) (h : (r.field == s.field) = false) : pairOk tables r s = true := by
  simp [pairOk, conflict, h]

/-- **Lockset discipline, except the recorded pairs.** -/
theorem C18_lockset : ∀ r ∈ rows, ∀ s ∈ rows,
    pairOk tables r s = true ∨ isKnown tables r.field r.fn s.fn = true := by
  intro r hr s hs
  cases hf : r.field == s.field
  · exact Or.inl (pairOk_of_field_ne r s hf)
  · have hfld : fields.contains r.field = true := List.all_eq_true.mp C18_fields_cover r hr
    have hmem : r.field ∈ fields := List.contains_iff_mem.mp hfld
    have hg := List.all_eq_true.mp C18_lockset_by_field r.field hmem
    have e : r.field = s.field := beq_iff_eq.mp hf
    have hr' : r ∈ rowsOf r.field := List.mem_filter.mpr ⟨hr, beq_self_eq_true _⟩
    have hs' : s ∈ rowsOf r.field := List.mem_filter.mpr ⟨hs, by rw [e]; exact beq_self_eq_true _⟩
    have := List.all_eq_true.mp (List.all_eq_true.mp hg r hr') s hs'
    unfold okOrKnown at this
    cases h1 : pairOk tables r s
    · right; simpa [h1] using this
    · left; rfl

/-- every recorded pair is a real row pair that shares no lock: no entry is stale, the full statement is false -/
theorem C18_lockset_counterexample :
    knownRacy.all (fun k => ((rowsOf k.field).filter (·.fn == k.fnA)).any (fun r =>
      ((rowsOf k.field).filter (fun s => k.anyB || s.fn == k.fnB)).any (fun s => !pairOk tables r s))) = true := by
  decide +kernel

/-- no function unlocks a mutex it did not lock itself: the lexical lock regions (and the inferred "every caller holds
the lock" facts) are not silently opened by a callee -/
theorem C18_no_foreign_unlock : foreignUnlocks.isEmpty = true := by decide +kernel

theorem C18_lockset_statement_false : ¬ C18_lockset_statement := by
  intro h
  have hw : ∃ r ∈ rowsOf N.«headerfs.headerFile.file», ∃ s ∈ rowsOf N.«headerfs.headerFile.file», pairOk tables r s = false := by
    decide +kernel
  obtain ⟨r, hr, s, hs, hrs⟩ := hw
  have := h r (List.mem_filter.mp hr).1 s (List.mem_filter.mp hs).1
  rw [hrs] at this
  exact Bool.noConfusion this

/-- **No re-entrant locking**: no function is called with a mutex held that it locks again itself (the recursive
read lock of the block-locator functions was of this kind). -/
theorem C18_no_reentrant_lock : calls.all (fun c => !reentrant tables acquires c) = true := by decide +kernel

/-- **The work-manager callbacks are the reviewed ones**, with the reviewed multiplicity: the functions registered as
`query.Request.HandleResp` (extracted) run on worker goroutines; everything their receiver structs hold and every
local variable their closures capture and write is part of the access table above. -/
theorem C18_callbacks_reviewed : callbacks = reviewedCallbacks := by decide +kernel

/-- **Verdict ordering holds on success only**: every access, outside the callbacks, to state that a work-manager
callback writes and that an `ordered` entry covers is made before the query is issued or behind
`if err != nil { return }` on the verdict received from the query's error channel — never on a path an error verdict
(timeout, retry limit, shutdown: sent while a worker may still be inside the callback) can take. -/
theorem C18_ordered_only_on_success :
    ordered.all (fun k => !unguardedAccesses.any (fun u => u.field == k.field && (u.fn == k.fnA || u.fn == k.fnB))) = true := by
  decide +kernel

/-- no stale `ordered` entry: each one names a real conflicting pair of rows without a common mutex -/
theorem C18_ordered_used :
    ordered.all (fun k => ((rowsOf k.field).filter (·.fn == k.fnA)).any (fun r =>
      ((rowsOf k.field).filter (·.fn == k.fnB)).any (fun s =>
        conflict tables r s && !share (effHeld tables r.fn r.held) (effHeld tables s.fn s.held)))) = true := by
  decide +kernel

/-- the "only called with the lock held" claims of the ownership table agree with every extracted call -/
theorem C18_caller_holds : allCallerHolds.all (callerHoldsOk tables calls) = true := by decide +kernel

/-- the reviewed table only holds what the extractor could not infer (no entry duplicates an inferred one) -/
theorem C18_caller_holds_minimal :
    callerHolds.all (fun e => !inferredHolds.any (fun h => h.fn == e.fn && h.lock == e.lock)) = true := by decide +kernel

/-- every owner / alias entry names a function / lock that occurs in the extracted table, and every tracked field
has at least one row -/
theorem C18_tables_used :
    owners.all (fun o => rows.any (·.fn == o.fn)) = true ∧
    lockAlias.all (fun a => rows.any (fun r => r.held.any (·.lock == a.1))) = true ∧
    fields.all (fun f => rows.any (·.field == f)) = true := by
  refine ⟨?_, ?_, ?_⟩ <;> decide +kernel

/- non-vacuity: there are conflicting pairs that DO share a lock, and the relation is not trivially false -/
example : ∃ r ∈ rowsOf N.«blockManager.headerTip», ∃ s ∈ rowsOf N.«blockManager.headerTip»,
    conflict tables r s = true ∧ pairOk tables r s = true := by decide +kernel
example : concurrent .blockHandler .cfHandler = true ∧ concurrent .blockHandler .blockHandler = false := by decide

end Neutrino.Lockset
