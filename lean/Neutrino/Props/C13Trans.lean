/-
C13 - `ChainService.IsBanned` in terms of the function the CODE defines (translated from neutrino.go on
every run, Gen/TransBan.lean): what the enforcement model's `Ban.isBanned` assumes (a peer counts as banned
exactly when its address parses, the ban store answers and the status says banned; any error counts as
"not banned") is what the code computes, for every parser, store and clock answer.
-/
import Neutrino.Model.BanEnforce
import Neutrino.Lemmas.TransBan
namespace Neutrino.Ban
open Neutrino.Gen.TransBan Neutrino.GoInt

theorem C13_trans_IsBanned (addr : String) (before : Atom → Atom → Bool) (status : Atom → T_banman_Status × Bool)
    (parse : String → Atom → Atom × Bool) (now : Atom) :
    IsBanned addr before status parse now
      = (!(parse addr 0).2 && !(status (parse addr 0).1).2 && (status (parse addr 0).1).1.Banned) :=
  trans_isBanned addr before status parse now

/-- any error (address does not parse, store fails) counts as "not banned" -/
theorem C13_trans_IsBanned_err (addr : String) (before : Atom → Atom → Bool) (status : Atom → T_banman_Status × Bool)
    (parse : String → Atom → Atom × Bool) (now : Atom)
    (h : (parse addr 0).2 = true ∨ (status (parse addr 0).1).2 = true) :
    IsBanned addr before status parse now = false := by
  rw [trans_isBanned]
  rcases h with h | h <;> simp [h]

/-- **the model's `isBanned`**: when the address parses to the peer's target and the store's answer is the
model store's (`Banned` set exactly when the model's `Status` step reports a ban), the code's answer is the
model's. -/
theorem C13_trans_IsBanned_model (s : State) (nowT : Int) (p : Peer)
    (addr : String) (before : Atom → Atom → Bool) (status : Atom → T_banman_Status × Bool)
    (parse : String → Atom → Atom × Bool) (now : Atom)
    (hparse : (parse addr 0).2 = false) (hok : (status (parse addr 0).1).2 = false)
    (hb : (status (parse addr 0).1).1.Banned = (isBanned s nowT p).2) :
    IsBanned addr before status parse now = (isBanned s nowT p).2 := by
  rw [trans_isBanned, hparse, hok, hb]
  simp

example : IsBanned "1.2.3.4:8333" (fun _ _ => true) (fun _ => (⟨true, 2, 0⟩, false)) (fun _ _ => (5, false)) 9 = true := by decide
example : IsBanned "nonsense" (fun _ _ => true) (fun _ => (⟨true, 2, 0⟩, false)) (fun _ _ => (0, true)) 9 = false := by decide

end Neutrino.Ban
