/-
C11 — each block-notification subscriber sees every event once, in order, from
its start.  Property theorems only.
-/
import Neutrino.Spec.Subs
import Neutrino.Gen.Subs
namespace Neutrino.Subs

/-- The facts regenerated from blockntfns/manager.go on this run that the model
relies on. -/
theorem C11_source_facts :
    Gen.Subs.ntfnChanCap = 20 ∧ Gen.Subs.registersViaHandler = true ∧
    Gen.Subs.mapMutators = ["handleNewSubscription", "handleCancelSubscription"] ∧
    Gen.Subs.mapMutatorCallers = ["subscriptionHandler"] ∧
    Gen.Subs.backlogBeforeInsert = true ∧ Gen.Subs.fanoutEveryClient = true ∧
    Gen.Subs.pushBlocking = true ∧ Gen.Subs.forwardBlocking = true ∧
    Gen.Subs.cancelOnce = true ∧
    Gen.Subs.cancelSeq = ["s.ntfnQueue.Stop()", "close(s.quit)", "s.wg.Wait()", "close(s.ntfnChan)"] ∧
    Gen.Subs.closeChanSites = 1 := by decide

end Neutrino.Subs
