/-
C11 — each block-notification subscriber sees every event once, in order, from
its start.  Property theorems only; lemmas live in Neutrino/Lemmas/Subs*.lean.

All theorems quantify over EVERY event list (`List Ev`): any number of
subscribers, any interleaving of subscribe / emit / handler fan-out / forwarder
moves / consumer reads / cancel / stop.
-/
import Neutrino.Lemmas.Subs
import Neutrino.Lemmas.SubsIso
import Neutrino.Lemmas.SubsDrain
import Neutrino.Lemmas.SubsWindow
import Neutrino.Lemmas.SubsReg
import Neutrino.Spec.Subs
import Neutrino.Gen.Subs
namespace Neutrino.Subs

/-- **Nothing lost, duplicated or reordered, at every step.**  In every
reachable state, for every registered subscriber: what it has received, followed
by what sits in its channel, followed by what sits in its queue, is exactly its
backlog followed by the notifications pushed to it since registration; those are
the notifications the handler fanned out after its registration, in fan-out
order (all of them while it is registered, a prefix once it is cancelled or the
manager stopped).  Hence the received sequence is always a prefix of
`backlog ++ fanned-out-since-registration`; the channel never exceeds its
capacity. -/
theorem C11_prefix (evs : List Ev) (id : Nat) (x : Sub) (hx : (run init evs).subs id = some x) :
    x.delivered ++ x.chan ++ x.queue = x.backlog ++ x.since ∧
    x.since <+: (run init evs).fanned.drop x.regAt ∧
    (x.live = true → x.since = (run init evs).fanned.drop x.regAt) ∧
    x.delivered <+: x.backlog ++ (run init evs).fanned.drop x.regAt ∧
    x.chan.length ≤ chanCap := by
  have h := inv_run init evs inv_init id x hx
  refine ⟨h.conserve, h.sincePre, h.sinceLive, ?_, h.capOk⟩
  have h1 : x.delivered <+: x.backlog ++ x.since := by
    rw [← h.conserve, List.append_assoc]; exact List.prefix_append _ _
  exact List.IsPrefix.trans h1 ((List.prefix_append_right_inj _).2 h.sincePre)

/-- **No duplicates**: if the source never repeats a notification (backlog and
emissions are pairwise distinct), no subscriber receives one twice. -/
theorem C11_no_dup (evs : List Ev) (id : Nat) (x : Sub) (hx : (run init evs).subs id = some x)
    (hnd : (x.backlog ++ (run init evs).fanned.drop x.regAt).Nodup) : x.delivered.Nodup :=
  List.Nodup.sublist (C11_prefix evs id x hx).2.2.2.1.sublist hnd

/-- **Complete when drained**: whenever a subscriber's queue and channel are
empty it has received its whole stream; if it is still registered that is the
backlog plus every notification fanned out since its registration. -/
theorem C11_complete_drained (evs : List Ev) (id : Nat) (x : Sub)
    (hx : (run init evs).subs id = some x) (hq : x.queue = []) (hc : x.chan = []) :
    x.delivered = x.backlog ++ x.since ∧
    (x.live = true → x.delivered = x.backlog ++ (run init evs).fanned.drop x.regAt) := by
  obtain ⟨h1, _, h3, _, _⟩ := C11_prefix evs id x hx
  rw [hq, hc, List.append_nil, List.append_nil] at h1
  exact ⟨h1, fun hl => by rw [h1, h3 hl]⟩

/-- **Every notification is eventually deliverable, however late the subscriber
reads**: from any reachable state, a subscriber whose channel is open (not
cancelled, manager not stopped) that keeps reading — the schedule
"forwarder moves one, consumer reads one" repeated `chan.length + queue.length`
times, with no bound on how much had piled up — ends with empty queue and channel
and has received its backlog and every notification fanned out since its
registration, in order. -/
theorem C11_complete (evs : List Ev) (id : Nat) (x : Sub)
    (hx : (run init evs).subs id = some x) (hopen : x.closed = false) :
    ∃ y, (run init (evs ++ drainEvs id (x.chan.length + x.queue.length))).subs id = some y ∧
      y.chan = [] ∧ y.queue = [] ∧
      y.delivered = x.backlog ++ (run init evs).fanned.drop x.regAt := by
  have h := inv_run init evs inv_init id x hx
  have hlive : x.live = true := by rw [h.liveClosed, hopen]; rfl
  obtain ⟨y, hy, hyc, hyq, hyd, _⟩ := drain_run id _ (run init evs) x hx hopen rfl
  refine ⟨y, by rw [run_append]; exact hy, hyc, hyq, ?_⟩
  rw [hyd, h.conserve, h.sinceLive hlive]

/-- **Nothing falls between backlog and live stream.**  Whatever the source emits
(`w`, any length) while the handler is busy with subscriber `id`'s registration —
i.e. after the backlog snapshot `bl` was taken and before the handler is free
again — waits at the source, is fanned out after the registration, and is owed to
the new subscriber right after its backlog: its stream is exactly `bl ++ w`, in
order, nothing lost and nothing twice.  (This is what breaks when the snapshot is
taken outside the handler goroutine: see `C11_source_facts`,
`backlogLookupCallers`.) -/
theorem C11_registration_window (evs : List Ev) (id h : Nat) (bl w : List Ntfn)
    (hrun : (run init evs).stopped = false) (hfresh : (run init evs).subs id = none)
    (hsrc : (run init evs).src = []) :
    ∃ x, (run init (evs ++ w.map Ev.emit ++ [.subscribe id h bl] ++
              w.map (fun _ => Ev.handlerFanout))).subs id = some x ∧
      x.backlog = bl ∧ x.since = w ∧ x.delivered ++ x.chan ++ x.queue = bl ++ w := by
  -- the state when the handler finishes the registration step
  have h1 : run init (evs ++ w.map Ev.emit) = { run init evs with src := w } := by
    rw [run_append, run_emits, hsrc]; rfl
  let x0 : Sub := { height := h, regAt := (run init evs).fanned.length, backlog := bl, queue := bl }
  have h2 : run init (evs ++ w.map Ev.emit ++ [.subscribe id h bl]) =
      { run init evs with src := w, subs := setSub (run init evs).subs id x0 } := by
    rw [run_append, h1]
    simp [run, step, hrun, hfresh, x0]
  obtain ⟨_, _, hf, y, hy, hyl, hyr, hyb⟩ :=
    run_fanouts w { run init evs with src := w, subs := setSub (run init evs).subs id x0 } []
      hrun (by simp) id x0 (by simp [setSub]) rfl
  have hf' : (run { run init evs with src := w, subs := setSub (run init evs).subs id x0 }
      (w.map fun _ => Ev.handlerFanout)).fanned = (run init evs).fanned ++ w := hf
  rw [← h2, ← run_append] at hy hf'
  obtain ⟨hc, _, hlive, _, _⟩ := C11_prefix _ id y hy
  have hs : y.since = w := by
    rw [hlive hyl, hf', hyr]
    show ((run init evs).fanned ++ w).drop (run init evs).fanned.length = w
    simp
  exact ⟨y, hy, hyb, hs, by rw [hc, hyb, hs]⟩

/-- **Isolation**: deleting all of subscriber `B`'s events (its registration,
its forwarder's moves, its reads or its never reading, its cancellation) from
any run changes nothing for anybody else: every other subscriber's whole record
(received, channel, queue, closed flag), the source buffer, the fan-out history
and the stopped flag are identical, and every other event returns the same
output.  So no event of `A` is enabled, disabled or altered by `B`'s queue,
channel or consumer state. -/
theorem C11_isolation (B : Nat) (evs : List Ev) :
    (∀ A, A ≠ B → (run init evs).subs A = (run init (evs.filter (notOf B))).subs A) ∧
    (run init evs).src = (run init (evs.filter (notOf B))).src ∧
    (run init evs).fanned = (run init (evs.filter (notOf B))).fanned ∧
    (run init evs).stopped = (run init (evs.filter (notOf B))).stopped ∧
    outsWhere (notOf B) init evs = outs init (evs.filter (notOf B)) := by
  obtain ⟨h1, h2⟩ := run_hide B init evs
  have hi : hideState B init = init := State.ext' (by funext i; simp [hideState, hide, init]) rfl rfl rfl
  rw [hi] at h1 h2
  refine ⟨fun A hA => ?_, ?_, ?_, ?_, h2⟩
  · rw [← h1]; simp [hideState, hide, hA]
  · rw [← h1]; rfl
  · rw [← h1]; rfl
  · rw [← h1]; rfl

/-- **Cancel closes**: handling a subscriber's cancel request (manager running)
leaves its channel closed and the subscriber out of the fan-out map. -/
theorem C11_cancel_closes (evs : List Ev) (id : Nat) (x : Sub)
    (hx : (run init evs).subs id = some x) (hrun : (run init evs).stopped = false) :
    ∃ y, (run init (evs ++ [.cancel id])).subs id = some y ∧ y.closed = true ∧ y.live = false := by
  have h := inv_run init evs inv_init id x hx
  have h' := h.cancel true
  have hc := h'.stoppedClosed rfl
  exact ⟨x.cancel, by rw [run_append]; simp [run, step, hrun, upd, hx], hc, by rw [h'.liveClosed, hc]; rfl⟩

/-- **Stop closes everything**: once the manager is stopped every subscriber's
channel is closed. -/
theorem C11_stop_closes (evs : List Ev) (id : Nat) (x : Sub)
    (hx : (run init evs).subs id = some x) (hst : (run init evs).stopped = true) :
    x.closed = true :=
  (inv_run init evs inv_init id x hx).stoppedClosed hst

/-- **Nothing after close.**  The Go `cancel()` is: stop the queue, close
`quit`, WAIT for the forwarder goroutine to exit, and only then close the
channel (under a `sync.Once`, see `C11_source_facts`); so at the moment the
channel is closed nobody can send on it any more.  In the model: once a
subscriber's channel is closed (by cancel or stop), in every continuation
(whatever anybody does, including further emissions, the subscriber's own reads
and repeated cancel/stop) the channel stays closed, the subscriber stays out of
the map, nothing is ever added to its channel — `delivered ++ chan` is frozen,
i.e. the consumer can only ever receive what the channel held when it was closed
— and what was still queued is never delivered. -/
theorem C11_closed_silent (evs more : List Ev) (id : Nat) (x : Sub)
    (hx : (run init evs).subs id = some x) (hc : x.closed = true) :
    ∃ y, (run init (evs ++ more)).subs id = some y ∧ y.closed = true ∧ y.live = false ∧
      y.delivered ++ y.chan = x.delivered ++ x.chan ∧
      y.delivered <+: x.delivered ++ x.chan ∧
      y.queue = x.queue ∧ y.since = x.since := by
  have h := inv_run init evs inv_init id x hx
  have hl : x.live = false := by rw [h.liveClosed, hc]; rfl
  obtain ⟨y, hy, hf⟩ := frozen_run (run init evs) more id x x hx (Frozen.refl hc hl)
  refine ⟨y, by rw [run_append]; exact hy, hf.closed, hf.dead, hf.chanOk, ?_, hf.queueEq, hf.sinceEq⟩
  rw [← hf.chanOk]; exact List.prefix_append _ _

/-- After the consumer has observed the close it never receives anything again. -/
theorem C11_after_close_observed (evs : List Ev) (id : Nat) (x : Sub)
    (hx : (run init evs).subs id = some x) (hs : x.sawClosed = true) :
    x.closed = true ∧ x.chan = [] :=
  (inv_run init evs inv_init id x hx).sawClosedOk hs

/-- The observation-level oracle the driver evaluates (`Obs.prefixOk`) holds of
the model in every reachable state. -/
theorem C11_oracle_holds (evs : List Ev) (id : Nat) (x : Sub) (hx : (run init evs).subs id = some x) :
    Obs.prefixOk { expected := x.backlog ++ x.since, got := x.delivered } = true := by
  have h := inv_run init evs inv_init id x hx
  simp only [Obs.prefixOk, List.isPrefixOf_iff_prefix]
  rw [← h.conserve, List.append_assoc]; exact List.prefix_append _ _

/-- The facts regenerated from blockntfns/manager.go on this run that the model
relies on: the channel capacity; the forwarder goroutine is started before the
subscription is handed to the handler (so the `wait forwarder` of `cancel()`
covers it whenever the client can be cancelled); registration goes through the handler goroutine
(`m.newSubscriptions <- sub`), the client map is only mutated by the two
handler-side functions, which only `subscriptionHandler` calls; the backlog
lookup (`NotificationsSinceHeight`) is made by the handler-side registration
function and nowhere else, so snapshot, backlog push and map insert are one step
of the handler goroutine; the backlog is pushed before the client is inserted
into the map; fan-out reaches every client
of the map; pushes and forwards are blocking (nothing dropped); the only send into a
client's channel is the one in the forwarder goroutine that `NewSubscription`
starts (followed through `go` into a named function or method), and while it
holds a notification it also listens to the client's and the manager's quit (so
`cancel()`'s wait for it ends even if the client never reads); `cancel()` is
once-guarded and is exactly stop-queue, close-quit, wait-forwarder,
close-channel, the only close of that channel. -/
theorem C11_source_facts :
    Gen.Subs.ntfnChanCap = 20 ∧ Gen.Subs.registersViaHandler = true ∧
    Gen.Subs.forwarderBeforeRegistration = true ∧
    Gen.Subs.mapMutators = ["handleNewSubscription", "handleCancelSubscription"] ∧
    Gen.Subs.mapMutatorCallers = ["subscriptionHandler"] ∧
    Gen.Subs.backlogLookupCallers = ["handleNewSubscription"] ∧
    Gen.Subs.backlogBeforeInsert = true ∧ Gen.Subs.fanoutEveryClient = true ∧
    Gen.Subs.pushBlocking = true ∧ Gen.Subs.forwardBlocking = true ∧
    Gen.Subs.ntfnChanSendSites = 1 ∧ Gen.Subs.forwardSendQuitCases = 2 ∧
    Gen.Subs.cancelOnce = true ∧
    Gen.Subs.cancelSeq = ["s.ntfnQueue.Stop()", "close(s.quit)", "s.wg.Wait()", "close(s.ntfnChan)"] ∧
    Gen.Subs.closeChanSites = 1 ∧ chanCap = Gen.Subs.ntfnChanCap := by decide

/-! ### The handler never waits for a client — the registration reply included

`Model/SubsReg.lean` opens the atomic `subscribe` step up into request / lookup / reply and lets
the caller of `NewSubscription` leave at any moment after `Stop` has closed the quit channel.  The
reply channel's capacity is the one regenerated from the source (`Gen.Subs.replyChanCap`) and the
handler sends one reply per request (`Gen.Subs.replySendSites`). -/

/-- **The handler never blocks on a client.**  In every interleaving of the handshake — the caller
giving up before the handler has taken the request, while it is inside the backlog lookup, between
lookup and reply, or never — the handler is never parked on its reply. -/
theorem C11_handler_never_blocks_on_client (evs : List Reg.Ev) :
    (Reg.run Gen.Subs.replyChanCap Reg.init evs).h ≠ .blocked :=
  (Reg.inv_run _ (by decide) _ evs Reg.inv_init).notBlocked

/-- **Stop completes during a registration.**  From every reachable state of the handshake, once
`Stop` has closed the quit channel the handler's own moves (finish the lookup, send the reply,
take the quit case) end with the handler gone, so `Stop`'s wait for it ends — whatever the caller
has done or left undone. -/
theorem C11_stop_completes_during_registration (evs : List Reg.Ev) :
    Reg.stopReturns (Reg.run Gen.Subs.replyChanCap Reg.init
      (evs ++ [.quitClose, .lookupDone, .reply, .handlerExit])) = true := by
  rw [Reg.run_append]
  simp only [Reg.stopReturns, beq_iff_eq]
  exact Reg.exit_after_quit _ (by decide) _ (Reg.inv_run _ (by decide) _ evs Reg.inv_init)

/-- **Isolation, extended to the registration reply.**  Once the handler has taken a request,
deleting every event of the caller (its receiving the reply, its giving up) from any continuation
leaves the handler where it is and the quit flag as it is: no move of the handler is enabled,
disabled or delayed by what the caller does. -/
theorem C11_reply_isolation (pre evs : List Reg.Ev)
    (htaken : (Reg.run Gen.Subs.replyChanCap Reg.init pre).c ≠ .sending) :
    (Reg.run Gen.Subs.replyChanCap Reg.init (pre ++ evs)).h =
      (Reg.run Gen.Subs.replyChanCap Reg.init (pre ++ evs.filter (fun e => !e.ofClient))).h ∧
    (Reg.run Gen.Subs.replyChanCap Reg.init (pre ++ evs)).quit =
      (Reg.run Gen.Subs.replyChanCap Reg.init (pre ++ evs.filter (fun e => !e.ofClient))).quit := by
  have hi := Reg.inv_run _ (by decide : 1 ≤ Gen.Subs.replyChanCap) _ pre Reg.inv_init
  have h := Reg.sim_run _ (by decide : 1 ≤ Gen.Subs.replyChanCap) evs _ _
    (Reg.Sim.mk rfl rfl hi hi htaken htaken)
  rw [Reg.run_append, Reg.run_append]
  exact ⟨h.hEq, h.qEq⟩

/-- What an unbuffered reply channel does (the reason the capacity is a source fact): the caller
leaves through the quit channel while the handler is inside the lookup, the handler then parks on
its reply for ever and `Stop` never returns. -/
theorem C11_unbuffered_reply_counterexample :
    (Reg.run 0 Reg.init [.take, .quitClose, .clientGiveUp, .lookupDone, .reply, .handlerExit]).h = .blocked ∧
    Reg.stopReturns (Reg.run 0 Reg.init [.take, .quitClose, .clientGiveUp, .lookupDone, .reply, .handlerExit]) = false := by
  decide

theorem C11_reply_source_facts : Gen.Subs.replyChanCap = 1 ∧ Gen.Subs.replySendSites = 1 := by decide

/-! Non-vacuity: concrete runs meeting the hypotheses. -/

private def n1 : Ntfn := ⟨1, true, 5⟩
private def n2 : Ntfn := ⟨2, true, 6⟩
private def n3 : Ntfn := ⟨3, false, 6⟩
private def n4 : Ntfn := ⟨4, true, 6⟩

/-- subscriber 1 (backlog n1) reads; subscriber 2 registers later and stalls; 1 is cancelled with n4 queued -/
private def demo : List Ev :=
  [.subscribe 1 4 [n1], .emit n2, .handlerFanout, .subscribe 2 0 [], .emit n3, .handlerFanout,
   .forward 1, .forward 1, .consume 1, .consume 1, .emit n4, .handlerFanout, .forward 2, .cancel 1]

example : ((run init demo).subs 1).map (·.delivered) = some [n1, n2] := by decide
example : ((run init demo).subs 1).map (·.closed) = some true := by decide
example : ((run init demo).subs 1).map (·.queue) = some [n3, n4] := by decide
example : ((run init demo).subs 2).map (fun x => (x.delivered, x.chan, x.queue, x.closed)) =
    some ([], [n3], [n4], false) := by decide
example : (run init demo).fanned = [n2, n3, n4] := by decide
/-- isolation on the demo: deleting subscriber 1's events leaves subscriber 2 as it was -/
example : (run init (demo.filter (notOf 1))).subs 2 = (run init demo).subs 2 := by decide
/-- completeness hypothesis is satisfiable: subscriber 2 is open with items pending -/
example : ((run init demo).subs 2).map (fun x => (x.closed, x.chan.length + x.queue.length)) = some (false, 2) := by decide
/-- a stalled subscriber: 25 notifications, channel holds `chanCap`, the rest stay queued, none lost -/
example :
    let evs := [Ev.subscribe 1 0 []] ++ ((List.range 25).map fun i => [Ev.emit ⟨i, true, i⟩, .handlerFanout, .forward 1]).flatten
    ((run init evs).subs 1).map (fun x => (x.chan.length, x.queue.length, x.delivered.length)) = some (20, 5, 0) := by decide
/-- the registration window: n2 is emitted while subscriber 2's backlog lookup (snapshot [n1]) is in
progress in the handler; it waits at the source, is fanned out after the registration and reaches
subscriber 2 after its backlog, and subscriber 1 as usual -/
example :
    let evs := [Ev.subscribe 1 0 [], .emit n2, .subscribe 2 4 [n1], .handlerFanout, .forward 1, .forward 2, .forward 2,
                .consume 2, .consume 2, .consume 1]
    outs init evs = [.ok, .unit, .ok, .ok, .unit, .unit, .unit, .item n1, .item n2, .item n2] ∧
    ((run init evs).subs 2).map (fun x => (x.backlog, x.since, x.delivered)) = some ([n1], [n2], [n1, n2]) := by decide
/-- after stop, reads drain the channel and then report `closed` -/
example : outs init [.subscribe 1 0 [n1, n2], .forward 1, .stop, .consume 1, .consume 1, .forward 1, .consume 1] =
    [.ok, .unit, .unit, .item n1, .closed, .unit, .closed] := by decide

/-- the handshake when Stop overtakes a registration: the caller has given up, the handler is still in the
lookup (hypothesis of `C11_reply_isolation` met), and the handler's remaining moves let Stop return -/
example : (Reg.run Gen.Subs.replyChanCap Reg.init [.take, .quitClose, .clientGiveUp]).c = .gaveUp ∧
    (Reg.run Gen.Subs.replyChanCap Reg.init [.take, .quitClose, .clientGiveUp]).h = .lookup ∧
    Reg.stopReturns (Reg.run Gen.Subs.replyChanCap Reg.init
      [.take, .quitClose, .clientGiveUp, .lookupDone, .reply, .handlerExit]) = true := by decide
/-- a subscriber that never reads and is behind by more than its channel holds: open, nothing lost (the
hypotheses of `C11_complete`, which has no bound on what has piled up) -/
example :
    let evs := [Ev.subscribe 1 0 []] ++ ((List.range 30).map fun i => [Ev.emit ⟨i, true, i⟩, .handlerFanout]).flatten
    ((run init evs).subs 1).map (fun x => (x.closed, x.chan.length + x.queue.length)) = some (false, 30) := by decide

end Neutrino.Subs
