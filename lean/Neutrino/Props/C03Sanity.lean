/-
Property C03, the region "peers' filter checkpoint lists of DIFFERING LENGTHS":
what `checkCFCheckptSanity` concludes for every family of lists and every store.
The lemmas are in `Lemmas/CFSanity.lean`, the specification in `Spec/CFSanity.lean`
(the same `sanitySpec` the driver evaluates on the lists and the store the real
function was given, against the value the real function returned).

The one hypothesis, `noZeroCp`, excludes the all-zero hash from the lists: the Go
loop uses it as its "nothing seen yet" marker (a double-SHA256 value never is).
-/
import Neutrino.Lemmas.CFSanity
namespace Neutrino.CFHeaders

/-- for every family of checkpoint lists, of any lengths, and every store: the
function returns the FIRST index — looked for up to the end of the LONGEST list —
at which two lists that both reach it differ, or a list that reaches it differs
from the stored filter header of that checkpoint height; `-1` iff there is none -/
theorem C03_sanity_spec (interval : Nat) (fstore : List Hdr) (cp : List (Peer × List Hdr))
    (hz : noZeroCp cp = true) : checkSanity interval fstore cp = sanitySpec interval fstore cp :=
  checkSanity_eq_spec interval fstore cp hz

/-- "full agreement" is only reported when EVERY pair of lists agrees at every
index both reach — also beyond the end of a shorter third list — and every list
agrees with the store at every checkpoint height the store has -/
theorem C03_sanity_agreement (interval : Nat) (fstore : List Hdr) (cp : List (Peer × List Hdr))
    (hz : noZeroCp cp = true) (h : checkSanity interval fstore cp = none) :
    (∀ pc ∈ cp, ∀ qc ∈ cp, ∀ (i : Nat) (x y : Hdr), pc.2[i]? = some x → qc.2[i]? = some y → x = y) ∧
    (∀ pc ∈ cp, ∀ (i : Nat) (x : Hdr), pc.2[i]? = some x → (i + 1) * interval ≤ fstore.length - 1 →
       fstore[(i + 1) * interval]? = some x) := by
  rw [checkSanity_eq_spec interval fstore cp hz] at h
  have hno := find_range_none _ _ h
  have hlt : ∀ (pc : Peer × List Hdr), pc ∈ cp → ∀ (i : Nat) (x : Hdr), pc.2[i]? = some x → i < maxLen cp := by
    intro pc hpc i x hx
    have hl : i < pc.2.length := by
      rcases Nat.lt_or_ge i pc.2.length with h1 | h1
      · exact h1
      · rw [List.getElem?_eq_none h1] at hx; exact absurd hx (by simp)
    have : ∀ (l : List (Peer × List Hdr)) (m0 : Nat), pc ∈ l →
        i < l.foldl (fun m qc => max m qc.2.length) m0 := by
      intro l
      induction l with
      | nil => intro _ hm; exact absurd hm (List.not_mem_nil)
      | cons a r ih =>
        intro m0 hm
        simp only [List.foldl_cons]
        rcases List.mem_cons.mp hm with e | e
        · subst e
          have mono : ∀ (l : List (Peer × List Hdr)) (m : Nat), m ≤ l.foldl (fun m qc => max m qc.2.length) m := by
            intro l
            induction l with
            | nil => intro m; exact Nat.le_refl _
            | cons b t iht => intro m; simp only [List.foldl_cons]; exact Nat.le_trans (by omega) (iht _)
          exact Nat.lt_of_lt_of_le (by omega) (mono r _)
        · exact ih _ e
    exact this cp 0 hpc
  constructor
  · intro pc hp qc hq i x y hx hy
    by_cases he : x = y
    · exact he
    · have := disagreeAt_of_differ interval fstore cp i pc qc hp hq x y hx hy he
      rw [hno i (hlt pc hp i x hx)] at this
      exact absurd this (by simp)
  · intro pc hp i x hx hle
    by_cases hs : fstore[(i + 1) * interval]? = some x
    · exact hs
    · have := disagreeAt_of_store interval fstore cp i pc hp x hx hle hs
      rw [hno i (hlt pc hp i x hx)] at this
      exact absurd this (by simp)

/-- a reported index is a real disagreement, lies inside the longest list, and
no smaller index shows one -/
theorem C03_sanity_first (interval : Nat) (fstore : List Hdr) (cp : List (Peer × List Hdr))
    (hz : noZeroCp cp = true) (d : Nat) (h : checkSanity interval fstore cp = some d) :
    disagreeAt interval fstore cp d = true ∧ d < maxLen cp ∧
    ∀ i, i < d → disagreeAt interval fstore cp i = false := by
  rw [checkSanity_eq_spec interval fstore cp hz] at h
  exact find_range_least _ _ d h

/-- a forged checkpoint is noticed wherever it sits: if two of the lists differ
at some index both reach — however short a third list may be — the function
reports a disagreement at or before that index, never "full agreement" -/
theorem C03_sanity_forgery_noticed (interval : Nat) (fstore : List Hdr) (cp : List (Peer × List Hdr))
    (hz : noZeroCp cp = true) (pc qc : Peer × List Hdr) (hp : pc ∈ cp) (hq : qc ∈ cp) (i : Nat) (x y : Hdr)
    (hx : pc.2[i]? = some x) (hy : qc.2[i]? = some y) (hxy : x ≠ y) :
    ∃ d, d ≤ i ∧ checkSanity interval fstore cp = some d := by
  cases hc : checkSanity interval fstore cp with
  | none => exact absurd ((C03_sanity_agreement interval fstore cp hz hc).1 pc hp qc hq i x y hx hy) hxy
  | some d =>
    refine ⟨d, ?_, rfl⟩
    rcases Nat.lt_or_ge i d with hlt | hge
    · have h1 := (C03_sanity_first interval fstore cp hz d hc).2.2 i hlt
      have h2 := disagreeAt_of_differ interval fstore cp i pc qc hp hq x y hx hy hxy
      rw [h1] at h2
      exact absurd h2 (by simp)
    · exact hge

/-- the hypotheses are satisfiable and the statement is not vacuous: an honest
list, a correct but SHORT list (length 1) and a list forged at index 2 — beyond
the end of the short one; the forgery is reported at index 2.  Comparing only
up to the shortest list would report full agreement here. -/
example :
    let cp : List (Peer × List Hdr) := [(1, [11, 12, 13]), (2, [11]), (3, [11, 12, 99])]
    noZeroCp cp = true ∧ checkSanity 1000 [1] cp = some 2 ∧ sanitySpec 1000 [1] cp = some 2 ∧
    -- the empty list and the boundary "forged exactly at the first index the short list lacks"
    checkSanity 1000 [1] [(1, [11, 12]), (2, []), (3, [98, 12])] = some 0 ∧
    checkSanity 1000 [1] [(1, [11, 12]), (2, [11]), (3, [11, 98])] = some 1 ∧
    -- lists of differing lengths that agree wherever they overlap: full agreement
    checkSanity 1000 [1] [(1, [11, 12, 13]), (2, [11]), (3, [11, 12])] = none := by decide

end Neutrino.CFHeaders
