/-
C14 — a header import whose SOURCE starts failing while the importer writes
(a file that has become shorter than its mapping, a failing disk: every read
from some file index on returns an error that may well wrap `io.EOF`).
"Success ⇒ the stores hold the file up to its declared end" must survive it:
a read failure is never the end of the data.
-/
import Neutrino.Props.C14
import Neutrino.Lemmas.ImportRead
namespace Neutrino.Import

theorem processRegionsRF_none (F : File) (cfg : Cfg) (b f : Nat) (r : Run) :
    processRegionsRF F cfg none b f r = processRegions F cfg b f r := by
  have h : ∀ s e m r, appendNewRF F cfg none s e m r = appendNew F cfg s e m r :=
    fun s e m r => appendLoopRF_none F cfg _ _ _ _ _
  unfold processRegionsRF processRegions
  simp only [h]

/-- without a fault the extended run is the run the other C14 theorems speak of -/
theorem C14_read_fault_none (F : File) (cfg : Cfg) (st : Stores) :
    importRunRF F cfg none st = importRun F cfg st := by
  unfold importRunRF importRun
  simp only [processRegionsRF_none]

/-- **Truncated source, one write loop**: over a source that fails from any file
index on, armed at any moment, for either file, the write loop does exactly what
it does over the whole file (the failure was never met) or it ends with a read
error — it never takes the failure for the end of the data. -/
theorem C14_truncated_source_reported (F : File) (cfg : Cfg) (rf : ReadFault) (srcEnd : Nat) (mode : Mode)
    (fuel batchStart : Nat) (r : Run) :
    appendLoopRF F cfg (some rf) srcEnd mode fuel batchStart r = appendLoop F cfg srcEnd mode fuel batchStart r ∨
    (appendLoopRF F cfg (some rf) srcEnd mode fuel batchStart r).1 = some .read :=
  appendLoopRF_cases F cfg (some rf) srcEnd mode fuel batchStart r

/-- **Truncated source, whole import**: an import that reports success although
its source was failing is, step for step, the import of the whole file — the
failure was never met, so every success theorem applies to it unchanged. -/
theorem C14_read_fault_success (F : File) (cfg : Cfg) (rf : ReadFault) (st : Stores)
    (hok : (importRunRF F cfg (some rf) st).1 = none) :
    importRunRF F cfg (some rf) st = importRun F cfg st :=
  importRunRF_success F cfg (some rf) st hok

/-- the success clause of the run-time oracle under a failing source (level
stores, outside the recorded shape F7) -/
theorem C14_success_read_fault_partial (F : File) (cfg : Cfg) (rf : ReadFault) (st : Stores)
    (hh : Healthy st) (heq : EqualHeights st) (hbs : cfg.bs ≥ 1) (hshape : f7Shape (obsOf st) F = false)
    (hok : (importRunRF F cfg (some rf) st).1 = none) :
    successOk (obsOf st) F (obsOf (importRunRF F cfg (some rf) st).2.st) = true := by
  have e := C14_read_fault_success F cfg rf st hok
  have hok' : (importStores F cfg st).1 = none := by simp only [importStores]; rw [← e]; exact hok
  have := C14_success_all_partial F cfg st hh heq hbs hshape hok'
  simpa only [importStores, e] using this

/-- what the theorems above rely on in chainimport/headers_import.go
(regenerated on every run): the write loop and `processBatch` recognise the end
of the data by the identity of the sentinel `io.EOF`, which only `ReadBatch`'s
"range exhausted" produces; a read error of the source arrives wrapped and is
not equal to it. -/
theorem C14_read_source_shape : Gen.Import.writeLoopEofBySentinelIdentity = true := by decide

/-! Non-vacuity, and what the identity comparison is needed for. -/

/-- a file of genesis + 6 headers for stores holding genesis only, batches of 2 -/
def rfFile : File :=
  { bstart := 0, fstart := 0,
    blocks := [⟨0, 0, true⟩, ⟨1, 0, true⟩, ⟨2, 1, true⟩, ⟨3, 2, true⟩, ⟨4, 3, true⟩, ⟨5, 4, true⟩, ⟨6, 5, true⟩],
    filters := [0, 1, 2, 3, 4, 5, 6] }
def rfStores : Stores := { blocks := [⟨0, 0, true⟩], btip := 0, filters := [0], ftip := some 0 }

/-- the block file becomes unreadable from index 4 on at the second iteration of
the write loop: the import fails with a read error after the batch before it -/
example : (importRunRF rfFile { bs := 2 } (some ⟨true, 2 * 4 + 1, 4⟩) rfStores).1 = some .read := by decide
example : (importRunRF rfFile { bs := 2 } (some ⟨true, 2 * 4 + 1, 4⟩) rfStores).2.st.blocks.length = 3 := by decide
/-- a failure that is never met (index beyond the file) changes nothing -/
example : (importRunRF rfFile { bs := 2 } (some ⟨false, 2 * 4, 7⟩) rfStores).1 = none := by decide
example : (importRunRF rfFile { bs := 2 } (some ⟨false, 2 * 4, 7⟩) rfStores).2.st.filters = [0, 1, 2, 3, 4, 5, 6] := by decide

/-- **Why identity**: a write loop that takes every read error for the end of
the data (`errors.Is(err, io.EOF)` on a wrapped short read) reports SUCCESS with
the stores short of the file — the success clause is false of it. -/
theorem C14_lax_eof_counterexample :
    let r := appendLoopLax rfFile { bs := 2 } (some ⟨true, 2 * 4 + 1, 4⟩) 6 .both 8 1 { st := rfStores, np := 8 }
    r.1 = none ∧ r.2.st.blocks.length = 3 ∧ successOk (obsOf rfStores) rfFile (obsOf r.2.st) = false := by decide

end Neutrino.Import
