/-
C05 - `prepareCFiltersQuery` as the CODE defines it (translated from query.go on every run,
Gen/TransQuery.lean) against the model's range arithmetic `rangeOf` / `prepare`, which `C05_range`,
`C05_no_query_above_tip` and `C05_index_aligned` are about.  The store lookups
(`BlockHeaders.FetchHeader`, `BestBlock`, `GetBlockHash`, the two `FetchHeaderAncestors`) are
function parameters of the translated definition, so the theorems also say what the stores are
asked for.
-/
import Neutrino.Props.C05
import Neutrino.Lemmas.TransGetCFilter
namespace Neutrino.GetCFilter
open Neutrino.Gen.TransQuery Neutrino.GoInt

section
variable (blockHash : Atom) (ft bt : Nat) (mb : Int) (self : Atom) (f1 : T_wire_BlockHeader → Atom)
  (f2 : Option T_headerfs_BlockStamp × Bool) (f3 : Atom → Option T_wire_BlockHeader × Nat × Bool)
  (f4 : Nat → Atom → List T_wire_BlockHeader × Nat × Bool) (f5 : Int → Atom × Bool)
  (f6 : Nat → Atom → List Atom × Nat × Bool)

/-- **The range a prepared query covers is the model's `rangeOf`, and the stores are asked for
exactly that range** - every batch type, every batch size, whatever the stores answer. -/
theorem C05_trans_prepareCFiltersQuery (q : T_neutrino_cfiltersQuery)
    (h : prepareCFiltersQuery blockHash ft bt mb self f1 f2 f3 f4 f5 f6 = (some q, false)) :
    (f3 blockHash).2.2 = false ∧ f2.2 = false ∧ ((f3 blockHash).2.1 : Int) ≤ (deref f2.1).Height ∧
    ∃ b, absBatch bt = some b ∧
      (q.startHeight, q.stopHeight) = rangeOf (((f3 blockHash).2.1 : Int)) (deref f2.1).Height b mb ∧
      (f5 q.stopHeight) = (q.stopHash, false) ∧
      (f4 (toU 32 (q.stopHeight - q.startHeight + 1)) q.stopHash).2.2 = false ∧
      len (f4 (toU 32 (q.stopHeight - q.startHeight + 1)) q.stopHash).1
        = ((toU 32 (q.stopHeight - q.startHeight + 1) : Nat) : Int) + 1 ∧
      (f6 (toU 32 (q.stopHeight - q.startHeight + 1)) q.stopHash).2.2 = false ∧
      q.filterHeaders = (f6 (toU 32 (q.stopHeight - q.startHeight + 1)) q.stopHash).1 ∧
      len q.filterHeaders = ((toU 32 (q.stopHeight - q.startHeight + 1) : Nat) : Int) + 1 ∧
      q.headerIndex = prepareCFiltersQuery_loop1 f1 (f4 (toU 32 (q.stopHeight - q.startHeight + 1)) q.stopHash).1
        (rangeUp 1 (len (f4 (toU 32 (q.stopHeight - q.startHeight + 1)) q.stopHash).1)) [] ∧
      q.targetHash = blockHash ∧ q.filterType = ft ∧ q.cs = self :=
  trans_prepare_ok blockHash ft bt mb self f1 f2 f3 f4 f5 f6 q h

/-- `C05_range` for the code's own function: a prepared query for a block of height ≥ 1 covers the
target, stays within [1, best], and is no longer than the limit (and than a requested batch size) -/
theorem C05_trans_range (q : T_neutrino_cfiltersQuery)
    (h : prepareCFiltersQuery blockHash ft bt mb self f1 f2 f3 f4 f5 f6 = (some q, false))
    (h1 : 1 ≤ (f3 blockHash).2.1) :
    1 ≤ q.startHeight ∧ q.startHeight ≤ ((f3 blockHash).2.1 : Int) ∧ ((f3 blockHash).2.1 : Int) ≤ q.stopHeight ∧
    q.stopHeight ≤ (deref f2.1).Height ∧ q.stopHeight - q.startHeight + 1 ≤ maxRange ∧
    (0 < mb ∧ mb < maxRange → q.stopHeight - q.startHeight + 1 ≤ mb) := by
  obtain ⟨_, _, hle, b, _, hr, _⟩ := C05_trans_prepareCFiltersQuery blockHash ft bt mb self f1 f2 f3 f4 f5 f6 q h
  have hs := rangeOf_spec (((f3 blockHash).2.1 : Int)) (deref f2.1).Height b mb (by omega) hle
  rw [← hr] at hs
  exact ⟨hs.1, hs.2.1, hs.2.2.1, hs.2.2.2.1, hs.2.2.2.2.1, hs.2.2.2.2.2.1⟩

/-- **No query above the filter-header tip, in the code's own words** (the repair behind
`C05_no_query_above_tip`): a block above the best filter-header height never yields a query. -/
theorem C05_trans_no_query_above_tip (herr1 : (f3 blockHash).2.2 = false) (herr2 : f2.2 = false)
    (h : (deref f2.1).Height < ((f3 blockHash).2.1 : Int)) :
    prepareCFiltersQuery blockHash ft bt mb self f1 f2 f3 f4 f5 f6 = (none, true) :=
  trans_prepare_above_tip blockHash ft bt mb self f1 f2 f3 f4 f5 f6 herr1 herr2 h

/-- a failing header or best-block lookup fails the preparation (fail closed) -/
theorem C05_trans_lookup_error (h : (f3 blockHash).2.2 = true ∨ f2.2 = true) :
    prepareCFiltersQuery blockHash ft bt mb self f1 f2 f3 f4 f5 f6 = (none, true) :=
  trans_prepare_lookup_err blockHash ft bt mb self f1 f2 f3 f4 f5 f6 h
end

/-- **The header index of a prepared query** (the loop over `blockHeaders[1 …]`): it holds exactly
the hashes of the awaited blocks, and the position it stores for a hash is a position of the private
header slice, at or after 1, that holds this very hash - the code-level fact `C05_index_aligned`
needs (a response naming block `b` is checked against the headers at `b`'s own position). -/
theorem C05_trans_headerIndex (f1 : T_wire_BlockHeader → Atom) (bhs : List T_wire_BlockHeader) (k : Atom) :
    let ix := prepareCFiltersQuery_loop1 f1 bhs (rangeUp 1 (len bhs)) []
    (mhas ix k = true ↔ ∃ i : Int, 1 ≤ i ∧ i < len bhs ∧ f1 (idx bhs i) = k) ∧
    (mhas ix k = true → 1 ≤ mlookup ix k ∧ mlookup ix k < len bhs ∧ f1 (idx bhs (mlookup ix k)) = k) :=
  trans_headerIndex f1 bhs k

/-! the hypotheses are satisfiable: a chain of 6 blocks (headers 0..5 with hash = height + 100),
target at height 3, forward batch of 2 -/
def exHdr (i : Nat) : T_wire_BlockHeader := { Version := 0, PrevBlock := 0, MerkleRoot := 0, Timestamp := 0, Bits := 0, Nonce := i }
def exAnc (n : Nat) (stop : Atom) : List T_wire_BlockHeader × Nat × Bool :=
  (((List.range (n + 1)).map (fun k => exHdr (stop - 100 - n + k))), 0, false)
def exFAnc (n : Nat) (stop : Atom) : List Atom × Nat × Bool :=
  (((List.range (n + 1)).map (fun k => 200 + (stop - 100 - n + k))), 0, false)
example : (prepareCFiltersQuery 103 0 K_neutrino_forwardBatch 2 7 (fun h => h.Nonce + 100)
    (some { Height := 5, Hash := 105, Timestamp := 0 }, false) (fun h => (none, h - 100, false))
    exAnc (fun h => (h.toNat + 100, false)) exFAnc).1.map (fun q => (q.startHeight, q.stopHeight, q.filterHeaders, q.headerIndex))
    = some ((3 : Int), (4 : Int), ([202, 203, 204] : List Nat), ([(104, 2), (103, 1)] : List (Nat × Int))) := by decide

end Neutrino.GetCFilter
