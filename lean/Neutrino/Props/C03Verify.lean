/-
C03, the clause "provably inconsistent with the block (the filter omits an
output script …)": what `VerifyBasicBlockFilter` (verification.go) decides,
stated on the contents of the block — for every block, every filter (seen
through its membership test, false positives included) and every number of
transactions, outputs and inputs.

The model `VerifyFilter.verify` is compared with the real function on every
(filter, block) pair the cf-header driver meets (`vb` rows: the block's
structure as the Go code classifies it, the real `Match` answers, and the real
verdict), and the results feed the abstract `Net.verify` of the commit-path
model, so the theorems below instantiate the hypotheses `truthVerifies` and
`provableAt` of `C03_honest_wins_partial`.
-/
import Neutrino.Lemmas.VerifyFilter
import Neutrino.Spec.CFHeaders
import Neutrino.Gen.CFHeaders
namespace Neutrino.VerifyFilter
open Neutrino.CFHeaders

def toVRes : Res → VRes
  | none => .bad
  | some n => .ok n

theorem errorFree_iff (mem : Nat → Option Bool) (txs : List Tx) :
    errorFree mem txs = true ↔ errFreeTxs mem txs.tail := by
  simp only [errorFree, errFreeTxs, List.all_eq_true, List.mem_append]

/-- **The filter is rejected exactly when it omits an output script.**  With `Match` answering (no decoding
error), `VerifyBasicBlockFilter` returns an error iff some non-empty, non-OP_RETURN output script of a
non-coinbase transaction is not matched by the filter. -/
theorem C03_verify_rejects_iff_omits (mem : Nat → Option Bool) (txs : List Tx) (hE : errorFree mem txs = true) :
    verify mem txs = none ↔ omitsOutput mem txs = true := by
  unfold verify omitsOutput
  rw [verifyTxs_none_iff mem txs.tail 0 ((errorFree_iff mem txs).mp hE)]
  simp [List.any_eq_true]

/-- an accepted filter comes with the number of OP_RETURN outputs it matches (what
`resolveFilterMismatchFromBlock` ranks peers by) -/
theorem C03_verify_counts_opreturns (mem : Nat → Option Bool) (txs : List Tx) (n : Nat)
    (h : verify mem txs = some n) : n = opretMatches mem txs := by
  have := verifyTxs_some mem txs.tail 0 n h
  simpa [opretMatches, nMatch] using this

/-- inputs never make a difference (no `Match` error): a filter is not rejected for missing a spent script —
the one false value the property does NOT call provable -/
theorem C03_verify_ignores_inputs (mem : Nat → Option Bool) (txs : List Tx) (hE : errorFree mem txs = true) :
    verify mem txs = verify mem (txs.map (fun t => { t with ins := [] })) := by
  unfold verify
  rw [verifyTxs_ignores_inputs mem txs.tail 0 ((errorFree_iff mem txs).mp hE)]
  cases txs <;> rfl

/-- the coinbase transaction is not looked at -/
theorem C03_verify_ignores_coinbase (mem : Nat → Option Bool) (cb cb' : Tx) (rest : List Tx) :
    verify mem (cb :: rest) = verify mem (cb' :: rest) := rfl

/-- **A complete filter is never rejected**: a filter matching every ordinary output script of the block
(the true BIP158 filter does, by construction) passes — so an honest peer's filter is never "provably
inconsistent", whatever else the filter matches (false positives, extra elements). -/
theorem C03_verify_complete_filter_accepted (mem : Nat → Option Bool) (txs : List Tx)
    (hE : errorFree mem txs = true) (hall : ∀ s ∈ ordScripts txs.tail, mem s = some true) :
    (verify mem txs).isSome = true := by
  cases h : verify mem txs with
  | some _ => rfl
  | none =>
    have := (C03_verify_rejects_iff_omits mem txs hE).mp h
    simp only [omitsOutput, List.any_eq_true, beq_iff_eq] at this
    obtain ⟨s, hs, hm⟩ := this
    rw [hall s hs] at hm; cases hm

/-- adding elements to a filter never turns acceptance into rejection -/
theorem C03_verify_monotone (mem mem' : Nat → Option Bool) (txs : List Tx)
    (hE : errorFree mem txs = true) (hE' : errorFree mem' txs = true)
    (hsub : ∀ s, mem s = some true → mem' s = some true)
    (h : (verify mem txs).isSome = true) : (verify mem' txs).isSome = true := by
  cases h' : verify mem' txs with
  | some _ => rfl
  | none =>
    have ho := (C03_verify_rejects_iff_omits mem' txs hE').mp h'
    simp only [omitsOutput, List.any_eq_true, beq_iff_eq] at ho
    obtain ⟨s, hs, hm⟩ := ho
    have hsome : (mem s).isSome = true := by
      have := (errorFree_iff mem txs).mp hE
      apply this; simp [hs]
    cases hms : mem s with
    | none => simp [hms] at hsome
    | some b =>
      cases b
      · have : verify mem txs = none := (C03_verify_rejects_iff_omits mem txs hE).mpr (by
          simp only [omitsOutput, List.any_eq_true, beq_iff_eq]; exact ⟨s, hs, hms⟩)
        rw [this] at h; cases h
      · rw [hsub s hms] at hm; cases hm

/-- a `Match` error on the first script asked about ends the verification with an error (never defaulted) -/
theorem C03_verify_match_error_rejects (mem : Nat → Option Bool) (cb t : Tx) (o : Out) (os : List Out) (rest : List Tx)
    (ht : t.outs = o :: os) (hk : o.kind ≠ .empty) (hm : mem o.script = none) :
    verify mem (cb :: t :: rest) = none := by
  cases hk' : o.kind with
  | empty => exact absurd hk' hk
  | opret => simp [verify, verifyTxs, ht, verifyOuts, hk', hm]
  | ord => simp [verify, verifyTxs, ht, verifyOuts, hk', hm]

/-! ### instantiating the abstract `verify` of the commit-path model -/

/-- the verdicts the commit-path model is given, computed from the blocks and the filters' membership tests -/
def netVerify (memOf : FHash → Nat → Option Bool) (blockTxs : Nat → List Tx) : FHash → Nat → VRes :=
  fun f h => toVRes (verify (memOf f) (blockTxs h))

/-- "the false value is provably inconsistent because the block check fails" is literally "the filter omits
an output script of the block" -/
theorem C03_block_check_bad_iff_omits (memOf : FHash → Nat → Option Bool) (blockTxs : Nat → List Tx) (f : FHash) (h : Nat)
    (hE : errorFree (memOf f) (blockTxs h) = true) :
    (netVerify memOf blockTxs f h == VRes.bad) = omitsOutput (memOf f) (blockTxs h) := by
  unfold netVerify
  cases hv : verify (memOf f) (blockTxs h) with
  | none =>
    have := (C03_verify_rejects_iff_omits _ _ hE).mp hv
    simp [toVRes, this]
  | some n =>
    have : omitsOutput (memOf f) (blockTxs h) ≠ true := fun ho => by
      have := (C03_verify_rejects_iff_omits _ _ hE).mpr ho; rw [hv] at this; cases this
    simp only [toVRes]
    cases hb : omitsOutput (memOf f) (blockTxs h)
    · rfl
    · exact absurd hb this

/-- the hypothesis `truthVerifies` of the honest-wins clause holds whenever the true filters are complete for
their blocks: it need not be assumed, it follows from how BIP158 builds a filter -/
theorem C03_truth_verifies_of_complete (r : Round) (memOf : FHash → Nat → Option Bool) (blockTxs : Nat → List Tx)
    (hv : r.verify = netVerify memOf blockTxs)
    (hE : ∀ i, i < r.n → errorFree (memOf (r.truth (r.start + i))) (blockTxs (r.start + i)) = true)
    (hc : ∀ i, i < r.n → ∀ s ∈ ordScripts (blockTxs (r.start + i)).tail, memOf (r.truth (r.start + i)) s = some true) :
    r.truthVerifies = true := by
  unfold Round.truthVerifies
  rw [List.all_eq_true]
  intro i hi
  have hi' : i < r.n := List.mem_range.mp hi
  have := C03_verify_complete_filter_accepted _ _ (hE i hi') (hc i hi')
  rw [hv]; unfold netVerify
  cases hx : verify (memOf (r.truth (r.start + i))) (blockTxs (r.start + i)) with
  | none => rw [hx] at this; cases this
  | some n => simp [toVRes]

/-- the source still routes the block check through `VerifyBasicBlockFilter` -/
theorem C03_verify_source_facts : Gen.CFHeaders.verifyCalledInResolve = true := by decide

/-! ### non-vacuity: a block with every kind of output and input -/
namespace Ex
def cb : Tx := ⟨[⟨.ord, 90⟩], [⟨.nowit, 0⟩]⟩
def t1 : Tx := ⟨[⟨.ord, 1⟩, ⟨.empty, 0⟩, ⟨.opret, 7⟩, ⟨.ord, 2⟩], [⟨.nowit, 0⟩, ⟨.computed, 5⟩, ⟨.unsupported, 0⟩]⟩
def t2 : Tx := ⟨[⟨.ord, 3⟩, ⟨.opret, 8⟩], [⟨.failed, 0⟩, ⟨.computed, 6⟩]⟩
def txs : List Tx := [cb, t1, t2]
/-- the true filter: every ordinary output script and the spent scripts; OP_RETURN scripts are not committed -/
def truth : Nat → Option Bool := fun s => some ([1, 2, 3, 5, 6].contains s)
/-- omits output script 2 -/
def omitOut : Nat → Option Bool := fun s => some ([1, 3, 5, 6].contains s)
/-- omits only the spent script 5 and adds the OP_RETURN script 7 -/
def omitIn : Nat → Option Bool := fun s => some ([1, 2, 3, 6, 7].contains s)
def broken : Nat → Option Bool := fun s => if s = 3 then none else some true
end Ex

example : errorFree Ex.truth Ex.txs = true ∧ verify Ex.truth Ex.txs = some 0 ∧ omitsOutput Ex.truth Ex.txs = false := by decide
example : errorFree Ex.omitOut Ex.txs = true ∧ verify Ex.omitOut Ex.txs = none ∧ omitsOutput Ex.omitOut Ex.txs = true := by decide
example : verify Ex.omitIn Ex.txs = some 1 ∧ opretMatches Ex.omitIn Ex.txs = 1 := by decide
example : verify Ex.broken Ex.txs = none ∧ errorFree Ex.broken Ex.txs = false := by decide
/-- the coinbase output 90 is in no filter above and is never asked about -/
example : verify Ex.truth Ex.txs = verify Ex.truth (⟨[], []⟩ :: Ex.txs.tail) := by decide

end Neutrino.VerifyFilter
