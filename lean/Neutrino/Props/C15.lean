/-
C15 — accepted transactions are rebroadcast in dependency order until confirmed;
the broadcast verdict; nothing blocks indefinitely.
Property theorems only; lemmas live in Neutrino/Lemmas/PushTx.lean.
-/
import Neutrino.Lemmas.PushTx
import Neutrino.Gen.PushTx
namespace Neutrino.PushTx
open Neutrino.Gen.PushTx

/-! ## (a) contents of every rebroadcast -/

/-- **Included until confirmed.**  From ANY state: if `Broadcast(tx)` returned nil
(the network accepted the tx or already had it in its mempool), then whatever
happens afterwards (any events, any number of rebroadcasts, any results) as long as
`tx` is not reported confirmed, every rebroadcast that a later block event or tick
starts has `tx` in its snapshot. -/
theorem C15_included (s : State) (tx : Tx) (r : Res) (mid : List Op) (snap : List TxId)
    (hacc : (step s (.bcast tx r)).2 = .ok)
    (hmid : ∀ o ∈ mid, confirmsId tx.id o = false)
    (hstart : (step (run (step s (.bcast tx r)).1 mid) .trigger).2 = .started snap) :
    tx.id ∈ snap := by
  have h0 : tx.id ∈ ids (step s (.bcast tx r)).1.pending := by
    rw [step_pending]
    simp only [step] at hacc
    simp only [pendingAfter]
    (repeat' split at hacc) <;> simp_all [mem_ids_insert]
  have h1 := pending_kept_run mid _ tx.id h0 hmid
  rw [(trigger_started _ snap hstart).1]
  exact h1

example : (step {} (.bcast ⟨1, [0]⟩ .mempool)).2 = .ok ∧
    (step (run (step {} (.bcast ⟨1, [0]⟩ .mempool)).1 [.bcast ⟨0, []⟩ .accepted, .trigger, .rbStep 0 .confirmed, .rbStep 1 .mempool]) .trigger).2
      = .started [1] := by decide

/-- a trigger while nothing is running and something is pending DOES start a rebroadcast of
exactly the pending set (so `C15_included` is not vacuous: `started` is the only possible answer) -/
theorem C15_trigger_starts (s : State) (hs : s.stopped = false) (hr : s.running = none) (hp : s.pending ≠ []) :
    (step s .trigger).2 = .started (ids s.pending) := by
  simp only [step, hs, hr]
  cases h : s.pending with
  | nil => exact absurd h hp
  | cons p ps => simp

/-- **Not after confirmation.**  Once the handler has processed a confirmation of `id`
(`MarkAsConfirmed`, or a rebroadcast answered "confirmed"), no rebroadcast started later
contains it — unless it is broadcast and accepted again. -/
theorem C15_not_after_confirm (s : State) (o : Op) (id : TxId) (mid : List Op) (snap : List TxId)
    (ho : o = .confirm id ∨ (o = .rbStep id .confirmed ∧ holds s id = true))
    (hs : s.stopped = false)
    (hmid : ∀ o' ∈ mid, acceptsId id o' = false)
    (hstart : (step (run (step s o).1 mid) .trigger).2 = .started snap) :
    id ∉ snap := by
  have h0 : id ∉ ids (step s o).1.pending := by
    rw [step_pending]
    rcases ho with ho | ⟨ho, hh⟩
    · subst ho
      simp only [pendingAfter, hs, Bool.false_eq_true, ↓reduceIte]
      intro hm; exact ((mem_ids_remove id id s.pending).1 hm).2 rfl
    · subst ho
      simp only [pendingAfter, hs, hh, Bool.not_false, Bool.and_self, decide_true, ↓reduceIte]
      intro hm; exact ((mem_ids_remove id id s.pending).1 hm).2 rfl
  have h1 := absent_kept_run mid _ id h0 hmid
  rw [(trigger_started _ snap hstart).1]
  exact h1

example : (step (run (step (run {} [.bcast ⟨0, []⟩ .accepted, .bcast ⟨1, [0]⟩ .accepted]) (.confirm 0)).1 []) .trigger).2
    = .started [1] := by decide

/-- **A rejected transaction is never pending and never rebroadcast.**  If every broadcast
of `id` in a history was rejected (any error other than already-in-mempool, including
"confirmed"), then `id` is not in the handler's map, not in the running rebroadcast, and the
rebroadcast goroutine can never hand it to the network. -/
theorem C15_rejected_never_pending (ops : List Op) (id : TxId)
    (hrej : ∀ o ∈ ops, acceptsId id o = false) :
    id ∉ ids (run {} ops).pending ∧
    (∀ todo, (run {} ops).running = some todo → id ∉ ids todo) ∧
    (∀ r, (step (run {} ops) (.rbStep id r)).2 = .bad) ∧
    (∀ snap, (step (run {} ops) .trigger).2 = .started snap → id ∉ snap) := by
  have h : NoId id (run {} ops) := noId_run ops {} id ⟨by simp [ids], by intro t ht; cases ht⟩ hrej
  refine ⟨h.1, h.2, ?_, ?_⟩
  · intro r
    simp only [step]
    cases hr : (run {} ops).running with
    | none => rfl
    | some todo =>
      have hn := h.2 todo hr
      simp [hn]
  · intro snap hst
    rw [(trigger_started _ snap hst).1]; exact h.1

/-- a rejected broadcast changes nothing and reports the network's error -/
theorem C15_rejected_is_noop (s : State) (tx : Tx) (r : Res) (hr : r.keeps = false) :
    (step s (.bcast tx r)).1 = s ∧ (step s (.bcast tx r)).2 ≠ .ok := by
  simp only [step, hr]
  cases s.stopped <;> simp

example : (∀ o ∈ [Op.bcast ⟨3, []⟩ .invalid, .bcast ⟨3, []⟩ .confirmed, .bcast ⟨4, [3]⟩ .accepted, .trigger],
    acceptsId 3 o = false) ∧ (run {} [Op.bcast ⟨3, []⟩ .invalid, .bcast ⟨3, []⟩ .confirmed, .bcast ⟨4, [3]⟩ .accepted, .trigger]).running
      = some [⟨4, [3]⟩] := by decide

/-- the rebroadcast hands only elements of its snapshot to the network, each at most once, and
reports `done` exactly when nothing is left -/
theorem C15_rebroadcast_walks_snapshot (s : State) (id : TxId) (r : Res) (hs : s.stopped = false)
    (hok : (step s (.rbStep id r)).2 ≠ .bad) :
    ∃ todo, s.running = some todo ∧ id ∈ ids todo ∧
      ((step s (.rbStep id r)).2 = .done → remove id todo = []) ∧
      (∀ rest, (step s (.rbStep id r)).1.running = some rest → rest = remove id todo ∧ id ∉ ids rest) := by
  simp only [step, hs] at hok ⊢
  cases hr : s.running with
  | none => simp [hr] at hok
  | some todo =>
    simp only [hr] at hok ⊢
    by_cases hm : (ids todo).contains id = true
    · refine ⟨todo, rfl, by simpa using hm, ?_⟩
      simp only [hm, ↓reduceIte, Bool.false_eq_true]
      cases hrm : remove id todo with
      | nil => simp
      | cons t ts =>
        refine ⟨by simp, ?_⟩
        intro rest hrest
        injection hrest with hrest
        refine ⟨hrest.symm, ?_⟩
        rw [← hrest, ← hrm]
        intro hmem; exact ((mem_ids_remove id id todo).1 hmem).2 rfl
    · have hm' : id ∉ ids todo := by simpa using hm
      simp [hm'] at hok

/-! ## (b) dependency order -/

/-- **Order.**  Soundness of the check the oracle applies to every observed rebroadcast
(`topoAux`, the contract of `wtxmgr.DependencySort`): if it accepts `order`, then for every
transaction in it, each parent that belongs to the same rebroadcast (`all`) was sent
strictly earlier (or had been sent before, `seen`). -/
theorem C15_order (all : List TxId) (order : List Tx) (seen : List TxId)
    (h : topoAux all seen order = true)
    (pre post : List Tx) (c : Tx) (hsplit : order = pre ++ c :: post)
    (p : TxId) (hp : p ∈ c.parents) (hall : p ∈ all) :
    p ∈ seen ∨ p ∈ ids pre := by
  induction order generalizing seen pre with
  | nil => cases pre <;> cases hsplit
  | cons t rest ih =>
    simp only [topoAux, Bool.and_eq_true, List.all_eq_true] at h
    cases pre with
    | nil =>
      simp only [List.nil_append] at hsplit
      injection hsplit with h1 _
      subst h1
      have := h.1 p hp
      simp only [Bool.or_eq_true, List.contains_eq_mem, decide_eq_true_eq, Bool.not_eq_true', decide_eq_false_iff_not] at this
      rcases this with a | a
      · exact Or.inl a
      · exact absurd hall a
    | cons q pre' =>
      simp only [List.cons_append] at hsplit
      injection hsplit with h1 h2
      subst h1
      rcases ih (t.id :: seen) h.2 pre' h2 with a | a
      · rcases List.mem_cons.mp a with a | a
        · exact Or.inr (by simp [ids, a])
        · exact Or.inl a
      · exact Or.inr (by simp only [ids, List.map_cons, List.mem_cons]; exact Or.inr a)

/-- the form used on a whole rebroadcast: parents inside the rebroadcast come first -/
theorem C15_order_whole (order pre post : List Tx) (c : Tx) (h : topoOk (ids order) order = true)
    (hsplit : order = pre ++ c :: post) (p : TxId) (hp : p ∈ c.parents) (hin : p ∈ ids order) :
    p ∈ ids pre := by
  rcases C15_order (ids order) order [] h pre post c hsplit p hp hin with a | a
  · cases a
  · exact a

example : topoOk [0, 1, 2] [⟨0, []⟩, ⟨2, [0, 7]⟩, ⟨1, [0, 2]⟩] = true ∧
          topoOk [0, 1, 2] [⟨0, []⟩, ⟨1, [0, 2]⟩, ⟨2, [0, 7]⟩] = false := by decide

/-! ## (c) verdict of `sendTransaction` -/

/-- what `sendTransaction` has collected when `queryAllPeers` returns, for a sequence of peer
messages: the response handler as found in the source (`rejectRequiresReply`) -/
def collected (msgs : List PeerMsg) : Replies := collect rejectRequiresReply msgs

/-- **Verdict, full strength.**  For EVERY sequence of peer messages naming the transaction
(getdata and reject from any peers in any order, repeated, from peers that never asked for it,
sub-queries timing out at any point), every threshold, every tie-break order of the reject
codes: if `sendTransaction` returns an error, then every peer that replied (requested the
transaction) rejected it, or the share of the replying peers that called it invalid reached
the threshold. -/
theorem C15_verdict (num den : Nat) (iter : List Code) (msgs : List PeerMsg) (c : Code)
    (hv : verdict thresholdOp num den iter (collected msgs) = some c) :
    AllRepliersRejected (collected msgs) ∨ InvalidShareReached num den (collected msgs) := by
  have hg : rejectRequiresReply = true := by decide
  have hop : thresholdOp = ">=" ∨ thresholdOp = ">" := by decide
  have hinv := collInv_from msgs {} collInv_init
  simp only [collected, hg] at hv ⊢
  exact verdict_sets thresholdOp hop num den iter (collect true msgs) hinv.sub hinv.nodup c hv

/-- the shape that used to be excluded is now a consequence of the handler: every recorded
rejection comes from a peer that had requested the transaction, at most one per peer; and the
sets mean what their names say (a peer is a replier only through its own getdata, a rejecter
only through its own reject). -/
theorem C15_rejecters_replied (msgs : List PeerMsg) :
    RejectersReplied (collected msgs) ∧ ((collected msgs).rejections.map (·.1)).Nodup ∧
    (∀ p ∈ (collected msgs).replies, PeerMsg.getdata p ∈ msgs) ∧
    (∀ x ∈ (collected msgs).rejections, PeerMsg.reject x.1 x.2 ∈ msgs) := by
  have hg : rejectRequiresReply = true := by decide
  have hinv := collInv_from msgs {} collInv_init
  have ho := collect_origin true msgs {}
  simp only [collected, hg]
  refine ⟨hinv.sub, hinv.nodup, ?_, ?_⟩
  · intro p hp
    rcases ho.1 p hp with h | h
    · cases h
    · exact h
  · intro x hx
    rcases ho.2 x hx with h | h
    · cases h
    · exact h

/-- the input of the repaired defect (peer 1 requests the tx and accepts it silently, peer 2
never requests it but rejects it): the broadcast now succeeds; without the guard in the reject
arm (`collect false`) the same messages made it fail although no replier had rejected.
A reject that arrives BEFORE the same peer's getdata is ignored and the peer stays open, so its
later getdata and reject count. -/
example :
    verdict thresholdOp thresholdNum thresholdDen [.fee] (collected [.getdata 1, .reject 2 .fee]) = none ∧
    verdict thresholdOp thresholdNum thresholdDen [.fee] (collect false [.getdata 1, .reject 2 .fee]) = some .fee ∧
    ¬ AllRepliersRejected (collect false [.getdata 1, .reject 2 .fee]) ∧
    collected [.reject 3 .invalid, .getdata 3, .reject 3 .invalid, .getdata 3, .reject 3 .fee] = ⟨[3], [(3, .invalid)]⟩ := by
  refine ⟨by decide, by decide, ?_, by decide⟩
  intro h; have := h 1 (by decide); simp [collect, collectFrom, collectStep] at this

example : verdict thresholdOp thresholdNum thresholdDen [.invalid]
      (collected [.getdata 1, .getdata 2, .getdata 3, .reject 2 .invalid, .reject 3 .invalid, .reject 9 .invalid]) = some .invalid ∧
    InvalidShareReached thresholdNum thresholdDen
      (collected [.getdata 1, .getdata 2, .getdata 3, .reject 2 .invalid, .reject 3 .invalid, .reject 9 .invalid]) := by
  refine ⟨by decide, ?_⟩
  simp only [InvalidShareReached]
  decide

/-- **The threshold is honoured** (this is what `>` instead of `>=` breaks): with the
comparison found in the source, whenever some but not all repliers rejected and the invalid
count reaches `num/den` of the replies, the broadcast fails with the Invalid error; no reply
at all is never a failure. -/
theorem C15_verdict_threshold (num den : Nat) (iter : List Code) (q : Replies)
    (h0 : q.replies.length ≠ 0) (h1 : q.replies.length ≠ q.rejections.length) (h2 : q.rejections.length > 0)
    (hshare : countCode .invalid q.rejections * den ≥ num * q.replies.length) :
    verdict thresholdOp num den iter q = some .invalid := by
  have hop : thresholdOp = ">=" := by decide
  simp only [verdict, h0, h1, ↓reduceIte, hop, cmpOp]
  simp [h2, hshare]

theorem C15_verdict_no_reply (op : String) (num den : Nat) (iter : List Code) (rej : List (Nat × Code)) :
    verdict op num den iter ⟨[], rej⟩ = none := by
  simp [verdict]

/-! ## (d) nothing blocks for ever: source facts -/

/-- one blocking operation is acceptable when:
* in `Broadcast` / `MarkAsConfirmed` (the callers' side): its `select` has the `<-b.quit` case;
* in `Stop`: it is the `wg.Wait()` for the two goroutines below;
* in `broadcastHandler` / `rebroadcast` (what `Stop` waits for): its `select` has the quit
  case or a `default`, or the channel is created with a buffer that the protocol never
  overfills (the one-token semaphore, the one-answer error channel). -/
def siteOk : String × String × String × Bool × Bool × Bool → Bool
  | (fn, kind, _, quit, dflt, buf) =>
    if fn = "Broadcast" ∨ fn = "MarkAsConfirmed" then quit
    else if fn = "Stop" then kind = "wait"
    else quit || dflt || buf

/-- **Non-blocking.**  Every send/receive of `Broadcast`, `MarkAsConfirmed` has the quit
alternative, `Stop` only waits for goroutines all of whose blocking operations have it (or
cannot block), and the three methods are really there.  Re-proved against the regenerated
facts on every run: this is what the F8 repair establishes and what removing a quit case breaks. -/
theorem C15_nonblocking :
    sites.all siteOk = true ∧
    (sites.any fun x => x.1 = "Broadcast" ∧ x.2.1 = "send") = true ∧
    (sites.any fun x => x.1 = "MarkAsConfirmed" ∧ x.2.1 = "send" ∧ x.2.2.1 = "b.confChan") = true ∧
    (sites.any fun x => x.1 = "Stop" ∧ x.2.1 = "wait") = true := by decide

/-- model-level counterpart: after `Stop`, `Broadcast` and `MarkAsConfirmed` return at once
(with the stop error / without effect) and change nothing -/
theorem C15_after_stop_returns (s : State) (hs : s.stopped = true) (tx : Tx) (r : Res) (id : TxId) :
    step s (.bcast tx r) = (s, .stopped) ∧ step s (.confirm id) = (s, .ret) ∧ (step s .stop).2 = .ret := by
  simp [step, hs]

/-! ## a closed block subscription -/

/-- the handler's spinning on the closed channel, removed from a history -/
def noSpin (ops : List Op) : List Op := ops.filter (fun o => o != .subSpin)

def noSpinOuts (s : State) : List Op → List Out
  | [] => []
  | o :: os => if o = .subSpin then noSpinOuts (step s o).1 os else (step s o).2 :: noSpinOuts (step s o).1 os

/-- **A closed block subscription is harmless.**  The arm of the handler's select for a closed
subscription channel ends in `continue` (source fact): the handler goes on serving its other arms.
Therefore, from ANY state and for EVERY history:
* however often the handler takes the closed-channel arm (`subSpin` anywhere in the history), the
  final state and every answer of the other events are exactly those of the history without it;
* the `subClosed` flag changes no answer and no other part of the state: after the closure every
  tick with something pending and no rebroadcast running still starts a rebroadcast of exactly the
  pending set, `Broadcast` is answered with the network's verdict and `MarkAsConfirmed` returns. -/
theorem C15_closed_subscription_harmless :
    closedSubArm = "continue" ∧
    (∀ (s : State) (ops : List Op), run s ops = run s (noSpin ops) ∧ noSpinOuts s ops = outs s (noSpin ops)) ∧
    (∀ (s : State) (o : Op), (step { s with subClosed := true } o).2 = (step s o).2 ∧
        (step { s with subClosed := true } o).1 = { (step s o).1 with subClosed := true }) ∧
    (∀ (s : State), (step s .closeSub).1.stopped = false → (step s .closeSub).1.running = none →
        (step s .closeSub).1.pending ≠ [] →
        (step (step s .closeSub).1 .trigger).2 = .started (ids s.pending)) ∧
    (∀ (s : State) (tx : Tx) (r : Res) (id : TxId), s.stopped = false →
        ((step (step s .closeSub).1 (.bcast tx r)).2 = .ok ∨ (step (step s .closeSub).1 (.bcast tx r)).2 = .err r) ∧
        (step (step s .closeSub).1 (.confirm id)).2 = .ret) := by
  refine ⟨by decide, ?_, ?_, ?_, ?_⟩
  · intro s ops
    induction ops generalizing s with
    | nil => exact ⟨rfl, rfl⟩
    | cons o os ih =>
      by_cases h : o = .subSpin
      · subst h
        have hs : (step s .subSpin).1 = s := rfl
        have := ih s
        simp only [run, noSpin, noSpinOuts, hs, ↓reduceIte] at this ⊢
        simpa [noSpin] using this
      · have hb : (o != Op.subSpin) = true := by simpa using h
        have := ih (step s o).1
        simp only [noSpin] at this
        simp only [run, noSpin, noSpinOuts, h, ↓reduceIte, List.filter_cons, hb, outs]
        exact ⟨this.1, by rw [this.2]⟩
  · intro s o
    cases o <;> simp only [step] <;> (repeat' split) <;> simp_all
  · intro s hs hr hp
    have := C15_trigger_starts (step s .closeSub).1 hs hr hp
    simpa [step] using this
  · intro s tx r id hs
    simp only [step, hs]
    cases r.keeps <;> simp

example : run {} [.bcast ⟨0, []⟩ .accepted, .closeSub, .subSpin, .subSpin, .trigger, .subSpin, .rbStep 0 .mempool, .subSpin, .trigger]
    = { pending := [⟨0, []⟩], running := some [⟨0, []⟩], subClosed := true } := by decide

/-! ## interval ticks keep coming -/

/-- the source of interval ticks as the proofs need it: every path through the interval arm of the
handler's loop leaves it armed (regenerated; on the unchanged tree: a `time.Ticker` created once
before the loop, stopped only by the deferred `Stop`) -/
theorem C15_interval_source : intervalSrc.sound = true := by decide

/-- **Interval ticks keep coming.**  With the interval source as found in the source, in EVERY
state the Broadcaster can reach — after any history of broadcasts, confirmations, block events,
interval ticks (also ticks that found a rebroadcast still running), rebroadcast progress, a closed
subscription — the interval source is armed: the next interval elapsing IS delivered to the handler.
Hence (second part) whenever the handler runs, no rebroadcast is running and something is accepted
and not reported confirmed, that tick starts a rebroadcast of exactly the pending set; and (third
part) a history with ticks is a history of `step` with `trigger` in their place, so everything
proved above about "every later block event or tick" (`C15_included`, `C15_not_after_confirm`, …)
is about real ticks. -/
theorem C15_ticks_keep_coming (ops : List TOp) :
    let t := trun intervalSrc {} ops
    t.armed = true ∧
    (t.core.stopped = false → t.core.running = none → t.core.pending ≠ [] →
      (tstep intervalSrc t .tick).2 = .started (ids t.core.pending)) ∧
    t.core = run {} (ops.map TOp.toOp) := by
  intro t
  have h := trun_sound intervalSrc C15_interval_source ops {} rfl
  refine ⟨h.1, ?_, h.2⟩
  intro hs hr hp
  rw [(tstep_core intervalSrc t h.1 .tick).2]
  exact C15_trigger_starts t.core hs hr hp

/-- the same for ANY handler whose interval arm re-arms its source on every path (a one-shot timer
reset both when a rebroadcast is started and when one is found running is as good as a ticker) -/
theorem C15_ticks_keep_coming_general (iv : IntervalSrc) (hiv : iv.sound = true) (ops : List TOp) :
    (trun iv {} ops).armed = true ∧ (trun iv {} ops).core = run {} (ops.map TOp.toOp) :=
  trun_sound iv hiv ops {} rfl

/-- a one-shot timer that is re-armed only when a rebroadcast is actually started (round-g seed) -/
def timerRearmedOnStart : IntervalSrc :=
  { periodic := false, tickRearmAcquired := true, tickRearmBusy := false, blockRearmAcquired := true, blockRearmBusy := false }

/-- **Counterexample for the one-shot source.**  Transaction 0 is accepted, a block event starts a
rebroadcast (and re-arms the timer), the interval elapses while that rebroadcast is still running
(the tick arm returns early and does NOT re-arm), the rebroadcast ends: the Broadcaster is running,
nothing is being rebroadcast, transaction 0 is accepted and unconfirmed — and the interval source is
dead: a tick can never happen again (`tick` is a no-op from here, whatever else happens short of a
block event), so the transaction is in no interval rebroadcast although it was never confirmed. -/
theorem C15_ticks_keep_coming_counterexample :
    let t := trun timerRearmedOnStart {}
      [.op (.bcast ⟨0, []⟩ .accepted), .op .trigger, .tick, .op (.rbStep 0 .mempool)]
    timerRearmedOnStart.sound = false ∧
    t.core.stopped = false ∧ t.core.running = none ∧ ids t.core.pending = [0] ∧ t.armed = false ∧
    tstep timerRearmedOnStart t .tick = (t, .noop) ∧
    (trun timerRearmedOnStart t [.tick, .op (.confirm 7), .tick, .op (.bcast ⟨1, [0]⟩ .accepted), .tick]).armed = false := by
  decide

/-- the ticker on the same history: armed, and the next tick rebroadcasts transaction 0 -/
example :
    let t := trun intervalSrc {}
      [.op (.bcast ⟨0, []⟩ .accepted), .op .trigger, .tick, .op (.rbStep 0 .mempool)]
    t.armed = true ∧ (tstep intervalSrc t .tick).2 = .started [0] := by decide

/-- **What the proofs rely on in the source** (a change here breaks this obligation):
the handler stores a tx only after the network's answer passed the Mempool test, deletes on
`confChan`, the rebroadcast walks `DependencySort` of its copy; the verdict computation has
exactly the four exits modelled by `verdict`, the threshold test is `>=` on
`rejectCodes[Invalid] / len(replies)`, the most-rejected loop uses `>`; the reject arm records
nothing for a peer that is not in `replies`, closes the peer after a recorded rejection, a getdata
entry makes its sender a replying peer whenever it names the transaction's hash (whatever tx inv
type it carries: `PeerMsg.getdata` has no type), and
`queryAllPeers` drops the messages of a closed peer. -/
theorem C15_source_shape :
    storeAfterResult = true ∧ handlerDeletesOnConf = true ∧ rebroadcastSorts = true ∧
    verdictPaths = [("len(replies) == 0", "nil"),
                    ("len(replies) == len(rejections)", "firstRejectWithCode(mostRejectedCode)"),
                    ("len(rejections) > 0 && numInvalid/numPeersResponded >= qo.invalidTxThreshold", "firstRejectWithCode(pushtx.Invalid)"),
                    ("", "nil")] ∧
    thresholdOp = ">=" ∧ thresholdLhs = "numInvalid / numPeersResponded" ∧ thresholdRhs = "qo.invalidTxThreshold" ∧
    numInvalidDef = "float32(rejectCodes[pushtx.Invalid])" ∧ numPeersRespondedDef = "float32(len(replies))" ∧
    mostRejectedCmp = "count > mostRejectedCount" ∧
    getdataMatch = "vec.Hash == txHash" ∧
    repliesKeyedByPeer = true ∧ rejectionsKeyedByPeer = true ∧
    rejectRequiresReply = true ∧ rejectClosesPeer = true ∧ closedPeerSkipped = true ∧
    thresholdNum * 5 = thresholdDen * 3 := by decide

/-! ## `ParseBroadcastError` (which arm of the handler / rebroadcast a reject leads to) -/

def genRows : List ParseRow := parseTable.map fun (cs, sub, res) => { codes := cs, substr := sub, result := res }

/-- Only a `RejectDuplicate` whose reason names the mempool / the chain can make a transaction
"already in mempool" (kept and rebroadcast) or "confirmed" (dropped); `RejectInvalid`,
`RejectNonstandard` are always Invalid and `RejectInsufficientFee` always InsufficientFee,
whatever the reason says. -/
theorem C15_parse_table :
    (genRows.all fun r => (r.result = "Mempool" ∨ r.result = "Confirmed") → (r.codes = ["RejectDuplicate"] ∧ r.substr.isSome)) = true ∧
    (∀ reason, parseWith genRows parseDefault "RejectInvalid" reason = "Invalid") ∧
    (∀ reason, parseWith genRows parseDefault "RejectNonstandard" reason = "Invalid") ∧
    (∀ reason, parseWith genRows parseDefault "RejectInsufficientFee" reason = "InsufficientFee") ∧
    parseWith genRows parseDefault "RejectDuplicate" "txn-already-in-mempool" = "Mempool" ∧
    parseWith genRows parseDefault "RejectDuplicate" "transaction already exists" = "Confirmed" ∧
    parseWith genRows parseDefault "RejectDuplicate" "nothing we know" = "Unknown" ∧
    parseWith genRows parseDefault "RejectMalformed" "txn-already-known" = "Unknown" := by
  refine ⟨by decide, ?_, ?_, ?_, by decide, by decide, by decide, by decide⟩ <;> intro reason <;> rfl

end Neutrino.PushTx
