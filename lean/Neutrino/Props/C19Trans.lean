/-
C19 (and the backlog of C11) - `blockManager.NotificationsSinceHeight` in terms of the function the CODE
defines (translated from blockmanager.go on every run, Gen/TransNtfn.lean, with its loop over the block
header store): it is the model's `BM.backlog`, which `C19_backlog_shape` and `C19_replay` are about.
-/
import Neutrino.Model.BlockMgr
import Neutrino.Lemmas.TransNtfn
namespace Neutrino.BM
open Neutrino.Gen.TransNtfn Neutrino.GoInt

/-- **The backlog the code computes is the model's**, for every state with a filter tip below
2^32 - 1 (the code counts on `uint32`: `height + 1`, `i <= bestHeight`), every requested height, every header contents `hdr`, constructor `newConn` and interface
conversion `box`; the store is asked by height and answers from the committed log (`fetchOf`). -/
theorem C19_trans_NotificationsSinceHeight (s : State) (h : Nat) (hdr : Nat → T_wire_BlockHeader)
    (newConn : T_wire_BlockHeader → Nat → Option T_blockntfns_Connected)
    (box : Option T_blockntfns_Connected → Atom) (hb : s.ftip.height + 1 < 2 ^ 32) :
    NotificationsSinceHeight h s.ftip.height (fetchOf s.log hdr) newConn box
      = match (backlog s h).res with
        | .err => ([], 0, true)
        | .ok => ((backlog s h).bl.map (fun nd => box (newConn (hdr nd.id) nd.height)), (backlog s h).best, false) :=
  trans_notificationsSinceHeight s h hdr newConn box hb

/-- the heights asked of the store are `h+1 … tip`, ascending, one event each -/
theorem C19_trans_backlog_range (log : List Nat) (hdr : Nat → T_wire_BlockHeader)
    (newConn : T_wire_BlockHeader → Nat → Option T_blockntfns_Connected)
    (box : Option T_blockntfns_Connected → Atom) (i n : Nat) (acc : List Atom) :
    NotificationsSinceHeight_loop1 (fetchOf log hdr) newConn box (upFrom i n) acc
      = match backlogRange log i n with
        | none => Ctl.ret ([], 0, true)
        | some bl => Ctl.fall (acc ++ bl.map fun nd => box (newConn (hdr nd.id) nd.height)) :=
  backlog_loop log hdr newConn box n i acc

example : (3 : Nat) + 1 < 2 ^ 32 := by decide
example : NotificationsSinceHeight 1 3 (fetchOf [10, 11, 12, 13] (fun _ => default))
    (fun hd ht => some ⟨hd, ht⟩) (fun c => (deref c).height) = ([2, 3], 3, false) := by decide
example : (NotificationsSinceHeight 4 3 (fetchOf [10, 11, 12, 13] (fun _ => default))
    (fun hd ht => some ⟨hd, ht⟩) (fun c => (deref c).height)).2.2 = true := by decide

end Neutrino.BM
