/-
C12 — results that arrive after their worker's address was taken over.

`workers` is keyed by address.  The peer handler announces a new connection
while the worker of the previous connection under the same address may still
hold a job and still owes the dispatcher exactly one result for it
(`C12_worker_reports`).  `Ev2.late` is that result reaching the dispatcher after
the reconnect (`Model/Dispatcher.lean`, `swapIn`).  The theorems below restate
the clauses of the property for every history that contains such results, and
add the invariant they rest on: a job is in exactly one place.
-/
import Neutrino.Props.C12
import Neutrino.Lemmas.DispatcherLate
namespace Neutrino.Disp

/-- **A job is in at most one place** — in every state reachable through any
list of dispatcher events and late results (peers reconnecting under an address
whose worker holds a job included), the job indices found in the work heap, in
the `activeJob` slot of a tracked worker, and in flight at a worker whose
address was taken over are pairwise distinct: no request exists twice. -/
theorem C12_job_once (es : List Ev2) : ((jobsOf (run2 init es)).map (·.idx)).Nodup :=
  (inv_run2 init es KW_init invA_init).1.k.nodup

/-- the same, by place: a job waiting in the heap is not also in flight anywhere (tracked worker or overtaken one),
and a job held by a tracked worker is not also in flight at an overtaken one -/
theorem C12_job_once_places (es : List Ev2) :
    (∀ j ∈ (run2 init es).work, ∀ j' ∈ actives (run2 init es).workers ++ (run2 init es).lost, j.idx ≠ j'.idx) ∧
    (∀ j ∈ actives (run2 init es).workers, ∀ j' ∈ (run2 init es).lost, j.idx ≠ j'.idx) := by
  have h := C12_job_once es
  unfold jobsOf at h
  rw [List.map_append, List.nodup_append] at h
  obtain ⟨_, h2, h3⟩ := h
  rw [List.map_append, List.nodup_append] at h2
  refine ⟨fun j hj j' hj' => h3 _ (List.mem_map_of_mem hj) _ (List.mem_map_of_mem hj'),
          fun j hj j' hj' => h2.2.2 _ (List.mem_map_of_mem hj) _ (List.mem_map_of_mem hj')⟩

/-- **At most one verdict**, late results included. -/
theorem C12_at_most_once_late (es : List Ev2) (b : Nat) : verdictCount (run2 init es) b ≤ 1 :=
  count_le_one_of_nodup _ b (inv_run2 init es KW_init invA_init).2.nodupVs

/-- **Success means all answered**, late results included: a nil verdict for batch `b` implies that every request
index of `b` was reported finished OK — whichever worker, tracked or overtaken, reported it. -/
theorem C12_success_all_late (es : List Ev2) (b : Nat)
    (hv : (b, Verdict.res .ok) ∈ (run2 init es).verdicts) :
    ∀ sub ∈ (run2 init es).subs, sub.id = b →
      ∀ i, sub.first ≤ i → i < sub.first + sub.count → i ∈ (run2 init es).okd := by
  intro sub hs hid i h1 h2
  exact (inv_run2 init es KW_init invA_init).1.k.done sub hs (hid ▸ hv) i h1 h2

/-- The seeded ordering (C12g-1: the peer-connected arm pushes the overtaken worker's job back onto the heap at
once, while that worker still holds it) breaks the invariant at the reconnect … -/
theorem C12_requeue_on_reconnect_counterexample :
    let s := (stepPeerRequeue (run init [.peer 1, .newBatch 2 false 2 false false, .accept 1]) 1).1
    ¬ ((jobsOf s).map (·.idx)).Nodup := by decide

/-- … and with it "success means all answered": request 0 is answered by the new worker and, late, by the old one;
both answers are counted, batch 0 of two requests reports success, request 1 was never answered. -/
theorem C12_requeue_on_reconnect_success_counterexample :
    let s := (stepPeerRequeue (run init [.peer 1, .newBatch 2 false 2 false false, .accept 1]) 1).1
    let s' := run2 s [.base (.accept 1), .base (.result 1 .ok), .base (.accept 1), .late 1 0 .ok]
    (0, Verdict.res .ok) ∈ s'.verdicts ∧ 1 ∉ s'.okd := by decide

/-! Non-vacuity: a history with an overtaking reconnect and a late result. -/
def demoLate : List Ev2 :=
  [.base (.peer 1), .base (.newBatch 2 false 2 false false), .base (.accept 1), .base (.peer 1),
   .base (.accept 1), .base (.result 1 .ok), .late 1 0 .disconnected, .base (.accept 1), .base (.result 1 .ok)]

example : (run2 init (demoLate.take 4)).lost.map (·.idx) = [0] ∧ (run2 init (demoLate.take 4)).work.map (·.idx) = [1] := by decide
example : (run2 init (demoLate.take 7)).lost = [] ∧ (run2 init (demoLate.take 7)).work.map (·.idx) = [0] := by decide
example : (run2 init demoLate).verdicts = [(0, .res .ok)] ∧ (run2 init demoLate).okd = [0, 1] := by decide

end Neutrino.Disp
