/-
C17 — "… from any state: … mid-reorganisation … and the data directory can be reopened
afterwards with the guarantees of C01 and C03 intact": Stop during the roll-back of a
reorganisation (Model/StopReorg.lean).

For EVERY stored chain, fork point, new branch and EVERY moment at which `quit` is closed,
the roll-back of the code (not interruptible) ends at the fork point, so the new branch is
appended exactly where the index says it is: the stores a restart finds are consistent and
hold the old chain up to the fork point followed by the new branch.  A roll-back that
returns `nil` on `quit` (the variant `interruptible = true`) breaks this: counterexample.
`C17_rollback_loop_has_no_quit_exit` ties the choice `interruptible = false` to the
regenerated table of blocking sites (no select on `quit` inside `rollBackToHeight`).
-/
import Neutrino.Model.StopReorg
import Neutrino.Gen.StopSites
namespace Neutrino.StopReorg

theorem rollBackQ_code (h : Nat) (q : Option Nat) :
    ∀ (fuel iter : Nat) (s : Store), s.tip + 1 = s.file.length → s.tip ≤ h + fuel →
      (rollBackQ false h q iter fuel s).tip = min s.tip h ∧
      (rollBackQ false h q iter fuel s).file = s.file.take (min s.tip h + 1) ∧
      (rollBackQ false h q iter fuel s).corrupt = s.corrupt := by
  intro fuel
  induction fuel with
  | zero =>
    intro iter s hl hf
    have hm : min s.tip h = s.tip := by omega
    simp only [rollBackQ, hm, true_and, and_true]
    rw [List.take_of_length_le (by omega)]
  | succ n ih =>
    intro iter s hl hf
    by_cases hlt : h < s.tip
    · have hp1 : (popOne s).tip + 1 = (popOne s).file.length := by
        simp only [popOne, List.length_dropLast]; omega
      have hp2 : (popOne s).tip ≤ h + n := by simp only [popOne]; omega
      obtain ⟨a, b, c⟩ := ih (iter + 1) (popOne s) hp1 hp2
      have hm : min s.tip h = h := by omega
      have hm' : min (popOne s).tip h = h := by simp only [popOne]; omega
      simp only [rollBackQ, hlt, ↓reduceIte, Bool.false_and, Bool.false_eq_true, a, b, c, hm, hm']
      refine ⟨trivial, ?_, ?_⟩
      · simp only [popOne, List.dropLast_eq_take, List.take_take]
        congr 1; omega
      · simp only [popOne]
    · have hm : min s.tip h = s.tip := by omega
      simp only [rollBackQ, hlt, ↓reduceIte, hm, true_and, and_true]
      rw [List.take_of_length_le (by omega)]

/-- The roll-back of the code always reaches the fork point, whenever `quit` is closed. -/
theorem C17_rollback_runs_to_completion (c : List Nat) (h : Nat) (q : Option Nat) (hh : h + 1 ≤ c.length) :
    rollBackQ false h q 0 c.length (ofChain c) = ofChain (c.take (h + 1)) := by
  have hl : (ofChain c).tip + 1 = (ofChain c).file.length := by simp only [ofChain]; omega
  have hf : (ofChain c).tip ≤ h + c.length := by simp only [ofChain]; omega
  obtain ⟨a, b, d⟩ := rollBackQ_code h q c.length 0 (ofChain c) hl hf
  have hm : min (ofChain c).tip h = h := by simp only [ofChain]; omega
  rw [hm] at a b
  have e : ∀ s t : Store, s.file = t.file → s.tip = t.tip → s.corrupt = t.corrupt → s = t := by
    intro s t h1 h2 h3; cases s; cases t; simp_all
  apply e
  · rw [b]; simp only [ofChain]
  · rw [a]; simp only [ofChain, List.length_take]; omega
  · rw [d]; rfl

/-- **Stop mid-reorganisation leaves consistent stores** (every chain, fork point, branch and quit moment):
what a restart finds is the old chain up to the fork point followed by the new branch, every index
entry at its file position. -/
theorem C17_stop_mid_reorg_consistent (c branch : List Nat) (h : Nat) (q : Option Nat) (hh : h + 1 ≤ c.length) :
    consistent (reorgQ false (ofChain c) h branch q) = true ∧
    (reorgQ false (ofChain c) h branch q).file = c.take (h + 1) ++ branch := by
  have hr := C17_rollback_runs_to_completion c h q hh
  have hlen : (ofChain c).file.length = c.length := rfl
  simp only [reorgQ, hlen, hr]
  by_cases hb : branch = []
  · subst hb
    simp only [write, ↓reduceIte, consistent, ofChain, List.length_take, List.append_nil, Bool.not_false,
      Bool.true_and, beq_iff_eq, and_true]
    omega
  · have hpos : 0 < branch.length := List.length_pos_iff.mpr hb
    simp only [write, hb, ↓reduceIte, consistent, ofChain, List.length_take, List.length_append, Bool.false_or,
      and_true, Bool.and_eq_true, Bool.not_eq_true', bne_eq_false_iff_eq, beq_iff_eq]
    omega

/-- the quit moment is invisible in the stores: same result as with no Stop at all -/
theorem C17_stop_mid_reorg_same_as_no_stop (c branch : List Nat) (h : Nat) (q : Option Nat) (hh : h + 1 ≤ c.length) :
    reorgQ false (ofChain c) h branch q = reorgQ false (ofChain c) h branch none := by
  have hlen : (ofChain c).file.length = c.length := rfl
  simp only [reorgQ, hlen, C17_rollback_runs_to_completion c h q hh, C17_rollback_runs_to_completion c h none hh]

/-- hypotheses are satisfiable, and the statement is not vacuous: Stop before the 2nd of 3 iterations -/
example : reorgQ false (ofChain [0, 1, 2, 3, 4]) 1 [10, 11, 12, 13] (some 1) = ofChain [0, 1, 10, 11, 12, 13] := by decide

/-- A roll-back that gives up when it sees `quit` (and reports success) leaves the index pointing at the
wrong file positions: the stale headers 2, 3 stay in the file, the branch is indexed at heights 2 … 5. -/
theorem C17_interruptible_rollback_counterexample :
    consistent (reorgQ true (ofChain [0, 1, 2, 3, 4]) 1 [10, 11, 12, 13] (some 1)) = false ∧
    (reorgQ true (ofChain [0, 1, 2, 3, 4]) 1 [10, 11, 12, 13] (some 1)).file = [0, 1, 2, 3, 10, 11, 12, 13] := by decide

/-- Source tie: no blocking site with a `quit` alternative (nor any select at all) sits in `rollBackToHeight`
itself - the only place the roll-back looks at `quit` is the hand-over of a notification in
`onBlockDisconnected`.  A select added to the loop shows up in the regenerated table. -/
def rollBackSites : List Neutrino.Gen.StopSites.Site :=
  Neutrino.Gen.StopSites.sites.filter fun s =>
    Neutrino.Gen.StopSites.names.getD s.fn "?" == "blockManager.rollBackToHeight"

theorem C17_rollback_loop_has_no_quit_exit : rollBackSites.length = 0 := by decide

end Neutrino.StopReorg
