/-
C01 - tie of the first kind for the pure helpers of the header path: the functions below are
TRANSLATED from blockmanager.go / headerlist/header_list.go on every run (Gen/TransBM.lean) and proved
equal to the hand-model functions the C01 theorems are about, so that those theorems speak about the
functions the code defines now.
-/
import Neutrino.Props.C01
import Neutrino.Lemmas.TransBlockMgr
import Neutrino.Lemmas.TransHeaderList
namespace Neutrino.BM
open Neutrino.Gen.TransBM

/-- **`(*blockManager).findNextHeaderCheckpoint`** (as the code spells it today) is the model's
`findNextCp`, for every ascending checkpoint list with non-negative heights and every height ≥ 0. -/
theorem C01_trans_findNextHeaderCheckpoint (h : Int) (h0 : 0 ≤ h) (cps : List T_chaincfg_Checkpoint) (ok : CpsOkT cps) :
    (findNextHeaderCheckpoint h cps).map absCp = findNextCp (cps.map absCp) h.toNat :=
  trans_findNext h h0 cps ok

/-- **`(*blockManager).findPreviousHeaderCheckpoint`** is the model's `findPrevCp` (the genesis
hash is atom 0, as in the model) -/
theorem C01_trans_findPreviousHeaderCheckpoint (h : Int) (h0 : 0 ≤ h) (cps : List T_chaincfg_Checkpoint) (ok : CpsOkT cps) :
    (findPreviousHeaderCheckpoint h cps 0).map absCp = some (findPrevCp (cps.map absCp) h.toNat) :=
  trans_findPrev h h0 cps ok

/-- `CheckpointsPassed` (C01_checkpoints_passed) in terms of the code's own function: in every
reachable state of the machine configured with the code-level checkpoint list, `nextCheckpoint` is
what `findNextHeaderCheckpoint` returns for the stored tip height. -/
theorem C01_trans_checkpoints_passed (c : Cfg) (cps : List T_chaincfg_Checkpoint) (okT : CpsOkT cps)
    (hc : c.cps = cps.map absCp) (ok : CpsOk c.cps) (hw : 1 ≤ c.win) (peers : List Peer) (es : List Ev) :
    (run c (init c peers) es).ncp
      = (findNextHeaderCheckpoint ((tipHeight (run c (init c peers) es).log : Nat) : Int) cps).map absCp := by
  rw [C01_next_checkpoint_every_event c ok hw peers es, hc,
    C01_trans_findNextHeaderCheckpoint _ (Int.natCast_nonneg _) cps okT]
  simp

/-- **`headerlist.invertLowestOne` / `getAncestorHeight`** are the model's `lowOff` / `gah` (the
skip heights `C01_ancestor_correct` and `C01_headerlist_refines` are about) -/
theorem C01_trans_invertLowestOne (n : Nat) : invertLowestOne (n : Int) = ((HL.lowOff n : Nat) : Int) :=
  HL.trans_invertLowestOne n

theorem C01_trans_getAncestorHeight (h : Nat) : getAncestorHeight (h : Int) = ((HL.gah h : Nat) : Int) :=
  HL.trans_getAncestorHeight h

theorem C01_trans_getAncestorHeight_nonpos (h : Int) (h0 : h ≤ 0) : getAncestorHeight h = 0 :=
  HL.trans_getAncestorHeight_nonpos h h0

/-- **`areHeadersConnected`** (the link test `handleHeadersMsg` rejects unconnected batches with) is
the model's `linked` over the headers' ids, for every hashing under which no header is the all-zero
hash (the code's "not yet set" sentinel) and every table whose parent relation is `PrevBlock`. -/
theorem C01_trans_areHeadersConnected (t : Tbl) (hash : Option T_wire_BlockHeader → GoInt.Atom)
    (hs : List (Option T_wire_BlockHeader)) (hnz : ∀ h ∈ hs, hash h ≠ 0)
    (hp : ∀ b ∈ hs, t.parent (hash b) = some (GoInt.deref b).PrevBlock) :
    areHeadersConnected hs hash = linked t (hs.map hash) := by
  rw [trans_areHeadersConnected hash hs hnz, hdrLinked_eq_linked t hash hs hp]

/-! the hypotheses are satisfiable, and the translated functions compute -/
example : areHeadersConnected [some { Version := 0, PrevBlock := 9, MerkleRoot := 0, Timestamp := 0, Bits := 0, Nonce := 1 },
    some { Version := 0, PrevBlock := 1, MerkleRoot := 0, Timestamp := 0, Bits := 0, Nonce := 2 },
    some { Version := 0, PrevBlock := 2, MerkleRoot := 0, Timestamp := 0, Bits := 0, Nonce := 3 }] (fun h => (GoInt.deref h).Nonce) = true := by decide
example : areHeadersConnected [some { Version := 0, PrevBlock := 9, MerkleRoot := 0, Timestamp := 0, Bits := 0, Nonce := 1 },
    some { Version := 0, PrevBlock := 7, MerkleRoot := 0, Timestamp := 0, Bits := 0, Nonce := 2 }] (fun h => (GoInt.deref h).Nonce) = false := by decide
def exCpsT : List T_chaincfg_Checkpoint := [⟨1, 1⟩, ⟨5, 7⟩, ⟨9, 3⟩]
example : CpsOkT exCpsT := ⟨by decide, by decide⟩
example : findNextHeaderCheckpoint 5 exCpsT = some ⟨9, 3⟩ := by decide
example : findNextHeaderCheckpoint 0 exCpsT = some ⟨1, 1⟩ := by decide
example : findNextHeaderCheckpoint 9 exCpsT = none := by decide
example : findPreviousHeaderCheckpoint 5 exCpsT 0 = some ⟨1, 1⟩ := by decide
example : findPreviousHeaderCheckpoint 6 exCpsT 0 = some ⟨5, 7⟩ := by decide
example : findPreviousHeaderCheckpoint 1 exCpsT 0 = some ⟨0, 0⟩ := by decide
example : exCfg.cps = [(⟨1, 1⟩ : T_chaincfg_Checkpoint)].map absCp := by decide
example : getAncestorHeight 12 = 0 ∧ getAncestorHeight 13 = 8 ∧ getAncestorHeight 7 = 4 := by decide

end Neutrino.BM
