/-
C13 — bans are exact, durable and enforced.  Property theorems only; lemmas live
in Neutrino/Lemmas/Ban*.lean.
-/
import Neutrino.Lemmas.BanHist
import Neutrino.Lemmas.BanEnforce
import Neutrino.Model.LockObj
import Neutrino.Gen.Ban
namespace Neutrino.Ban

/-! ## First sentence: the store -/

/-- **C13, store clause, as stated** (millisecond resolution).  For every history
of ban / status / unban / reopen calls at non-decreasing times over arbitrary
targets (any byte strings, masks, ports, durations of either sign), a `Status`
of any supported address at any later time answers as the history dictates:
`lastBan … id` is the last ban of that network not followed by an unban, with
`lo = hi = banTime + duration`; strictly before it the answer is "banned" with
the recorded reason, at or after it — or when there is no such ban — "not
banned".  Every spelling of the address is the same `id`; `reopen` does not
touch `lastBan`.  FALSE of the code (F15): see `C13_status_counterexample`. -/
def C13_status : Prop :=
  ∀ (T0 : Int) (hist : Hist) (now : Int) (tg : Target) (id : NetId),
    monoFrom T0 hist → endTime T0 hist ≤ now → idOf tg = some id →
    statusOk (lastBan Oracle.empty hist id) now now (step (run {} hist) now (.status tg)).2 = true

/-- 1.2.3.4 as `net.ParseIP` returns it. -/
def exAddr : Target := { via := .parse, ip := v4Prefix ++ [1, 2, 3, 4], mask := none }
def exId : NetId := ⟨v4Prefix ++ [1, 2, 3, 4], ff4⟩

/-- Banned at t = 0 for 1600 ms; the expiry is stored as second 1; a query at
t = 1100 ms is told "not banned" 500 ms before the ban lapses. -/
theorem C13_status_counterexample : ¬ C13_status := by
  intro h
  have h1 := h 0 [(0, .ban exAddr 2 1600)] 1100 exAddr exId ⟨Int.le_refl _, trivial⟩ (by decide) (by decide)
  revert h1
  decide

/-- **What the code does guarantee**: the full statement whenever the query does
not fall into `[floor_sec(banTime+duration), banTime+duration)` — the same
predicate `truncated` the driver uses for `shape=expiry-truncated-to-seconds`. -/
theorem C13_status_partial (T0 : Int) (hist : Hist) (now : Int) (tg : Target) (id : NetId)
    (hm : monoFrom T0 hist) (hn : endTime T0 hist ≤ now) (hid : idOf tg = some id)
    (hshape : truncated (lastBan Oracle.empty hist id) now = false) :
    statusOk (lastBan Oracle.empty hist id) now now (step (run {} hist) now (.status tg)).2 = true := by
  have hinv := inv_run {} Oracle.empty T0 hist (inv_init T0) hm
  have hs := status_of_inv _ _ _ now tg id hinv hn hid
  cases hob : lastBan Oracle.empty hist id with
  | none =>
    rw [hob] at hs
    simp only at hs
    simp only [statusOk, hs, beq_self_eq_true]
  | some b =>
    rw [hob] at hs hshape
    obtain ⟨hlh, hb, hnb, _⟩ := hs
    simp only [truncated, decide_eq_false_iff_not] at hshape
    simp only [statusOk]
    by_cases h1 : now < b.lo
    · have h2 : now < b.lo / 1000 * 1000 := by omega
      simp only [h1, ↓reduceIte, hb h2, isBannedWith, beq_self_eq_true]
    · have h2 : now ≥ b.hi := by omega
      simp only [h1, ↓reduceIte, h2, hnb (by omega), beq_self_eq_true]

/-- The same guarantee spelled out: with `e = banTime + duration` of the last
unlifted ban, `Status` says banned (recorded reason, expiry = the whole second
below `e`) at every `now` whose second is below `e`'s second, not banned at every
`now ≥ e`; and not banned when there is no unlifted ban (never banned, or
unbanned since). -/
theorem C13_status_explicit (T0 : Int) (hist : Hist) (now : Int) (tg : Target) (id : NetId)
    (hm : monoFrom T0 hist) (hn : endTime T0 hist ≤ now) (hid : idOf tg = some id) :
    (∀ b, lastBan Oracle.empty hist id = some b →
      (now / 1000 < b.lo / 1000 →
        (step (run {} hist) now (.status tg)).2 = .banned b.reason (b.lo / 1000 * 1000)) ∧
      (b.lo ≤ now → (step (run {} hist) now (.status tg)).2 = .notBanned)) ∧
    (lastBan Oracle.empty hist id = none → (step (run {} hist) now (.status tg)).2 = .notBanned) := by
  have hinv := inv_run {} Oracle.empty T0 hist (inv_init T0) hm
  have hs := status_of_inv _ _ _ now tg id hinv hn hid
  constructor
  · intro b hob
    rw [hob] at hs
    exact ⟨fun h => hs.2.1 (by omega), hs.2.2.1⟩
  · intro hob
    rw [hob] at hs
    exact hs

theorem lastBan_append (o : Oracle) (a b : Hist) : lastBan o (a ++ b) = lastBan (lastBan o a) b := by
  induction a generalizing o with
  | nil => rfl
  | cons p rest ih => obtain ⟨t, op⟩ := p; simp only [List.cons_append, lastBan]; exact ih _

theorem run_append (s : State) (a b : Hist) : run s (a ++ b) = run (run s a) b := by
  induction a generalizing s with
  | nil => rfl
  | cons p rest ih => obtain ⟨t, op⟩ := p; simp only [List.cons_append, run]; exact ih _

/-- What `lastBan` is: a ban at `t` for `d` sets `banTime + duration = t + d`
with its reason for that network (whatever spelling was used) and for no other;
an unban clears it; status and reopen leave it alone. -/
theorem C13_lastBan_characterisation (o : Oracle) (hist : Hist) (t : Int) (tg : Target) (id : NetId)
    (hid : idOf tg = some id) (r : Nat) (d : Int) :
    lastBan o (hist ++ [(t, .ban tg r d)]) id = some ⟨t + d, t + d, r⟩ ∧
    lastBan o (hist ++ [(t, .unban tg)]) id = none ∧
    (∀ id', id' ≠ id → lastBan o (hist ++ [(t, .ban tg r d)]) id' = lastBan o hist id' ∧
                        lastBan o (hist ++ [(t, .unban tg)]) id' = lastBan o hist id') ∧
    (∀ tg', lastBan o (hist ++ [(t, .status tg')]) = lastBan o hist) ∧
    lastBan o (hist ++ [(t, .reopen)]) = lastBan o hist := by
  simp only [lastBan_append, lastBan, Oracle.note, hid, Oracle.set, ↓reduceIte, true_and]
  refine ⟨?_, fun _ => trivial, trivial⟩
  intro id' hne
  simp only [hne, ↓reduceIte, and_self]

/-- **Durability**: closing and reopening the database changes neither the
store nor what any later call returns nor the history's `lastBan`. -/
theorem C13_reopen_invisible (s : State) (o : Oracle) (t : Int) (h1 h2 : Hist) :
    step s t .reopen = (s, .ok) ∧
    run s (h1 ++ (t, .reopen) :: h2) = run s (h1 ++ h2) ∧
    outs (run s (h1 ++ [(t, .reopen)])) h2 = outs (run s h1) h2 ∧
    lastBan o (h1 ++ (t, .reopen) :: h2) = lastBan o (h1 ++ h2) := by
  refine ⟨rfl, ?_, ?_, ?_⟩
  · simp only [run_append, run, step]
  · simp only [run_append, run, step]
  · simp only [lastBan_append, lastBan, Oracle.note]

/-- **Refinement**: on every history the store model (encoded keys, expiry in
seconds, lazy deletion) returns exactly what the abstract map `NetId →
Option (expiryMs, reason)` with expiry granularity 1000 ms returns, and ends in
the corresponding state. -/
theorem C13_refines (hist : Hist) :
    outs {} hist = Spec.outs 1000 Spec.empty hist ∧
    Sim (run {} hist) (Spec.run 1000 Spec.empty hist) :=
  sim_run {} Spec.empty hist sim_init

/-- With granularity 1 ms (the property as stated) the refinement fails on the
same history as `C13_status_counterexample`. -/
theorem C13_exact_spec_counterexample :
    outs {} [(0, .ban exAddr 2 1600), (1100, .status exAddr)] ≠
    Spec.outs 1 Spec.empty [(0, .ban exAddr 2 1600), (1100, .status exAddr)] := by decide

/-- **One key per address, one address per key.**
(1) the 4-byte and the v4-mapped 16-byte form of an IPv4 address give the same
key, under any mask, whether the caller built the net itself or went through
`ParseIPNet`; (2) the port is irrelevant; (3) the encoding is injective: two
supported (ip, mask) pairs with one key are the same network (same 16-byte
form, same mask bytes); (4) and conversely. -/
theorem C13_key_canonical :
    (∀ (a : Bytes) (m : Option Bytes) (p p' : Option Nat), a.length = 4 →
      keyOf ⟨.raw, a, m, p⟩ = keyOf ⟨.raw, v4Prefix ++ a, m, p'⟩ ∧
      keyOf ⟨.parse, a, none, p⟩ = keyOf ⟨.parse, v4Prefix ++ a, none, p'⟩) ∧
    (∀ (tg : Target) (p : Option Nat), keyOf { tg with port := p } = keyOf tg) ∧
    (∀ (ip m ip' m' k : Bytes), encodeKey ip m = some k → encodeKey ip' m' = some k →
      to16 ip = to16 ip' ∧ m = m') ∧
    (∀ (ip ip' m : Bytes) (a : Bytes), to16 ip = some a → to16 ip' = some a →
      encodeKey ip m = encodeKey ip' m) := by
  refine ⟨?_, fun _ _ => rfl, ?_, ?_⟩
  · intro a m p p' ha
    have h4 : to4 a = some a := by simp only [to4, ha, ↓reduceIte]
    have hlen : (v4Prefix ++ a).length = 16 := by simp only [List.length_append, v4Prefix_length, ha]
    have htake : (v4Prefix ++ a).take 12 = v4Prefix := List.take_left' v4Prefix_length
    have hdrop : (v4Prefix ++ a).drop 12 = a := List.drop_left' v4Prefix_length
    have h4' : to4 (v4Prefix ++ a) = some a := by
      simp only [to4, hlen, htake, and_self, ↓reduceIte, hdrop]
      rfl
    have hmask : ipMask a ff4 = ipMask (v4Prefix ++ a) ff4 := by
      simp only [ipMask, hlen, ha, htake, hdrop, ff4, List.length_cons, List.length_nil]
      rfl
    constructor
    · simp only [keyOf, resolve, encodeKey, h4, h4']
    · simp only [keyOf, resolve, parseIPNet, h4, h4', Option.getD_none, hmask]
  · intro ip m ip' m' k hk hk'
    have h1 := encodeKey_isSome_iff ip m
    have h2 := encodeKey_isSome_iff ip' m'
    rw [hk] at h1; rw [hk'] at h2
    cases hi : netId ip m with
    | none => rw [hi] at h1; exact absurd h1 (by simp)
    | some id =>
      cases hi' : netId ip' m' with
      | none => rw [hi'] at h2; exact absurd h2 (by simp)
      | some id' =>
        have hid : id = id' := (key_eq_iff_id_eq hk hk' hi hi').mp rfl
        subst hid
        simp only [netId] at hi hi'
        cases h16 : to16 ip with
        | none => rw [h16] at hi; exact absurd hi (by simp)
        | some b =>
          cases h16' : to16 ip' with
          | none => rw [h16'] at hi'; exact absurd hi' (by simp)
          | some b' =>
            rw [h16] at hi; rw [h16'] at hi'
            have e1 : id = ⟨b, m⟩ := (Option.some.inj hi).symm
            have e2 : id = ⟨b', m'⟩ := (Option.some.inj hi').symm
            have e := e1.symm.trans e2
            exact ⟨congrArg some (congrArg NetId.ip16 e), congrArg NetId.mask e⟩
  · intro ip ip' m a h h'
    have hi : netId ip m = some ⟨a, m⟩ := by simp only [netId, h]
    have hi' : netId ip' m = some ⟨a, m⟩ := by simp only [netId, h']
    have h1 := encodeKey_isSome_iff ip m
    have h2 := encodeKey_isSome_iff ip' m
    rw [hi] at h1; rw [hi'] at h2
    cases hk : encodeKey ip m with
    | none => rw [hk] at h1; exact absurd h1 (by simp)
    | some k =>
      cases hk' : encodeKey ip' m with
      | none => rw [hk'] at h2; exact absurd h2 (by simp)
      | some k' => rw [(key_eq_iff_id_eq hk hk' hi hi').mpr rfl]

/-! ## Second sentence: enforcement (decision logic of neutrino.go) -/

/-- **C13, enforcement clause, as stated, at full strength**: after any
sequence of outbound-connected / version / add-peer / ban-peer (misbehaviour
detected) / unban / peer-done events at non-decreasing times — any peers, any
addresses, several peers on one IP included — no peer in the connected set has
an address that `IsBanned` reports banned at that time.  (Before the repair
`fix: BanPeer disconnects every connected peer of the banned network` this was
false: `BanPeer` banned the IP network but disconnected only `PeerByAddr(addr)`;
the history `exEvs` below was the counterexample and is now a regression
`example`.) -/
theorem C13_enforced (T0 : Int) (evs : EvHist) (now : Int) (hm : monoEv T0 evs) (hn : endEv T0 evs ≤ now) :
    ∀ p, p ∈ (runNet {} evs).connected → (isBanned (runNet {} evs).store now p).2 = false := by
  have hc : Clean (runNet {} evs) (endEv T0 evs) :=
    clean_run {} T0 evs (fun _ hp => absurd hp (by simp)) hm
  exact fun p hp => not_banned_of_clean _ _ _ hn hc p hp

def exPeerA : Peer := ⟨v4Prefix ++ [127, 0, 0, 1], 18444⟩
def exPeerB : Peer := ⟨v4Prefix ++ [127, 0, 0, 1], 18445⟩
def exPeerC : Peer := ⟨v4Prefix ++ [127, 0, 0, 2], 18444⟩
/-- two nodes on one host and one elsewhere: all connect, A misbehaves and is banned -/
def exEvs : EvHist :=
  [(0, .outbound exPeerA), (1, .version exPeerA 1101), (2, .addPeer exPeerA),
   (3, .outbound exPeerB), (4, .version exPeerB 1101), (5, .addPeer exPeerB),
   (6, .outbound exPeerC), (7, .version exPeerC 1101), (8, .addPeer exPeerC),
   (9, .banPeer exPeerA 5)]

/-- **`BanPeer` empties the banned network**: afterwards no connected peer's
address has the banned key — the reported peer and every other peer on that IP
are gone, peers elsewhere stay. -/
theorem C13_banPeer_clears_network (n : Net) (t : Int) (p q : Peer) (reason : Nat) (k : Bytes)
    (hp : keyOf p.target = some k) (hq : keyOf q.target = some k) :
    q ∉ (stepNet n t (.banPeer p reason)).connected ∧
    (∀ r, r ∈ (stepNet n t (.banPeer p reason)).connected → r ∈ n.connected) := by
  simp only [stepNet, banPeer]
  exact ⟨not_mem_afterBan_of_key hp hq, fun r hr => (mem_afterBan hr).1⟩

/-- **A peer that does not offer WITNESS and CF is banned and dropped**: in
every state, `OnVersion` on a pending peer whose service bits lack either flag
leaves its address banned (reason NoCompactFilters, for `BanDuration`) and the
peer neither pending nor connected; a peer that offers both is left alone. -/
theorem C13_version_enforced (n : Net) (t : Int) (p : Peer) (services : Nat) (k : Bytes)
    (hp : p ∈ n.pending) (hk : keyOf p.target = some k) :
    (hasRequired services = false →
      let n' := stepNet n t (.version p services)
      (∃ e, (step n'.store t (.status p.target)).2 = .banned reasonNoCompactFilters e) ∧
      (isBanned n'.store t p).2 = true ∧ p ∉ n'.pending ∧ p ∉ n'.connected) ∧
    (hasRequired services = true → stepNet n t (.version p services) = n) := by
  constructor
  · intro hr
    simp only [stepNet, hp, ↓reduceIte, hr, Bool.false_eq_true, banPeer]
    have hst : step (step n.store t (.ban p.target reasonNoCompactFilters banDurationMs)).1 t (.status p.target) =
        ((step n.store t (.ban p.target reasonNoCompactFilters banDurationMs)).1,
         .banned reasonNoCompactFilters ((t + banDurationMs) / 1000 * 1000)) := by
      rw [step_status_some _ _ _ k hk, step_ban_some _ _ _ _ _ k hk]
      simp only [lookup_put_self]
      have : ¬ (t ≥ (t + banDurationMs) / 1000 * 1000) := by simp only [banDurationMs]; omega
      simp only [this, ↓reduceIte]
    refine ⟨⟨_, congrArg Prod.snd hst⟩, ?_, not_mem_without _ _, not_mem_afterBan _ _⟩
    simp only [isBanned, hst]
  · intro hr
    simp only [stepNet, hp, ↓reduceIte, hr]

/-- **… and this is settled at the version message, whatever the peer does next.**  The handshake is a sequence
of steps (`outbound`, `version`, then — only if the peer sends its verack — `addPeer`); a peer can stop after any of
them.  Once `OnVersion` has seen service bits lacking WITNESS or CF, at every later time within the ban duration the
address is reported banned, the socket is in neither set (so no later step can hand it a request: requests go to
`connected` peers only), a late `addPeer` for it is a no-op and its going away (`done`) changes nothing: no step the
peer can withhold (verack) or pre-empt (hanging up) is needed for the ban. -/
theorem C13_version_enforced_stalled (n : Net) (t t' : Int) (p : Peer) (services : Nat) (k : Bytes)
    (hp : p ∈ n.pending) (hk : keyOf p.target = some k) (hr : hasRequired services = false)
    (h1 : t ≤ t') (h2 : t' < t + banDurationMs - 1000) :
    let n' := stepNet n t (.version p services)
    (isBanned n'.store t' p).2 = true ∧ p ∉ n'.pending ∧ p ∉ n'.connected ∧
    stepNet n' t' (.addPeer p) = n' ∧
    (isBanned (stepNet n' t' (.done p)).store t' p).2 = true ∧ p ∉ (stepNet n' t' (.done p)).connected := by
  have hst : step (step n.store t (.ban p.target reasonNoCompactFilters banDurationMs)).1 t' (.status p.target) =
      ((step n.store t (.ban p.target reasonNoCompactFilters banDurationMs)).1,
       .banned reasonNoCompactFilters ((t + banDurationMs) / 1000 * 1000)) := by
    rw [step_status_some _ _ _ k hk, step_ban_some _ _ _ _ _ k hk]
    simp only [lookup_put_self]
    have : ¬ (t' ≥ (t + banDurationMs) / 1000 * 1000) := by simp only [banDurationMs] at h2 ⊢; omega
    simp only [this, ↓reduceIte]
  have hb : (isBanned (step n.store t (.ban p.target reasonNoCompactFilters banDurationMs)).1 t' p).2 = true := by
    simp only [isBanned, hst]
  have hnp : p ∉ without (banPeer n t p reasonNoCompactFilters).pending p := not_mem_without _ _
  simp only [stepNet, hp, ↓reduceIte, hr, Bool.false_eq_true, banPeer] at hnp ⊢
  refine ⟨hb, not_mem_without _ _, not_mem_afterBan _ _, ?_, hb, ?_⟩
  · simp only [hnp, ↓reduceIte]
  · intro hc
    exact not_mem_afterBan _ _ (List.mem_filter.mp hc).1

/-- The seeded ordering (C13g-2: the service-bit test deferred from `OnVersion` to `handleAddPeerMsg`) is refuted by
the two peers the deferred test never sees: one that sends its version and withholds its verack (no `addPeer` ever),
and one that hangs up before the peer handler gets to it (`done` before `addPeer`; `handleAddPeerMsg` returns early).
Neither is ever banned; the first one even keeps its socket. -/
theorem C13_version_deferred_counterexample :
    let svc : Peer → Nat := fun _ => 1037
    let stalled := runNetDeferred svc {} [(0, .outbound exPeerA), (1, .version exPeerA 1037)]
    let hungUp := runNetDeferred svc {} [(0, .outbound exPeerA), (1, .version exPeerA 1037), (2, .done exPeerA), (3, .addPeer exPeerA)]
    hasRequired 1037 = false ∧
    (isBanned stalled.store 5000 exPeerA).2 = false ∧ exPeerA ∈ stalled.pending ∧
    (isBanned hungUp.store 5000 exPeerA).2 = false ∧
    -- the code as it is: banned from the version message on, in both histories
    (isBanned (runNet {} [(0, .outbound exPeerA), (1, .version exPeerA 1037)]).store 5000 exPeerA).2 = true ∧
    (isBanned (runNet {} [(0, .outbound exPeerA), (1, .version exPeerA 1037), (2, .done exPeerA), (3, .addPeer exPeerA)]).store 5000 exPeerA).2 = true := by
  decide

example : (0 : Int) ≤ 5000 ∧ (5000 : Int) < 0 + banDurationMs - 1000 ∧ hasRequired 1037 = false ∧
    exPeerA ∈ (stepNet {} 0 (.outbound exPeerA)).pending := by decide

/-- After `BanPeer` (from any of the misbehaviour sites) the peer is not
connected and its address is banned with the given reason. -/
theorem C13_banPeer_enforced (n : Net) (t : Int) (p : Peer) (reason : Nat) (k : Bytes)
    (hk : keyOf p.target = some k) :
    let n' := stepNet n t (.banPeer p reason)
    p ∉ n'.connected ∧ ∃ e, (step n'.store t (.status p.target)).2 = .banned reason e := by
  simp only [stepNet, banPeer]
  refine ⟨not_mem_afterBan _ _, (t + banDurationMs) / 1000 * 1000, ?_⟩
  rw [step_status_some _ _ _ k hk, step_ban_some _ _ _ _ _ k hk]
  simp only [lookup_put_self]
  have : ¬ (t ≥ (t + banDurationMs) / 1000 * 1000) := by simp only [banDurationMs]; omega
  simp only [this, ↓reduceIte]

/-- **`BanPeer` disconnects the reported peer whether or not a ban can be
recorded**: for ANY address — also one that is not an IP literal (a tor or
hostname peer, `keyOf = none`: nothing is written to the store) — the peer is not
connected afterwards. -/
theorem C13_banPeer_disconnects_always (n : Net) (t : Int) (p : Peer) (reason : Nat) :
    p ∉ (stepNet n t (.banPeer p reason)).connected ∧
    (keyOf p.target = none → (stepNet n t (.banPeer p reason)).store = n.store) := by
  simp only [stepNet, banPeer]
  exact ⟨not_mem_afterBan _ _, fun h => step_ban_none _ _ _ _ _ h⟩

/-- A banned address is refused at both doors: `outboundPeerConnected` does not
create the peer, `handleAddPeerMsg` does not record it (and drops the socket). -/
theorem C13_banned_refused (n : Net) (t : Int) (p : Peer) (hb : (isBanned n.store t p).2 = true) :
    (stepNet n t (.outbound p)).pending = n.pending ∧
    (stepNet n t (.outbound p)).connected = n.connected ∧
    (stepNet n t (.addPeer p)).connected = n.connected ∧
    p ∉ (stepNet n t (.addPeer p)).pending := by
  simp only [stepNet, hb, ↓reduceIte]
  by_cases hp : p ∈ n.pending
  · simp only [hp, ↓reduceIte]
    exact ⟨trivial, trivial, trivial, not_mem_without _ _⟩
  · simp only [hp, ↓reduceIte]
    exact ⟨trivial, trivial, trivial, fun h => h⟩

/-! ## `IsBanned` is a function of the ban store -/

theorem isBanned_true_iff (s : State) (t : Int) (p : Peer) :
    (isBanned s t p).2 = true ↔ ∃ r e, (step s t (.status p.target)).2 = .banned r e := by
  simp only [isBanned]
  generalize step s t (.status p.target) = x
  obtain ⟨s', o⟩ := x
  cases o <;> simp

/-- **The answer of `IsBanned` depends only on the store content and the IP
key** — not on the port, the spelling, or which questions were asked before:
it is true exactly when the store holds an unexpired record under the key of the
address's network; hence any two addresses with one key get one answer in every
store.  (`isBanned : State → Int → Peer → State × Bool` has no other input; that
the real `IsBanned` has none either — it touches no field of the ChainService
but the ban store — is `C13_source_facts`.) -/
theorem C13_isBanned_pure (s : State) (now : Int) (p : Peer) :
    ((isBanned s now p).2 = true ↔
      ∃ k e r, keyOf p.target = some k ∧ lookup s.recs k = some (e, r) ∧ now < e * 1000) ∧
    (∀ q : Peer, keyOf q.target = keyOf p.target → (isBanned s now q).2 = (isBanned s now p).2) := by
  have main : ∀ p : Peer, ((isBanned s now p).2 = true ↔
      ∃ k e r, keyOf p.target = some k ∧ lookup s.recs k = some (e, r) ∧ now < e * 1000) := by
    intro p
    rw [isBanned_true_iff]
    cases hk : keyOf p.target with
    | none =>
      constructor
      · intro ⟨r, e, h⟩; exact absurd h ((step_status_none s now _ hk).2 r e)
      · intro ⟨k, _, _, h, _⟩; exact absurd h (by simp)
    | some k =>
      rw [step_status_some s now _ k hk]
      cases hl : lookup s.recs k with
      | none =>
        constructor
        · intro ⟨r, e, h⟩; exact absurd h (by simp)
        · intro ⟨k', e, r, h1, h2, _⟩
          have : k' = k := (Option.some.inj h1).symm
          subst this; rw [hl] at h2; exact absurd h2 (by simp)
      | some w =>
        obtain ⟨e, r⟩ := w
        by_cases hexp : now ≥ e * 1000
        · simp only [hexp, ↓reduceIte]
          constructor
          · intro ⟨r', e', h⟩; exact absurd h (by simp)
          · intro ⟨k', e', r', h1, h2, h3⟩
            have : k' = k := (Option.some.inj h1).symm
            subst this; rw [hl] at h2
            have he : e = e' := congrArg Prod.fst (Option.some.inj h2)
            subst he; exact absurd hexp (by omega)
        · simp only [hexp, ↓reduceIte]
          constructor
          · intro _; exact ⟨k, e, r, rfl, hl, by omega⟩
          · intro _; exact ⟨r, e * 1000, rfl⟩
  refine ⟨main p, fun q hq => ?_⟩
  have hp := main p
  have hq' := main q
  rw [hq] at hq'
  exact Bool.eq_iff_iff.mpr (hq'.trans hp.symm)

/-- ChainService-level calls and the store calls they make -/
inductive CsOp where
  | isBanned (tg : Target)             -- IsBanned(addr)
  | banPeer (tg : Target) (reason : Nat)   -- BanPeer(addr, reason): BanIPNet(…, reason, BanDuration)
  | unbanPeer (tg : Target)            -- UnbanPeer(addr, _)
deriving DecidableEq, Repr

def CsOp.toOp : CsOp → Op
  | .isBanned tg => .status tg
  | .banPeer tg r => .ban tg r banDurationMs
  | .unbanPeer tg => .unban tg

/-- the set of banned networks after a history of calls (what the driver's oracle keeps) -/
def banSetRun (b : BanSet) : List (Int × CsOp) → BanSet
  | [] => b
  | (_, .banPeer tg _) :: rest => banSetRun (match idOf tg with | some id => b.ban id | none => b) rest
  | (_, .unbanPeer tg) :: rest => banSetRun (match idOf tg with | some id => b.unban id | none => b) rest
  | (_, .isBanned _) :: rest => banSetRun b rest

theorem mem_ban (b : BanSet) (id0 id : NetId) : id ∈ b.ban id0 ↔ id = id0 ∨ id ∈ b := by
  simp only [BanSet.ban]
  by_cases h : b.contains id0 = true
  · simp only [h, ↓reduceIte]
    constructor
    · exact Or.inr
    · intro h'
      cases h' with
      | inl e => subst e; exact List.contains_iff_mem.mp h
      | inr m => exact m
  · simp only [h]
    exact List.mem_cons

theorem mem_unban (b : BanSet) (id0 id : NetId) : id ∈ b.unban id0 ↔ id ∈ b ∧ id ≠ id0 := by
  simp only [BanSet.unban, List.mem_filter, Bool.not_eq_eq_eq_not, Bool.not_true, beq_eq_false_iff_ne, ne_eq]

/-- **Within the ban duration `IsBanned` answers membership in the set of banned
networks**, whatever spellings the bans, unbans and earlier questions used and
in whatever order they came: for every history of ChainService-level calls at
non-decreasing times starting at `T0`, and every query at `now < T0 + BanDuration
− 1 s`, the store says "banned" exactly when the queried network is in
`banSetRun`.  This is the oracle `isBannedOk` of the `c13s` driver cases. -/
theorem C13_isBanned_tracks_bans (T0 : Int) (h : List (Int × CsOp)) (now : Int) (tg : Target) (id : NetId)
    (hm : monoFrom T0 (h.map fun x => (x.1, x.2.toOp))) (hn : endTime T0 (h.map fun x => (x.1, x.2.toOp)) ≤ now)
    (hwin : now < T0 + banDurationMs - 1000) (hid : idOf tg = some id) :
    (∃ r e, (step (run {} (h.map fun x => (x.1, x.2.toOp))) now (.status tg)).2 = .banned r e) ↔
      id ∈ banSetRun [] h := by
  -- the ban set agrees with `lastBan`, and every recorded ban ends at or after T0 + BanDuration
  have key : ∀ (h : List (Int × CsOp)) (T : Int) (b : BanSet) (o : Oracle), T0 ≤ T →
      monoFrom T (h.map fun x => (x.1, x.2.toOp)) →
      (∀ id, id ∈ b ↔ (o id).isSome = true) → (∀ id r, o id = some r → T0 + banDurationMs ≤ r.lo) →
      (∀ id, id ∈ banSetRun b h ↔ (lastBan o (h.map fun x => (x.1, x.2.toOp)) id).isSome = true) ∧
      (∀ id r, lastBan o (h.map fun x => (x.1, x.2.toOp)) id = some r → T0 + banDurationMs ≤ r.lo) := by
    intro h
    induction h with
    | nil => intro T b o _ _ hag hlo; exact ⟨hag, hlo⟩
    | cons x rest ih =>
      intro T b o hT hmono hag hlo
      obtain ⟨t, op⟩ := x
      simp only [List.map_cons, monoFrom] at hmono
      have hTt : T0 ≤ t := Int.le_trans hT hmono.1
      cases op with
      | isBanned tg' =>
        simp only [List.map_cons, banSetRun, lastBan, CsOp.toOp, Oracle.note]
        exact ih t b o hTt hmono.2 hag hlo
      | banPeer tg' r' =>
        simp only [List.map_cons, banSetRun, lastBan, CsOp.toOp, Oracle.note]
        cases hid' : idOf tg' with
        | none => exact ih t b o hTt hmono.2 hag hlo
        | some id0 =>
          refine ih t _ _ hTt hmono.2 ?_ ?_
          · intro id1
            rw [mem_ban]
            by_cases e : id1 = id0
            · simp only [e, Oracle.set, ↓reduceIte, true_or, Option.isSome_some]
            · simp only [e, Oracle.set, ↓reduceIte, false_or]; exact hag id1
          · intro id1 r1 h1
            by_cases e : id1 = id0
            · simp only [e, Oracle.set, ↓reduceIte, Option.some.injEq] at h1
              rw [← h1]; simp only; omega
            · simp only [e, Oracle.set, ↓reduceIte] at h1; exact hlo id1 r1 h1
      | unbanPeer tg' =>
        simp only [List.map_cons, banSetRun, lastBan, CsOp.toOp, Oracle.note]
        cases hid' : idOf tg' with
        | none => exact ih t b o hTt hmono.2 hag hlo
        | some id0 =>
          refine ih t _ _ hTt hmono.2 ?_ ?_
          · intro id1
            rw [mem_unban]
            by_cases e : id1 = id0
            · simp only [e, Oracle.set, ↓reduceIte, ne_eq, not_true_eq_false, and_false, Option.isSome_none,
                Bool.false_eq_true]
            · simp only [e, Oracle.set, ↓reduceIte, ne_eq, not_false_eq_true, and_true]; exact hag id1
          · intro id1 r1 h1
            by_cases e : id1 = id0
            · simp only [e, Oracle.set, ↓reduceIte] at h1; exact absurd h1 (by simp)
            · simp only [e, Oracle.set, ↓reduceIte] at h1; exact hlo id1 r1 h1
  obtain ⟨hag, hlo⟩ := key h T0 [] Oracle.empty (Int.le_refl _) hm
    (fun id => by simp [Oracle.empty]) (fun id r hr => by simp [Oracle.empty] at hr)
  obtain ⟨hsome, hnone⟩ := C13_status_explicit T0 _ now tg id hm hn hid
  rw [hag id]
  cases hl : lastBan Oracle.empty (h.map fun x => (x.1, x.2.toOp)) id with
  | none =>
    rw [hnone hl]
    simp
  | some b =>
    have hb := hlo id b hl
    have := (hsome b hl).1 (by omega)
    rw [this]
    simp

/-! ## Concurrency: every store call is one bbolt write transaction -/

/-- The ban store as a lock-protected object: a call (with the clock reading it
takes inside its transaction) runs inside `walletdb.Update`, i.e. under the
database's single-writer lock, as ANY sequence of micro-steps that composes to
`step` (the instance is the coarsest decomposition; `lock_serializes` holds for
every one).  That `Status` reads and purges inside that one transaction is
`C13_source_facts` (`statusOneTransaction`). -/
def banObj : LockObj.Obj State (Int × Op) Out :=
  { Loc := Int × Op, start := id, micro := fun s c => ((step s c.1 c.2).1, .inr (step s c.1 c.2).2) }

/-- **Every interleaving, any number of goroutines and calls**: whenever no
call is inside its transaction, the store is in the state — and every completed
call returned the result — of running the completed calls one at a time in the
order in which they took the writer lock. -/
theorem C13_lock_serializes (evs : List (LockObj.Ev (Int × Op))) :
    let c := LockObj.crun banObj { shared := {}, holder := none, log := [] } evs
    c.holder = none → LockObj.Replay banObj {} c.log c.shared :=
  LockObj.lock_serializes banObj _ evs

theorem outs_append (s : State) (a b : Hist) : outs s (a ++ b) = outs s a ++ outs (run s a) b := by
  induction a generalizing s with
  | nil => rfl
  | cons p rest ih => obtain ⟨t, op⟩ := p; simp only [List.cons_append, outs, run]; rw [ih]

/-- Replaying a log atomically is `run` on its calls, with `step`'s outputs. -/
theorem C13_replay_is_run (s0 s : State) (log : List (Nat × (Int × Op) × Out))
    (h : LockObj.Replay banObj s0 log s) :
    s = run s0 (log.map (·.2.1)) ∧ log.map (·.2.2) = outs s0 (log.map (·.2.1)) := by
  induction h with
  | nil => exact ⟨rfl, rfl⟩
  | @snoc log s s' t i r hr hex ih =>
    obtain ⟨s1, l1, hp, hm⟩ := hex
    have hpl : s1 = s ∧ l1 = i := by
      cases hp with
      | refl => exact ⟨rfl, rfl⟩
      | step _ hc => simp [banObj] at hc
    obtain ⟨rfl, rfl⟩ := hpl
    simp only [banObj, Prod.mk.injEq, Sum.inr.injEq] at hm
    obtain ⟨ti, opi⟩ := l1
    simp only [List.map_append, List.map_cons, List.map_nil]
    rw [run_append, outs_append, ← ih.1, ← ih.2]
    simp only [run, outs]
    exact ⟨hm.1.symm, by rw [hm.2]⟩

/-- **No committed ban is lost to a concurrent `Status`** (nor to any other
concurrent call): for every schedule of any number of goroutines calling ban /
status / unban / reopen, at every quiescent point the guarantee of
`C13_status_explicit` holds with respect to the calls completed so far, in lock
order (their clock readings, taken inside the transactions, are non-decreasing
in that order): the last unlifted ban of the queried network is reported, with
its reason, by every later query whose second is below the ban's end, however
the earlier status queries were interleaved with it. -/
theorem C13_no_ban_lost_under_concurrency (evs : List (LockObj.Ev (Int × Op)))
    (T0 now : Int) (tg : Target) (id : NetId) :
    let c := LockObj.crun banObj { shared := {}, holder := none, log := [] } evs
    let hist : Hist := c.log.map (·.2.1)
    c.holder = none → monoFrom T0 hist → endTime T0 hist ≤ now → idOf tg = some id →
    (∀ b, lastBan Oracle.empty hist id = some b →
      (now / 1000 < b.lo / 1000 → (step c.shared now (.status tg)).2 = .banned b.reason (b.lo / 1000 * 1000)) ∧
      (b.lo ≤ now → (step c.shared now (.status tg)).2 = .notBanned)) ∧
    (lastBan Oracle.empty hist id = none → (step c.shared now (.status tg)).2 = .notBanned) := by
  intro c hist hq hm hn hid
  have hrep := C13_lock_serializes evs hq
  have hrun := (C13_replay_is_run _ _ _ hrep).1
  have hs : c.shared = run {} hist := hrun
  rw [hs]
  exact C13_status_explicit T0 hist now tg id hm hn hid

/-- **A two-transaction `Status` loses a ban**: a lapsed record is stored
(banned at 0 for −5 s); a split Status reads it at t = 10 (lapsed: to be
purged); a 24 h re-ban commits at t = 11; the purge then deletes the key
without re-reading — and the query at t = 12 says "not banned" although the last
ban of the network runs until t = 86 400 011. -/
theorem C13_split_status_counterexample :
    (step (runSplit {} [.call 0 (.ban exAddr 1 (-5000)), .statusView 10 exAddr,
                        .call 11 (.ban exAddr 5 banDurationMs), .statusPurge exAddr]) 12 (.status exAddr)).2 = .notBanned ∧
    lastBan Oracle.empty [(0, .ban exAddr 1 (-5000)), (10, .status exAddr), (11, .ban exAddr 5 banDurationMs)] exId =
      some ⟨86400011, 86400011, 5⟩ ∧
    -- the atomic Status, same calls in either order around the re-ban, keeps it
    (step (run {} [(0, .ban exAddr 1 (-5000)), (10, .status exAddr), (11, .ban exAddr 5 banDurationMs)]) 12 (.status exAddr)).2 =
      .banned 5 86400000 ∧
    (step (run {} [(0, .ban exAddr 1 (-5000)), (11, .ban exAddr 5 banDurationMs), (11, .status exAddr)]) 12 (.status exAddr)).2 =
      .banned 5 86400000 := by decide

/-- **A connection that was shaking hands while its IP got banned is turned
away**: `p` is pending (its socket passed `outboundPeerConnected` earlier); a
peer `q` with the same key is banned at `t1` (directly or for a lie); when
`p`'s handshake completes at `t2` within the ban duration, `handleAddPeerMsg`
does not record it — and drops the socket. -/
theorem C13_handshake_race (n : Net) (t1 t2 : Int) (p q : Peer) (reason : Nat) (k : Bytes)
    (hq : keyOf q.target = some k) (hp : keyOf p.target = some k)
    (h12 : t1 ≤ t2) (hwin : t2 < t1 + banDurationMs - 1000) :
    let n' := stepNet (stepNet n t1 (.banPeer q reason)) t2 (.addPeer p)
    p ∉ n'.connected ∧ p ∉ n'.pending := by
  have hnc : p ∉ (stepNet n t1 (.banPeer q reason)).connected := by
    simp only [stepNet, banPeer]; exact not_mem_afterBan_of_key hq hp
  have hb : (isBanned (stepNet n t1 (.banPeer q reason)).store t2 p).2 = true := by
    apply (C13_isBanned_pure _ t2 p).1.mpr
    refine ⟨k, (t1 + banDurationMs) / 1000, reason, hp, ?_, ?_⟩
    · simp only [stepNet, banPeer, step_ban_some _ _ _ _ _ k hq, lookup_put_self]
    · simp only [banDurationMs] at hwin ⊢; omega
  have := C13_banned_refused (stepNet n t1 (.banPeer q reason)) t2 p hb
  exact ⟨by rw [this.2.2.1]; exact hnc, this.2.2.2⟩

/-- The facts regenerated from banman/*.go and neutrino.go on this run, on which
the models above rely: key layout and To4/To16 normalisation, default masks,
port stripping, masked IP with the mask as given; the stored value is the Unix
SECONDS of `now + duration`; `Status` deletes when `!now.Before(expiry)`, reading and purging inside ONE
`walletdb.Update` (no `walletdb.View`), as `BanIPNet` and `UnbanIPNet` are one `Update` each;
`OnVersion`'s service test, read by its truth table over {neither, WITNESS, CF,
both} whatever its spelling, is the model's `!hasRequired`; then `BanPeer(addr, NoCompactFilters)`,
`Disconnect`, return; `handleAddPeerMsg` and `outboundPeerConnected` test
`IsBanned` before recording / creating the peer; `IsBanned` reads the store on
every call (it touches no ChainService field but `banStore`: no memo); `IsBanned` and `BanPeer` go
through `ParseIPNet(addr, nil)` and the store with `BanDuration`; `BanPeer`
installs its deferred `go` before any return (so also on the parse-error path; the
goroutine body may be a literal or a same-file helper) which disconnects `PeerByAddr(addr)` and then every peer of `s.Peers()` whose address
parses (`ParseIPNet(sp.Addr(), nil)`) to the banned network; the other `BanPeer` calls (a set: robust against moving a call into a helper) pass
exactly the three "provably invalid" reasons, and `GetBlock` bans for an invalid block. -/
theorem C13_source_facts :
    Gen.Ban.ipv4Type = 0 ∧ Gen.Ban.ipv6Type = 1 ∧
    Gen.Ban.encodeNormalisesTo4 = true ∧ Gen.Ban.encodeElseTo16 = true ∧
    Gen.Ban.encodeWrites = ["[]byte{ipType}", "ip", "[]byte(ipNet.Mask)"] ∧
    Gen.Ban.defaultV4Mask = "net.CIDRMask(32,32)" ∧ Gen.Ban.defaultV6Mask = "net.CIDRMask(128,128)" ∧
    Gen.Ban.parseSplitsPort = true ∧ Gen.Ban.parseDefaultMasks = true ∧ Gen.Ban.parseMasksIP = true ∧
    Gen.Ban.expiryAbsoluteSeconds = true ∧ Gen.Ban.statusDeletesWhenNotBefore = true ∧
    Gen.Ban.fetchReadsSeconds = true ∧ Gen.Ban.statusOneTransaction = true ∧
    Gen.Ban.banOneTransaction = true ∧ Gen.Ban.unbanOneTransaction = true ∧
    Gen.Ban.reasonNoCompactFilters = reasonNoCompactFilters ∧ Gen.Ban.banDurationMs = banDurationMs ∧
    Gen.Ban.onVersionRejects = ([1, 9, 65, 73].map fun sv => toString (!hasRequired sv)) ∧
    Gen.Ban.onVersionBans = true ∧ Gen.Ban.onVersionDisconnects = true ∧
    Gen.Ban.addPeerRefusesBanned = true ∧ Gen.Ban.outboundRefusesBanned = true ∧
    Gen.Ban.isBannedUsesStore = true ∧ Gen.Ban.isBannedFields = ["banStore"] ∧
    Gen.Ban.isBannedReturns = ["false", "false", "banStatus.Banned"] ∧
    Gen.Ban.isBannedFirstStmt = "ipNet,err:=banman.ParseIPNet(addr,nil)" ∧ Gen.Ban.banPeerUsesStore = true ∧ Gen.Ban.banPeerDeferBeforeReturns = true ∧
    Gen.Ban.banPeerDisconnects = true ∧
    Gen.Ban.banPeerDisconnectsNetwork = true ∧
    Gen.Ban.banPeerReasons = ["blockmanager.go:banman.InvalidFilterHeader",
      "blockmanager.go:banman.InvalidFilterHeaderCheckpoint", "query.go:banman.InvalidBlock"] ∧
    Gen.Ban.getBlockBansInvalidBlock = true := by decide

/-! ### Non-vacuity (ChainService level) -/
/-- query before the ban under one spelling, ban under another (other port, built by hand as 4 bytes), query again -/
def exCs : List (Int × CsOp) :=
  [(10, .isBanned exAddr),
   (20, .banPeer { via := .parse, ip := [1, 2, 3, 4], mask := none, port := some 18445 } 1),
   (30, .isBanned { via := .parse, ip := v4Prefix ++ [1, 2, 3, 4], mask := none, port := some 9 }),
   (40, .unbanPeer { via := .parse, ip := v4Prefix ++ [9, 9, 9, 9], mask := none })]
example : monoFrom 0 (exCs.map fun x => (x.1, x.2.toOp)) := by simp [monoFrom, exCs, CsOp.toOp]
example : endTime 0 (exCs.map fun x => (x.1, x.2.toOp)) ≤ 50 ∧ (50 : Int) < 0 + banDurationMs - 1000 := by decide
example : exId ∈ banSetRun [] exCs := by decide
example : outs {} (exCs.map fun x => (x.1, x.2.toOp)) = [.notBanned, .ok, .banned 1 86400000, .ok] := by decide
example : (isBanned (run {} (exCs.map fun x => (x.1, x.2.toOp))) 50 exPeerA).2 = false := by decide

/-! ### Non-vacuity (enforcement) -/
/-- an IPv6 peer: the ban is reported for its address under another port, not for a neighbour in its /64 -/
example :
    let p6 : Peer := ⟨[32, 1, 13, 184, 0, 0, 0, 0, 0, 0, 0, 0, 0, 0, 0, 5], 18444⟩
    let st := (stepNet {} 0 (.banPeer p6 5)).store
    (isBanned st 10 ⟨p6.ip, 18445⟩).2 = true ∧
    (isBanned st 10 ⟨[32, 1, 13, 184, 0, 0, 0, 0, 0, 0, 0, 0, 0, 0, 0, 6], 18444⟩).2 = false := by decide
example : hasRequired 1101 = true ∧ hasRequired 1037 = false ∧ hasRequired 8 = false := by decide
example : monoEv 0 exEvs := by simp [monoEv, exEvs]
/-- regression: the former counterexample — B (same IP as A, other port) is dropped with A, C stays -/
example : (runNet {} exEvs).connected = [exPeerC] := by decide
example : (isBanned (runNet {} exEvs).store 9 exPeerB).2 = true ∧ (isBanned (runNet {} exEvs).store 9 exPeerC).2 = false := by decide
example : (runNet {} [(0, .outbound exPeerA), (1, .version exPeerA 1037), (2, .addPeer exPeerA)]).connected = [] ∧
    (isBanned (runNet {} [(0, .outbound exPeerA), (1, .version exPeerA 1037)]).store 5 exPeerA).2 = true := by decide
example : keyOf exPeerA.target = some [0, 127, 0, 0, 1, 255, 255, 255, 255] := by decide

/-! ### Non-vacuity -/

/-- the hypotheses of `C13_status_partial` / `_explicit` are met by a
non-trivial history: two spellings, a re-ban, an unban of another address, a
reopen, and a query through a hand-built 4-byte net -/
def exHist : Hist :=
  [(1000, .ban exAddr 2 5000),
   (1200, .status { via := .parse, ip := v4Prefix ++ [1, 2, 3, 4], mask := none, port := some 8333 }),
   (1300, .reopen),
   (1400, .ban { via := .raw, ip := v4Prefix ++ [1, 2, 3, 4], mask := some ff4 } 5 86400000),
   (1500, .unban { via := .parse, ip := v4Prefix ++ [9, 9, 9, 9], mask := none })]
def exRaw4 : Target := { via := .raw, ip := [1, 2, 3, 4], mask := some ff4 }

example : monoFrom 0 exHist := by simp [monoFrom, exHist]
example : endTime 0 exHist ≤ 2000 := by decide
example : idOf exRaw4 = some exId := by decide
example : lastBan Oracle.empty exHist exId = some ⟨86401400, 86401400, 5⟩ := by decide
example : truncated (lastBan Oracle.empty exHist exId) 2000 = false := by decide
example : (step (run {} exHist) 2000 (.status exRaw4)).2 = .banned 5 86401000 := by decide
example : keyOf exRaw4 = some [0, 1, 2, 3, 4, 255, 255, 255, 255] := by decide
example : keyOf exAddr = keyOf exRaw4 := by decide
/-- the excluded shape is inhabited (so the partial theorem is strictly weaker) and decidable -/
example : truncated (lastBan Oracle.empty [(0, .ban exAddr 2 1600)] exId) 1100 = true := by decide
/-- an IPv6 network with a /64 mask: masked, type byte 1 -/
example : keyOf { via := .parse, ip := [32, 1, 13, 184, 0, 0, 0, 0, 1, 2, 3, 4, 5, 6, 7, 8],
                  mask := some [255, 255, 255, 255, 255, 255, 255, 255, 0, 0, 0, 0, 0, 0, 0, 0] } =
    some ([1] ++ [32, 1, 13, 184, 0, 0, 0, 0, 0, 0, 0, 0, 0, 0, 0, 0] ++
          [255, 255, 255, 255, 255, 255, 255, 255, 0, 0, 0, 0, 0, 0, 0, 0]) := by decide

end Neutrino.Ban
