/-
C14 - the import's region arithmetic in terms of the functions the CODE defines
(`determineProcessingRegions`, `determineDivergenceSyncModes`, `targetHeightToImportSourceIndex`,
translated from chainimport/ on every run, Gen/TransImport.lean).
-/
import Neutrino.Props.C14
import Neutrino.Lemmas.TransImport
namespace Neutrino.Import
open Neutrino.Gen.TransImport Neutrino.GoInt

/-- **`(*headersImport).determineProcessingRegions`** computes the model's `regions` (the function
every C14 theorem about `importRun` goes through): with the metadata and both chain tips read
successfully and both tips below 2^32 - 1, the result is non-nil and error-free, records the
import range and the effective tip, and its divergence / new-headers regions are `regions F b f`
for every file with the metadata's end height. -/
theorem C14_trans_determineProcessingRegions (md : T_chainimport_headerMetadata) (bh : Option T_wire_BlockHeader)
    (fh : Atom) (b f : Nat) (hb : b + 1 < 2 ^ 32) (hf : f + 1 < 2 ^ 32) (F : File) (hF : endHeight F = md.endHeight) :
    ∃ R, determineProcessingRegions (some md, false) (bh, b, false) (fh, f, false) = (some R, false) ∧
      R.importStartHeight = (deref md.importMetadata).startHeight ∧ R.importEndHeight = md.endHeight ∧
      R.effectiveTip = min b f ∧
      (absRegion R.divergence, absRegion R.newHeaders) = regions F b f :=
  trans_regions md bh fh b f hb hf F hF

/-- a failing metadata or chain-tip lookup fails the computation and returns no regions -/
theorem C14_trans_determineProcessingRegions_err (m : Option T_chainimport_headerMetadata × Bool)
    (bt : Option T_wire_BlockHeader × Nat × Bool) (ft : Atom × Nat × Bool)
    (h : m.2 = true ∨ bt.2.2 = true ∨ ft.2.2 = true) : determineProcessingRegions m bt ft = (none, true) :=
  trans_regions_err m bt ft h

/-- **`determineDivergenceSyncModes`**: the leading store is verified, the lagging one appended to -/
theorem C14_trans_determineDivergenceSyncModes (b f : Nat) :
    absVerify (determineDivergenceSyncModes b f).verify
      = (if b > f then Verify.blockOnly else if b < f then Verify.filterOnly else Verify.both) ∧
    absMode (determineDivergenceSyncModes b f).append
      = (if b > f then Mode.filterOnly else if b < f then Mode.blockOnly else Mode.both) :=
  ⟨trans_syncModes_verify b f, trans_syncModes_mode b f⟩

/-- **`(*headersImport).validateChainContinuity` as the code spells it is the model's `continuity`**
(an error exactly when the model reports one), for every file and all stores with readable tips below
2^32 - 1, with the two checks it delegates to answering as the model's `connects` and `verifyAt`. -/
theorem C14_trans_validateChainContinuity (F : File) (st : Stores) (md : T_chainimport_headerMetadata)
    (im : T_chainimport_importMetadata) (bh : Option T_wire_BlockHeader) (fh : Atom) (b f : Nat)
    (hmd : md.importMetadata = some im) (hs : im.startHeight = F.bstart) (he : md.endHeight = endHeight F)
    (hb : bChainTip st = some b) (hf : fChainTip st = some f) (hb32 : b + 1 < 2 ^ 32) (hf32 : f + 1 < 2 ^ 32) :
    validateChainContinuity (some md, false) (bh, b, false) (fh, f, false)
        (fun s t _ => !connects F st s t) (fun h _ => !verifyAt F st .both h)
      = (continuity F st).isSome :=
  trans_continuity F st md im bh fh b f hmd hs he hb hf hb32 hf32

/-- a failing metadata or chain-tip lookup makes `validateChainContinuity` fail -/
theorem C14_trans_validateChainContinuity_err (m : Option T_chainimport_headerMetadata × Bool)
    (bt : Option T_wire_BlockHeader × Nat × Bool) (ft : Atom × Nat × Bool)
    (f4 : Nat → Nat → Option T_chainimport_headerMetadata → Bool) (f5 : Nat → Nat → Bool)
    (h : m.2 = true ∨ bt.2.2 = true ∨ ft.2.2 = true) : validateChainContinuity m bt ft f4 f5 = true :=
  trans_continuity_err m bt ft f4 f5 h

/-- **`targetHeightToImportSourceIndex`** is `h - start` for a height inside the file and WRAPS
below it (uint32): the code itself has no guard (F7's neighbourhood) -/
theorem C14_trans_targetHeightToImportSourceIndex (h s : Nat) :
    (s ≤ h → targetHeightToImportSourceIndex h s = h - s) ∧
    (h < s → s ≤ 2 ^ 32 → targetHeightToImportSourceIndex h s = h + 2 ^ 32 - s) :=
  ⟨trans_sourceIndex h s, trans_sourceIndex_wraps h s⟩

/-! satisfiable, and the translated function computes -/
example : determineProcessingRegions (some { importMetadata := some ⟨0, 0, 0, 0⟩, endHeight := 9, headerSize := 80, headersCount := 10 }, false)
    (none, 3, false) (0, 5, false)
    = (some { importStartHeight := 0, importEndHeight := 9, effectiveTip := 3,
              divergence := ⟨4, 5, true, ⟨K_chainimport_verifyFilterOnly, K_chainimport_appendBlockOnly⟩⟩,
              newHeaders := ⟨6, 9, true, ⟨0, K_chainimport_appendBlockAndFilter⟩⟩ }, false) := by decide
example : (3 : Nat) + 1 < 2 ^ 32 := by decide

end Neutrino.Import
