/-
C04 — with one honest peer the client converges on the true best chain end to
end, and never reports a best block that is not on a valid chain from genesis.

PARTIAL.  The theorems below are about the abstract composition of
Neutrino/Model/Converge.lean (client ∘ peers at message level, the block
manager's acceptance rule a parameter with the two facts C01/C02 establish).
They cover every schedule OF THE MODEL; the real peer / connection-manager /
query stack, its timers and goroutine scheduling are exercised only on the
schedules the network simulation produces, whose observations are judged by the
oracle of Neutrino/Spec/Converge.lean (driver `net`).  The filter-header half of
convergence is not modelled here (C03); it is checked by the oracle only.

Assumptions, all explicit in the statements:
* `AcceptRule.sound / complete`  — C01 ∧ C02 for `handleHeadersMsg`;
* fairness — the events of `FairEv`: an honest peer's reply the client is
  listening for is eventually delivered, and a sync peer that is not honest and
  blocks the sync is eventually disconnected (btcd's stall detector; environment);
* finitely many non-honest peers: no `connect` events while converging (`Ev.quiet`);
* the honest tip is THE most-work valid chain (`Best`): every other valid chain has
  strictly less work.
-/
import Neutrino.Lemmas.Converge
import Neutrino.Spec.Converge
import Neutrino.Gen.SyncPeer
import Neutrino.Lemmas.SyncAsk
namespace Neutrino.Net

/-- **C04 safety.**  For every world, every acceptance rule that is sound, every
start state holding a valid chain and EVERY event list (any mix of honest
deliveries, Byzantine offers of arbitrary chains, stalls, connects, disconnects,
honest-side growth, in any order) the accepted chain is a path of valid blocks
from genesis in the ground-truth tree. -/
theorem C04_safety (w : World) (R : AcceptRule w) (s : State) (evs : List Ev)
    (h0 : w.valid s.chain = true) : w.valid (run w R s evs).chain = true :=
  run_valid w R evs s h0

/-- **No event undoes accepted progress**: the work of the accepted chain never
decreases, whatever Byzantine peers send. -/
theorem C04_no_regress (w : World) (R : AcceptRule w) (s : State) (evs : List Ev) :
    w.work s.chain ≤ w.work (run w R s evs).chain :=
  run_work w R evs s

/-- the honest tip is the unique most-work valid chain -/
def Best (w : World) (s : State) : Prop :=
  ∀ x, w.valid x = true → x ≠ s.honestTip → w.work x < w.work s.honestTip

theorem step_tip (w : World) (R : AcceptRule w) (s : State) (e : Ev) (hq : e.quiet = true) :
    (step w R s e).honestTip = s.honestTip ∧
    nonHonest (step w R s e).peers ≤ nonHonest s.peers := by
  cases e with
  | connect p => simp only [Ev.quiet] at hq; cases hq
  | grow c => simp only [Ev.quiet] at hq; cases hq
  | honestReply p =>
    simp only [step]
    by_cases h : p.beh = .honest ∧ listensTo w s p = true
    · simp only [h, and_self, ↓reduceIte, Nat.le_refl]
    · simp only [h, ↓reduceIte, Nat.le_refl, and_self]
  | byzOffer p o =>
    simp only [step]
    by_cases h : p.beh = .byz ∧ listensTo w s p = true
    · simp only [h, and_self, ↓reduceIte, Nat.le_refl]
    · simp only [h, ↓reduceIte, Nat.le_refl, and_self]
  | stall p =>
    simp only [step]
    by_cases h : s.sync = some p ∧ p.beh ≠ .honest
    · simp only [h, ne_eq, not_false_eq_true, and_self, ↓reduceIte]
      exact ⟨rfl, nonHonest_drop_le s p⟩
    · simp only [h, ↓reduceIte, Nat.le_refl, and_self]
  | disconnect p =>
    simp only [step]
    by_cases h : p ∈ s.peers
    · simp only [h, ↓reduceIte]; exact ⟨rfl, nonHonest_drop_le s p⟩
    · simp only [h, ↓reduceIte, Nat.le_refl, and_self]

/-- **Convergence is stable**: once the client holds the honest tip, no event
other than honest-side growth moves it away — in particular no Byzantine offer. -/
theorem C04_stable (w : World) (R : AcceptRule w) (s : State) (e : Ev) (hb : Best w s)
    (hc : s.chain = s.honestTip) (hg : ∀ c, e ≠ .grow c) :
    (step w R s e).chain = (step w R s e).honestTip := by
  have hbest : ∀ x, w.valid x = true → w.work x ≤ w.work s.chain := by
    intro x hx
    by_cases hxe : x = s.honestTip
    · rw [hxe, hc]; exact Nat.le_refl _
    · rw [hc]; exact Nat.le_of_lt (hb x hx hxe)
  cases e with
  | grow c => exact absurd rfl (hg c)
  | connect p =>
    simp only [step]
    by_cases h : p ∈ s.peers
    · simp only [h, ↓reduceIte]; exact hc
    · simp only [h, ↓reduceIte]; exact hc
  | honestReply p =>
    simp only [step]
    by_cases h : p.beh = .honest ∧ listensTo w s p = true
    · simp only [h, and_self, ↓reduceIte]; rw [acc_stable w R _ _ hbest]; exact hc
    · simp only [h, ↓reduceIte]; exact hc
  | byzOffer p o =>
    simp only [step]
    by_cases h : p.beh = .byz ∧ listensTo w s p = true
    · simp only [h, and_self, ↓reduceIte]; rw [acc_stable w R _ _ hbest]; exact hc
    · simp only [h, ↓reduceIte]; exact hc
  | stall p =>
    simp only [step]
    by_cases h : s.sync = some p ∧ p.beh ≠ .honest
    · simp only [h, ne_eq, not_false_eq_true, and_self, ↓reduceIte, drop]; exact hc
    · simp only [h, ↓reduceIte]; exact hc
  | disconnect p =>
    simp only [step]
    by_cases h : p ∈ s.peers
    · simp only [h, ↓reduceIte, drop]; exact hc
    · simp only [h, ↓reduceIte]; exact hc

/-- **C04 progress (existence of a fair schedule, bounded by the rank).**  In any
state satisfying the invariant in which an honest peer is connected and its tip
has more work than the accepted chain, the schedule `sched` — stall-disconnect
every non-honest sync peer in turn (finitely many: at most `nonHonest`), then
deliver the reply of the honest peer that has become the sync peer — consists of
enabled fair events only, is no longer than `rank`, and ends with the client
holding the honest tip. -/
theorem C04_progress (w : World) (R : AcceptRule w) (s : State) (hi : Inv w s)
    (hh : ∃ p ∈ s.peers, p.beh = .honest) (hw : w.work s.chain < w.work s.honestTip) :
    FairRun w R s (sched w R s) ∧ (sched w R s).length ≤ rank s ∧
    (run w R s (sched w R s)).chain = s.honestTip := by
  have hsp := stallSched_spec w R (nonHonest s.peers) s hi hh (Nat.le_refl _)
  simp only at hsp
  obtain ⟨⟨q, hq, hqb, hqm⟩, hch, htip, hfair, hlen, _⟩ := hsp
  have hne : s.chain ≠ s.honestTip := by intro he; rw [he] at hw; exact Nat.lt_irrefl _ hw
  have hlisten : listensTo w (run w R s (stallSched w R (nonHonest s.peers) s)) q = true := by
    simp only [listensTo, hqm, hq, decide_true, Bool.true_or, Bool.and_self]
  simp only [sched, hq]
  refine ⟨?_, ?_, ?_⟩
  · apply fairRun_append _ _ _ _ _ hfair
    exact ⟨⟨hqb, hlisten⟩, trivial⟩
  · simp only [List.length_append, List.length_cons, List.length_nil, rank, hne, ↓reduceIte]
    omega
  · rw [run_append]
    simp only [run, step, hqb, hlisten, and_self, ↓reduceIte, hch, htip]
    exact R.complete _ _ hi.tip_valid hw

/-- while the client has not converged (and an honest peer is connected) some
fair event that makes progress is enabled -/
theorem C04_fair_enabled (w : World) (s : State) (hi : Inv w s)
    (hh : ∃ p ∈ s.peers, p.beh = .honest) (hne : s.chain ≠ s.honestTip) : ∃ e, useful w s e := by
  obtain ⟨p, hp, _⟩ := hh
  have hnn : s.peers ≠ [] := by intro he; rw [he] at hp; exact absurd hp List.not_mem_nil
  obtain ⟨q, hs⟩ : ∃ q, s.sync = some q := by
    cases h : s.sync with
    | none => exact absurd h (hi.sync_some hnn)
    | some q => exact ⟨q, rfl⟩
  by_cases hqb : q.beh = .honest
  · refine ⟨.honestReply q, hqb, ?_, hne⟩
    simp only [listensTo, hi.sync_mem q hs, hs, decide_true, Bool.true_or, Bool.and_self]
  · exact ⟨.stall q, hs, hqb⟩

/-- what the ranking argument needs of a state -/
structure Good (w : World) (s : State) : Prop where
  inv   : Inv w s
  valid : w.valid s.chain = true
  best  : Best w s

theorem step_good (w : World) (R : AcceptRule w) (s : State) (e : Ev) (hq : e.quiet = true)
    (hg : Good w s) : Good w (step w R s e) := by
  refine ⟨step_inv w R s e hg.inv, step_valid w R s e hg.valid, ?_⟩
  intro x hx hne
  rw [(step_tip w R s e hq).1] at hne ⊢
  exact hg.best x hx hne

/-- one step of the ranking argument: every quiet event leaves the rank where it
is or lowers it, and a useful fair event lowers it by at least one -/
theorem step_rank (w : World) (R : AcceptRule w) (s : State) (e : Ev) (hq : e.quiet = true)
    (hg : Good w s) : rank (step w R s e) + (if useful w s e then 1 else 0) ≤ rank s := by
  have hbest : s.chain = s.honestTip → ∀ x, w.valid x = true → w.work x ≤ w.work s.chain := by
    intro hc x hx
    by_cases hxe : x = s.honestTip
    · rw [hxe, hc]; exact Nat.le_refl _
    · rw [hc]; exact Nat.le_of_lt (hg.best x hx hxe)
  cases e with
  | connect p => simp only [Ev.quiet] at hq; cases hq
  | grow c => simp only [Ev.quiet] at hq; cases hq
  | honestReply p =>
    simp only [step, useful]
    by_cases h : p.beh = .honest ∧ listensTo w s p = true
    · by_cases hc : s.chain = s.honestTip
      · have : R.acc s.chain s.honestTip = s.honestTip := by
          rw [acc_stable w R _ _ (hbest hc)]; exact hc
        rw [hc] at this
        simp only [h, and_self, ↓reduceIte, rank, hc, this, ne_eq, not_true_eq_false, and_false,
          Nat.add_zero, Nat.le_refl]
      · have hlt := hg.best s.chain hg.valid hc
        have : R.acc s.chain s.honestTip = s.honestTip := R.complete _ _ hg.inv.tip_valid hlt
        simp only [h, and_self, ↓reduceIte, rank, this, hc, ne_eq, not_false_eq_true, Nat.add_zero,
          Nat.le_refl]
    · have hnu : ¬ (p.beh = .honest ∧ listensTo w s p = true ∧ s.chain ≠ s.honestTip) := by
        intro ⟨a, b, _⟩; exact h ⟨a, b⟩
      simp only [h, ↓reduceIte, hnu, Nat.add_zero, Nat.le_refl]
  | byzOffer p o =>
    simp only [step, useful, ↓reduceIte, Nat.add_zero]
    by_cases h : p.beh = .byz ∧ listensTo w s p = true
    · by_cases hc : s.chain = s.honestTip
      · have : R.acc s.chain o = s.honestTip := by
          rw [acc_stable w R _ _ (hbest hc)]; exact hc
        rw [hc] at this
        simp only [h, and_self, ↓reduceIte, rank, hc, this, Nat.add_zero, Nat.le_refl]
      · simp only [h, and_self, ↓reduceIte, rank, hc]
        by_cases hc' : R.acc s.chain o = s.honestTip
        · simp only [hc', ↓reduceIte]; omega
        · simp only [hc', ↓reduceIte]; omega
    · simp only [h, ↓reduceIte, Nat.le_refl]
  | stall p =>
    simp only [step, useful]
    by_cases h : s.sync = some p ∧ p.beh ≠ .honest
    · have hlt := nonHonest_remove_lt (hg.inv.sync_mem p h.1) h.2
      simp only [h, ne_eq, not_false_eq_true, and_self, ↓reduceIte, rank, drop]
      omega
    · simp only [h, ↓reduceIte, Nat.add_zero, Nat.le_refl]
  | disconnect p =>
    simp only [step, useful, ↓reduceIte, Nat.add_zero]
    by_cases h : p ∈ s.peers
    · have := nonHonest_remove_le p s.peers
      simp only [h, ↓reduceIte, rank, drop]
      omega
    · simp only [h, ↓reduceIte, Nat.le_refl]

/-- **C04 ranking theorem.**  Along ANY event list without new connections and
honest-side growth (Byzantine offers, disconnects, disabled events, honest
replies, stalls in any order) the rank plus the number of useful fair events
taken so far never exceeds the initial rank. -/
theorem C04_rank (w : World) (R : AcceptRule w) (evs : List Ev) (s : State)
    (hq : ∀ e ∈ evs, e.quiet = true) (hg : Good w s) :
    rank (run w R s evs) + usefulCount w R s evs ≤ rank s := by
  induction evs generalizing s with
  | nil => simp only [run, usefulCount, Nat.add_zero, Nat.le_refl]
  | cons e es ih =>
    have hqe := hq e List.mem_cons_self
    have h1 := step_rank w R s e hqe hg
    have h2 := ih (step w R s e) (fun x hx => hq x (List.mem_cons_of_mem _ hx)) (step_good w R s e hqe hg)
    simp only [run, usefulCount]
    omega

/-- **C04 progress under the fairness hypothesis.**  FAIRNESS, stated as the
hypothesis `hfair`: the execution contains at least `rank s` useful fair events
(weak fairness provides them: by `C04_fair_enabled` one is enabled for as long as
the client has not converged).  Then — whatever else happened in between — the
client holds the honest tip at the end. -/
theorem C04_progress_fair (w : World) (R : AcceptRule w) (evs : List Ev) (s : State)
    (hq : ∀ e ∈ evs, e.quiet = true) (hg : Good w s)
    (hfair : rank s ≤ usefulCount w R s evs) :
    (run w R s evs).chain = (run w R s evs).honestTip := by
  have h := C04_rank w R evs s hq hg
  have h0 : rank (run w R s evs) = 0 := by omega
  simp only [rank] at h0
  by_cases hc : (run w R s evs).chain = (run w R s evs).honestTip
  · exact hc
  · simp only [hc, ↓reduceIte] at h0; omega

/-! ## the sync-peer bookkeeping

The model changes the sync peer in exactly three places: `connect` selects one
when there is none (`handleNewPeerMsg` → `startSync`), `drop` of the sync peer
clears it and selects again (`handleDonePeerMsg` → `startSync`), and nothing
else touches it (the reorg arm of `handleHeadersMsg` hands it to the connected
sender of the adopted branch, which the model over-approximates by leaving it
alone).  The source is tied to that by the regenerated table of assignment
sites: a new function assigning `syncPeer`, or another assignment in one of the
three, breaks `C04_syncpeer_sites`. -/

/-- **Source facts** (regenerated from blockmanager.go on every run): the
functions that assign the `syncPeer` field, how often, and how many of the
assignments are `= nil`; both peer-event handlers run `startSync`. -/
theorem C04_syncpeer_sites :
    Neutrino.Gen.SyncPeer.assignSites =
      [("handleDonePeerMsg", 1, 1), ("handleHeadersMsg", 1, 0), ("startSync", 1, 0)] ∧
    Neutrino.Gen.SyncPeer.donePeerReselects = true ∧
    Neutrino.Gen.SyncPeer.newPeerSelects = true := by decide

/-- **The sync peer is always a connected peer or none**, for every event list
(any interleaving of connects, disconnects, stalls, honest replies, Byzantine
offers and honest-side growth) from a state satisfying the invariant. -/
theorem C04_syncPeer_connected (w : World) (R : AcceptRule w) (s : State) (evs : List Ev)
    (hi : Inv w s) : ∀ q, (run w R s evs).sync = some q → q ∈ (run w R s evs).peers :=
  (run_inv w R evs s hi).sync_mem

/-- **Selection is never left pending**: in every reachable state, if there is no
sync peer then no peer is connected - a fortiori no connected peer announcing
more work is waiting for a `startSync` that nobody will run.  (Each handler
step that can leave the client without a sync peer - the done event of the sync
peer - runs the selection itself: `C04_done_reselects`.) -/
theorem C04_progress_enabled (w : World) (R : AcceptRule w) (s : State) (evs : List Ev)
    (hi : Inv w s) : (run w R s evs).sync = none → (run w R s evs).peers = [] := by
  intro hn
  have h := (run_inv w R evs s hi).sync_some
  by_cases hp : (run w R s evs).peers = []
  · exact hp
  · exact absurd hn (h hp)

/-- the done event of the sync peer selects among the remaining peers in the same step -/
theorem C04_done_reselects (s : State) (p : Peer) (hs : s.sync = some p) :
    (drop s p).sync = pickSync (remove p s.peers) := by
  simp only [drop, hs, ↓reduceIte]

/-- an enabled selection picks a peer whenever one is connected -/
theorem C04_select_some (ps : List Peer) (h : ps ≠ []) : ∃ q, pickSync ps = some q ∧ q ∈ ps := by
  cases hq : pickSync ps with
  | none => exact absurd hq (pickSync_some h)
  | some q => exact ⟨q, rfl, pickSync_mem hq⟩

/-- The two bookkeeping mistakes the invariant excludes, as mutated handler steps.
(1) The sync peer is forgotten when it is caught lying; its later done event
finds "not the sync peer" and does not select: a connected candidate is left
without a sync peer. -/
def forgetThenDone (s : State) (p : Peer) : State :=
  let s1 : State := { s with sync := if s.sync = some p then none else s.sync }   -- forgetSyncPeer
  { s1 with peers := remove p s1.peers }                                          -- done event: not the sync peer, no startSync

/-- (2) The sender of a headers batch is adopted as sync peer when there is none -
also after its done event has been handled. -/
def adoptSender (s : State) (p : Peer) : State :=
  if s.sync = none then { s with sync := some p } else s

/-! ## the hypotheses are satisfiable, the statements are not vacuous -/

/-- A small world: chains of ids < 100 are valid, work = length. -/
def exWorld : World := { valid := fun c => c.all (· < 100), work := fun c => c.length }

def exHonest : Peer := ⟨1, .honest, 3⟩
def exSilent : Peer := ⟨2, .silent, 1000⟩
def exByz : Peer := ⟨3, .byz, 50⟩

/-- silent peer with a huge claim is the sync peer, a Byzantine and an honest peer are connected -/
def exState : State :=
  { chain := [1], peers := [exHonest, exSilent, exByz], sync := some exSilent, honestTip := [1, 2, 3] }

example : Inv exWorld exState where
  sync_mem := by intro q hq; simp only [exState, Option.some.injEq] at hq; rw [← hq]; decide
  sync_some := by intro _ h; cases h
  tip_valid := by decide

/-- the schedule of `C04_progress` on the example: two stalls (the silent peer, then the
Byzantine one that is selected next), then the honest reply; the client ends on the honest tip -/
example : sched exWorld (accStd exWorld) exState = [.stall exSilent, .stall exByz, .honestReply exHonest] := by
  decide
example : (run exWorld (accStd exWorld) exState (sched exWorld (accStd exWorld) exState)).chain = [1, 2, 3] := by
  decide

/-- a Byzantine offer of an invalid heavier chain and of a valid lighter one are both refused -/
example : (run exWorld (accStd exWorld)
    { exState with sync := some exByz } [.byzOffer exByz [1, 2, 3, 500], .byzOffer exByz []]).chain = [1] := by decide

/-- The oracle of the simulation refuses what the property forbids (sanity of the
decidable predicates the driver evaluates). -/
example : (Neutrino.Converge.Truth.init 10).safeBlockTip (.tip 7 "t7") = true := by decide
example : (Neutrino.Converge.Truth.init 10).safeBlockTip (.tip 7 "x") = false := by decide
example : (Neutrino.Converge.Truth.init 10).safeBlockTip (.tip 11 "t11") = false := by decide
example : ((Neutrino.Converge.Truth.init 10).reorg 2 3).safeFilterTip (.tip 11 "fa11") = true := by decide
example : ((Neutrino.Converge.Truth.init 10).reorg 2 3).honestId = "a11" := by decide

end Neutrino.Net

/-! ## who gets asked for headers (model: Neutrino/Model/SyncAsk.lean) -/
namespace Neutrino.Ask

/-- **Source facts** the request model rests on (regenerated on every run): the
only early returns of `startSync` are "there is a sync peer" and a failed store
read; `handleNewPeerMsg` asks a new peer on the spot iff it announces more than
our tip and `BlockHeadersSynced()`; `handleInvMsg` ignores an announcement iff
its sender is not the sync peer and not `BlockHeadersSynced()`. -/
theorem C04_ask_source :
    Neutrino.Gen.SyncPeer.startSyncEarlyReturns = ["b.syncPeer!=nil", "err!=nil"] ∧
    Neutrino.Gen.SyncPeer.newPeerAskCond = "height<uint32(sp.StartingHeight())&&b.BlockHeadersSynced()" ∧
    Neutrino.Gen.SyncPeer.invIgnoreCond = "imsg.peer!=b.SyncPeer()&&!b.BlockHeadersSynced()" := by decide

/-- In every reachable state a sync peer that is ahead of us has a request outstanding. -/
theorem C04_sync_peer_ahead_is_asked (evs : List Ev) :
    ∀ q, (run init evs).sync = some q → (run init evs).tip < q.claim → q ∈ (run init evs).asked :=
  WF_run evs init WF_init

theorem startSync_asked_mono (s : State) (x : Peer) (h : x ∈ s.asked) : x ∈ (startSync s).asked := by
  unfold startSync
  cases s.sync with
  | some q => exact h
  | none =>
    simp only
    cases best (candidates s) with
    | none => exact h
    | some b => exact List.mem_cons_of_mem _ h

/-- **The statement as one would like it**: whenever a peer that announces more
than our tip arrives while no request is outstanding, the handler step for its
arrival issues a request to a peer at least as far ahead.  FALSE of the code:
`C04_ahead_peer_asked_counterexample`. -/
def AheadPeerAsked : Prop :=
  ∀ (s : State) (p : Peer), WF s → p ∉ s.peers → s.tip < p.claim → s.asked = [] →
    ∃ q ∈ (step s (.newPeer p)).asked, p.claim ≤ q.claim

/-- A stale tip (older than 24 h) and a sync peer level with us: the higher peer
that connects is not asked, and neither is it when it later announces a block. -/
def staleState : State :=
  { tip := 10, fresh := false, peers := [⟨1, 10⟩], sync := some ⟨1, 10⟩, asked := [] }

theorem C04_ahead_peer_asked_counterexample : ¬ AheadPeerAsked := by
  intro h
  have h1 := h staleState ⟨2, 15⟩ (by intro q hq hlt; simp only [staleState, Option.some.injEq] at hq; rw [← hq] at hlt; exact absurd hlt (by decide))
    (by decide) (by decide) rfl
  revert h1
  decide

example : (run staleState [.newPeer ⟨2, 15⟩, .inv ⟨2, 15⟩ 16]).asked = [] := by decide

/-- **C04_ahead_peer_asked (arrival)** — what the code guarantees: outside the
recorded shape (the tip is fresh, or there is no sync peer) the arrival of a
peer announcing more than our tip, with no request outstanding, issues a request
in that very handler step - to the new peer itself when we are current, else to
the candidate `startSync` selects, which announces at least as much. -/
theorem C04_ahead_peer_asked (s : State) (p : Peer) (hwf : WF s) (hnew : p ∉ s.peers)
    (hahead : s.tip < p.claim) (hq : s.asked = []) (hshape : s.fresh = true ∨ s.sync = none) :
    ∃ q ∈ (step s (.newPeer p)).asked, p.claim ≤ q.claim := by
  simp only [step, hnew, ↓reduceIte]
  by_cases hf : s.fresh = true
  · -- current: a sync peer, if any, is not ahead (it would have a request outstanding)
    have hcur : current { s with peers := s.peers ++ [p] } = true := by
      simp only [current, hf, Bool.true_and]
      cases hs : s.sync with
      | none => rfl
      | some q =>
        simp only [decide_eq_true_eq]
        by_cases hlt : s.tip < q.claim
        · have := hwf q hs hlt
          rw [hq] at this
          exact absurd this List.not_mem_nil
        · exact Nat.le_of_not_lt hlt
    have hc : s.tip < p.claim ∧ current { s with peers := s.peers ++ [p] } = true := ⟨hahead, hcur⟩
    simp only [hc, and_self, ↓reduceIte]
    exact ⟨p, startSync_asked_mono _ p List.mem_cons_self, Nat.le_refl _⟩
  · have hs : s.sync = none := by
      cases hshape with
      | inl h => exact absurd h hf
      | inr h => exact h
    have hncur : ¬ (s.tip < p.claim ∧ current { s with peers := s.peers ++ [p] } = true) := by
      intro hc
      have hff : s.fresh = false := by cases hb : s.fresh with | true => exact absurd hb hf | false => rfl
      simp only [current, hff, Bool.false_and] at hc
      exact absurd hc.2 (by decide)
    simp only [hncur, ↓reduceIte]
    have hpc : p ∈ candidates { s with peers := s.peers ++ [p] } := by
      simp only [candidates]
      apply List.mem_filter.mpr
      exact ⟨List.mem_append_right _ List.mem_cons_self, by simp only [decide_eq_true_eq]; exact Nat.le_of_lt hahead⟩
    have hne : candidates { s with peers := s.peers ++ [p] } ≠ [] := by
      intro he; rw [he] at hpc; exact absurd hpc List.not_mem_nil
    unfold startSync
    simp only [hs]
    split
    · next hnone =>
      obtain ⟨b, hb⟩ := best_some hne
      have hb' : best (candidates { tip := s.tip, fresh := s.fresh, peers := s.peers ++ [p], sync := none, asked := s.asked }) = some b := hb
      rw [hb'] at hnone
      cases hnone
    · next b hb =>
      have hpc' : p ∈ candidates { tip := s.tip, fresh := s.fresh, peers := s.peers ++ [p], sync := none, asked := s.asked } := hpc
      exact ⟨b, List.mem_cons_self, best_ge hb p hpc'⟩

/-- **C04_ahead_peer_asked (announcement)**: an `inv` for a block above our tip
from a connected peer is answered with a request when the tip is fresh and no
request is outstanding, or when its sender is the sync peer. -/
theorem C04_ahead_peer_asked_inv (s : State) (p : Peer) (h : Nat) (hwf : WF s) (hp : p ∈ s.peers)
    (hahead : s.tip < h) (hq : s.asked = []) (hshape : s.fresh = true ∨ s.sync = some p) :
    p ∈ (step s (.inv p h)).asked := by
  have hl : s.sync = some p ∨ current s = true := by
    cases hshape with
    | inr hs => exact Or.inl hs
    | inl hf =>
      right
      simp only [current, hf, Bool.true_and]
      cases hs : s.sync with
      | none => rfl
      | some q =>
        simp only [decide_eq_true_eq]
        by_cases hlt : s.tip < q.claim
        · have := hwf q hs hlt
          rw [hq] at this
          exact absurd this List.not_mem_nil
        · exact Nat.le_of_not_lt hlt
  have hc : p ∈ s.peers ∧ (s.sync = some p ∨ current s = true) ∧ s.tip < h := ⟨hp, hl, hahead⟩
  simp only [step, hc, and_self, ↓reduceIte]
  exact List.mem_cons_self

/-- the done event of the sync peer hands the sync to a remaining candidate that
is not behind us and asks it (no `current` test in between) -/
theorem C04_done_asks_replacement (s : State) (p b : Peer) (hs : s.sync = some p)
    (hb : best (candidates { s with peers := s.peers.filter (· ≠ p), asked := s.asked.filter (· ≠ p), sync := none }) = some b) :
    (step s (.donePeer p)).sync = some b ∧ b ∈ (step s (.donePeer p)).asked := by
  simp only [step, hs, ↓reduceIte]
  unfold startSync
  simp only
  split
  · next hnone =>
    have hb' : best (candidates { tip := s.tip, fresh := s.fresh, peers := s.peers.filter (· ≠ p), sync := none, asked := s.asked.filter (· ≠ p) }) = some b := hb
    rw [hb'] at hnone
    cases hnone
  · next b' hb2 =>
    have hb' : best (candidates { tip := s.tip, fresh := s.fresh, peers := s.peers.filter (· ≠ p), sync := none, asked := s.asked.filter (· ≠ p) }) = some b := hb
    rw [hb'] at hb2
    simp only [Option.some.injEq] at hb2
    rw [← hb2]
    exact ⟨rfl, List.mem_cons_self⟩

/-! ### no peer message is lost on its way to the block handler -/

/-- **Transport assumption of the progress theorems**, as a fact of the source
(regenerated on every run): each of the four entry points that hand a peer
message to the block handler - `QueueHeaders`, `QueueInv`, `NewPeer`, `DonePeer` -
sends on `peerChan` inside a `select` whose only alternative is `<-b.quit`;
there is no `default` arm, so the caller waits for room in the queue and the
message is not dropped. -/
def NoMessageLost : Prop :=
  Neutrino.Gen.SyncPeer.peerChanSends =
    [("DonePeer", true, false), ("NewPeer", true, false), ("QueueHeaders", true, false), ("QueueInv", true, false)]

theorem C04_no_message_lost : NoMessageLost := by unfold NoMessageLost; decide

/-- Why the assumption is needed: header sync is a request/response chain.  If the
answer to the one outstanding request is lost (the request is gone, the tip did
not move), then - however much time passes and whatever answers to requests that
are NOT outstanding arrive - no request is ever issued again and the tip stays
where it is; only a new external event (an announcement, a peer arriving or
leaving) can restart the sync. -/
def quietEv : Ev → Bool
  | .age => true
  | .headers _ _ => true
  | _ => false

theorem C04_lost_reply_stalls (s : State) (evs : List Ev) (hq : s.asked = [])
    (hev : ∀ e ∈ evs, quietEv e = true) : (run s evs).tip = s.tip ∧ (run s evs).asked = [] := by
  induction evs generalizing s with
  | nil => exact ⟨rfl, hq⟩
  | cons e es ih =>
    have he := hev e List.mem_cons_self
    have hes : ∀ x ∈ es, quietEv x = true := fun x hx => hev x (List.mem_cons_of_mem _ hx)
    cases e with
    | newPeer p => simp only [quietEv] at he; cases he
    | donePeer p => simp only [quietEv] at he; cases he
    | inv p h => simp only [quietEv] at he; cases he
    | age =>
      have := ih { s with fresh := false } hq hes
      simp only [run, step]
      exact this
    | headers p h =>
      have hn : ¬ (p ∈ s.asked ∧ s.tip < h) := by
        intro hc; rw [hq] at hc; exact absurd hc.1 List.not_mem_nil
      have hstep : step s (.headers p h) = s := by simp only [step, hn, ↓reduceIte]
      simp only [run, hstep]
      exact ih s hq hes

/-- a concrete instance: the sync peer is ahead, its answer was dropped -/
example : (run { tip := 36, fresh := true, peers := [⟨1, 38⟩], sync := some ⟨1, 38⟩, asked := [] }
    [.headers ⟨1, 38⟩ 38, .age, .headers ⟨1, 38⟩ 38]).tip = 36 := by decide

end Neutrino.Ask

namespace Neutrino.Net

/-- **C04 progress with the transport assumption made explicit.**  The fair
schedule of `C04_progress` takes the honest peer's reply as an event the block
handler gets to see.  That is an assumption about the path from the peer's read
loop to the handler: `Neutrino.Ask.NoMessageLost` (a regenerated source fact,
`C04_no_message_lost`); `Neutrino.Ask.C04_lost_reply_stalls` shows what happens
without it. -/
theorem C04_progress_no_loss (_hdeliver : Neutrino.Ask.NoMessageLost)
    (w : World) (R : AcceptRule w) (s : State) (hi : Inv w s)
    (hh : ∃ p ∈ s.peers, p.beh = .honest) (hw : w.work s.chain < w.work s.honestTip) :
    FairRun w R s (sched w R s) ∧ (sched w R s).length ≤ rank s ∧
    (run w R s (sched w R s)).chain = s.honestTip :=
  C04_progress w R s hi hh hw

/-- the two mutated handler steps break the invariant on the example state -/
example : ¬ Inv exWorld (forgetThenDone exState exSilent) := by
  intro h
  exact h.sync_some (by decide) (by decide)

example : ¬ Inv exWorld (adoptSender (drop { exState with peers := [exSilent] } exSilent) exSilent) := by
  intro h
  have := h.sync_mem exSilent (by decide)
  revert this
  decide

end Neutrino.Net
