/-
C04 — with one honest peer the client converges on the true best chain end to
end, and never reports a best block that is not on a valid chain from genesis.

PARTIAL.  The theorems below are about the abstract composition of
Neutrino/Model/Converge.lean (client ∘ peers at message level, the block
manager's acceptance rule a parameter with the two facts C01/C02 establish).
They cover every schedule OF THE MODEL; the real peer / connection-manager /
query stack, its timers and goroutine scheduling are exercised only on the
schedules the network simulation produces, whose observations are judged by the
oracle of Neutrino/Spec/Converge.lean (driver `net`).  The filter-header half of
convergence is not modelled here (C03); it is checked by the oracle only.

Assumptions, all explicit in the statements:
* `AcceptRule.sound / complete`  — C01 ∧ C02 for `handleHeadersMsg`;
* fairness — the events of `FairEv`: an honest peer's reply the client is
  listening for is eventually delivered, and a sync peer that is not honest and
  blocks the sync is eventually disconnected (btcd's stall detector; environment);
* finitely many non-honest peers: no `connect` events while converging (`Ev.quiet`);
* the honest tip is THE most-work valid chain (`Best`): every other valid chain has
  strictly less work.
-/
import Neutrino.Lemmas.Converge
import Neutrino.Spec.Converge
import Neutrino.Gen.SyncPeer
namespace Neutrino.Net

/-- **C04 safety.**  For every world, every acceptance rule that is sound, every
start state holding a valid chain and EVERY event list (any mix of honest
deliveries, Byzantine offers of arbitrary chains, stalls, connects, disconnects,
honest-side growth, in any order) the accepted chain is a path of valid blocks
from genesis in the ground-truth tree. -/
theorem C04_safety (w : World) (R : AcceptRule w) (s : State) (evs : List Ev)
    (h0 : w.valid s.chain = true) : w.valid (run w R s evs).chain = true :=
  run_valid w R evs s h0

/-- **No event undoes accepted progress**: the work of the accepted chain never
decreases, whatever Byzantine peers send. -/
theorem C04_no_regress (w : World) (R : AcceptRule w) (s : State) (evs : List Ev) :
    w.work s.chain ≤ w.work (run w R s evs).chain :=
  run_work w R evs s

/-- the honest tip is the unique most-work valid chain -/
def Best (w : World) (s : State) : Prop :=
  ∀ x, w.valid x = true → x ≠ s.honestTip → w.work x < w.work s.honestTip

theorem step_tip (w : World) (R : AcceptRule w) (s : State) (e : Ev) (hq : e.quiet = true) :
    (step w R s e).honestTip = s.honestTip ∧
    nonHonest (step w R s e).peers ≤ nonHonest s.peers := by
  cases e with
  | connect p => simp only [Ev.quiet] at hq; cases hq
  | grow c => simp only [Ev.quiet] at hq; cases hq
  | honestReply p =>
    simp only [step]
    by_cases h : p.beh = .honest ∧ listensTo w s p = true
    · simp only [h, and_self, ↓reduceIte, Nat.le_refl]
    · simp only [h, ↓reduceIte, Nat.le_refl, and_self]
  | byzOffer p o =>
    simp only [step]
    by_cases h : p.beh = .byz ∧ listensTo w s p = true
    · simp only [h, and_self, ↓reduceIte, Nat.le_refl]
    · simp only [h, ↓reduceIte, Nat.le_refl, and_self]
  | stall p =>
    simp only [step]
    by_cases h : s.sync = some p ∧ p.beh ≠ .honest
    · simp only [h, ne_eq, not_false_eq_true, and_self, ↓reduceIte]
      exact ⟨rfl, nonHonest_drop_le s p⟩
    · simp only [h, ↓reduceIte, Nat.le_refl, and_self]
  | disconnect p =>
    simp only [step]
    by_cases h : p ∈ s.peers
    · simp only [h, ↓reduceIte]; exact ⟨rfl, nonHonest_drop_le s p⟩
    · simp only [h, ↓reduceIte, Nat.le_refl, and_self]

/-- **Convergence is stable**: once the client holds the honest tip, no event
other than honest-side growth moves it away — in particular no Byzantine offer. -/
theorem C04_stable (w : World) (R : AcceptRule w) (s : State) (e : Ev) (hb : Best w s)
    (hc : s.chain = s.honestTip) (hg : ∀ c, e ≠ .grow c) :
    (step w R s e).chain = (step w R s e).honestTip := by
  have hbest : ∀ x, w.valid x = true → w.work x ≤ w.work s.chain := by
    intro x hx
    by_cases hxe : x = s.honestTip
    · rw [hxe, hc]; exact Nat.le_refl _
    · rw [hc]; exact Nat.le_of_lt (hb x hx hxe)
  cases e with
  | grow c => exact absurd rfl (hg c)
  | connect p =>
    simp only [step]
    by_cases h : p ∈ s.peers
    · simp only [h, ↓reduceIte]; exact hc
    · simp only [h, ↓reduceIte]; exact hc
  | honestReply p =>
    simp only [step]
    by_cases h : p.beh = .honest ∧ listensTo w s p = true
    · simp only [h, and_self, ↓reduceIte]; rw [acc_stable w R _ _ hbest]; exact hc
    · simp only [h, ↓reduceIte]; exact hc
  | byzOffer p o =>
    simp only [step]
    by_cases h : p.beh = .byz ∧ listensTo w s p = true
    · simp only [h, and_self, ↓reduceIte]; rw [acc_stable w R _ _ hbest]; exact hc
    · simp only [h, ↓reduceIte]; exact hc
  | stall p =>
    simp only [step]
    by_cases h : s.sync = some p ∧ p.beh ≠ .honest
    · simp only [h, ne_eq, not_false_eq_true, and_self, ↓reduceIte, drop]; exact hc
    · simp only [h, ↓reduceIte]; exact hc
  | disconnect p =>
    simp only [step]
    by_cases h : p ∈ s.peers
    · simp only [h, ↓reduceIte, drop]; exact hc
    · simp only [h, ↓reduceIte]; exact hc

/-- **C04 progress (existence of a fair schedule, bounded by the rank).**  In any
state satisfying the invariant in which an honest peer is connected and its tip
has more work than the accepted chain, the schedule `sched` — stall-disconnect
every non-honest sync peer in turn (finitely many: at most `nonHonest`), then
deliver the reply of the honest peer that has become the sync peer — consists of
enabled fair events only, is no longer than `rank`, and ends with the client
holding the honest tip. -/
theorem C04_progress (w : World) (R : AcceptRule w) (s : State) (hi : Inv w s)
    (hh : ∃ p ∈ s.peers, p.beh = .honest) (hw : w.work s.chain < w.work s.honestTip) :
    FairRun w R s (sched w R s) ∧ (sched w R s).length ≤ rank s ∧
    (run w R s (sched w R s)).chain = s.honestTip := by
  have hsp := stallSched_spec w R (nonHonest s.peers) s hi hh (Nat.le_refl _)
  simp only at hsp
  obtain ⟨⟨q, hq, hqb, hqm⟩, hch, htip, hfair, hlen, _⟩ := hsp
  have hne : s.chain ≠ s.honestTip := by intro he; rw [he] at hw; exact Nat.lt_irrefl _ hw
  have hlisten : listensTo w (run w R s (stallSched w R (nonHonest s.peers) s)) q = true := by
    simp only [listensTo, hqm, hq, decide_true, Bool.true_or, Bool.and_self]
  simp only [sched, hq]
  refine ⟨?_, ?_, ?_⟩
  · apply fairRun_append _ _ _ _ _ hfair
    exact ⟨⟨hqb, hlisten⟩, trivial⟩
  · simp only [List.length_append, List.length_cons, List.length_nil, rank, hne, ↓reduceIte]
    omega
  · rw [run_append]
    simp only [run, step, hqb, hlisten, and_self, ↓reduceIte, hch, htip]
    exact R.complete _ _ hi.tip_valid hw

/-- while the client has not converged (and an honest peer is connected) some
fair event that makes progress is enabled -/
theorem C04_fair_enabled (w : World) (s : State) (hi : Inv w s)
    (hh : ∃ p ∈ s.peers, p.beh = .honest) (hne : s.chain ≠ s.honestTip) : ∃ e, useful w s e := by
  obtain ⟨p, hp, _⟩ := hh
  have hnn : s.peers ≠ [] := by intro he; rw [he] at hp; exact absurd hp List.not_mem_nil
  obtain ⟨q, hs⟩ : ∃ q, s.sync = some q := by
    cases h : s.sync with
    | none => exact absurd h (hi.sync_some hnn)
    | some q => exact ⟨q, rfl⟩
  by_cases hqb : q.beh = .honest
  · refine ⟨.honestReply q, hqb, ?_, hne⟩
    simp only [listensTo, hi.sync_mem q hs, hs, decide_true, Bool.true_or, Bool.and_self]
  · exact ⟨.stall q, hs, hqb⟩

/-- what the ranking argument needs of a state -/
structure Good (w : World) (s : State) : Prop where
  inv   : Inv w s
  valid : w.valid s.chain = true
  best  : Best w s

theorem step_good (w : World) (R : AcceptRule w) (s : State) (e : Ev) (hq : e.quiet = true)
    (hg : Good w s) : Good w (step w R s e) := by
  refine ⟨step_inv w R s e hg.inv, step_valid w R s e hg.valid, ?_⟩
  intro x hx hne
  rw [(step_tip w R s e hq).1] at hne ⊢
  exact hg.best x hx hne

/-- one step of the ranking argument: every quiet event leaves the rank where it
is or lowers it, and a useful fair event lowers it by at least one -/
theorem step_rank (w : World) (R : AcceptRule w) (s : State) (e : Ev) (hq : e.quiet = true)
    (hg : Good w s) : rank (step w R s e) + (if useful w s e then 1 else 0) ≤ rank s := by
  have hbest : s.chain = s.honestTip → ∀ x, w.valid x = true → w.work x ≤ w.work s.chain := by
    intro hc x hx
    by_cases hxe : x = s.honestTip
    · rw [hxe, hc]; exact Nat.le_refl _
    · rw [hc]; exact Nat.le_of_lt (hg.best x hx hxe)
  cases e with
  | connect p => simp only [Ev.quiet] at hq; cases hq
  | grow c => simp only [Ev.quiet] at hq; cases hq
  | honestReply p =>
    simp only [step, useful]
    by_cases h : p.beh = .honest ∧ listensTo w s p = true
    · by_cases hc : s.chain = s.honestTip
      · have : R.acc s.chain s.honestTip = s.honestTip := by
          rw [acc_stable w R _ _ (hbest hc)]; exact hc
        rw [hc] at this
        simp only [h, and_self, ↓reduceIte, rank, hc, this, ne_eq, not_true_eq_false, and_false,
          Nat.add_zero, Nat.le_refl]
      · have hlt := hg.best s.chain hg.valid hc
        have : R.acc s.chain s.honestTip = s.honestTip := R.complete _ _ hg.inv.tip_valid hlt
        simp only [h, and_self, ↓reduceIte, rank, this, hc, ne_eq, not_false_eq_true, Nat.add_zero,
          Nat.le_refl]
    · have hnu : ¬ (p.beh = .honest ∧ listensTo w s p = true ∧ s.chain ≠ s.honestTip) := by
        intro ⟨a, b, _⟩; exact h ⟨a, b⟩
      simp only [h, ↓reduceIte, hnu, Nat.add_zero, Nat.le_refl]
  | byzOffer p o =>
    simp only [step, useful, ↓reduceIte, Nat.add_zero]
    by_cases h : p.beh = .byz ∧ listensTo w s p = true
    · by_cases hc : s.chain = s.honestTip
      · have : R.acc s.chain o = s.honestTip := by
          rw [acc_stable w R _ _ (hbest hc)]; exact hc
        rw [hc] at this
        simp only [h, and_self, ↓reduceIte, rank, hc, this, Nat.add_zero, Nat.le_refl]
      · simp only [h, and_self, ↓reduceIte, rank, hc]
        by_cases hc' : R.acc s.chain o = s.honestTip
        · simp only [hc', ↓reduceIte]; omega
        · simp only [hc', ↓reduceIte]; omega
    · simp only [h, ↓reduceIte, Nat.le_refl]
  | stall p =>
    simp only [step, useful]
    by_cases h : s.sync = some p ∧ p.beh ≠ .honest
    · have hlt := nonHonest_remove_lt (hg.inv.sync_mem p h.1) h.2
      simp only [h, ne_eq, not_false_eq_true, and_self, ↓reduceIte, rank, drop]
      omega
    · simp only [h, ↓reduceIte, Nat.add_zero, Nat.le_refl]
  | disconnect p =>
    simp only [step, useful, ↓reduceIte, Nat.add_zero]
    by_cases h : p ∈ s.peers
    · have := nonHonest_remove_le p s.peers
      simp only [h, ↓reduceIte, rank, drop]
      omega
    · simp only [h, ↓reduceIte, Nat.le_refl]

/-- **C04 ranking theorem.**  Along ANY event list without new connections and
honest-side growth (Byzantine offers, disconnects, disabled events, honest
replies, stalls in any order) the rank plus the number of useful fair events
taken so far never exceeds the initial rank. -/
theorem C04_rank (w : World) (R : AcceptRule w) (evs : List Ev) (s : State)
    (hq : ∀ e ∈ evs, e.quiet = true) (hg : Good w s) :
    rank (run w R s evs) + usefulCount w R s evs ≤ rank s := by
  induction evs generalizing s with
  | nil => simp only [run, usefulCount, Nat.add_zero, Nat.le_refl]
  | cons e es ih =>
    have hqe := hq e List.mem_cons_self
    have h1 := step_rank w R s e hqe hg
    have h2 := ih (step w R s e) (fun x hx => hq x (List.mem_cons_of_mem _ hx)) (step_good w R s e hqe hg)
    simp only [run, usefulCount]
    omega

/-- **C04 progress under the fairness hypothesis.**  FAIRNESS, stated as the
hypothesis `hfair`: the execution contains at least `rank s` useful fair events
(weak fairness provides them: by `C04_fair_enabled` one is enabled for as long as
the client has not converged).  Then — whatever else happened in between — the
client holds the honest tip at the end. -/
theorem C04_progress_fair (w : World) (R : AcceptRule w) (evs : List Ev) (s : State)
    (hq : ∀ e ∈ evs, e.quiet = true) (hg : Good w s)
    (hfair : rank s ≤ usefulCount w R s evs) :
    (run w R s evs).chain = (run w R s evs).honestTip := by
  have h := C04_rank w R evs s hq hg
  have h0 : rank (run w R s evs) = 0 := by omega
  simp only [rank] at h0
  by_cases hc : (run w R s evs).chain = (run w R s evs).honestTip
  · exact hc
  · simp only [hc, ↓reduceIte] at h0; omega

/-! ## the sync-peer bookkeeping

The model changes the sync peer in exactly three places: `connect` selects one
when there is none (`handleNewPeerMsg` → `startSync`), `drop` of the sync peer
clears it and selects again (`handleDonePeerMsg` → `startSync`), and nothing
else touches it (the reorg arm of `handleHeadersMsg` hands it to the connected
sender of the adopted branch, which the model over-approximates by leaving it
alone).  The source is tied to that by the regenerated table of assignment
sites: a new function assigning `syncPeer`, or another assignment in one of the
three, breaks `C04_syncpeer_sites`. -/

/-- **Source facts** (regenerated from blockmanager.go on every run): the
functions that assign the `syncPeer` field, how often, and how many of the
assignments are `= nil`; both peer-event handlers run `startSync`. -/
theorem C04_syncpeer_sites :
    Neutrino.Gen.SyncPeer.assignSites =
      [("handleDonePeerMsg", 1, 1), ("handleHeadersMsg", 1, 0), ("startSync", 1, 0)] ∧
    Neutrino.Gen.SyncPeer.donePeerReselects = true ∧
    Neutrino.Gen.SyncPeer.newPeerSelects = true := by decide

/-- **The sync peer is always a connected peer or none**, for every event list
(any interleaving of connects, disconnects, stalls, honest replies, Byzantine
offers and honest-side growth) from a state satisfying the invariant. -/
theorem C04_syncPeer_connected (w : World) (R : AcceptRule w) (s : State) (evs : List Ev)
    (hi : Inv w s) : ∀ q, (run w R s evs).sync = some q → q ∈ (run w R s evs).peers :=
  (run_inv w R evs s hi).sync_mem

/-- **Selection is never left pending**: in every reachable state, if there is no
sync peer then no peer is connected - a fortiori no connected peer announcing
more work is waiting for a `startSync` that nobody will run.  (Each handler
step that can leave the client without a sync peer - the done event of the sync
peer - runs the selection itself: `C04_done_reselects`.) -/
theorem C04_progress_enabled (w : World) (R : AcceptRule w) (s : State) (evs : List Ev)
    (hi : Inv w s) : (run w R s evs).sync = none → (run w R s evs).peers = [] := by
  intro hn
  have h := (run_inv w R evs s hi).sync_some
  by_cases hp : (run w R s evs).peers = []
  · exact hp
  · exact absurd hn (h hp)

/-- the done event of the sync peer selects among the remaining peers in the same step -/
theorem C04_done_reselects (s : State) (p : Peer) (hs : s.sync = some p) :
    (drop s p).sync = pickSync (remove p s.peers) := by
  simp only [drop, hs, ↓reduceIte]

/-- an enabled selection picks a peer whenever one is connected -/
theorem C04_select_some (ps : List Peer) (h : ps ≠ []) : ∃ q, pickSync ps = some q ∧ q ∈ ps := by
  cases hq : pickSync ps with
  | none => exact absurd hq (pickSync_some h)
  | some q => exact ⟨q, rfl, pickSync_mem hq⟩

/-- The two bookkeeping mistakes the invariant excludes, as mutated handler steps.
(1) The sync peer is forgotten when it is caught lying; its later done event
finds "not the sync peer" and does not select: a connected candidate is left
without a sync peer. -/
def forgetThenDone (s : State) (p : Peer) : State :=
  let s1 : State := { s with sync := if s.sync = some p then none else s.sync }   -- forgetSyncPeer
  { s1 with peers := remove p s1.peers }                                          -- done event: not the sync peer, no startSync

/-- (2) The sender of a headers batch is adopted as sync peer when there is none -
also after its done event has been handled. -/
def adoptSender (s : State) (p : Peer) : State :=
  if s.sync = none then { s with sync := some p } else s

/-! ## the hypotheses are satisfiable, the statements are not vacuous -/

/-- A small world: chains of ids < 100 are valid, work = length. -/
def exWorld : World := { valid := fun c => c.all (· < 100), work := fun c => c.length }

def exHonest : Peer := ⟨1, .honest, 3⟩
def exSilent : Peer := ⟨2, .silent, 1000⟩
def exByz : Peer := ⟨3, .byz, 50⟩

/-- silent peer with a huge claim is the sync peer, a Byzantine and an honest peer are connected -/
def exState : State :=
  { chain := [1], peers := [exHonest, exSilent, exByz], sync := some exSilent, honestTip := [1, 2, 3] }

example : Inv exWorld exState where
  sync_mem := by intro q hq; simp only [exState, Option.some.injEq] at hq; rw [← hq]; decide
  sync_some := by intro _ h; cases h
  tip_valid := by decide

/-- the schedule of `C04_progress` on the example: two stalls (the silent peer, then the
Byzantine one that is selected next), then the honest reply; the client ends on the honest tip -/
example : sched exWorld (accStd exWorld) exState = [.stall exSilent, .stall exByz, .honestReply exHonest] := by
  decide
example : (run exWorld (accStd exWorld) exState (sched exWorld (accStd exWorld) exState)).chain = [1, 2, 3] := by
  decide

/-- a Byzantine offer of an invalid heavier chain and of a valid lighter one are both refused -/
example : (run exWorld (accStd exWorld)
    { exState with sync := some exByz } [.byzOffer exByz [1, 2, 3, 500], .byzOffer exByz []]).chain = [1] := by decide

/-- The oracle of the simulation refuses what the property forbids (sanity of the
decidable predicates the driver evaluates). -/
example : (Neutrino.Converge.Truth.init 10).safeBlockTip (.tip 7 "t7") = true := by decide
example : (Neutrino.Converge.Truth.init 10).safeBlockTip (.tip 7 "x") = false := by decide
example : (Neutrino.Converge.Truth.init 10).safeBlockTip (.tip 11 "t11") = false := by decide
example : ((Neutrino.Converge.Truth.init 10).reorg 2 3).safeFilterTip (.tip 11 "fa11") = true := by decide
example : ((Neutrino.Converge.Truth.init 10).reorg 2 3).honestId = "a11" := by decide

/-- the two mutated handler steps break the invariant on the example state -/
example : ¬ Inv exWorld (forgetThenDone exState exSilent) := by
  intro h
  exact h.sync_some (by decide) (by decide)

example : ¬ Inv exWorld (adoptSender (drop { exState with peers := [exSilent] } exSilent) exSilent) := by
  intro h
  have := h.sync_mem exSilent (by decide)
  revert this
  decide

end Neutrino.Net
