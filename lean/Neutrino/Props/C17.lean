/-
C17 — Stop always completes and releases every blocked caller (PARTIAL).

What is proved here is a statement about tables: the table of blocking sites and
the Stop order are regenerated from the source on every run (`Gen.StopSites`),
the discharge table (`Model/ShutdownDischarge.lean`) is hand-written and
reviewed.  Wall-clock bounds are observed by the `stop` driver, not proved.
-/
import Neutrino.Model.ShutdownDischarge
namespace Neutrino.Shutdown
open Neutrino.Gen.StopSites

/-- classification of a site on the extracted order/events with the reviewed discharge table -/
def siteOk (s : Site) : Bool := siteOkWith chainServiceStop stopEvents dischargeAll s

def isKnownBlocking (s : Site) : Bool := (keysOf s).any (fun k => knownBlocking.contains k)

/-- sites that are neither released nor recorded — printed when the theorem below would fail -/
def unclassified : List Site := sites.filter (fun s => !(siteOk s || isKnownBlocking s))

def wgAddOk (a : WgAdd) : Bool :=
  a.release == "go-defer" || a.release == "loop-go-defer" || wgReviewed.any (fun r => r.fn == a.fn && r.wg == a.wg)

/-- Diagnostics only (not part of any proof): when a table check below is about to fail, name the offending rows in
the build log, so that the broken obligation reported by bin/check says which site / step / entry it is. -/
def diagnostics : List String :=
  (unclassified.map (fun s => "C17 unclassified blocking site (no default, no quit alternative closed in time, no discharge entry): " ++ describe s)) ++
  (if chainServiceStop == reviewedOrder then [] else
    ["C17 ChainService.Stop order changed: extracted [" ++ ", ".intercalate (chainServiceStop.map nameOf) ++ "] reviewed [" ++ ", ".intercalate (reviewedOrder.map nameOf) ++ "]"]) ++
  ((orderDeps.filter (fun d => !before chainServiceStop d.1 d.2.1)).map (fun d =>
    "C17 order dependency violated: `" ++ nameOf d.1 ++ "` must come before `" ++ nameOf d.2.1 ++ "` (" ++ d.2.2 ++ ")")) ++
  ((dischargeAll.filter (fun d => !sites.any d.covers)).map (fun d =>
    "C17 stale discharge entry (matches no extracted site): " ++ nameOf d.fn ++ ":" ++ nameOf d.chan)) ++
  ((capDischarge.filter (fun d => !d.ok)).map (fun d =>
    "C17 capacity no longer covers the sends at blocking site " ++ nameOf d.fn ++ ":" ++ nameOf d.chan ++
    " — the reviewed reason relies on `" ++ nameOf d.makeChan ++ "` being created in " ++ nameOf d.makeFn ++ " with capacity " ++ d.cap ++
    " and on " ++ toString d.sendSites ++ " send statement(s); extracted: " ++
    (if d.makeRows.isEmpty then "no such make(chan) in that function" else
      ", ".intercalate (d.makeRows.map (fun m => "make(chan, " ++ m.cap ++ ") at " ++ m.file ++ ":" ++ toString m.line))) ++
    (", ".intercalate ((d.sameFieldRows.filter (fun m => m.cap != d.cap && m.fn != d.makeFn)).map (fun m =>
      "; also created in " ++ nameOf m.fn ++ " with capacity " ++ m.cap ++ " (" ++ m.file ++ ":" ++ toString m.line ++ ")"))) ++
    ", " ++ toString (sendCount d.fn d.chan) ++ " send statement(s)")) ++
  ((sites.filter (fun s => onWorker s.fn && !ruleA s && !ruleC dischargeAll s &&
      s.alts.any (fun a => !a.send && (compOfQuit (resolveChan s.fn a.chan)).isSome) && !ruleB chainServiceStop stopEvents s)).map (fun s =>
    "C17 " ++ describe s ++ " runs on a work-manager worker goroutine (per-response callback): its quit alternative is closed only after workManager.Stop has waited for the workers")) ++
  ((wgAdds.filter (fun a => !wgAddOk a)).map (fun a =>
    "C17 unbalanced WaitGroup: " ++ nameOf a.wg ++ ".Add(" ++ a.count ++ ") in " ++ nameOf a.fn ++ " (" ++ a.file ++ ":" ++ toString a.line ++
    ") is released by `" ++ a.release ++ "`, not by a goroutine's deferred Done, and has no reviewed entry")) ++
  ((wgDones.filter (fun d => !wgDoneReviewed.any (fun r => r.1 == d.fn && r.2.1 == d.wg))).map (fun d =>
    "C17 unreviewed explicit " ++ nameOf d.wg ++ ".Done() in " ++ nameOf d.fn ++ " (" ++ d.file ++ ":" ++ toString d.line ++ ")")) ++
  ((comps.filter (fun c => !closeBeforeWait stopEvents c)).map (fun c =>
    "C17 " ++ nameOf c.stopFn ++ " no longer closes " ++ nameOf c.quit ++ " before it waits"))

#eval show IO Unit from do
  unless diagnostics.isEmpty do
    throw <| IO.userError ("\n".intercalate diagnostics)

/-- **Every blocking site is released by Stop**: every send/receive/range/select/Wait of the shutdown-relevant files
has a `default`, or a quit alternative closed in time, or a reviewed discharge reason.  (Full statement; it was false
while `knownBlocking` carried the MarkAsConfirmed and Stop-order findings, both repaired since.) -/
theorem C17_sites : ∀ s ∈ sites, siteOk s = true := by
  have h : sites.all siteOk = true := by decide +kernel
  exact fun s hs => List.all_eq_true.mp h s hs

/-- the form that carries recorded findings: every site is released, or is one of `knownBlocking` (empty today) -/
theorem C17_sites_partial : ∀ s ∈ sites, siteOk s = true ∨ isKnownBlocking s = true :=
  fun s hs => Or.inl (C17_sites s hs)

/-- every `knownBlocking` key names an extracted site that no rule releases (no recorded finding is stale) -/
theorem C17_sites_counterexample :
    knownBlocking.all (fun k => sites.any (fun s => (keysOf s).contains k && !siteOk s)) = true := by
  decide +kernel

/-- the sites of the two rules that need no review: `default`, or a Stop-closed quit alternative -/
theorem C17_rule_counts :
    (sites.filter ruleA).length + (sites.filter (fun s => !ruleA s && ruleB chainServiceStop stopEvents s)).length
      + (sites.filter (fun s => !ruleA s && !ruleB chainServiceStop stopEvents s && ruleC dischargeAll s)).length
      + (sites.filter (fun s => !siteOk s)).length = sites.length := by
  decide +kernel

/-- **Stop order**: `ChainService.Stop` performs exactly the reviewed steps in the reviewed order, and
every order fact a discharge reason relies on holds in the extracted order. -/
theorem C17_stop_order :
    chainServiceStop = reviewedOrder ∧
    orderDeps.all (fun d => before chainServiceStop d.1 d.2.1) = true := by
  constructor <;> decide +kernel

/-- every component's Stop method closes its quit channel, and does so before it waits -/
theorem C17_close_before_wait : comps.all (closeBeforeWait stopEvents) = true := by decide +kernel

/-- every component's stop and wait steps occur in `ChainService.Stop` -/
theorem C17_comps_in_order :
    comps.all (fun c => (indexOf? c.stopStep chainServiceStop).isSome && (indexOf? c.waitStep chainServiceStop).isSome) = true := by
  decide +kernel

/-- the Stop methods wake the condition variables their goroutines wait on -/
theorem C17_cond_wakers :
    stopEvents.any (· == (⟨N.«blockManager.Stop», "call", N.«blockManager.newHeadersSignal.Broadcast»⟩ : StopEv)) = true ∧
    stopEvents.any (· == (⟨N.«blockManager.Stop», "call", N.«blockManager.newFilterHeadersSignal.Broadcast»⟩ : StopEv)) = true ∧
    stopEvents.any (· == (⟨N.«UtxoScanner.Stop», "call", N.«UtxoScanner.cv.Signal»⟩ : StopEv)) = true := by
  refine ⟨?_, ?_, ?_⟩ <;> decide +kernel

/-- no stale entries: every discharge entry, every alias and every call-graph entry matches an extracted site -/
theorem C17_discharge_used :
    dischargeAll.all (fun d => sites.any d.covers) = true ∧
    aliases.all (fun a => sites.any (fun s => s.fn == a.1 && s.alts.any (·.chan == a.2.1))) = true ∧
    calledFrom.all (fun e => sites.any (fun s => s.fn == e.1)) = true := by
  refine ⟨?_, ?_, ?_⟩ <;> decide +kernel

/-- **Capacity reasons are checked, not only reviewed**: for every discharge entry of the kind "the channel's capacity
covers every send", the channel's creation in the named function exists in the regenerated `make(chan …)` table with
exactly the capacity the reason relies on, so does every other creation of a channel stored in the same struct
field, and the site's function contains exactly the number of send statements on it that were reviewed.  A capacity
that is capped, a second creation site or an added send breaks this theorem, and the diagnostics name the site. -/
theorem C17_capacity_checked : capDischarge.all (·.ok) = true := by decide +kernel

/-- **Callbacks are judged against the work manager's Wait**: the extractor finds the per-response callbacks handed
to the work manager, and every blocking site in one of them (or in a function one of them calls directly) is
classified with `workManager` among the components that may be waiting for it — whatever struct it is a method of. -/
theorem C17_callbacks_on_workers :
    workerCallbacks.isEmpty = false ∧
    sites.all (fun s => !onWorker s.fn || (waitedBy s.fn s.recv).contains "workManager") = true ∧
    (sites.any (fun s => workerCallbacks.contains s.fn)) = true := by
  refine ⟨?_, ?_, ?_⟩ <;> decide +kernel

/-- **WaitGroup balance**: every `wg.Add` of the shutdown-relevant files launches goroutine(s) that hand the slot back
with a top-level `defer wg.Done()`, or is a reviewed entry (a slot released by a timer callback, by an explicit `Done`
on some path, or not at all, needs one saying which path returns it on each outcome); every explicit `Done` is
reviewed; a group declared "never waited for" has no Wait site; no entry is stale.  A `Stop` that waits on a group
with an unreturned slot never returns. -/
theorem C17_waitgroup_balanced :
    wgAdds.all wgAddOk = true ∧
    wgDones.all (fun d => wgDoneReviewed.any (fun r => r.1 == d.fn && r.2.1 == d.wg)) = true ∧
    wgReviewed.all (fun r => wgAdds.any (fun a => a.fn == r.fn && a.wg == r.wg && a.release != "go-defer" && a.release != "loop-go-defer") &&
      (!r.unwaited || !sites.any (fun s => s.kind == "wait" && s.alts.any (·.chan == r.wg)))) = true ∧
    wgDoneReviewed.all (fun r => wgDones.any (fun d => d.fn == r.1 && d.wg == r.2.1)) = true := by
  refine ⟨?_, ?_, ?_, ?_⟩ <;> decide +kernel

/-- the quit channels the table recognises are exactly channels some Stop method closes -/
theorem C17_quits_are_closed : comps.all (fun c => stopClosed.contains c.quit) = true := by decide +kernel

/- the hypotheses are not vacuous: a concrete released site of each rule, and one that is not -/
example : ∃ s ∈ sites, ruleA s = true := by decide +kernel
example : ∃ s ∈ sites, ruleA s = false ∧ ruleB chainServiceStop stopEvents s = true := by decide +kernel

end Neutrino.Shutdown
