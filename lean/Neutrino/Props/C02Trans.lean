/-
C02 - the floor of a reorganisation in terms of the function the CODE defines:
`findPreviousHeaderCheckpoint` is translated from blockmanager.go on every run (Gen/TransBM.lean).
-/
import Neutrino.Props.C02
import Neutrino.Lemmas.TransBlockMgr
namespace Neutrino.BM
open Neutrino.Gen.TransBM

/-- **`(*blockManager).findPreviousHeaderCheckpoint`** yields the height of the model's
`findPrevCp`, whatever the genesis hash -/
theorem C02_trans_findPreviousHeaderCheckpoint (h : Int) (h0 : 0 ≤ h) (cps : List T_chaincfg_Checkpoint) (ok : CpsOkT cps)
    (g : GoInt.Atom) :
    ((findPreviousHeaderCheckpoint h cps g).map (fun c => c.Height.toNat))
      = some (findPrevCp (cps.map absCp) h.toNat).height :=
  trans_findPrev_height h h0 cps ok g

/-- `C02_replace_guard` with the floor computed by the code's own function: a reorganisation is
only ever decided onto a fork point at or above the checkpoint `findPreviousHeaderCheckpoint`
returns for `prevNode.Height + 1`. -/
theorem C02_trans_replace_guard (c : Cfg) (cps : List T_chaincfg_Checkpoint) (okT : CpsOkT cps) (hc : c.cps = cps.map absCp)
    (g : GoInt.Atom) (s : State) (p : Nat) (prev : Node) (h : Nat) (rest : List Nat) (bh : Nat)
    (hd : reorgDecision c s p prev h rest = .adopt bh) :
    ∃ cp, findPreviousHeaderCheckpoint (((prev.height + 1 : Nat)) : Int) cps g = some cp ∧ cp.Height.toNat ≤ bh := by
  have hg := (C02_replace_guard c s p prev h rest bh hd).2.2.1
  have ht := C02_trans_findPreviousHeaderCheckpoint ((prev.height + 1 : Nat) : Int) (Int.natCast_nonneg _) cps okT g
  rw [hc] at hg
  cases hr : findPreviousHeaderCheckpoint ((prev.height + 1 : Nat) : Int) cps g with
  | none => rw [hr] at ht; simp at ht
  | some cp =>
    rw [hr] at ht
    simp only [Option.map_some, Option.some.injEq, Int.toNat_natCast] at ht
    exact ⟨cp, rfl, by omega⟩

example : CpsOkT [⟨1, 1⟩, ⟨5, 7⟩] := ⟨by decide, by decide⟩
example : findPreviousHeaderCheckpoint 6 [⟨1, 1⟩, ⟨5, 7⟩] 42 = some ⟨5, 7⟩ := by decide
example : findPreviousHeaderCheckpoint 5 [⟨1, 1⟩, ⟨5, 7⟩] 42 = some ⟨1, 1⟩ := by decide

end Neutrino.BM
