/-
C02 - the floor of a reorganisation in terms of the function the CODE defines:
`findPreviousHeaderCheckpoint` is translated from blockmanager.go on every run (Gen/TransBM.lean).
-/
import Neutrino.Props.C02
import Neutrino.Lemmas.TransBlockMgr
namespace Neutrino.BM
open Neutrino.Gen.TransBM

/-- **`(*blockManager).findPreviousHeaderCheckpoint`** yields the height of the model's
`findPrevCp`, whatever the genesis hash -/
theorem C02_trans_findPreviousHeaderCheckpoint (h : Int) (h0 : 0 ≤ h) (cps : List T_chaincfg_Checkpoint) (ok : CpsOkT cps)
    (g : GoInt.Atom) :
    ((findPreviousHeaderCheckpoint h cps g).map (fun c => c.Height.toNat))
      = some (findPrevCp (cps.map absCp) h.toNat).height :=
  trans_findPrev_height h h0 cps ok g

/-- `C02_replace_guard` with the floor computed by the code's own function: a reorganisation is
only ever decided onto a fork point at or above the checkpoint `findPreviousHeaderCheckpoint`
returns for `prevNode.Height + 1`. -/
theorem C02_trans_replace_guard (c : Cfg) (cps : List T_chaincfg_Checkpoint) (okT : CpsOkT cps) (hc : c.cps = cps.map absCp)
    (g : GoInt.Atom) (s : State) (p : Nat) (prev : Node) (h : Nat) (rest : List Nat) (bh : Nat)
    (hd : reorgDecision c s p prev h rest = .adopt bh) :
    ∃ cp, findPreviousHeaderCheckpoint (((prev.height + 1 : Nat)) : Int) cps g = some cp ∧ cp.Height.toNat ≤ bh := by
  have hg := (C02_replace_guard c s p prev h rest bh hd).2.2.1
  have ht := C02_trans_findPreviousHeaderCheckpoint ((prev.height + 1 : Nat) : Int) (Int.natCast_nonneg _) cps okT g
  rw [hc] at hg
  cases hr : findPreviousHeaderCheckpoint ((prev.height + 1 : Nat) : Int) cps g with
  | none => rw [hr] at ht; simp at ht
  | some cp =>
    rw [hr] at ht
    simp only [Option.map_some, Option.some.injEq, Int.toNat_natCast] at ht
    exact ⟨cp, rfl, by omega⟩

/-- **`(*blockManager).BlockHeadersSynced` is the model's `synced`** (the "node is current" guard of
`C02_replace_guard`): for the stored tip, the checkpoint list and the sync peer of a model state,
with the freshness verdict read off the tip's timestamp and a sync peer whose last block is not below
the starting height it advertised (unconnected btcd peers advertise none). -/
theorem C02_trans_BlockHeadersSynced (c : Cfg) (s : State) (cps : List T_chaincfg_Checkpoint)
    (hc : c.cps = cps.map absCp) (hnn : ∀ x ∈ cps, 0 ≤ x.Height)
    (add : GoInt.Atom → Int → GoInt.Atom) (before : GoInt.Atom → GoInt.Atom → Bool) (now : GoInt.Atom)
    (hdr : T_wire_BlockHeader) (last start : Int)
    (hfresh : c.tbl.fresh (tipId s.log) = !(before hdr.Timestamp (add now (-86400000000000))))
    (hlast : ∀ p, s.sync = some p → last = ((lastBlockOf s.peers p : Nat) : Int))
    (hstart : start ≤ last) :
    BlockHeadersSynced cps s.sync.isNone add before (some hdr, tipHeight s.log, false) now last start = synced c s := by
  rw [trans_blockHeadersSynced]
  unfold synced
  simp only [Bool.not_false, Bool.true_and, GoInt.deref_some, hfresh, hc, List.getLast?_map]
  have ecp : ∀ l ∈ cps, decide (l.Height < ((tipHeight s.log : Nat) : Int)) = decide ((absCp l).height < tipHeight s.log) := by
    intro l hl
    have := hnn l hl
    congr 1; apply propext; simp only [absCp]; omega
  cases hs : s.sync with
  | none =>
    cases hl : cps.getLast? with
    | none => simp
    | some l => simp [ecp l (List.mem_of_getLast? hl)]
  | some p =>
    have := hlast p hs
    have e : decide (((tipHeight s.log : Nat) : Int) < last) = decide (tipHeight s.log < lastBlockOf s.peers p) := by
      congr 1; apply propext; omega
    cases hl : cps.getLast? with
    | none => simp [hstart, e]
    | some l => simp [hstart, e, ecp l (List.mem_of_getLast? hl)]

example : CpsOkT [⟨1, 1⟩, ⟨5, 7⟩] := ⟨by decide, by decide⟩
example : findPreviousHeaderCheckpoint 6 [⟨1, 1⟩, ⟨5, 7⟩] 42 = some ⟨5, 7⟩ := by decide
example : findPreviousHeaderCheckpoint 5 [⟨1, 1⟩, ⟨5, 7⟩] 42 = some ⟨1, 1⟩ := by decide

end Neutrino.BM
