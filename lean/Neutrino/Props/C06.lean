/-
C06 — a block is returned only if it is the requested, internally valid block.
Property theorems only; lemmas live in Neutrino/Lemmas/GetBlock.lean.

All theorems quantify over every stream of responses (`c.resps : List Resp`,
any peers, any order, any duplication), over a dispatcher that may or may not
stop after the first `Finished` (`c.cont`), over every dispatcher verdict, and
over every earlier history of calls (`past`) on a cache of any capacity.
-/
import Neutrino.Lemmas.GetBlock
import Neutrino.Gen.Query
namespace Neutrino.GetBlock
open Neutrino

/-- **Soundness.**  Whatever `GetBlock` returns — fresh from the network or from
the block cache, after any history of earlier calls — is a block that some peer
sent in answer to a request for this very hash (and encoding), that has the
requested header hash, passes the sanity check (hence reproduces the header's
merkle root) and has a valid witness commitment. -/
theorem C06_sound (cap : Nat) (past : List Call) (c : Call) (rid : Nat)
    (hwf : ∀ c' ∈ past ++ [c], ∀ r ∈ c'.resps, r.sane = true → r.merkle = true)
    (h : (getBlock (run (init cap) past) c).result = .ret rid) :
    ∃ c' ∈ past ++ [c], ∃ r ∈ c'.resps, c'.target = c.target ∧ c'.base = c.base ∧ r.rid = rid ∧
      r.isBlock = true ∧ r.hdr = c.target ∧ r.sane = true ∧ r.merkle = true ∧ r.wit = true := by
  obtain ⟨c', hc', r, hr, hk, hrid, hd⟩ := getBlock_ret_prov past _ c (run_cacheOk cap past) rid h
  obtain ⟨ht, hb⟩ := keyOf_inj hk
  obtain ⟨h1, h2, h3, h4⟩ := (decision_accept_iff _ _).mp hd
  exact ⟨c', hc', r, hr, ht, hb, hrid, h1, ht ▸ h2, h3, hwf c' hc' r hr h3, h4⟩

example : (getBlock (init 1000) (Call.mk 7 true false [⟨1, true, 5, 7, true, true, false, 300, 0⟩, ⟨2, true, 6, 7, true, true, true, 300, 0⟩] false .nil)).result = .ret 6 := by
  decide

/-- **Ban ⇔ bad block for the requested header.**  After a call that goes to
the network, a peer is in the ban store iff it was there before or one of the
responses the handler saw came from it, carried the requested header hash and
failed the sanity check or the witness-commitment check. -/
theorem C06_ban_iff (s : State) (c : Call) (hk : c.known = true)
    (hmiss : ∀ e ∈ s.cache.items, e.key ≠ keyOf c.target c.base) (p : Nat) :
    p ∈ (getBlock s c).st.bans ↔
      (p ∈ s.bans ∨ ∃ r ∈ seen c.cont c.target c.resps, r.peer = p ∧ r.isBlock = true ∧ r.hdr = c.target ∧
        (r.sane = false ∨ r.wit = false)) := by
  rw [getBlock_miss s c hk (spec_get_miss_of_nokey hmiss), afterQuery_bans, feed_bans]
  constructor
  · rintro (h | ⟨r, hr, hd, hp⟩)
    · exact Or.inl h
    · obtain ⟨h1, h2, h3⟩ := (decision_ban_iff _ _).mp hd
      exact Or.inr ⟨r, hr, hp, h1, h2, h3⟩
  · rintro (h | ⟨r, hr, hp, h1, h2, h3⟩)
    · exact Or.inl h
    · exact Or.inr ⟨r, hr, (decision_ban_iff _ _).mpr ⟨h1, h2, h3⟩, hp⟩

/-- a call answered from the cache or refused for an unknown header bans nobody -/
theorem C06_ban_only_by_handler (s : State) (c : Call) (h : (getBlock s c).queries = 0) :
    (getBlock s c).st.bans = s.bans := by
  rcases getBlock_cases s c with ⟨_, he⟩ | ⟨_, v, _, he⟩ | ⟨_, _, he⟩
  · rw [he]
  · rw [he]
  · rw [he] at h
    unfold afterQuery at h
    cases hv : c.verdict <;> simp only [hv] at h
    · cases hf : (feed c.cont c.target { found := none, bans := s.bans } c.resps).1.found <;> simp [hf] at h
    · simp at h
    · simp at h

example : (getBlock (init 1000) (Call.mk 7 true false [⟨1, true, 5, 7, true, true, false, 300, 0⟩, ⟨3, true, 9, 8, false, false, false, 300, 0⟩,
              ⟨2, true, 6, 7, true, true, true, 300, 0⟩] false .nil)).st.bans = [1] := by
  decide

/-- **Everything else is ignored.**  A response that is not a block, or is a
block with another header hash, changes nothing (no ban, nothing found, no
progress); and deleting all such responses from a stream does not change what
the handler leaves behind. -/
theorem C06_ignore_others (t : Nat) (h : HState) (r : Resp) (hr : r.isBlock = false ∨ r.hdr ≠ t) :
    handle t h r = (h, .none) ∧
    ∀ (cont : Bool) (rs : List Resp),
      (feed cont t h rs).1 = (feed cont t h (rs.filter (fun r => decide (decision t r ≠ .ignore)))).1 := by
  refine ⟨?_, fun cont rs => feed_ignores cont t rs h⟩
  unfold handle
  rw [(decision_ignore_iff t r).mpr hr]

/-- **Retried with other peers.**  The dispatcher keeps handing responses to the
handler until the handler says `Finished` (`cont = false`: it stops there).  If
the header is known, nothing is cached under the key, the dispatcher reports
success, and the stream contains a valid requested block at all, then the call
returns the FIRST such block — however many responses before it were ignored or
got their senders banned: a bad answer never ends the request.  (The senders of
the bad answers before it are banned all the same, `C06_ban_iff`.) -/
theorem C06_retry_after_ban (s : State) (c : Call) (r : Resp) (hk : c.known = true)
    (hmiss : ∀ e ∈ s.cache.items, e.key ≠ keyOf c.target c.base)
    (hv : c.verdict = .nil) (hc : c.cont = false)
    (hr : c.resps.find? (fun x => decide (x.isBlock = true ∧ x.hdr = c.target ∧ x.sane = true ∧ x.wit = true)) = some r) :
    (getBlock s c).result = .ret r.rid := by
  have hr' : c.resps.find? (fun x => decide (decision c.target x = .accept)) = some r := by
    rw [← hr]; congr 1; funext x; simp only [decision_accept_iff]
  rw [getBlock_miss s c hk (spec_get_miss_of_nokey hmiss)]
  unfold afterQuery
  simp only [hv, hc, feed_first_accept c.target c.resps r _ hr']

/-- three peers: the first sends the requested header with a forged witness
commitment (banned), the second another block (ignored), the third the valid
block: it is returned, and peer 1 is banned. -/
example : (getBlock (init 1000) (Call.mk 7 true false [⟨1, true, 5, 7, true, true, false, 300, 0⟩,
      ⟨2, true, 9, 8, true, true, true, 300, 0⟩, ⟨3, true, 6, 7, true, true, true, 300, 0⟩] false .nil)).result = .ret 6 ∧
    (getBlock (init 1000) (Call.mk 7 true false [⟨1, true, 5, 7, true, true, false, 300, 0⟩,
      ⟨2, true, 9, 8, true, true, true, 300, 0⟩, ⟨3, true, 6, 7, true, true, true, 300, 0⟩] false .nil)).st.bans = [1] := by
  decide

/-- **Identity is the header hash.**  A response whose header hash is not the
requested one is ignored whatever else it shares with the requested header — in
particular a re-mined sibling (`sib = t`: same parent, same merkle root, hence
the same transactions, sane, valid witness commitment, valid proof of work for
its own bits): nothing is found, nobody is banned, no progress is reported.  And
what the handler decides never depends on `sib` at all. -/
theorem C06_sibling_ignored (t : Nat) (h : HState) (r : Resp) (hr : r.hdr ≠ t) :
    decision t r = .ignore ∧ handle t h r = (h, .none) ∧
    ∀ (r' : Resp) (x : Nat), decision t { r' with sib := x } = decision t r' := by
  have hd : decision t r = .ignore := (decision_ignore_iff t r).mpr (Or.inr hr)
  refine ⟨hd, ?_, fun r' x => rfl⟩
  unfold handle
  rw [hd]

/-- peers 1 and 2 answer a request for block 7 with re-mined siblings (header ids
140, 141; same parent and merkle root as 7; perfectly valid blocks): the call
fails, nobody is banned, nothing is cached.  With the genuine block after them
it is the genuine block that is returned. -/
example :
    (getBlock (init 1000) (Call.mk 7 true false [⟨1, true, 5, 140, true, true, true, 300, 7⟩,
      ⟨2, true, 6, 141, true, true, true, 300, 7⟩] false .nil)).result = .errNotFound ∧
    (getBlock (init 1000) (Call.mk 7 true false [⟨1, true, 5, 140, true, true, true, 300, 7⟩,
      ⟨2, true, 6, 141, true, true, true, 300, 7⟩] false .nil)).st.bans = [] ∧
    (getBlock (init 1000) (Call.mk 7 true false [⟨1, true, 5, 140, true, true, true, 300, 7⟩,
      ⟨2, true, 6, 141, true, true, true, 300, 7⟩] false .nil)).st.cache.items = [] ∧
    (getBlock (init 1000) (Call.mk 7 true false [⟨1, true, 5, 140, true, true, true, 300, 7⟩,
      ⟨3, true, 8, 7, true, true, true, 300, 7⟩] false .nil)).result = .ret 8 := by
  decide

/-- **Fail closed.**  If the cache has nothing under the key and no response of
the stream is the requested valid block, or the dispatcher does not report
success, the call reports failure — whatever else the peers sent — and the cache
is exactly what it was. -/
theorem C06_fail_closed (s : State) (c : Call)
    (hmiss : ∀ e ∈ s.cache.items, e.key ≠ keyOf c.target c.base)
    (hno : (∀ r ∈ c.resps, ¬ (r.isBlock = true ∧ r.hdr = c.target ∧ r.sane = true ∧ r.wit = true)) ∨
           c.verdict ≠ .nil ∨ c.known = false) :
    (getBlock s c).result.isRet = false ∧ (getBlock s c).st.cache = s.cache := by
  cases hk : c.known with
  | false => rw [getBlock_unknown s c hk]; exact ⟨rfl, rfl⟩
  | true =>
    rw [getBlock_miss s c hk (spec_get_miss_of_nokey hmiss)]
    have hres : (afterQuery s c).result.isRet = false := by
      cases hr : (afterQuery s c).result with
      | ret rid =>
        obtain ⟨hv, r, hrs, hd, _, _⟩ := afterQuery_found s c rid hr
        rcases hno with hno | hno | hno
        · exact absurd ((decision_accept_iff _ _).mp hd) (hno r (seen_sub _ _ _ r hrs))
        · exact absurd hv hno
        · rw [hk] at hno; cases hno
      | _ => rfl
    exact ⟨hres, afterQuery_err_cache s c hres⟩

/-- **The cache is filled only after success**: a failed call leaves the set of
cached entries as it was, and a successful one adds at most the returned block
under the requested key. -/
theorem C06_cache_after_success (s : State) (c : Call) :
    ((getBlock s c).result.isRet = false → ∀ e, e ∈ (getBlock s c).st.cache.items → e ∈ s.cache.items) ∧
    (∀ rid, (getBlock s c).result = .ret rid → ∀ e, e ∈ (getBlock s c).st.cache.items →
        e ∈ s.cache.items ∨ (e.key = keyOf c.target c.base ∧ e.vid = rid)) := by
  rcases getBlock_cases s c with ⟨_, he⟩ | ⟨_, v, hv, he⟩ | ⟨_, hm, he⟩
  · rw [he]; exact ⟨fun _ e h => h, fun _ _ e h => Or.inl h⟩
  · rw [he]
    exact ⟨fun h => by simp [Result.isRet] at h, fun _ _ e h => Or.inl (spec_get_items e h)⟩
  · rw [he]
    constructor
    · intro h e hmem
      rw [afterQuery_err_cache s c h] at hmem
      exact hmem
    · intro rid hr e hmem
      obtain ⟨_, r, _, _, hrid, hcache⟩ := afterQuery_found s c rid hr
      rw [hcache] at hmem
      rcases spec_put_items e hmem with h1 | h1
      · exact Or.inl h1
      · subst h1; exact Or.inr ⟨rfl, hrid⟩

example : (getBlock (init 1000) (Call.mk 7 true false [⟨2, true, 6, 7, true, true, true, 300, 0⟩] true .err)).st.cache.items = [] := by
  decide

/-- the handler's answers line up with the responses it saw: `Finished` exactly
for the requested valid block -/
theorem C06_progress (t : Nat) (h : HState) (r : Resp) :
    (handle t h r).2 = .finished ↔ (r.isBlock = true ∧ r.hdr = t ∧ r.sane = true ∧ r.wit = true) := by
  rw [handle_progress, decision_accept_iff]

/-- **What the proofs rely on in query.go** (regenerated from the working tree on
every run): the handler tests message type, header hash, `CheckBlockSanity`,
`ValidateWitnessCommitment` in this order (the order of `decision`), the hash
mismatch branch only returns `noProgress`, both failure branches call
`BanPeer(peer, InvalidBlock)` and return `noProgress` without touching
`foundBlock`, `foundBlock` is assigned only after all of them, and the cache is
written only after the `foundBlock == nil` test. -/
theorem C06_source_facts :
    Gen.Query.getBlockSteps = ["reqtype", "type", "hash", "sanity", "witness", "found", "finish"] ∧
    Gen.Query.getBlock_typeGuardNoProgress = true ∧
    Gen.Query.getBlock_hashBans = false ∧ Gen.Query.getBlock_hashNoProgress = true ∧
    Gen.Query.getBlock_hashSetsFound = false ∧
    Gen.Query.getBlock_sanityBans = true ∧ Gen.Query.getBlock_sanityNoProgress = true ∧
    Gen.Query.getBlock_sanitySetsFound = false ∧
    Gen.Query.getBlock_witnessBans = true ∧ Gen.Query.getBlock_witnessNoProgress = true ∧
    Gen.Query.getBlock_witnessSetsFound = false ∧
    Gen.Query.getBlockCachePutAfterFoundCheck = true := by decide

end Neutrino.GetBlock
