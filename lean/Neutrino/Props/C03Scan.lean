/-
Property C03, the region "the mismatch-resolution loop scans EVERY position of
the cfheaders responses": which peers end up banned and which batch is committed
for every family of responses in which the liars sit at any number of different
positions of one batch.
-/
import Neutrino.Props.C03
namespace Neutrino.CFHeaders

/-- Every responding peer serves, at every position, a filter that hashes to what
it advertised (nobody is silent or self-inconsistent: each false value can only
be exposed by the block).  Then — for every number of liars, lying at ANY
positions of the batch (the same one, neighbouring ones, the first and the last),
every hash function, every state satisfying the invariant, every order of the
peer map and every pick — the batch committed is the honest one, EVERY liar is
banned (not only those lying at the first position where the responses differ)
and no honest peer is.  The recorded shape `detectBadPeers-early-return` cannot
occur in such a round, so no hypothesis about it is needed. -/
theorem C03_honest_wins_all_self_consistent (H : FHash → Hdr → Hdr) (s : St) (net : Net) (truth : Nat → FHash)
    (hi : Inv H s) (hnd : s.blocks.Nodup)
    (hsc : ∀ i p, (roundOf s net truth).responding p = true → (roundOf s net truth).phase1Bad p i = false) :
    HonestWinsAt H s net truth := by
  apply C03_honest_wins_partial H s net truth hi hnd
  unfold Round.shapeEarlyReturn
  rw [List.any_eq_false]
  intro i _
  have h1 : ((roundOf s net truth).peers.any
      fun p => (roundOf s net truth).responding p && (roundOf s net truth).phase1Bad p i) = false := by
    rw [List.any_eq_false]
    intro p _
    cases hr : (roundOf s net truth).responding p with
    | false => simp
    | true => simp [hsc i p hr]
  rw [h1]
  simp

namespace ExScan
/-- three blocks to fetch; true filter hashes 7, 8, 9 -/
def s : St := { blocks := [0, 1, 2, 3], fstore := [1], fblk := [0] }
def truth : Nat → FHash := fun h => 6 + h
/-- peer 1 honest; peer 2 lies at the LAST position only, peer 3 at the FIRST
position only, peer 4 in the middle only; every false filter is served and
hashes to what was advertised, and is rejected by the block -/
def net (pick : Nat) : Net :=
  { peers := [2, 1, 4, 3]
    resps := fun p =>
      if p = 2 then [⟨true, 1, [7, 8, 19]⟩] else if p = 3 then [⟨true, 1, [17, 8, 9]⟩]
      else if p = 4 then [⟨true, 1, [7, 18, 9]⟩] else [⟨true, 1, [7, 8, 9]⟩]
    served := fun p h =>
      if p = 2 ∧ h = 3 then some 19 else if p = 3 ∧ h = 1 then some 17
      else if p = 4 ∧ h = 2 then some 18 else some (6 + h)
    verify := fun f _ => if f ≥ 17 then .bad else .ok 0
    getBlock := fun _ => true
    pick := pick }
end ExScan

/-- the hypotheses of `C03_honest_wins_all_self_consistent` are satisfiable with
liars at the first, a middle and the last position, and the model computes what
the theorem says: all three liars banned (in the order of the positions at which
they are exposed), the honest batch committed, whatever the pick -/
example :
    (roundOf ExScan.s (ExScan.net 0) ExScan.truth).hyp = true ∧
    (∀ i ∈ List.range 3, ∀ p ∈ [1, 2, 3, 4],
      (roundOf ExScan.s (ExScan.net 0) ExScan.truth).phase1Bad p i = false) ∧
    ExScan.s.blocks.Nodup ∧
    (tipRound Cex.H ExScan.s (ExScan.net 0)).1.fstore = [1, 107, 10708, 1070809] ∧
    (tipRound Cex.H ExScan.s (ExScan.net 0)).1.bans = [(3, 3), (4, 3), (2, 3)] ∧
    (tipRound Cex.H ExScan.s (ExScan.net 2)).1.fstore = [1, 107, 10708, 1070809] := by decide

end Neutrino.CFHeaders
