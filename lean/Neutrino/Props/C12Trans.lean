/-
C12 - the peer ranking as the CODE defines it (`AddPeer`, `Punish`, `Reward`, `ResetRanking` of
query/peer_rank.go, translated on every run into Gen/TransRank.lean with the map field threaded
through) is the ranking of the dispatcher model, which `C12_rank`, `C12_rank_scores` and
`C12_score_moves` are about.
-/
import Neutrino.Props.C12
import Neutrino.Lemmas.TransRank
import Neutrino.Lemmas.TransQueue
namespace Neutrino.Disp
open Neutrino.Gen.TransRank Neutrino.Gen.TransQueue Neutrino.GoInt

/-- **The four ranking methods are the model's**, for every injective naming `enc` of peer
addresses and every ranking map (for `Punish`: scores below 2^64 - 1, the code adds on `uint64`). -/
theorem C12_trans_peerRanking (enc : String → Nat) (henc : ∀ a b, enc a = enc b → a = b)
    (r : List (String × Nat)) (k : String) :
    absRank enc (peerRanking_AddPeer k r) = addPeer (absRank enc r) (enc k) ∧
    ((∀ e ∈ r, e.2 + 1 < 2 ^ 64) → absRank enc (peerRanking_Punish k r) = punish (absRank enc r) (enc k)) ∧
    absRank enc (peerRanking_Reward k r) = reward (absRank enc r) (enc k) ∧
    absRank enc (peerRanking_ResetRanking k r) = resetRank (absRank enc r) (enc k) :=
  ⟨trans_addPeer enc henc r k, trans_punish enc henc r k, trans_reward enc henc r k, trans_resetRank enc henc r k⟩

/-- `C12_score_moves` for the code's own methods: a reward lowers, a punishment raises the score of
the peer by one within [bestScore, worstScore], a reset restores the default, nobody else moves. -/
theorem C12_trans_score_moves (enc : String → Nat) (henc : ∀ a b, enc a = enc b → a = b)
    (r : List (String × Nat)) (k : String) (sc : Nat) (hr : ∀ e ∈ r, e.2 + 1 < 2 ^ 64)
    (h : (absRank enc r).lookup (enc k) = some sc) :
    scoreOf (absRank enc (peerRanking_Reward k r)) (enc k) = (if sc = Gen.Dispatcher.bestScore then sc else sc - 1) ∧
    scoreOf (absRank enc (peerRanking_Punish k r)) (enc k) = (if sc = Gen.Dispatcher.worstScore then sc else sc + 1) ∧
    scoreOf (absRank enc (peerRanking_ResetRanking k r)) (enc k) = Gen.Dispatcher.defaultScore ∧
    ∀ q, q ≠ enc k → scoreOf (absRank enc (peerRanking_Reward k r)) q = scoreOf (absRank enc r) q ∧
      scoreOf (absRank enc (peerRanking_Punish k r)) q = scoreOf (absRank enc r) q ∧
      scoreOf (absRank enc (peerRanking_ResetRanking k r)) q = scoreOf (absRank enc r) q := by
  rw [trans_reward enc henc, trans_punish enc henc r k hr, trans_resetRank enc henc]
  exact C12_score_moves (absRank enc r) (enc k) sc h

/-- the score `Order` sorts by (map entry, or the default for an unknown peer) is `scoreOf` -/
theorem C12_trans_scoreOf (enc : String → Nat) (henc : ∀ a b, enc a = enc b → a = b) (r : List (String × Nat)) (k : String) :
    (if mhas r k then mlookup r k else Gen.Dispatcher.defaultScore) = scoreOf (absRank enc r) (enc k) :=
  trans_scoreOf enc henc r k

/-! satisfiable, and the translated methods compute -/
example : peerRanking_Punish "a" (peerRanking_AddPeer "a" []) = [("a", 5)] := by decide
example : peerRanking_Reward "a" [("a", 0), ("b", 3)] = [("a", 0), ("b", 3)] := by decide
example : peerRanking_Punish "a" [("b", 3), ("a", 8)] = [("b", 3), ("a", 8)] := by decide
example : peerRanking_ResetRanking "b" [("b", 3), ("a", 8)] = [("b", 4), ("a", 8)] := by decide
example : ∀ e ∈ [("b", 3), ("a", 8)], e.2 + 1 < 2 ^ 64 := by decide

/-! ### the work queue's ordering (`workQueue.Less`, `queryJob.Index`; query/workqueue.go, worker.go) -/

/-- **`Less` is "strictly smaller job index"**: for in-range positions it compares the `Index()` of the
two tasks, `Index()` of a `queryJob` is its `index` field, and the comparison is the one the model's
`insertJob` makes when it places a new job (so the queue the dispatcher theorems are about is ordered as the
code's heap is). -/
theorem C12_trans_workQueue_Less (tasks : List Atom) (index : Atom → Nat) (i j : Nat) (n : Nat)
    (job : Atom → Job) (a b : Atom) (xs : List Job) :
    workQueue_Less (i : Int) (j : Int) tasks index
      = decide (index (tasks.getD i default) < index (tasks.getD j default)) ∧
    queryJob_Index n = n ∧
    insertJob (job a) (job b :: xs)
      = (if workQueue_Less 0 1 [a, b] (fun t => queryJob_Index (job t).idx) = true
         then job a :: job b :: xs else job b :: insertJob (job a) xs) :=
  ⟨trans_less tasks index i j, trans_index n, trans_insertJob_step job a b xs⟩

/-- a strict order on the job indices: never `Less(i, i)`, and of two positions with different indices
exactly one is `Less` than the other (what `container/heap` needs to pop the smallest index first) -/
theorem C12_trans_workQueue_Less_strict (tasks : List Atom) (index : Atom → Nat) (i j : Nat) :
    workQueue_Less (i : Int) (i : Int) tasks index = false ∧
    (index (tasks.getD i default) ≠ index (tasks.getD j default) →
      (workQueue_Less (i : Int) (j : Int) tasks index = !workQueue_Less (j : Int) (i : Int) tasks index)) := by
  simp only [trans_less]
  generalize index (tasks.getD i default) = x
  generalize index (tasks.getD j default) = y
  refine ⟨by simp, ?_⟩
  intro h
  by_cases h1 : x < y
  · have h2 : ¬ y < x := by omega
    simp only [h1, h2, decide_true, decide_false, Bool.not_false]
  · have h2 : y < x := by omega
    simp only [h1, h2, decide_true, decide_false, Bool.not_true]

example : workQueue_Less 0 1 [7, 9] (fun t => t * 10) = true := by decide
example : workQueue_Less 1 0 [7, 9] (fun t => t * 10) = false := by decide

end Neutrino.Disp
