import Neutrino.Spec.CFHeaders
namespace Neutrino.CFHeaders

theorem C03_placeholder : (1 : Nat) = 1 := rfl

end Neutrino.CFHeaders
