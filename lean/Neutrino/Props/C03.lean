/-
Property C03: committed filter headers track the header chain and resist false
filter headers.  Only the property theorems live here; the lemmas are in
`Lemmas/CFHeaders.lean`, the model in `Model/CFHeaders.lean`, the predicates
shared with the driver in `Spec/CFHeaders.lean`.

Every theorem is for an arbitrary hash function `H`, an arbitrary start state
satisfying the invariant (genesis does), an arbitrary operation sequence
(chain extensions, rollbacks to any height, direct `writeCFHeadersMsg` calls
with any message, at-tip rounds against ANY network: any number of peers, any
answers, any served filters, any verification table, any map order / pick).
-/
import Neutrino.Lemmas.CFHeaders
import Neutrino.Lemmas.CFHonest
import Neutrino.Gen.CFHeaders
namespace Neutrino.CFHeaders

/-- genesis: one block, its filter header -/
def genesis : St := {}

theorem genesis_inv (H : FHash → Hdr → Hdr) : Inv H genesis :=
  ⟨rfl, List.prefix_refl _, by decide, True.intro⟩

/-- what the proofs rely on in the source, re-extracted from /repo on every run:
the filter store is rolled back before the block store; `writeCFHeadersMsg`
compares `PrevFilterHeader` with the tip before it writes and notifies after;
`detectBadPeers` returns after its first phase (finding F12 — a repair changes
this fact and forces the model and `C03_honest_wins_*` to be revisited); the
majority threshold is `(len(filtersFromPeers)+2)/2`. -/
theorem C03_source_facts :
    Gen.CFHeaders.rollbackFilterFirst = true ∧
    Gen.CFHeaders.writePrevCheckBeforeWrite = true ∧
    Gen.CFHeaders.writeNotifyAfterWrite = true ∧
    Gen.CFHeaders.detectEarlyReturn = true ∧
    Gen.CFHeaders.thresholdExpr = "(len(filtersFromPeers)+2)/2" ∧
    Gen.CFHeaders.thresholdComparisons = true ∧
    Gen.CFHeaders.verifyCalledInResolve = true ∧
    Gen.CFHeaders.writeResolvesBlocksByStopHash = true ∧
    Gen.CFHeaders.resolveSanityOnWholeLists = true ∧
    Gen.CFHeaders.responseLengthTest = "len(m.FilterHashes)==numHeaders" := by decide

/-- (a) the filter-header chain never runs ahead of the block-header chain -/
theorem C03_not_ahead (H : FHash → Hdr → Hdr) (s0 : St) (h0 : Inv H s0) (ops : List Op) :
    (run H Gen.CFHeaders.rollbackFilterFirst s0 ops).fstore.length ≤
    (run H Gen.CFHeaders.rollbackFilterFirst s0 ops).blocks.length := by
  have hi := inv_run H ops s0 h0
  have : Gen.CFHeaders.rollbackFilterFirst = true := by decide
  rw [this]
  have := hi.pre.length_le
  rw [hi.len] at this
  exact this

example : (run (fun f p => 100 * p + f) true genesis
    [.ext [1, 2], .wr 1 1 [7], .rb 0, .ext [3]]).fstore.length ≤ 2 := by decide

/-- (b) every entry belongs to the block at its height on the current chain:
the blocks the entries were written for (what the connect notifications carried)
are exactly the current chain up to the filter tip — in every reachable state.
Relies on the rollback order (filter store first). -/
theorem C03_belongs (H : FHash → Hdr → Hdr) (s0 : St) (h0 : Inv H s0) (ops : List Op) :
    let s := run H Gen.CFHeaders.rollbackFilterFirst s0 ops
    s.fblk.length = s.fstore.length ∧ s.fblk <+: s.blocks := by
  have : Gen.CFHeaders.rollbackFilterFirst = true := by decide
  rw [this]
  have hi := inv_run H ops s0 h0
  exact ⟨hi.len, hi.pre⟩

/-- (b) none survives the disconnection of its block: after `rollBackToHeight h`
the call has succeeded, at most `h+1` filter headers are left, and the
invariant still holds -/
theorem C03_belongs_rollback (H : FHash → Hdr → Hdr) (s : St) (hi : Inv H s) (h : Nat) :
    (rollBackToHeight Gen.CFHeaders.rollbackFilterFirst s h).2 = true ∧
    (rollBackToHeight Gen.CFHeaders.rollbackFilterFirst s h).1.fstore.length ≤ h + 1 ∧
    Inv H (rollBackToHeight Gen.CFHeaders.rollbackFilterFirst s h).1 := by
  have : Gen.CFHeaders.rollbackFilterFirst = true := by decide
  rw [this]
  obtain ⟨a, b, c⟩ := inv_rollbackLoop H h s.blocks.length s hi (by omega)
  refine ⟨b, ?_, a⟩
  have := a.pre.length_le
  rw [a.len] at this
  unfold rollBackToHeight
  omega

/-- the rollback order is load-bearing: with the block header removed first the
filter store is left ahead of the block store (the filter-store rollback cannot
resolve its tip any more) -/
theorem C03_belongs_needs_filter_first :
    ∃ (s : St) (h : Nat), Inv (fun f p => 100 * p + f) s ∧
      ¬ ((rollBackToHeight false s h).1.fstore.length ≤ (rollBackToHeight false s h).1.blocks.length) :=
  ⟨{ blocks := [0, 1], fstore := [1, 102], fblk := [0, 1] }, 0,
   ⟨rfl, List.prefix_refl _, by decide, ⟨⟨2, by decide⟩, True.intro⟩⟩, by decide⟩

/-- (b) the store is a hash chain in every reachable state -/
theorem C03_hash_chain (H : FHash → Hdr → Hdr) (s0 : St) (h0 : Inv H s0) (ops : List Op) :
    IsChain H (run H true s0 ops).fstore :=
  (inv_run H ops s0 h0).chain

/-- (b) entries are appended only as hash-chain successors of the current tip:
one operation — including a whole checkpointed fetch with any arrival order,
duplicates and the first-interval re-basing, and `resolveConflict` — either
leaves a prefix of the store (rollback), or grows it by appending, one after
the other, batches `H f₁ tip, H f₂ (H f₁ tip), …` each started at the
then-current tip (`Grows`) -/
theorem C03_hash_chain_step (H : FHash → Hdr → Hdr) (ff : Bool) (s : St) (hi : Inv H s) (op : Op) :
    ∃ m, m <+: s.fstore ∧ Grows H m (step H ff s op).1.fstore := by
  cases op with
  | ext ids => exact ⟨s.fstore, List.prefix_refl _, Grows.refl _⟩
  | rb h => exact ⟨_, rollbackLoop_fstore_prefix ff h _ s, Grows.refl _⟩
  | wr prev stop hashes => exact ⟨s.fstore, List.prefix_refl _, grows_writeMsg H s prev stop hashes⟩
  | tip net =>
    obtain ⟨s2, a, _, _, h⟩ := tipRound_shape H s net
    refine ⟨s.fstore, List.prefix_refl _, ?_⟩
    show Grows H s.fstore (tipRound H s net).1.fstore
    rcases h with h | ⟨hs2, h⟩
    · rw [h, a]; exact Grows.refl _
    · rcases commitPick_fstore H s2 net.pick hs2 with c | ⟨pm, _, c1, c2⟩
      · rw [h, c, a]; exact Grows.refl _
      · rw [h, c2, a]
        exact Grows.step pm.2.prev pm.2.hashes (Grows.refl _) (by rw [← a]; exact c1)
  | tipMid net h ids =>
    show ∃ m, m <+: s.fstore ∧ Grows H m (tipRoundMid H ff s net h ids).1.fstore
    rcases tipRoundMid_shape H ff s net h ids with e | ⟨s2, a, _, _, e⟩
    · rw [e]; exact ⟨s.fstore, List.prefix_refl _, Grows.refl _⟩
    · refine ⟨s2.fstore, by rw [a]; exact applyMid_fstore_prefix ff s h ids, ?_⟩
      rcases e with e | ⟨prev, stop, hashes, e⟩
      · rw [e]; exact Grows.refl _
      · rw [e]; exact grows_writeMsg H s2 prev stop hashes
  | resolve interval hard net cp =>
    refine ⟨s.fstore, List.prefix_refl _, ?_⟩
    show Grows H s.fstore (resolveConflict interval hard s net cp).1.fstore
    rw [(resolveConflict_frame interval hard s net cp).1]
    exact Grows.refl _
  | cp interval cps evs => exact ⟨s.fstore, List.prefix_refl _, (cpRound_ok H interval s cps evs hi).2⟩

/-- only responses of exactly the requested length for the requested stop hash
are ever compared or written: everything the response filter of
`getCFHeadersForAllPeers` keeps has the requested stop hash and exactly
`batchLen s` filter hashes (too short, too LONG and wrong-stop-hash answers are
dropped, whoever sends them), and whatever an at-tip round appends to the
filter store is the hash chain of one such response, started at the tip — so the
store grows by exactly the number of headers asked for, or not at all -/
theorem C03_response_exact (H : FHash → Hdr → Hdr) (s : St) (net : Net) :
    (∀ pm ∈ gather s net (batchLen s), pm.2.stopOk = true ∧ pm.2.hashes.length = batchLen s) ∧
    ((tipRound H s net).1.fstore = s.fstore ∨
     ∃ pm ∈ gather s net (batchLen s), s.fstore.getLast? = some pm.2.prev ∧
       (tipRound H s net).1.fstore = s.fstore ++ chainFrom H pm.2.prev pm.2.hashes ∧
       (tipRound H s net).1.fstore.length = s.fstore.length + batchLen s) := by
  refine ⟨gather_exact s net (batchLen s), ?_⟩
  obtain ⟨s2, a, h⟩ := tipRound_shape' H s net
  rcases h with h | ⟨hs2, hsub, h⟩
  · left; rw [h, a]
  · rcases commitPick_fstore H s2 net.pick hs2 with c | ⟨pm, hpm, c1, c2⟩
    · left; rw [h, c, a]
    · right
      have hg := hsub pm hpm
      refine ⟨pm, hg, by rw [← a]; exact c1, by rw [h, c2, a], ?_⟩
      rw [h, c2, a, List.length_append, chainFrom_length, (gather_exact s net (batchLen s) pm hg).2]

example : (gather { blocks := [0, 1, 2], fstore := [1], fblk := [0] }
    { peers := [1, 2, 3, 4]
      resps := fun p => if p = 1 then [⟨true, 1, [7, 8, 9]⟩] else if p = 2 then [⟨true, 1, [7]⟩]
                        else if p = 3 then [⟨false, 1, [7, 8]⟩] else [⟨true, 1, [7, 8, 9]⟩, ⟨true, 1, [7, 8]⟩]
      served := fun _ _ => none, verify := fun _ _ => .ok 0, getBlock := fun _ => true, pick := 0 } 2).map (·.1)
    = [4] := by decide

/-- (b) a batch fetched for blocks that have meanwhile been reorganised away is
not written: when the reorganisation that lands between the query and the write
removes the stop block of the query (distinct block ids), the filter store only
loses the entries of disconnected blocks and gains nothing -/
theorem C03_belongs_stale_batch (H : FHash → Hdr → Hdr) (s : St) (net : Net) (h : Nat) (ids : List Blk)
    (hgone : ∀ b, s.blocks[stopHeight s]? = some b → heightOf (applyMid true s h ids).blocks b = none) :
    (tipRoundMid H true s net h ids).1.fstore <+: s.fstore := by
  unfold tipRoundMid
  cases s.fstore.getLast? with
  | none => exact List.prefix_refl _
  | some tip =>
    by_cases h1 : s.blocks.length - 1 < s.fstore.length - 1
    · simp only [h1, ↓reduceIte]; exact List.prefix_refl _
    · simp only [h1, ↓reduceIte]
      by_cases h2 : s.blocks.length - 1 = s.fstore.length - 1
      · simp only [h2, ↓reduceIte]; exact List.prefix_refl _
      · simp only [h2, ↓reduceIte]
        generalize (List.filter (fun pm => pm.2.prev != tip)
          (gather (applyMid true s h ids) net (batchLen s))).map (·.1) = wrong
        generalize List.filter (fun pm => pm.2.prev == tip)
          (gather (applyMid true s h ids) net (batchLen s)) = hs1
        by_cases h3 : hs1.isEmpty = true
        · simp only [h3, ↓reduceIte]; exact applyMid_fstore_prefix true s h ids
        · simp only [h3, Bool.false_eq_true, ↓reduceIte]
          have hf := idxLoop_frame net s.fstore.length (List.range (batchLen s))
            (ban (applyMid true s h ids) wrong reasonHeader) hs1
          generalize idxLoop net s.fstore.length (List.range (batchLen s))
            (ban (applyMid true s h ids) wrong reasonHeader) hs1 = r at hf
          obtain ⟨s2, e⟩ := r
          have hpre : s2.fstore <+: s.fstore := by rw [hf.1]; exact applyMid_fstore_prefix true s h ids
          cases e with
          | error e => exact hpre
          | ok hs2 =>
            simp only
            cases hs2[net.pick % hs2.length]? with
            | none => exact hpre
            | some pm =>
              simp only
              cases hb : s.blocks[stopHeight s]? with
              | none => exact hpre
              | some stopB =>
                simp only
                rw [wToT_fst]
                have hg : heightOf s2.blocks stopB = none := by
                  rw [hf.2.2]; exact hgone stopB hb
                have : (writeMsg H s2 pm.2.prev stopB pm.2.hashes).1 = s2 := by
                  unfold writeMsg
                  cases s2.fstore.getLast? with
                  | none => rfl
                  | some t =>
                    simp only
                    split
                    · rfl
                    · rw [hg]
                rw [this]; exact hpre

example : (step (fun f p => 100 * p + f) true { blocks := [0, 1, 2], fstore := [1], fblk := [0] }
    (.wr 1 2 [7, 8])).1.fstore = [1, 107, 10708] := by decide

/-- (c) hard-coded checkpoints: after the first pass of `resolveConflict` no
surviving checkpoint list contradicts a hard-coded filter-header checkpoint,
and every peer whose list did is banned -/
theorem C03_checkpoints (interval : Nat) (hard : Nat → Option Hdr) (s : St) (cp : List (Peer × List Hdr)) :
    (∀ pc ∈ (hardPass interval hard s cp).2, ∀ i c x, hard ((i + 1) * interval) = some c →
        pc.2[i]? = some x → x = c) ∧
    (∀ pc ∈ cp, contradictsHard interval hard pc.2 = true →
        (pc.1, reasonCheckpoint) ∈ (hardPass interval hard s cp).1.bans) := by
  constructor
  · intro pc hpc i c x hh hx
    simp only [hardPass, List.mem_filter, Bool.not_eq_eq_eq_not, Bool.not_true] at hpc
    have hlt : i < pc.2.length := by
      rcases Nat.lt_or_ge i pc.2.length with h | h
      · exact h
      · rw [List.getElem?_eq_none h] at hx; exact absurd hx (by simp)
    have hc := hpc.2
    unfold contradictsHard at hc
    rw [List.any_eq_false] at hc
    have := hc i (List.mem_range.mpr hlt)
    simp only [hh, hx, bne_iff_ne, ne_eq, Decidable.not_not] at this
    simpa using this
  · intro pc hpc hbad
    simp only [hardPass, ban, List.mem_append, List.mem_map, List.mem_filter]
    right
    exact ⟨pc.1, ⟨pc, ⟨hpc, hbad⟩, rfl⟩, rfl⟩

example : (hardPass 1000 (fun h => if h = 1000 then some 5 else none) genesis
    [(1, [5, 9]), (2, [6, 9])]).2 = [(1, [5, 9])] := by decide

/-- (c) the checkpoint list `resolveConflict` agrees on — whichever arm it
took, whatever the peers answered, whichever list the map iteration met first —
equals every hard-coded filter-header checkpoint at its height -/
theorem C03_checkpoints_resolve (interval : Nat) (hard : Nat → Option Hdr) (s : St) (net : Net)
    (cp : List (Peer × List Hdr)) (good : List Hdr)
    (h : (resolveConflict interval hard s net cp).2 = .ok good) :
    ∀ i c x, hard ((i + 1) * interval) = some c → good[i]? = some x → x = c := by
  obtain ⟨pc, hpc, e⟩ := resolveConflict_ok interval hard s net cp good h
  intro i c x hh hx
  rw [← e] at hx
  exact (C03_checkpoints interval hard s cp).1 pc hpc i c x hh hx

/-- (c) on the checkpointed path: a batch that passed `verifyCheckpoint` and
is written as it came (every batch but the re-based first one) ends exactly at
the agreed checkpoint, which — by `C03_checkpoints` — agrees with every
hard-coded checkpoint -/
theorem C03_checkpoint_batches (H : FHash → Hdr → Hdr) (s : St) (prevCp nextCp prev : Hdr) (stop : Blk)
    (hashes : List FHash) (last : Hdr) (e : Nat)
    (hv : verifyCp H prevCp nextCp prev hashes = true)
    (hw : writeMsg H s prev stop hashes = ((writeMsg H s prev stop hashes).1, .ok last e)) :
    last = nextCp ∧ (writeMsg H s prev stop hashes).1.fstore.getLast? = some nextCp := by
  unfold verifyCp at hv
  simp only [Bool.and_eq_true, beq_iff_eq] at hv
  rcases writeMsg_cases' H s prev stop hashes with ⟨o, ho, hno⟩ | ⟨e', hl, hn0, heq⟩
  · rw [ho] at hw
    have := (Prod.mk.inj hw).2
    exact absurd this (hno last e)
  · have h2 : (writeMsg H s prev stop hashes).2 = .ok last e := by rw [hw]
    rw [heq] at h2
    simp only [WOut.ok.injEq] at h2
    have hlast : last = nextCp := by rw [← h2.1]; exact hv.2
    refine ⟨hlast, ?_⟩
    rw [heq]
    simp only
    have hne : chainFrom H prev hashes ≠ [] := by
      intro h0
      have := congrArg List.length h0
      rw [chainFrom_length] at this
      exact hn0 this
    rw [List.getLast?_append]
    cases hc : (chainFrom H prev hashes).getLast? with
    | none => exact absurd (List.getLast?_eq_none_iff.mp hc) hne
    | some x =>
      have := hv.2
      rw [hc] at this
      simp only [Option.getD_some] at this
      rw [this]; rfl

/-- (c) is FALSE on the at-tip path (finding `tip-path-skips-hardcoded-checkpoint`):
`getUncheckpointedCFHeaders` never consults the hard-coded filter-header
checkpoints.  Block 1 has the true filter hash 7, the hard-coded checkpoint at
height 1 is `H 7 genesis = 107`; the only peer answers with the self-consistent
false hash 8 — `108` is committed. -/
theorem C03_checkpoints_tip_counterexample :
    let s : St := { blocks := [0, 1], fstore := [1], fblk := [0] }
    let net : Net := { peers := [1], resps := fun _ => [⟨true, 1, [8]⟩], served := fun _ _ => some 8,
                       verify := fun _ _ => .bad, getBlock := fun _ => true, pick := 0 }
    (tipRound (fun f p => 100 * p + f) s net).1.fstore = [1, 108] ∧
    checkpointsObs [(1, 107)] (tipRound (fun f p => 100 * p + f) s net).1.fstore = false := by decide

/-! ### (d) honest wins -/

/-- the mechanism of F12 in the model, for every network and state: as soon as
phase 1 of `detectBadPeers` finds anyone, exactly those peers are returned and
no served filter is checked against the block -/
theorem C03_detect_early_return (net : Net) (s : St) (hs : List (Peer × Msg)) (h i : Nat)
    (hne : (phase1 (filtersAt s net h) hs i).isEmpty = false) :
    detect net s hs h i = .ok (phase1 (filtersAt s net h) hs i) := by
  unfold detect
  simp only [hne, Bool.not_false, ↓reduceIte]


/-- the honest-wins clause for one round from state `s` -/
def HonestWinsAt (H : FHash → Hdr → Hdr) (s : St) (net : Net) (truth : Nat → FHash) : Prop :=
  s.fstore.length < s.blocks.length → (roundOf s net truth).hyp = true →
  (roundOf s net truth).concl H ((tipRound H s net).1.fstore.drop s.fstore.length)
    (newBans s (tipRound H s net).1) = true

/-- FULL STATEMENT of clause (d): whenever an honest peer answers and every
false value is provably inconsistent, the honest value is committed, every liar
is banned and no honest peer is.  FALSE for the code as it stands (F12). -/
def C03_honest_wins : Prop :=
  ∀ (H : FHash → Hdr → Hdr) (s : St) (net : Net) (truth : Nat → FHash),
    Inv H s → HonestWinsAt H s net truth

namespace Cex
def H : FHash → Hdr → Hdr := fun f p => 100 * p + f
/-- blocks 0,1 ; filter store at genesis; the true filter hash of block 1 is 7 -/
def s : St := { blocks := [0, 1], fstore := [1], fblk := [0] }
def truth : Nat → FHash := fun _ => 7
/-- peer 1 honest; peer 2 advertises the truth but serves no filter; peer 3
advertises and serves the false filter 8, which the block check would reject -/
def net (pick : Nat) : Net :=
  { peers := [1, 2, 3]
    resps := fun p => if p = 3 then [⟨true, 1, [8]⟩] else [⟨true, 1, [7]⟩]
    served := fun p _ => if p = 1 then some 7 else if p = 3 then some 8 else none
    verify := fun f _ => if f = 8 then .bad else .ok 0
    getBlock := fun _ => true
    pick := pick }
end Cex

/-- F12 as a closed counterexample: one honest, one silent, one self-consistent
liar.  Whichever peer the final map iteration meets first, the liar is never
banned; when it meets the liar (`pick = 1`) the false header `H 8 tip` is
committed. -/
theorem C03_honest_wins_counterexample : ¬ C03_honest_wins := by
  intro h
  have := h Cex.H Cex.s (Cex.net 1) Cex.truth
    ⟨rfl, ⟨[1], rfl⟩, by decide, True.intro⟩
  unfold HonestWinsAt at this
  exact absurd this (by decide)

/-- in the counterexample the false header is committed and only the silent peer is banned -/
theorem C03_honest_wins_counterexample_commits_false :
    (tipRound Cex.H Cex.s (Cex.net 1)).1.fstore = [1, 108] ∧
    (tipRound Cex.H Cex.s (Cex.net 1)).1.bans = [(2, 3)] ∧
    (roundOf Cex.s (Cex.net 1) Cex.truth).shapeEarlyReturn = true ∧
    -- and with the other map order the honest header is committed, the liar still not banned
    (tipRound Cex.H Cex.s (Cex.net 0)).1.fstore = [1, 107] ∧
    (tipRound Cex.H Cex.s (Cex.net 0)).1.bans = [(2, 3)] := by decide


/-- Clause (d) under the negation of the recorded shape (since the repair of
`zero-hash-sentinel` a peer advertising the all-zero hash is an ordinary liar
and is covered here): in a round that
is NOT of the F12 shape (`shapeEarlyReturn`: at one index a responding peer is
silent / self-inconsistent AND another is a self-consistent liar), whenever an
honest peer answers
and every false value is provably inconsistent, the batch committed is the
honest one, every liar is banned and no honest peer is — for every hash
function, every state satisfying the invariant (block ids distinct), every
number of peers, every assignment of answers / served filters / verification
results, every order of the peer map and every pick. -/
theorem C03_honest_wins_partial (H : FHash → Hdr → Hdr) (s : St) (net : Net) (truth : Nat → FHash)
    (hi : Inv H s) (hnd : s.blocks.Nodup)
    (hshape : (roundOf s net truth).shapeEarlyReturn = false) :
    HonestWinsAt H s net truth :=
  fun hahead hhyp => honest_wins_round H s net truth hi hnd hahead hhyp hshape

namespace ExPartial
/-- peer 1 honest; peer 2 advertises a false hash but serves the true filter
(caught by phase 1); peer 3 sends a wrong previous header; peer 4 a
self-consistent false filter at the second height (caught by the block) -/
def s : St := { blocks := [0, 1, 2], fstore := [1], fblk := [0] }
def truth : Nat → FHash := fun h => 6 + h
def net (pick : Nat) : Net :=
  { peers := [4, 2, 1, 3]
    resps := fun p =>
      if p = 2 then [⟨true, 1, [9, 8]⟩] else if p = 3 then [⟨true, 5, [7, 8]⟩]
      else if p = 4 then [⟨false, 1, [7, 8]⟩, ⟨true, 1, [7, 9]⟩] else [⟨true, 1, [7, 8]⟩]
    served := fun p h => if p = 4 ∧ h = 2 then some 9 else some (6 + h)
    verify := fun f _ => if f = 9 then .bad else .ok 0
    getBlock := fun _ => true
    pick := pick }
end ExPartial

/-- the hypotheses of `C03_honest_wins_partial` are satisfiable with liars of
three kinds present, and its conclusion is what the model computes -/
example : (roundOf ExPartial.s (ExPartial.net 0) ExPartial.truth).hyp = true ∧
    (roundOf ExPartial.s (ExPartial.net 0) ExPartial.truth).shapeEarlyReturn = false ∧
    ExPartial.s.blocks.Nodup ∧
    (tipRound Cex.H ExPartial.s (ExPartial.net 0)).1.fstore = [1, 107, 10708] ∧
    (tipRound Cex.H ExPartial.s (ExPartial.net 0)).1.bans = [(3, 3), (2, 3), (4, 3)] := by decide

namespace ExZero
/-- peer 1 honest; peer 2 advertises the all-zero filter hash and serves nothing;
the map iteration meets peer 2 first (the order in which the old code lost the
mismatch) -/
def net (pick : Nat) : Net :=
  { peers := [2, 1]
    resps := fun p => if p = 2 then [⟨true, 1, [0]⟩] else [⟨true, 1, [7]⟩]
    served := fun p _ => if p = 1 then some 7 else none
    verify := fun _ _ => .ok 0
    getBlock := fun _ => true
    pick := pick }
end ExZero

/-- the instance that was the counterexample of the repaired finding
`zero-hash-sentinel` (a peer advertising the all-zero filter hash, met first by
the map iteration) now satisfies the honest-wins clause — it is an instance of
`C03_honest_wins_partial` — and the model computes: mismatch seen, the zero-hash
peer banned, the honest header committed, whichever peer the pick meets -/
theorem C03_zero_hash_liar_caught :
    HonestWinsAt Cex.H Cex.s (ExZero.net 0) Cex.truth ∧
    (roundOf Cex.s (ExZero.net 0) Cex.truth).hyp = true ∧
    (roundOf Cex.s (ExZero.net 0) Cex.truth).noZero = false ∧
    (tipRound Cex.H Cex.s (ExZero.net 0)).1.fstore = [1, 107] ∧
    (tipRound Cex.H Cex.s (ExZero.net 0)).1.bans = [(2, 3)] ∧
    (tipRound Cex.H Cex.s (ExZero.net 1)).1.fstore = [1, 107] := by
  refine ⟨C03_honest_wins_partial Cex.H Cex.s (ExZero.net 0) Cex.truth
    ⟨rfl, ⟨[1], rfl⟩, by decide, True.intro⟩ (by decide) (by decide), ?_⟩
  decide

end Neutrino.CFHeaders
