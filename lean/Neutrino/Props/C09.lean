/-
C09 — rescan callbacks form a consistent chain walk and miss no relevant transaction.

All statements are about `Neutrino.Rescan.run`, i.e. EVERY list of events: every chain history (grow / reorg at any
moment, also between two catch-up steps and while blocks wait in the retry queue), every pattern of filter / block fetch
failures and filter false positives (`setF`/`setB`/`setFp` scripts), every timing of updates and rewinds.
-/
import Neutrino.Lemmas.RescanWalk
import Neutrino.Lemmas.RescanMiss
import Neutrino.Gen.Rescan
namespace Neutrino.Rescan

/-! ## walk -/

/-- FULL statement of the walk clause: for every world, start, watch set and event list, the callbacks walk the tree.
FALSE for the code as it is (F13) — see `C09_walk_counterexample`. -/
def C09_walk : Prop :=
  ∀ (W : World) (chain : List Nat) (start startH : Nat) (w : Watch) (evs : List Ev),
    walkFrom W start (run W (init W chain start startH w) evs).2 = true

namespace Cex
/-- tree: 1 ← 2 ← 3, 1 ← 4 ← 5 and 2 ← 6 -/
def W : World :=
  { prev := fun b => match b with | 2 => 1 | 3 => 2 | 4 => 1 | 5 => 4 | 6 => 2 | _ => 0,
    height := fun b => match b with | 2 => 1 | 3 => 2 | 4 => 1 | 5 => 2 | 6 => 2 | _ => 0,
    late := fun _ => true, txs := fun _ => [] }
/-- catch up to block 2, the chain reorganises below it, the next catch-up step announces 5 (child of 4) -/
def evs : List Ev := [.step, .reorg 2 [4, 5], .step]
end Cex

theorem C09_walk_counterexample : ¬ C09_walk := fun h =>
  absurd (h Cex.W [1, 2, 3] 1 0 {} Cex.evs) (by decide)

/-- the callbacks of the counterexample: connected 2, then connected 5 whose parent 4 was never announced -/
example : (run Cex.W (init Cex.W [1, 2, 3] 1 0 {}) Cex.evs).2 = [.conn 1 2 [], .conn 2 5 []] := by decide

namespace CexU
/-- tree: 1 ← 2 ← 3 ← 7 (7 pays watched script 9) and 1 ← 4 ← 5 ← 8 -/
def W : World :=
  { prev := fun b => match b with | 2 => 1 | 3 => 2 | 7 => 3 | 4 => 1 | 5 => 4 | 8 => 5 | _ => 0,
    height := fun b => match b with | 2 => 1 | 3 => 2 | 7 => 3 | 4 => 1 | 5 => 2 | 8 => 3 | _ => 0,
    late := fun _ => true,
    txs := fun b => match b with | 7 => [⟨70, [], [9]⟩] | _ => [] }
def w : Watch := { addrs := [9], wl := [9] }
/-- catch up to 3 and subscribe; 7 connects; the chain reorganises three deep (unread: D7 D3 D2 C4 C5 C8); the queued
`Connected 7` is processed first and its block fetch fails: the rescan drops to the catch-up arm on block 3, its
subscription (and the disconnects) is replaced at the next subscribe; the catch-up step announces 8, child of 5 -/
def evs : List Ev := [.step, .step, .step, .grow 7, .reorg 3 [4, 5, 8], .setB [true], .connected 7, .step]
end CexU

/-- second refutation of `C09_walk`, by the other recorded shape -/
theorem C09_walk_counterexample_unread :
    walkFrom CexU.W 1 (run CexU.W (init CexU.W [1, 2, 3] 1 0 CexU.w) CexU.evs).2 = false := by decide

example : (run CexU.W (init CexU.W [1, 2, 3] 1 0 CexU.w) CexU.evs).2 =
    [.conn 1 2 [], .conn 2 3 [], .conn 3 8 []] := by decide

/-- the best chain is a path of the tree -/
def linkedB (W : World) : List Nat → Bool
  | a :: b :: r => (W.prev b == a) && linkedB W (b :: r)
  | _ => true

theorem linkedB_get (W : World) (l : List Nat) (h : linkedB W l = true) (i a b : Nat)
    (ha : l[i]? = some a) (hb : l[i + 1]? = some b) : W.prev b = a := by
  induction l generalizing i with
  | nil => simp at ha
  | cons x r ih =>
    cases r with
    | nil => simp at hb
    | cons y r' =>
      simp only [linkedB, Bool.and_eq_true, beq_iff_eq] at h
      cases i with
      | zero =>
        simp only [List.getElem?_cons_zero, Option.some.injEq] at ha
        simp only [Nat.zero_add, List.getElem?_cons_succ, List.getElem?_cons_zero, Option.some.injEq] at hb
        subst ha; subst hb; exact h.1
      | succ j =>
        simp only [List.getElem?_cons_succ] at ha hb
        exact ih h.2 j (by simpa using ha) (by simpa using hb)

/-- The excluded shape, per event.  `step`: when the catch-up arm is about to advance, the rescan's current block is the
block of the best chain at its height (no reorganisation reached at/below it while it was catching up — the negation
of `shape=reorg-during-catchup`) and the best chain is a path of the tree.  The other two conjuncts are well-formedness of
the inputs: a `Disconnected` names the parent as the new tip (blockmanager does), and the caller did not ask for silent
rewinds (`DisableDisconnectedNtfns`, which by design skips callbacks). -/
def stepOkB (W : World) (s : St) (e : Ev) : Bool :=
  match e with
  | .step => !(!s.dead && !s.current && decide (s.curH + 1 ≤ best s)) ||
             (linkedB W s.chain && (s.chain[s.curH]? == some s.cur))
  | .disconnected b tip => tip == W.prev b
  | .update u => !u.quiet
  | _ => true

/-! The two recorded shapes, tracked along the run exactly as the trace driver does (`Spec.Rescan.staleNext`). -/

/-- label after an event: `s` before, `s'` after -/
def trackNext (st : Stale) (s s' : St) : Stale := staleNext st (onChainB s'.chain s'.cur s'.curH) s.current

def track0 (s : St) : Stale := staleNext .no (onChainB s.chain s.cur s.curH) false

/-- the catch-up arm is about to advance by height -/
def advancing (s : St) : Bool := !s.dead && !s.current && decide (s.curH + 1 ≤ best s)

/-- HYPOTHESIS of the partial walk theorem, per event.  `step`: when the catch-up arm is about to advance, the label is
`no`, i.e. NEITHER `shape=reorg-during-catchup` NOR `shape=reorg-unread-at-catchup` (and the best chain is a path of the
tree).  The other conjuncts are well-formedness of the inputs, as in `stepOkB`. -/
def stepGoodB (W : World) (st : Stale) (s : St) (e : Ev) : Bool :=
  match e with
  | .step => !(advancing s) || (linkedB W s.chain && (st == .no))
  | .disconnected b tip => tip == W.prev b
  | .update u => !u.quiet
  | _ => true

def goodB (W : World) : Stale → St → List Ev → Bool
  | _, _, [] => true
  | st, s, e :: es => stepGoodB W st s e && goodB W (trackNext st s (step W s e).1) (step W s e).1 es

/-- the label of the first catch-up step that advances from a block off the best chain (`no`: there is none) -/
def firstShape (W : World) : Stale → St → List Ev → Stale
  | _, _, [] => .no
  | st, s, e :: es =>
    if e == .step && advancing s && st != .no then st
    else firstShape W (trackNext st s (step W s e).1) (step W s e).1 es

/-- the label says `no` only when the current block is on the best chain -/
def TrackInv (st : Stale) (s : St) : Prop := st = .no → onChainB s.chain s.cur s.curH = true

theorem staleNext_no (st : Stale) (oc a : Bool) (h : staleNext st oc a = .no) : oc = true := by
  cases oc with
  | true => rfl
  | false => cases st <;> cases a <;> simp [staleNext] at h

theorem trackInv_next (st : Stale) (s s' : St) : TrackInv (trackNext st s s') s' :=
  fun h => staleNext_no _ _ _ h

theorem trackInv_0 (s : St) : TrackInv (track0 s) s := fun h => staleNext_no _ _ _ h

theorem stepGood_ok (W : World) (st : Stale) (s : St) (e : Ev) (hi : TrackInv st s)
    (hg : stepGoodB W st s e = true) : stepOkB W s e = true := by
  cases e with
  | step =>
    simp only [stepGoodB, advancing, Bool.or_eq_true, Bool.and_eq_true, beq_iff_eq] at hg
    simp only [stepOkB, Bool.or_eq_true, Bool.and_eq_true]
    rcases hg with h | ⟨h1, h2⟩
    · exact Or.inl h
    · exact Or.inr ⟨h1, by simpa [onChainB] using hi h2⟩
  | _ => exact hg

theorem notifyBlock_shape (W : World) (s : St) :
    let r := notifyBlock W s
    r.1.cur = s.cur ∧ ((r.2 = [Cb.exit] ∧ r.1.dead = true) ∨ ∃ txs, r.2 = [Cb.conn s.curH s.cur txs]) := by
  unfold notifyBlock
  dsimp only
  repeat' split
  all_goals simp_all

/-- one catch-up iteration continues the walk PROVIDED the current block is on the (linked) best chain -/
theorem catchUp_walk (W : World) (s : St)
    (hg : s.curH + 1 ≤ best s → linkedB W s.chain = true ∧ s.chain[s.curH]? = some s.cur) :
    ∃ c, walkEnd W s.cur (catchUp W s).2 = some c ∧ ((catchUp W s).1.dead = true ∨ c = (catchUp W s).1.cur) := by
  unfold catchUp
  by_cases h1 : s.curH + 1 > best s
  · simp only [h1, ↓reduceIte]
    by_cases h2 : (s.curH != 0 && decide (s.curH > best s)) = true
    · simp only [h2, ↓reduceIte]
      refine ⟨s.cur, ?_, ?_⟩ <;> simp [walkEnd, walkStep]
    · simp only [h2, Bool.false_eq_true, ↓reduceIte]
      exact ⟨s.cur, by simp [walkEnd]⟩
  · simp only [h1, ↓reduceIte]
    have hg := hg (by omega)
    cases hb : s.chain[s.curH + 1]? with
    | none => simp only; refine ⟨s.cur, ?_, ?_⟩ <;> simp [walkEnd, walkStep]
    | some b =>
      have hp : W.prev b = s.cur := linkedB_get W s.chain hg.1 s.curH s.cur b hg.2 hb
      simp only
      have hn := notifyBlock_shape W
        { s with cur := b, curH := s.curH + 1, scanning := s.scanning || W.late b }
      generalize notifyBlock W { s with cur := b, curH := s.curH + 1, scanning := s.scanning || W.late b } = r at hn
      obtain ⟨s', cbs⟩ := r
      obtain ⟨hcur, hx | ⟨txs, hx⟩⟩ := hn
      · obtain ⟨hx1, hx2⟩ := hx
        subst hx1
        exact ⟨s.cur, by simp [walkEnd, walkStep], Or.inl hx2⟩
      · subst hx
        exact ⟨b, by simp [walkEnd, walkStep, hp], Or.inr hcur.symm⟩

/-- one event: the callbacks continue the walk from the rescan's current block and end at its new current block -/
theorem step_walk (W : World) (s : St) (e : Ev) (hd : s.dead = false) (hg : stepOkB W s e = true) :
    ∃ c, walkEnd W s.cur (step W s e).2 = some c ∧ ((step W s e).1.dead = true ∨ c = (step W s e).1.cur) := by
  obtain ⟨chain, fS, bS, fpS, cur, curH, scanning, current, queue, timer, w, dead⟩ := s
  simp only at hd
  subst hd
  cases e with
  | grow b => exact ⟨cur, by simp [step, walkEnd]⟩
  | reorg d bs => exact ⟨cur, by simp [step, walkEnd]⟩
  | setF l => exact ⟨cur, by simp [step, walkEnd]⟩
  | setB l => exact ⟨cur, by simp [step, walkEnd]⟩
  | setFp l => exact ⟨cur, by simp [step, walkEnd]⟩
  | connected b =>
    cases current with
    | false => exact ⟨cur, by simp [step, walkEnd]⟩
    | true =>
      cases queue with
      | cons q qs => exact ⟨cur, by simp [step, walkEnd]⟩
      | nil =>
        have hs := handleConnected_shape W
          ⟨chain, fS, bS, fpS, cur, curH, scanning, true, [], timer, w, false⟩ b
        simp only [step, Bool.false_or, Bool.not_true, Bool.false_eq_true, ↓reduceIte, List.isEmpty_nil]
        generalize handleConnected W ⟨chain, fS, bS, fpS, cur, curH, scanning, true, [], timer, w, false⟩ b = r at hs
        obtain ⟨s', cbs, hr⟩ := r
        obtain ⟨_, _, _, _, hcase⟩ := hs
        rcases hcase with ⟨hok, hp, hcur, h, txs, hcb⟩ | ⟨hne, hcb, hcur⟩
        · subst hok; subst hcb
          exact ⟨b, by simp [walkEnd, walkStep, hp], Or.inr hcur.symm⟩
        · subst hcb
          cases hr with
          | ok => exact absurd rfl hne
          | retry => exact ⟨cur, by simp [walkEnd], Or.inr hcur.symm⟩
          | err => exact ⟨cur, by simp [walkEnd], Or.inr hcur.symm⟩
  | disconnected b tip =>
    simp only [stepOkB, beq_iff_eq] at hg
    cases current with
    | false => exact ⟨cur, by simp [step, walkEnd]⟩
    | true =>
      simp only [step, Bool.false_or, Bool.not_true, Bool.false_eq_true, ↓reduceIte]
      by_cases hb : (b != cur) = true
      · simp only [hb, ↓reduceIte]
        exact ⟨cur, by simp [walkEnd]⟩
      · have hb' : b = cur := by simpa using hb
        simp only [hb, Bool.false_eq_true, ↓reduceIte]
        exact ⟨tip, by simp [walkEnd, walkStep, hg, hb'], Or.inr rfl⟩
  | tick =>
    cases current with
    | false => exact ⟨cur, by simp [step, walkEnd]⟩
    | true =>
      cases timer with
      | false => exact ⟨cur, by simp [step, walkEnd]⟩
      | true =>
        have := retryLoop_spec W queue.length
          ⟨chain, fS, bS, fpS, cur, curH, scanning, true, queue, false, w, false⟩ (Nat.le_refl _)
        obtain ⟨_, _, c, hw, hcc⟩ := this
        simp only [step, Bool.false_or, Bool.not_true, Bool.false_eq_true, ↓reduceIte, Bool.or_self]
        exact ⟨c, hw, Or.inr hcc⟩
  | update u =>
    have hq : u.quiet = false := by simpa [stepOkB] using hg
    simp only [step, Bool.false_eq_true, ↓reduceIte, applyUpdate]
    by_cases hr : (u.rewind == 0) = true
    · simp only [hr, ↓reduceIte]
      exact ⟨cur, by simp [walkEnd]⟩
    · simp only [hr, Bool.false_eq_true, ↓reduceIte, hq]
      have := rewindLoop_walk W u.rewind curH
        ⟨chain, fS, bS, fpS, cur, curH, scanning, current, queue, timer, addWatch w u, false⟩ false
      generalize rewindLoop W u.rewind false curH
        ⟨chain, fS, bS, fpS, cur, curH, scanning, current, queue, timer, addWatch w u, false⟩ false = x at this
      obtain ⟨s', cbs, rew, failed⟩ := x
      obtain ⟨_, _, _, c, hw, hc⟩ := this
      cases failed with
      | true =>
        simp only [↓reduceIte]
        refine ⟨c, ?_, by simp⟩
        rw [walkEnd_append W cbs [Cb.exit] cur c hw]; simp [walkEnd, walkStep]
      | false =>
        have hc' : c = s'.cur := by simpa using hc
        simp only [Bool.false_eq_true, ↓reduceIte]
        by_cases h2 : (current && rew) = true
        · simp only [h2, ↓reduceIte]; exact ⟨c, hw, Or.inr hc'⟩
        · simp only [h2, Bool.false_eq_true, ↓reduceIte]; exact ⟨c, hw, Or.inr hc'⟩
  | step =>
    cases current with
    | true => exact ⟨cur, by simp [step, walkEnd]⟩
    | false =>
      have := catchUp_walk W ⟨chain, fS, bS, fpS, cur, curH, scanning, false, queue, timer, w, false⟩
        (by
          intro hle
          have hg' := hg
          simp only [stepOkB, Bool.not_false, Bool.and_self, Bool.true_and, Bool.or_eq_true, Bool.not_eq_true',
            decide_eq_false_iff_not, Bool.and_eq_true, beq_iff_eq] at hg'
          rcases hg' with h | h
          · exact absurd hle h
          · exact h)
      simpa [step] using this

theorem walk_run (W : World) (evs : List Ev) (st : Stale) (s : St) (c : Nat) (hc : s.dead = true ∨ c = s.cur)
    (hi : TrackInv st s) (hg : goodB W st s evs = true) : walkFrom W c (run W s evs).2 = true := by
  induction evs generalizing st s c with
  | nil => rfl
  | cons e es ih =>
    by_cases hd : s.dead = true
    · rw [run_dead W (e :: es) s hd]; rfl
    · have hd' : s.dead = false := by simpa using hd
      have hcs : c = s.cur := by rcases hc with h | h; exact absurd h hd; exact h
      simp only [goodB, Bool.and_eq_true] at hg
      obtain ⟨c', hw, hc'⟩ := step_walk W s e hd' (stepGood_ok W st s e hi hg.1)
      simp only [run]
      rw [walkFrom_append, hcs, hw]
      exact ih _ (step W s e).1 c' hc' (trackInv_next st s _) hg.2

/-- PARTIAL walk clause: every history exhibiting NEITHER recorded shape (and with well-formed notifications, no silent rewinds)
yields a valid walk from the start block — growth, reorganisations of any depth while current or while blocks wait in
the retry queue, fetch failures, updates and rewinds at any moment included. -/
theorem C09_walk_partial (W : World) (chain : List Nat) (start startH : Nat) (w : Watch) (evs : List Ev)
    (hg : goodB W (track0 (init W chain start startH w)) (init W chain start startH w) evs = true) :
    walkFrom W start (run W (init W chain start startH w) evs).2 = true :=
  walk_run W evs _ _ start (Or.inr rfl) (trackInv_0 _) hg

/-- In the current arm the walk clause is unconditional: whatever notification arrives (any block, any order, any fetch
outcome) and whenever the retry timer fires, a connected callback is only issued for a child of the current block and a
disconnected callback only for the current block. -/
theorem C09_walk_current_arm (W : World) (s : St) (b : Nat) (e : Ev) (hd : s.dead = false)
    (he : e = .connected b ∨ e = .tick ∨ e = .disconnected b (W.prev b)) :
    ∃ c, walkEnd W s.cur (step W s e).2 = some c ∧ ((step W s e).1.dead = true ∨ c = (step W s e).1.cur) := by
  apply step_walk W s e hd
  rcases he with h | h | h <;> subst h <;> simp [stepOkB]

/-- Every disconnect is reported: in the current arm, consuming the `Disconnected` that names the current block delivers
exactly the disconnected callback for it (with the current height) and moves the stamp to the notification's new tip —
whatever the chain source holds by then (the model never looks the parent up: `ntfn.ChainTip()`). -/
theorem C09_disconnect_reported (W : World) (s : St) (tip : Nat) (hd : s.dead = false) (hc : s.current = true) :
    (step W s (.disconnected s.cur tip)).2 = [Cb.disc s.curH s.cur] ∧
    (step W s (.disconnected s.cur tip)).1.cur = tip ∧
    (step W s (.disconnected s.cur tip)).1.curH = s.curH - 1 ∧
    discReported s.cur s.cur (step W s (.disconnected s.cur tip)).2 = true := by
  simp [step, hd, hc, discReported, isDiscOf]

/-- non-vacuity / sharpness of the oracle: silence on such a notification is rejected -/
example : discReported 6 6 [] = false := by decide
example : discReported 6 6 [.disc 5 6] = true := by decide
example : discReported 6 7 [] = true := by decide

/-- a reorganisation that stays above the rescan's height keeps its current block on the best chain (so the hypothesis of
`C09_walk_partial` can only be lost by a reorganisation reaching at/below it, or by growth never) -/
theorem C09_reorg_above_keeps_cur (s : St) (d : Nat) (bs : List Nat) (W : World)
    (hon : s.chain[s.curH]? = some s.cur) (habove : s.curH < s.chain.length - d) :
    (step W s (.reorg d bs)).1.chain[(step W s (.reorg d bs)).1.curH]? = some (step W s (.reorg d bs)).1.cur := by
  simp only [step]
  rw [List.getElem?_append_left (by simp; omega)]
  rw [List.getElem?_take]
  simp [habove, hon]

/-- the hypothesis is satisfiable on a non-trivial history: catch-up, subscribe, a reorganisation while current
(disconnect, then connect of the replacement), a rewind, catch-up again -/
def goodEvs : List Ev := [.step, .step, .step, .reorg 1 [6], .disconnected 3 2, .connected 6,
    .update { rewind := 1 }, .step, .step]

example : goodB Cex.W (track0 (init Cex.W [1, 2, 3] 1 0 {})) (init Cex.W [1, 2, 3] 1 0 {}) goodEvs = true := by decide

example : (run Cex.W (init Cex.W [1, 2, 3] 1 0 {}) goodEvs).2 =
    [.conn 1 2 [], .conn 2 3 [], .disc 2 3, .conn 2 6 [], .disc 2 6, .conn 2 6 []] := by decide

/-- and it is exactly what the counterexample violates -/
example : goodB Cex.W (track0 (init Cex.W [1, 2, 3] 1 0 {})) (init Cex.W [1, 2, 3] 1 0 {}) Cex.evs = false := by decide

/-- ... with the label the driver prints for it -/
example : firstShape Cex.W (track0 (init Cex.W [1, 2, 3] 1 0 {})) (init Cex.W [1, 2, 3] 1 0 {}) Cex.evs = .catchup := by decide

/-- the second counterexample is excluded by the hypothesis too, under the other label -/
example : goodB CexU.W (track0 (init CexU.W [1, 2, 3] 1 0 CexU.w)) (init CexU.W [1, 2, 3] 1 0 CexU.w) CexU.evs = false := by
  decide

example : firstShape CexU.W (track0 (init CexU.W [1, 2, 3] 1 0 CexU.w)) (init CexU.W [1, 2, 3] 1 0 CexU.w) CexU.evs
    = .unread := by decide

/-! ## no-miss -/

/-- FULL no-miss clause: whatever the history, every transaction the caller is owed with a connected block (pays a
watched script / spends a watched outpoint, including outpoints created by earlier matches and items added by updates from
the moment they took effect; from the first block at/after the start time on) is in that block's callback.
Hypotheses = ground-truth consistency only: filters are true BIP158 filters of a consistent world (`WorldOk`; false
positives allowed via `setFp`, false negatives impossible), watched inputs carry the script of the output they name. -/
theorem C09_no_miss (W : World) (hW : WorldOk W) (chain : List Nat) (start startH : Nat)
    (addrs : List Script) (inputs : List WIn) (evs : List Ev)
    (htr : Truthful W inputs) (hu : UpdTruthful W evs) :
    noMissFrom W (callerInit W start { addrs := addrs, inputs := inputs, wl := addrs ++ inputs.map (·.2) })
      (runObs W (init W chain start startH { addrs := addrs, inputs := inputs, wl := addrs ++ inputs.map (·.2) }) evs)
      = true := by
  apply no_miss_run W hW evs
  · exact ⟨fun _ h => h, fun _ h => h⟩
  · intro h; exact h
  · refine ⟨fun a h => ?_, fun wi h => ?_⟩
    · simp only [init, List.mem_append]; exact Or.inl h
    · simp only [init, List.mem_append, List.mem_map]; exact Or.inr ⟨wi, h, rfl⟩
  · exact htr
  · exact hu

namespace NM
/-- block 2 pays watched script 7 (tx 10, output 0); block 3 spends that outpoint (tx 11) -/
def W : World :=
  { prev := fun b => match b with | 2 => 1 | 3 => 2 | _ => 0,
    height := fun b => match b with | 2 => 1 | 3 => 2 | _ => 0,
    late := fun _ => true,
    txs := fun b => match b with
      | 2 => [⟨10, [], [7]⟩]
      | 3 => [⟨11, [⟨⟨10, 0⟩, 7⟩], [8]⟩]
      | _ => [] }
def evs : List Ev := [.step, .step, .update { addrs := [8], rewind := 1 }, .step, .step]
end NM

/-- non-vacuity: the hypotheses hold for a world in which the spend of an outpoint created earlier in the rescan must be
(and is) delivered; the rewind after adding script 8 re-delivers block 3's transaction -/
example : WorldOk NM.W := by
  intro b t i b' t' o ht hi ht' hid ho
  have hb : b = 3 := by
    rcases Nat.lt_or_ge b 4 with h | h
    · match b, h with
      | 0, _ | 1, _ => simp [NM.W] at ht
      | 2, _ => simp [NM.W] at ht; subst ht; simp at hi
      | 3, _ => rfl
    · match b, h with
      | b + 4, _ => simp [NM.W] at ht
  subst hb
  simp only [NM.W, List.mem_singleton] at ht
  subst ht
  simp only [List.mem_singleton] at hi
  subst hi
  have hb' : b' = 2 := by
    rcases Nat.lt_or_ge b' 4 with h | h
    · match b', h with
      | 0, _ | 1, _ => simp [NM.W] at ht'
      | 2, _ => rfl
      | 3, _ => simp [NM.W] at ht'; subst ht'; simp at hid
    · match b', h with
      | b' + 4, _ => simp [NM.W] at ht'
  subst hb'
  simp only [NM.W, List.mem_singleton] at ht'
  subst ht'
  simp at ho
  exact ho

example : (run NM.W (init NM.W [1, 2, 3] 1 0 { addrs := [7], wl := [7] }) NM.evs).2 =
    [.conn 1 2 [10], .conn 2 3 [11], .disc 2 3, .conn 2 3 [11]] := by decide

/-- the oracle is not trivially true: the same stream with the spend left out of block 3's callback fails it -/
example : noMissFrom NM.W (callerInit NM.W 1 { addrs := [7], wl := [7] })
    [.cb (.conn 1 2 [10]), .cb (.conn 2 3 [])] = false := by decide

/-! ## retry queue -/

/-- what the event itself does to the queue before anything is delivered from it -/
def queueAfter (e : Ev) (q : List Nat) : List Nat :=
  match e with
  | .connected b => q ++ [b]
  | .disconnected b _ => qRemove q b
  | _ => q

/-- C09_retry: while the rescan is current and blocks wait for a retry, every event delivers a PREFIX of the queue in queue
order (possibly nothing) and leaves the rest queued in order; a newly connected block goes to the back (it cannot overtake),
a disconnect only cuts a tail (`qRemove_prefix`), nothing else touches the queue. -/
theorem C09_retry (W : World) (s : St) (e : Ev) (hd : s.dead = false) (hc : s.current = true)
    (hq : s.queue ≠ []) :
    ∃ k, connIds (step W s e).2 = s.queue.take k ∧ (step W s e).1.queue = (queueAfter e s.queue).drop k := by
  obtain ⟨chain, fS, bS, fpS, cur, curH, scanning, current, queue, timer, w, dead⟩ := s
  simp only at hd hc hq
  subst hd; subst hc
  cases queue with
  | nil => exact absurd rfl hq
  | cons q0 qs =>
  cases e with
  | grow b => exact ⟨0, by simp [step, connIds, queueAfter]⟩
  | reorg d bs => exact ⟨0, by simp [step, connIds, queueAfter]⟩
  | setF l => exact ⟨0, by simp [step, connIds, queueAfter]⟩
  | setB l => exact ⟨0, by simp [step, connIds, queueAfter]⟩
  | setFp l => exact ⟨0, by simp [step, connIds, queueAfter]⟩
  | connected b => exact ⟨0, by simp [step, connIds, queueAfter]⟩
  | disconnected b tip =>
    refine ⟨0, ?_⟩
    simp only [step, Bool.not_true, Bool.or_self, Bool.false_eq_true, ↓reduceIte, queueAfter, List.drop_zero,
      List.take_zero]
    by_cases hb : (b != cur) = true
    · simp [hb, connIds]
    · simp [hb, connIds]
  | step => exact ⟨0, by simp [step, connIds, queueAfter]⟩
  | tick =>
    cases timer with
    | false => exact ⟨0, by simp [step, connIds, queueAfter]⟩
    | true =>
      have := retryLoop_spec W (q0 :: qs).length
        ⟨chain, fS, bS, fpS, cur, curH, scanning, true, q0 :: qs, false, w, false⟩ (Nat.le_refl _)
      simp only [step, Bool.not_true, Bool.or_self, Bool.false_eq_true, ↓reduceIte, queueAfter]
      exact this.1
  | update u =>
    refine ⟨0, ?_⟩
    have hdisc := rewindLoop_noConn W u.rewind u.quiet curH
      ⟨chain, fS, bS, fpS, cur, curH, scanning, true, q0 :: qs, timer, addWatch w u, false⟩ false
    simp only [step, Bool.false_eq_true, ↓reduceIte, applyUpdate, queueAfter, List.take_zero, List.drop_zero]
    by_cases hr : (u.rewind == 0) = true
    · simp [hr, connIds]
    · simp only [hr, Bool.false_eq_true, ↓reduceIte]
      generalize rewindLoop W u.rewind u.quiet curH
        ⟨chain, fS, bS, fpS, cur, curH, scanning, true, q0 :: qs, timer, addWatch w u, false⟩ false = x at hdisc
      obtain ⟨s', cbs, rew, failed⟩ := x
      obtain ⟨h1, h2⟩ := hdisc
      simp only at h1 h2
      cases failed with
      | true => simp [connIds_append, connIds, h1, h2]
      | false =>
        cases rew with
        | true => simp [connIds, h1, h2]
        | false => simp [connIds, h1, h2]

/-- a block whose filter fetch failed is queued (front of an empty queue) with the timer armed and nothing delivered -/
theorem C09_retry_enqueue (W : World) (s : St) (b : Nat) (hd : s.dead = false) (hc : s.current = true)
    (hq : s.queue = []) (hf : (handleConnected W s b).2.2 = .retry) :
    (step W s (.connected b)).2 = [] ∧ (step W s (.connected b)).1.queue = [b] ∧
    (step W s (.connected b)).1.timer = true := by
  have hs := handleConnected_shape W s b
  simp only [step, hd, hc, hq, Bool.not_true, Bool.or_self, Bool.false_eq_true, ↓reduceIte, List.isEmpty_nil]
  generalize handleConnected W s b = r at hs hf
  obtain ⟨s', cbs, hr⟩ := r
  simp only at hf
  subst hf
  obtain ⟨hqq, _, _, _, hcase⟩ := hs
  rcases hcase with ⟨h, _⟩ | ⟨_, hcb, _⟩
  · cases h
  · simp only at hcb hqq
    simp [hcb, hqq, hq]

/-- non-vacuity: a failed filter fetch queues block 2, block 3 is stashed behind it, the timer delivers 2 then 3 -/
example : (run Cex.W (init Cex.W [1] 1 0 { addrs := [7], wl := [7] })
    [.step, .grow 2, .grow 3, .setF [true], .connected 2, .connected 3, .tick]).2 = [.conn 1 2 [], .conn 2 3 []] := by
  decide

example : (run Cex.W (init Cex.W [1] 1 0 { addrs := [7], wl := [7] })
    [.step, .grow 2, .grow 3, .setF [true], .connected 2, .connected 3]).1.queue = [2, 3] := by decide

/-! ## source facts the model relies on -/

/-- Re-proved against the regenerated `Gen/Rescan.lean` on every run.  `catchUpChecksPrev = false` is F13 itself: a repair
flips it and forces `catchUp` (and `C09_walk_counterexample`) to be revisited. -/
theorem C09_source_facts :
    Gen.Rescan.connectedChecksPrev = true ∧ Gen.Rescan.connectedPrevCheckFirst = true ∧
    Gen.Rescan.catchUpChecksPrev = false ∧ Gen.Rescan.catchUpReadsByHeight = true ∧
    Gen.Rescan.catchUpSubscribeClearsQueue = true ∧ Gen.Rescan.disconnectedChecksCur = true ∧
    Gen.Rescan.stashWhenQueueNonEmpty = true ∧ Gen.Rescan.disconnectRemovesFromQueue = true ∧
    Gen.Rescan.retryPopsOnlyOnSuccess = true ∧ Gen.Rescan.queueRemoveTruncates = true ∧
    Gen.Rescan.paysAppendsInput = true ∧ Gen.Rescan.paysAppendsWatchList = true ∧
    Gen.Rescan.updateAppendsWatchList = true ∧ Gen.Rescan.retryIntervalMs = 100 ∧
    Gen.Rescan.connectedCurAdvanceAfterNotify = true := by decide

end Neutrino.Rescan
