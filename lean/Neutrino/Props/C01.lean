/-
C01 - the stored block-header chain is always fully valid, whatever peers send.
Property theorems only; the lemmas (loop invariant of `handleHeadersMsg`) live in
Neutrino/Lemmas/BlockMgr.lean.
-/
import Neutrino.Lemmas.BlockMgrInv
import Neutrino.Gen.BlockMgr
import Neutrino.Lemmas.HeaderListRefine
import Neutrino.Lemmas.BlockMgrCtx
namespace Neutrino.BM

/-- The invariant C01/C02/C19 share (DESIGN 6.6), C01 part: the stored chain is
well formed, no write ever landed at a file position other than the height it was
indexed under, and `headerList.back` is the stored tip whenever the handler is idle. -/
def InvC01 (c : Cfg) (s : State) : Prop :=
  chainLinkedValid c.tbl s.log = true ∧ s.corrupt = false ∧ ListAnchored s

/-- `BM.inv_step`: every event (headers from any peer, inv, new/done peer, peer height,
filter-header write, backlog request) preserves the invariant, for every validity/work
table, checkpoint list and window size ≥ 1.  The validity rule enters only as the table
`c.tbl.valid`, i.e. under the single hypothesis that a header's validity is a function
of the header and (through its hash chain) its own ancestors. -/
theorem BM.inv_step (c : Cfg) (hw : 1 ≤ c.win) (s : State) (e : Ev) (h : Inv1 c s) : Inv1 c (step c s e).1 :=
  inv1_step c hw s e h

/-- **C01, structural and validity clauses, every history**: after any sequence of events
from any number of peers the stored chain starts with genesis, every header names its
predecessor and is valid on its own branch (btcd's verdict for that header), no write was
misplaced, and the in-memory list is anchored on the stored tip. -/
theorem C01_chain_valid_partial (c : Cfg) (hw : 1 ≤ c.win) (peers : List Peer) (es : List Ev) :
    InvC01 c (run c (init c peers) es) := by
  have h := inv1_run c hw _ es (inv1_init c peers)
  exact ⟨h.good.chainLinkedValid, h.clean, h.anchored⟩

/-- **C01 in full, every history**: for every validity/work table, every ascending checkpoint
list, every window size ≥ 1, any number of peers and every event list, the stored chain is
`ChainValid` - genesis first, each header names its predecessor, each is valid on its own
branch, and the header at every checkpoint height IS the checkpoint.  (`chainValid` is the very
predicate the driver evaluates on the real store after every event.) -/
theorem C01_chain_valid (c : Cfg) (ok : CpsOk c.cps) (hw : 1 ≤ c.win) (peers : List Peer) (es : List Ev) :
    chainValid c (run c (init c peers) es).log = true := by
  have h := inv_run c ok hw _ es (inv_init c ok peers)
  simp only [chainValid, Bool.and_eq_true]
  exact ⟨h.good.chainLinkedValid, h.cps.cpsHold⟩

/-- `CheckpointsPassed`: in every reachable state `nextCheckpoint` is the first checkpoint above
the stored tip, every checkpoint at or below the tip is held, and the WHOLE in-memory header list
is the top of the stored chain (`FullAnch`; its back is the stored tip). -/
theorem C01_checkpoints_passed (c : Cfg) (ok : CpsOk c.cps) (hw : 1 ≤ c.win) (peers : List Peer) (es : List Ev) :
    let s := run c (init c peers) es
    s.ncp = findNextCp c.cps (tipHeight s.log) ∧ CpsHold c.cps s.log ∧ FullAnch s.log s.hl ∧ s.corrupt = false := by
  intro s
  have h := inv_run c ok hw _ es (inv_init c ok peers)
  exact ⟨h.ncp, h.cps, h.anch, h.clean⟩

/-- the same, spelled out for the events that go wrong in the field: `nextCheckpoint` is the first
checkpoint above the stored tip after EVERY event list - including `headers` messages whose batch
write fails (`Ev.headersFailWrite`: nothing stored, `nextCheckpoint` untouched even if the batch
had reached the checkpoint) and headers imported underneath followed by `ResetHeaderState`
(`Ev.importReset`: recomputed from the new tip, however many checkpoints the import crossed). -/
theorem C01_next_checkpoint_every_event (c : Cfg) (ok : CpsOk c.cps) (hw : 1 ≤ c.win) (peers : List Peer) (es : List Ev) :
    (run c (init c peers) es).ncp = findNextCp c.cps (tipHeight (run c (init c peers) es).log) :=
  (C01_checkpoints_passed c ok hw peers es).1

/-- the full shared invariant is inductive (`BM.inv_step` of DESIGN 6.6) -/
theorem BM.inv_step_full (c : Cfg) (ok : CpsOk c.cps) (hw : 1 ≤ c.win) (s : State) (e : Ev) (h : BM.Inv c s) :
    BM.Inv c (step c s e).1 := Neutrino.BM.inv_step c ok hw s e h

/-- abstract lookups: by height = position in the log, by hash = `idxOf`, tip = last. -/
theorem C01_lookups_agree (c : Cfg) (hw : 1 ≤ c.win) (peers : List Peer) (es : List Ev) :
    let s := run c (init c peers) es
    s.corrupt = false ∧ s.log ≠ [] ∧
    (∀ id i, idxOf s.log id = some i → s.log[i]? = some id) ∧
    s.log[tipHeight s.log]? = some (tipId s.log) := by
  intro s
  have h := inv1_run c hw _ es (inv1_init c peers)
  refine ⟨h.clean, h.good.ne_nil, fun id i hi => (idxOf_some hi).2, ?_⟩
  have hne := h.good.ne_nil
  have hpos := h.good.length_pos
  simp only [tipHeight, tipId]
  rw [List.getLast?_eq_getElem?]
  cases hl : (run c (init c peers) es).log[(run c (init c peers) es).log.length - 1]? with
  | none => rw [List.getElem?_eq_none_iff] at hl; omega
  | some x => simp

/-- only headers btcd accepts on their own branch are ever stored -/
theorem C01_only_valid_stored (c : Cfg) (hw : 1 ≤ c.win) (peers : List Peer) (es : List Ev) :
    ((run c (init c peers) es).log.drop 1).all c.tbl.valid = true := by
  have h := (inv1_run c hw _ es (inv1_init c peers)).good.chainLinkedValid
  cases hl : (run c (init c peers) es).log with
  | nil => simp
  | cons g rest =>
    rw [hl] at h
    simp only [chainLinkedValid, Bool.and_eq_true] at h
    simpa using h.2

/-- The facts regenerated from blockmanager.go on this run which the model relies on:
the reorg floor is `findPreviousHeaderCheckpoint(prevNode.Height+1)`, the checkpoint-mismatch
caller keeps the strict form, every early return that follows pushes re-anchors the list,
the reorg arm rolls back, then writes, then resets the list, `writeCFHeadersMsg` writes the
store before notifying, `rollBackToHeight` lowers the in-memory filter tip. -/
theorem C01_source_facts :
    Gen.BlockMgr.reorgFloorArg = "prevNode.Height + 1" ∧
    Gen.BlockMgr.mismatchFloorArg = "node.Height" ∧
    Gen.BlockMgr.reanchorOnSanityFailure = true ∧
    Gen.BlockMgr.reanchorOnCheckpointMismatch = true ∧
    Gen.BlockMgr.reanchorOnFailedWrite = true ∧
    Gen.BlockMgr.reorgOrder = ["rollBackToHeight", "WriteHeaders", "ResetHeaderState"] ∧
    Gen.BlockMgr.cfWriteBeforeNotify = true ∧
    Gen.BlockMgr.rollbackLowersFilterTip = true ∧
    Gen.BlockMgr.connectArmChecksSanity = true ∧
    Gen.BlockMgr.reorgArmUsesReorgList = true ∧
    Gen.BlockMgr.equalWorkReturns = true ∧
    Gen.BlockMgr.numMaxMemHeaders = 10000 := by decide

/-- **`Node.Ancestor` never returns a stale slot** (headerlist/header_list.go on the slot-indexed
ring of bounded_header_list.go): in a ring satisfying the ring invariant - which
`ResetHeaderState` establishes (`HL.reset_inv`) - the walk from the live node `k` behind the back
returns the live node of the asked height if it is at or below that node and among the last `len`
pushed, and `nil` otherwise.  (`HL.push_preserves_RInv` keeps the invariant, so this holds in every ring built by
reset / push: see `C01_headerlist_refines`.) -/
theorem C01_ancestor_correct (r : HL.Ring) (t top : Nat) (inv : HL.RInv r t top) (k h : Nat) (hk : k < r.len) :
    HL.ancestor r (some (HL.slotAt r.cap t k)) h =
      if h ≤ top - k ∧ top + 1 - r.len ≤ h then some (HL.slotAt r.cap t (top - h)) else none :=
  HL.ancestor_correct r t top inv k h hk

/-- **The bounded ring refines the live list - every operation sequence, every ring size ≥ 1,
every query.**  For every sequence of `ResetHeaderState` / `PushBack` operations that starts with
a reset and pushes consecutive heights, `Back`, `k`×`Prev` and `Ancestor(h)` from there return
exactly the node the abstract live list (`specStep`: newest first, at most `cap` nodes;
`specAncestor`: the live node of that height at or behind `k`) holds - in particular never a node
from a reused slot, never a node from before the last reset. -/
theorem C01_headerlist_refines (cap : Nat) (hc : 0 < cap) (ops : List HL.Op) (hne : ops ≠ [])
    (hwf : HL.WF none ops) (k h : Nat) :
    let r := HL.run { cap := cap } ops
    let l := HL.specRun cap [] ops
    r.tail.map (HL.nodeOf r) = l.head? ∧
    (HL.nthPrev r k r.tail).map (HL.nodeOf r) = l[k]? ∧
    (HL.ancestor r (HL.nthPrev r k r.tail) h).map (HL.nodeOf r) = HL.specAncestor l k h := by
  intro r l
  obtain ⟨t, top, a⟩ := HL.abs_run cap hc ops { cap := cap } [] none rfl hwf (fun _ e => by cases e) (Or.inl hne)
  exact HL.abs_queries a k h

example : HL.WF none [.reset 5 1, .push 6 2, .push 7 3, .push 8 4, .push 9 5] := by
  simp [HL.WF]

/-- **`ctx_resolves_own_branch`, every reachable state.**  The header context handed to btcd's
contextual checks resolves "ancestor at height `a`" through the in-memory list given to
`checkHeaderSanity` and then through the store by height (`resolve`; the list's own answers are
those of the abstract list by `C01_headerlist_refines`).  In every reachable state:
* connect arm - for the header that extends the stored tip the context denotes the stored chain
  at every height (the candidate's own ancestors);
* reorg arm - for a branch forking at the stored header `backHead` at height `bh`, after the
  branch headers `pre` have been validated, the context built on `reorgList` denotes the fork-point
  prefix of the stored chain followed by `pre` at every height, as long as `pre` fits the window.
This is what justifies reading "valid" in the validity table as "valid on its OWN branch" in
`C01_chain_valid`.  (`C01_ctx_connect_loop` is the connect arm for every later header of the same
message; `ctx_reorg_small_window_counterexample` shows the window proviso is needed.) -/
theorem C01_ctx_resolves_own_branch (c : Cfg) (ok : CpsOk c.cps) (hw : 1 ≤ c.win) (peers : List Peer) (es : List Ev) :
    let s := run c (init c peers) es
    (∀ a, a < s.log.length → resolve s.hl s.log a = s.log[a]?) ∧
    (∀ bh backHead pre, s.log[bh]? = some backHead → pre.length < c.win →
      ∀ a, a < (s.log.take (bh + 1) ++ pre).length →
        resolve (reorgList c.win backHead bh pre) s.log a = (s.log.take (bh + 1) ++ pre)[a]?) := by
  intro s
  have inv : BM.Inv c s := inv_run c ok hw _ es (inv_init c ok peers)
  refine ⟨?_, ?_⟩
  · intro a ha
    have li := LIf_of_inv c s {} [] inv rfl rfl
    have := (ctx_connect c s {} [] li a (by simpa using ha)).2 (by simp)
    simpa using this
  · intro bh backHead pre hbh hpw a ha
    exact ctx_reorg c.win s.log bh backHead pre hbh hpw a ha

/-- the connect arm inside the loop: every header of a message after the first is checked against
`stored chain ++ headers of this message already accepted` - never against anything else, and
completely while the in-memory list still reaches the stored tip -/
theorem C01_ctx_connect_loop (c : Cfg) (s : State) (l : Loc) (rest : List Nat) (li : LIf c s l rest) (a : Nat)
    (ha : a < (s.log ++ l.batch).length) :
    (∀ x, resolve s.hl s.log a = some x → (s.log ++ l.batch)[a]? = some x) ∧
    (l.batch.length ≤ s.hl.length → resolve s.hl s.log a = (s.log ++ l.batch)[a]?) :=
  ctx_connect c s l rest li a ha

example : resolve (reorgList 4 0 0 [3, 4]) [0, 1, 2] 1 = some 3 := by decide

/-! Non-vacuity: a concrete table, a fork, a reorganisation. -/
def exTbl : Tbl :=
  { parent := fun i => match i with | 0 => none | 1 => some 0 | 2 => some 1 | 3 => some 1 | 4 => some 3 | 5 => some 2 | _ => none
    work := fun _ => 2
    valid := fun i => i != 5
    fresh := fun _ => true }
def exCfg : Cfg := { tbl := exTbl, cps := [⟨1, 1⟩], win := 4 }
def exPeers : List Peer := [{ id := 1, cand := true }, { id := 2, cand := true }]

example : (run exCfg (init exCfg exPeers) [.newPeer 1, .headers 1 [1, 2], .headers 1 [3, 4]]).log = [0, 1, 3, 4] := by decide

/-! The store fall-back reads the store AS IT IS NOW.  `resolve` has no memory: it is a function of
the current in-memory list and the current log, and `C01_ctx_resolves_own_branch` holds in every
reachable state - in particular after "re-anchor, validate through the store, reorganise,
re-anchor": sync peer 1 is lost (the list is cut down to the tip `2`), a header is refused, peer 2's
heavier branch `[3, 4]` replaces `2`, peer 2 is lost (the list is `[4]` only).  The ancestor at the
reorganised height 2 is the new branch's `3`, not the abandoned `2`. -/
def exReanchor : List Ev :=
  [.newPeer 1, .headers 1 [1], .headers 1 [2], .donePeer 1, .headers 2 [5], .headers 2 [3, 4], .donePeer 2]

example : (run exCfg (init exCfg exPeers) exReanchor).log = [0, 1, 3, 4] ∧
    (run exCfg (init exCfg exPeers) exReanchor).hl = [⟨4, 3⟩] := by decide
example : resolve (run exCfg (init exCfg exPeers) exReanchor).hl (run exCfg (init exCfg exPeers) exReanchor).log 2 = some 3 := by decide
example : (run exCfg (init exCfg exPeers) (exReanchor.take 4)).hl = [⟨2, 2⟩] ∧
    resolve (run exCfg (init exCfg exPeers) (exReanchor.take 4)).hl (run exCfg (init exCfg exPeers) (exReanchor.take 4)).log 1 = some 1 := by decide
example : (run exCfg (init exCfg exPeers) [.newPeer 1, .headers 1 [1, 2], .headers 2 [5]]).log = [0, 1] := by decide
example : (run exCfg (init exCfg exPeers) [.newPeer 1, .headersFailWrite 1 [1, 2]]).log = [0] ∧
    (run exCfg (init exCfg exPeers) [.newPeer 1, .headersFailWrite 1 [1, 2]]).ncp = some ⟨1, 1⟩ := by decide
example : (run exCfg (init exCfg exPeers) [.importReset [1, 3, 4] 2]).log = [0, 1, 3, 4] ∧
    (run exCfg (init exCfg exPeers) [.importReset [1, 3, 4] 2]).ncp = none ∧
    (run exCfg (init exCfg exPeers) [.importReset [1, 3, 4] 2]).fst = 2 := by decide
example : CpsOk exCfg.cps := ⟨by simp [exCfg], by simp [exCfg]⟩
example : InvC01 exCfg (run exCfg (init exCfg exPeers) [.newPeer 1, .headers 1 [1, 2], .headers 1 [3, 4]]) :=
  C01_chain_valid_partial exCfg (by decide) exPeers _


/-- a flip-back history: A = 1,2 stored; B = 3,4,5 (fork at 1) heavier; A extended by 6,7 heavier again -/
def exTblFlip : Tbl :=
  { parent := fun i => match i with
      | 1 => some 0 | 2 => some 1 | 3 => some 1 | 4 => some 3 | 5 => some 4 | 6 => some 2 | 7 => some 6 | _ => none
    work := fun i => if i == 7 then 2 else 1
    valid := fun _ => true
    fresh := fun _ => true }
def exCfgFlip : Cfg := { tbl := exTblFlip, cps := [], win := 8 }
def exPeersFlip : List Peer := [{ id := 1, cand := true }]
def exFlip : List Ev := [.newPeer 1, .headers 1 [1, 2], .headers 1 [3, 4, 5], .headers 1 [1, 2, 6, 7]]

/-- **by-hash = exactly the stored chain, in every reachable state** - after any number of
reorganisations, branch flips back to a branch stored before, failed writes and imports: a hash
the client was ever given resolves iff its header is on the chain read by height, and then at the
position it is stored at.  (The differential run asks the real store for EVERY hash of the world
after every event and compares with this; the oracle clause is `lookupsAgree`.) -/
theorem C01_hash_resolves_iff_stored (c : Cfg) (hw : 1 ≤ c.win) (peers : List Peer) (es : List Ev) :
    let s := run c (init c peers) es
    s.corrupt = false ∧
    (∀ id, (idxOf s.log id).isSome = true ↔ id ∈ s.log) ∧
    (∀ id i, idxOf s.log id = some i → s.log[i]? = some id) := by
  intro s
  have h := inv1_run c hw _ es (inv1_init c peers)
  exact ⟨h.clean, fun id => idxOf_isSome_iff _ id, fun id i hi => (idxOf_some hi).2⟩

/-- the store as it is (no memo): whatever is written, rolled back and asked, in any order, a
hash resolves iff it is on the stored chain -/
theorem C01_store_resolves_iff_on_chain (s0 : MemoSt) (ops : List SOp) (id : Nat) :
    ((srun false s0 ops).resolve false id).isSome = true ↔ id ∈ (srun false s0 ops).log := by
  simp only [MemoSt.resolve, Bool.false_eq_true, ↓reduceIte]
  exact idxOf_isSome_iff _ id

/-- the full statement for a store with a look-up memo that roll-backs do not invalidate ... -/
def C01_memo_store_resolves_iff_on_chain : Prop :=
  ∀ (ops : List SOp) (id : Nat),
    ((srun true {} ops).resolve true id).isSome = true ↔ id ∈ (srun true {} ops).log

/-- ... is false: write header 1, ask for it, roll it back - it still resolves. -/
theorem C01_memo_survives_rollback_counterexample : ¬ C01_memo_store_resolves_iff_on_chain := by
  intro h
  have := h [.write [1], .ask 1, .rollback] 1
  revert this
  decide

example : (srun true {} [.write [1], .ask 1, .rollback, .write [2]]).log = [0, 2] ∧
    (srun true {} [.write [1], .ask 1, .rollback, .write [2]]).resolve true 1 = some 1 ∧
    (srun false {} [.write [1], .ask 1, .rollback, .write [2]]).resolve false 1 = none := by decide
example : (run exCfgFlip (init exCfgFlip exPeersFlip) exFlip).log = [0, 1, 2, 6, 7] ∧
    idxOf (run exCfgFlip (init exCfgFlip exPeersFlip) exFlip).log 3 = none := by decide

end Neutrino.BM
