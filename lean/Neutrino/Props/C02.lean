/-
C02 - reorganise only to a strictly heavier valid branch above the last checkpoint.
-/
import Neutrino.Lemmas.BlockMgrC02
namespace Neutrino.BM

/-- **The only way stored headers are replaced** (outside a checkpoint-failure rollback) is
the `adopt` decision of the non-connecting branch, and that decision is taken only if:
the branch's parent is stored (at `bh`), every header of the offered branch is valid on its
own branch, the fork point is at or above the newest checkpoint at or below the in-memory
tip (`findPreviousHeaderCheckpoint(prevNode.Height+1)`, F3 repaired), the branch's work is
STRICTLY greater than the work of the chain it displaces as walked by the code, and the
sender is the sync peer or the node is current.  Equal work, less work, an invalid header,
an unknown parent or a too-deep fork never yield `adopt`.  Every state, every table. -/
theorem C02_replace_guard (c : Cfg) (s : State) (p : Nat) (prev : Node) (h : Nat) (rest : List Nat) (bh : Nat)
    (hd : reorgDecision c s p prev h rest = .adopt bh) :
    (c.tbl.parent h).bind (idxOf s.log) = some bh ∧ (h :: rest).all c.tbl.valid = true ∧
    (findPrevCp c.cps (prev.height + 1)).height ≤ bh ∧
    knownWalk c.tbl s.log (prev.height - bh) s.hl prev.id 0 < sumWork c.tbl (h :: rest) ∧
    (s.sync = some p ∨ synced c s = true) := by
  obtain ⟨a, b, d, e, f⟩ := reorg_adopt_facts c s p prev h rest bh hd
  exact ⟨a, b, by omega, e, f⟩

/-- a reorganisation keeps the stored prefix up to the fork point and puts the first header of
the branch on top of it; nothing else of the store changes (every state with a good log). -/
theorem C02_reorg_shape (c : Cfg) (hw : 1 ≤ c.win) (s : State) (p h bh : Nat) (g : Good c.tbl s.log)
    (hc : s.corrupt = false) (hidx : (c.tbl.parent h).bind (idxOf s.log) = some bh) (hv : c.tbl.valid h = true) :
    (doReorg c s p h bh).1.log = s.log.take (bh + 1) ++ [h] ∧ Good c.tbl (doReorg c s p h bh).1.log := by
  refine ⟨?_, (doReorg_inv c hw s p h bh g hc hidx hv).1⟩
  simp only [doReorg, State.write, List.cons_ne_nil, ↓reduceIte, rollBackTo_log]

/-- **Else unchanged** (first non-connecting header of a message): when the decision is to
ignore or to disconnect, the handler returns with the store exactly as it was. -/
theorem C02_else_unchanged_partial (c : Cfg) (p : Nat) (s : State) (l : Loc) (ntf : List Ntfn) (prev : Node)
    (h : Nat) (rest : List Nat) (hhd : s.hl.head? = some prev) (hpar : c.tbl.parent h ≠ some prev.id)
    (hd : reorgDecision c s p prev h rest = .ignore ∨ reorgDecision c s p prev h rest = .disconnect) :
    (loop c p (h :: rest) s l ntf).1.log = s.log ∧ (loop c p (h :: rest) s l ntf).1.corrupt = s.corrupt := by
  simp only [loop, hhd, hpar, ↓reduceIte]
  rcases hd with hd | hd <;> simp [hd]

/-- a batch that is not linked internally changes nothing but the sender's fate -/
theorem C02_unlinked_unchanged (c : Cfg) (s : State) (p : Nat) (hs : List Nat) (h : linked c.tbl hs = false) :
    (handleHeaders c s p hs).1.log = s.log := by
  simp only [handleHeaders]
  by_cases h1 : hs = []
  · simp [h1]
  · simp [h1, h]

/-- The letter of the property for one `headers` event.  FALSE on the code as it is because of
finding F16 (`C02_work_monotone_counterexample` below is the same instance): kept visible. -/
def C02_replace_only_heavier : Prop :=
  ∀ (c : Cfg) (peers : List Peer) (es : List Ev) (p : Nat) (hs : List Nat), CpsOk c.cps → 1 ≤ c.win →
    let s := run c (init c peers) es
    let s' := (handleHeaders c s p hs).1
    let k := commonLen s.log s'.log
    s.log.drop k ≠ [] → isPrefix s'.log s.log = false →
      (s'.log.drop k).all c.tbl.valid = true ∧ sumWork c.tbl (s.log.drop k) < sumWork c.tbl (s'.log.drop k) ∧
      floorAt c.cps (tipHeight s.log) ≤ k - 1

/-- **Replace only by a heavier valid branch above the last checkpoint - every history.**
Whenever a `headers` message makes a previously stored header disappear, then either the result
is a mere prefix of what was stored (the checkpoint-failure rollback), or: the store keeps its
prefix up to a fork point `bh` at or above the newest checkpoint the chain has passed, the
headers put on top are a prefix `ext` of the branch `h :: suf` the message offered after the
headers already known, EVERY header of that offered branch is valid, the offered branch has
STRICTLY more work than the displaced suffix (the real displaced suffix: `knownWalk` equals it
because the whole in-memory list is the top of the stored chain), the sender is the sync peer or
the node is current, and the branch is stored in full unless it ran into the next checkpoint
(then the stored tip IS that checkpoint - finding F16).  Any table, checkpoints, window, peers. -/
theorem C02_replace_only_heavier_partial (c : Cfg) (ok : CpsOk c.cps) (hw : 1 ≤ c.win) (peers : List Peer)
    (es : List Ev) (p : Nat) (hs : List Nat) :
    let s := run c (init c peers) es
    let s' := (handleHeaders c s p hs).1
    s.log.drop (commonLen s.log s'.log) ≠ [] → ReplaceShape c p s hs s'.log := by
  intro s s' hrem
  exact replace_shape c ok hw p s (inv_run c ok hw _ es (inv_init c ok peers)) hs hrem

/-- in particular: when the offered branch is stored in full, the new suffix is valid, strictly
heavier than the displaced one, and forks at or above the newest passed checkpoint -/
theorem C02_replace_heavier_when_full (c : Cfg) (p : Nat) (s : State) (hs out : List Nat)
    (h : ReplaceShape c p s hs out) (hnp : isPrefix out s.log = false) :
    ∃ bh h' suf ext, out = s.log.take (bh + 1) ++ h' :: ext ∧ floorAt c.cps (tipHeight s.log) ≤ bh ∧
      (h' :: suf).all c.tbl.valid = true ∧ sumWork c.tbl (s.log.drop (bh + 1)) < sumWork c.tbl (h' :: suf) ∧
      (ext = suf ∨ ext.length < suf.length) := by
  rcases h with h | ⟨bh, h', suf, ext, pre, _, _, hout, _, _, _, _, hval, hfl, hwork, _, hcase⟩
  · rw [h] at hnp; cases hnp
  · refine ⟨bh, h', suf, ext, hout, hfl, hval, hwork, ?_⟩
    rcases hcase with h1 | ⟨h1, _⟩
    · exact Or.inl h1
    · exact Or.inr h1

/-- **Adopt in full - every history**: a fully valid, internally linked batch that extends the
stored tip and does not reach the next checkpoint's height is stored in full, whoever sent it. -/
theorem C02_adopt_full (c : Cfg) (ok : CpsOk c.cps) (hw : 1 ≤ c.win) (peers : List Peer) (es : List Ev)
    (p : Nat) (hs : List Nat) :
    let s := run c (init c peers) es
    linked c.tbl hs = true → hs.all c.tbl.valid = true →
    (∀ h, hs.head? = some h → c.tbl.parent h = some (tipId s.log)) →
    (∀ cp, s.ncp = some cp → tipHeight s.log + hs.length < cp.height) →
    (handleHeaders c s p hs).1.log = s.log ++ hs := by
  intro s hlk hval hconn hnocp
  have inv : Inv c s := inv_run c ok hw _ es (inv_init c ok peers)
  simp only [handleHeaders]
  by_cases h1 : hs = []
  · simp [h1]
  · simp only [h1, ↓reduceIte, hlk, Bool.not_true, Bool.false_eq_true]
    have := connect_run c ok hw p hs s {} [] hlk (LIf_of_inv c s {} hs inv rfl rfl) (by simpa using hconn)
    have hpos := inv.good.length_pos
    simp only [List.append_nil] at this
    rcases this with ⟨hinv, _⟩ | h2 | ⟨d, cp, _, hd, hn, hlen, _, _⟩ | ⟨d, cp, _, hd, hn, hlen, _⟩
    · rw [hval] at hinv; cases hinv
    · exact h2
    · have := hnocp cp hn; simp only [tipHeight] at this; omega
    · have := hnocp cp hn; simp only [tipHeight] at this; omega

/-- the same for a strictly heavier valid branch from a peer the node listens to: if the message
starts with the fork's first header and does not reach the next checkpoint, it is stored in full -/
theorem C02_adopt_full_reorg (c : Cfg) (ok : CpsOk c.cps) (hw : 1 ≤ c.win) (peers : List Peer) (es : List Ev)
    (p h : Nat) (suf : List Nat) (bh : Nat) :
    let s := run c (init c peers) es
    linked c.tbl (h :: suf) = true → c.tbl.parent h ≠ some (tipId s.log) →
    reorgDecision c s p ⟨tipId s.log, tipHeight s.log⟩ h suf = .adopt bh →
    (∀ cp, s.ncp = some cp → bh + 1 + suf.length < cp.height) →
    (handleHeaders c s p (h :: suf)).1.log = s.log.take (bh + 1) ++ h :: suf := by
  intro s hlk hpar hd hnocp
  have inv : Inv c s := inv_run c ok hw _ es (inv_init c ok peers)
  simp only [handleHeaders, List.cons_ne_nil, ↓reduceIte, hlk, Bool.not_true, Bool.false_eq_true]
  obtain ⟨hbh, hc⟩ := reorg_run c ok hw p h suf s {} [] inv rfl rfl hlk hpar bh hd
  obtain ⟨_, hval, _, _, _⟩ := reorg_adopt_facts c s p _ h suf bh hd
  have hsuf : suf.all c.tbl.valid = true := by
    simp only [List.all_cons, Bool.and_eq_true] at hval; exact hval.2
  have hlen : (s.log.take (bh + 1)).length = bh + 1 := by simp only [tipHeight] at hbh; simp; omega
  rcases hc with ⟨hinv, _⟩ | h2 | ⟨d, cp, _, hd', hn, hl, _, _⟩ | ⟨d, cp, _, hd', hn, hl, _⟩
  · rw [hsuf] at hinv; cases hinv
  · rw [h2, List.append_assoc]; rfl
  · have := hnocp cp hn; simp [hlen] at hl; omega
  · have := hnocp cp hn; simp [hlen] at hl; omega

/-- **The known work is the work of exactly the displaced suffix.**  In every state that satisfies
the invariant (so: in every reachable state, see the corollary), whatever the table - the blocks may
all have different work -, the number the reorganisation arm compares the offered branch with
(`knownWalk`: `prev.height - bh` steps back from the in-memory tip, list nodes while they last, then
the store) is the sum of the work of the stored headers at heights `bh + 1 .. tip`: neither the fork
block (height `bh`) nor anything below it is counted, and the tip is.  (`known_is_displaced` in
Lemmas/BlockMgrC02 is the same statement with the in-memory tip already identified.) -/
theorem C02_known_work_is_displaced_suffix (c : Cfg) (s : State) (inv : Inv c s) (prev : Node)
    (hhd : s.hl.head? = some prev) (bh : Nat) (hbh : bh < tipHeight s.log) :
    knownWalk c.tbl s.log (prev.height - bh) s.hl prev.id 0 = sumWork c.tbl (s.log.drop (bh + 1)) := by
  have h := inv.anch.head inv.good
  rw [hhd] at h
  have hp : prev = ⟨tipId s.log, tipHeight s.log⟩ := Option.some.inj h
  subst hp
  exact known_is_displaced c s inv bh hbh

/-- the same after every history -/
theorem C02_known_work_every_history (c : Cfg) (ok : CpsOk c.cps) (hw : 1 ≤ c.win) (peers : List Peer)
    (es : List Ev) (bh : Nat) :
    let s := run c (init c peers) es
    bh < tipHeight s.log →
    knownWalk c.tbl s.log (tipHeight s.log - bh) s.hl (tipId s.log) 0 = sumWork c.tbl (s.log.drop (bh + 1)) := by
  intro s hbh
  exact known_is_displaced c s (inv_run c ok hw _ es (inv_init c ok peers)) bh hbh

/-- **The decision is the comparison with the displaced suffix, in both directions.**  For a header
that is not stored, whose parent is stored at `bh` below the tip and at or above the newest passed
checkpoint, offered with a fully valid rest by a peer the node listens to: the branch is adopted
iff its work is STRICTLY greater than the work of the stored headers at heights `bh + 1 .. tip`,
ignored iff equal, and the peer disconnected iff less.  Every state satisfying the invariant. -/
theorem C02_decision_by_displaced_work (c : Cfg) (s : State) (inv : Inv c s) (p h : Nat) (rest : List Nat)
    (bh : Nat) (hl : s.sync = some p ∨ synced c s = true) (hnew : h ∉ s.log)
    (hpar : (c.tbl.parent h).bind (idxOf s.log) = some bh) (hbh : bh < tipHeight s.log)
    (hfl : (findPrevCp c.cps (tipHeight s.log + 1)).height ≤ bh) (hval : (h :: rest).all c.tbl.valid = true) :
    reorgDecision c s p ⟨tipId s.log, tipHeight s.log⟩ h rest =
      (if sumWork c.tbl (s.log.drop (bh + 1)) > sumWork c.tbl (h :: rest) then .disconnect
       else if sumWork c.tbl (s.log.drop (bh + 1)) = sumWork c.tbl (h :: rest) then .ignore
       else .adopt bh) := by
  have hk := known_is_displaced c s inv bh hbh
  have hne : s.log ≠ [] := by
    intro e; have := inv.good.length_pos; rw [e] at this; simp at this
  have htip : h ≠ tipId s.log := fun e => hnew (e ▸ tipId_mem hne)
  have hlisten : (s.sync != some p && !synced c s) = false := by
    rcases hl with h1 | h1
    · simp [h1]
    · simp [h1]
  have hfl' : ¬ bh < (findPrevCp c.cps (tipHeight s.log + 1)).height := by omega
  have hval' : (!(h :: rest).all c.tbl.valid) = false := by rw [hval]; rfl
  simp only [reorgDecision, hlisten, Bool.false_eq_true, ↓reduceIte, htip, hnew, hpar, hfl', hval', hk]

/-- The letter of "total work never decreases except on a checkpoint-failure rollback".
FALSE on the code as it is (finding F16); see the counterexample and the partial theorem. -/
def C02_work_monotone : Prop :=
  ∀ (c : Cfg) (peers : List Peer) (es : List Ev) (e : Ev), CpsOk c.cps → 1 ≤ c.win →
    let s := run c (init c peers) es
    isPrefix (step c s e).1.log s.log = false ∨ (step c s e).1.log = s.log →
    sumWork c.tbl s.log ≤ sumWork c.tbl (step c s e).1.log

theorem commonLen_take (a b : List Nat) : a.take (commonLen a b) = b.take (commonLen a b) := by
  induction a generalizing b with
  | nil => cases b <;> simp [commonLen]
  | cons x xs ih =>
    cases b with
    | nil => simp [commonLen]
    | cons y ys =>
      simp only [commonLen]
      by_cases h : x = y
      · simp [h, ih ys]
      · simp [h]

theorem sumWork_split (t : Tbl) (l : List Nat) (k : Nat) : sumWork t l = sumWork t (l.take k) + sumWork t (l.drop k) := by
  rw [← sumWork_append, List.take_append_drop]

theorem dropWhile_known (log pre : List Nat) (h : Nat) (suf : List Nat) (hp : ∀ x ∈ pre, x ∈ log) (hn : h ∉ log) :
    (pre ++ h :: suf).dropWhile (fun x => log.contains x) = h :: suf := by
  induction pre with
  | nil => simp [List.dropWhile, hn]
  | cons a as ih =>
    have ha : a ∈ log := hp a (List.mem_cons_self ..)
    have hc : log.contains a = true := by simp [ha]
    simp only [List.cons_append, List.dropWhile_cons, hc, ↓reduceIte]
    exact ih (fun x hx => hp x (List.mem_cons_of_mem _ hx))

theorem step_log_nonheaders (c : Cfg) (s : State) (e : Ev) (h : ∀ p hs, e ≠ .headers p hs)
    (h2 : ∀ p hs, e ≠ .headersFailWrite p hs) (h3 : ∀ b n, e ≠ .importReset b n) : (step c s e).1.log = s.log := by
  cases e with
  | newPeer p => simp only [step, newPeer]; split; rfl; exact (startSync_fields2 _).1
  | donePeer p => simp only [step, donePeer]; split; exact (startSync_fields2 _).1; rfl
  | peerHeight p k => rfl
  | inv p id => simp only [step, invMsg]; split; split; rfl; rfl; rfl
  | headers p hs => exact absurd rfl (h p hs)
  | cfWrite stop n okk => exact (cfWrite_fields2 s stop n okk).1
  | backlog k => rfl
  | headersFailWrite p hs => exact absurd rfl (h2 p hs)
  | importReset b n => exact absurd rfl (h3 b n)

/-- **Work never decreases, every history** - except on a checkpoint-failure rollback (the result
is a proper prefix of what was stored) and except in the recorded shape F16
(`truncatedShape`, the very predicate the driver tags `reorg-truncated-at-checkpoint`). -/
theorem C02_work_monotone_partial (c : Cfg) (ok : CpsOk c.cps) (hw : 1 ≤ c.win) (peers : List Peer) (es : List Ev) (e : Ev) :
    let s := run c (init c peers) es
    let s' := (step c s e).1
    (∀ p hs, e = .headers p hs → truncatedShape c hs s.log s'.log = false) →
    (∀ p hs, e ≠ .headersFailWrite p hs) →
    (isPrefix s'.log s.log = false ∨ s'.log = s.log) →
    sumWork c.tbl s.log ≤ sumWork c.tbl s'.log := by
  intro s s' htr hnf hnp
  have inv : Inv c s := inv_run c ok hw _ es (inv_init c ok peers)
  by_cases hh : ∃ p hs, e = .headers p hs
  · obtain ⟨p, hs, rfl⟩ := hh
    have htr' := htr p hs rfl
    have hs' : s' = (handleHeaders c s p hs).1 := rfl
    by_cases hrem : s.log.drop (commonLen s.log s'.log) = []
    · -- nothing removed: the old chain is a prefix of the new one
      have hk : s.log.length ≤ commonLen s.log s'.log := by
        have := congrArg List.length hrem; simp at this; omega
      have ht := commonLen_take s.log s'.log
      rw [List.take_of_length_le hk] at ht
      rw [sumWork_split c.tbl s'.log (commonLen s.log s'.log), ← ht]; omega
    · have hshape := replace_shape c ok hw p s inv hs (by rw [← hs']; exact hrem)
      rw [← hs'] at hshape
      rcases hshape with hpre | ⟨bh, h, suf, ext, pre, hlt', hk, hout, hpx, he, hp, hn, hval, hfl, hwork, _, hcase⟩
      · rcases hnp with h1 | h1
        · rw [hpre] at h1; cases h1
        · exfalso; apply hrem; rw [h1, commonLen_self]; simp
      · have hold := sumWork_split c.tbl s.log (bh + 1)
        rcases hcase with h1 | ⟨hlt, cp, hcm, hlen, htip⟩
        · rw [hout, h1, sumWork_append, hold]; omega
        · -- truncated at the next checkpoint: excluded by hypothesis
          exfalso
          have hdw := dropWhile_known s.log pre h suf hp hn
          have hadd : s'.log.drop (bh + 1) = h :: ext := by
            rw [hout]
            have : (s.log.take (bh + 1)).length = bh + 1 := by simp; omega
            exact List.drop_left' this
          have : truncatedShape c hs s.log s'.log = true := by
            simp only [truncatedShape, hk, hadd, he, hdw, Bool.and_eq_true, bne_iff_ne, ne_eq,
              List.cons_ne_nil, not_false_eq_true, decide_eq_true_eq, isPrefix, beq_self_eq_true, true_and,
              List.length_cons, List.any_eq_true]
            refine ⟨⟨⟨hpx, by omega⟩, hwork⟩, cp, hcm, ?_⟩
            simp [hlen, htip]
          rw [this] at htr'; cases htr'
  · by_cases hi : ∃ b n, e = .importReset b n
    · -- an import only appends
      obtain ⟨b, n, rfl⟩ := hi
      have : s'.log = if chainOk c s.log b then s.log ++ b else s.log := rfl
      rw [this]
      split
      · rw [sumWork_append]; omega
      · exact Nat.le_refl _
    · have : s'.log = s.log := step_log_nonheaders c s e (fun p hs he => hh ⟨p, hs, he⟩) hnf
        (fun b n he => hi ⟨b, n, he⟩)
      rw [this]; exact Nat.le_refl _

/-! ### the F16 instance -/
def f16Tbl : Tbl :=
  { parent := fun i => match i with | 1 => some 0 | 3 => some 0 | 4 => some 3 | 5 => some 4 | _ => none
    work := fun i => match i with | 1 => 10 | 5 => 20 | _ => 2
    valid := fun _ => true, fresh := fun _ => true
    height := fun i => match i with | 1 => 1 | 3 => 1 | 4 => 2 | 5 => 3 | _ => 0 }
/-- stored `[0, 1]` (work 2 + 10), next checkpoint at height 2 = header 4; the sync peer offers
`[3, 4, 5]` (work 2 + 2 + 20 > 10): the reorganisation is decided on 24 > 10, but the loop breaks
at the checkpoint and `[0, 3, 4]` (work 6) replaces `[0, 1]` (work 12). -/
def f16Cfg : Cfg := { tbl := f16Tbl, cps := [⟨2, 4⟩], win := 8 }
def f16Peers : List Peer := [{ id := 1, cand := true }]
def f16Es : List Ev := [.newPeer 1, .headers 1 [1]]

theorem f16_cpsOk : CpsOk f16Cfg.cps := ⟨by simp [f16Cfg], by simp [f16Cfg]⟩

example : (run f16Cfg (init f16Cfg f16Peers) f16Es).log = [0, 1] := by decide
example : (step f16Cfg (run f16Cfg (init f16Cfg f16Peers) f16Es) (.headers 1 [3, 4, 5])).1.log = [0, 3, 4] := by decide
example : truncatedShape f16Cfg [3, 4, 5] [0, 1] [0, 3, 4] = true := by decide

/-- **`C02_work_monotone` is false on the code as it is (F16).** -/
theorem C02_work_monotone_counterexample : ¬ C02_work_monotone := by
  intro h
  have := h f16Cfg f16Peers f16Es (.headers 1 [3, 4, 5]) f16_cpsOk (by decide) (Or.inl (by decide))
  exact absurd this (by decide)

/-- **`C02_replace_only_heavier` is false on the code as it is (same instance).** -/
theorem C02_replace_only_heavier_counterexample : ¬ C02_replace_only_heavier := by
  intro h
  have := h f16Cfg f16Peers f16Es 1 [3, 4, 5] f16_cpsOk (by decide) (by decide) (by decide)
  exact absurd this.2.1 (by decide)

/-! Non-vacuity -/
def exTbl2 : Tbl :=
  { parent := fun i => match i with | 0 => none | 1 => some 0 | 2 => some 1 | 3 => some 1 | 4 => some 3 | 5 => some 1 | _ => none
    work := fun _ => 2, valid := fun _ => true, fresh := fun _ => true }
def exCfg2 : Cfg := { tbl := exTbl2, cps := [], win := 8 }
def exS : State := run exCfg2 (init exCfg2 [{ id := 1, cand := true }]) [.newPeer 1, .headers 1 [1, 2]]

example : reorgDecision exCfg2 exS 1 ⟨2, 2⟩ 3 [4] = .adopt 1 := by decide      -- heavier: adopted
example : reorgDecision exCfg2 exS 1 ⟨2, 2⟩ 5 [] = .ignore := by decide        -- equal work: ignored
example : (step exCfg2 exS (.headers 1 [3, 4])).1.log = [0, 1, 3, 4] := by decide
example : (step exCfg2 exS (.headers 1 [5])).1.log = [0, 1, 2] := by decide

/-! Non-constant work: stored `[0, 1, 2, 3]` with work 2, 2, 8, 3 (a retarget between 1 and 2, a
lighter tip).  Forking at height 1 (fork block: work 2) the displaced suffix `[2, 3]` weighs 11 -
not 10 = work(1) + work(2), the sum over the window shifted down by one block, and not 13. -/
def exTbl3 : Tbl :=
  { parent := fun i => match i with | 1 => some 0 | 2 => some 1 | 3 => some 2 | 4 => some 1 | 5 => some 1 | 6 => some 1 | _ => none
    work := fun i => match i with | 2 => 8 | 3 => 3 | 4 => 11 | 5 => 12 | 6 => 10 | _ => 2
    valid := fun _ => true, fresh := fun _ => true }
def exCfg3 : Cfg := { tbl := exTbl3, cps := [], win := 8 }
def exS3 : State := run exCfg3 (init exCfg3 [{ id := 1, cand := true }]) [.newPeer 1, .headers 1 [1, 2, 3]]

example : exS3.log = [0, 1, 2, 3] ∧ exS3.hl.head? = some ⟨3, 3⟩ := by decide
example : knownWalk exCfg3.tbl exS3.log (3 - 1) exS3.hl 3 0 = 11 := by decide
example : sumWork exCfg3.tbl (exS3.log.drop (1 + 1)) = 11 := by decide
example : reorgDecision exCfg3 exS3 1 ⟨3, 3⟩ 4 [] = .ignore := by decide          -- 11 = 11: a tie
example : reorgDecision exCfg3 exS3 1 ⟨3, 3⟩ 5 [] = .adopt 1 := by decide        -- 12 > 11
example : reorgDecision exCfg3 exS3 1 ⟨3, 3⟩ 6 [] = .disconnect := by decide     -- 10 < 11 (but = 2 + 8)
example : (step exCfg3 exS3 (.headers 1 [6])).1.log = [0, 1, 2, 3] := by decide
example : (step exCfg3 exS3 (.headers 1 [5])).1.log = [0, 1, 5] := by decide


/-- **Replaced means gone.**  In every reachable state, whatever the event (a reorganisation, a
flip back to a branch that was stored before, a checkpoint-failure rollback, a failed write, an
import): a header that is no longer on the accepted chain after the event does not resolve by hash
any more, and a header that is on it resolves at its position - the by-hash index is exactly the
accepted chain, so a later message never finds a "known" header or a fork point that is not
stored (oracle clause `displaced-header-still-resolves`; a store whose look-up memo outlives the
roll-back falsifies it: `C01_memo_survives_rollback_counterexample`). -/
theorem C02_displaced_do_not_resolve (c : Cfg) (peers : List Peer) (es : List Ev) (e : Ev) :
    let s := run c (init c peers) es
    let s' := (step c s e).1
    (∀ id, id ∈ s.log → id ∉ s'.log → idxOf s'.log id = none) ∧
    (∀ id, id ∈ s'.log → (idxOf s'.log id).isSome = true) := by
  intro s s'
  refine ⟨fun id _ hn => ?_, fun id hm => (idxOf_isSome_iff _ id).2 hm⟩
  cases h : idxOf s'.log id with
  | none => rfl
  | some i => exact absurd ((idxOf_isSome_iff _ id).1 (by simp [h])) hn

/-- a flip-back history in the model: A = 1,2; B = 3,4,5 heavier; A extended by 6,7 heavier again,
re-offered from height 1 (the stored prefix is skipped as known): adopted in full, B gone. -/
def flipTbl : Tbl :=
  { parent := fun i => match i with
      | 1 => some 0 | 2 => some 1 | 3 => some 1 | 4 => some 3 | 5 => some 4 | 6 => some 2 | 7 => some 6 | _ => none
    work := fun i => if i == 7 then 2 else 1
    valid := fun _ => true
    fresh := fun _ => true }
def flipCfg : Cfg := { tbl := flipTbl, cps := [], win := 8 }
def flipEs : List Ev := [.newPeer 1, .headers 1 [1, 2], .headers 1 [3, 4, 5], .headers 1 [1, 2, 6, 7]]
example : (run flipCfg (init flipCfg [{ id := 1, cand := true }]) (flipEs.take 3)).log = [0, 1, 3, 4, 5] := by decide
example : (run flipCfg (init flipCfg [{ id := 1, cand := true }]) flipEs).log = [0, 1, 2, 6, 7] ∧
    idxOf (run flipCfg (init flipCfg [{ id := 1, cand := true }]) flipEs).log 4 = none := by decide

end Neutrino.BM
