import Neutrino.Spec.BlockMgr
namespace Neutrino.BM

/-- placeholder until step 3: the initial state holds only the genesis header -/
theorem C02_init_log (c : Cfg) (peers : List Peer) : (init c peers).log = [0] := rfl

end Neutrino.BM
