/-
C02 - reorganise only to a strictly heavier valid branch above the last checkpoint.
-/
import Neutrino.Lemmas.BlockMgr
namespace Neutrino.BM

/-- **The only way stored headers are replaced** (outside a checkpoint-failure rollback) is
the `adopt` decision of the non-connecting branch, and that decision is taken only if:
the branch's parent is stored (at `bh`), every header of the offered branch is valid on its
own branch, the fork point is at or above the newest checkpoint at or below the in-memory
tip (`findPreviousHeaderCheckpoint(prevNode.Height+1)`, F3 repaired), the branch's work is
STRICTLY greater than the work of the chain it displaces as walked by the code, and the
sender is the sync peer or the node is current.  Equal work, less work, an invalid header,
an unknown parent or a too-deep fork never yield `adopt`.  Every state, every table. -/
theorem C02_replace_guard (c : Cfg) (s : State) (p : Nat) (prev : Node) (h : Nat) (rest : List Nat) (bh : Nat)
    (hd : reorgDecision c s p prev h rest = .adopt bh) :
    (c.tbl.parent h).bind (idxOf s.log) = some bh ∧ (h :: rest).all c.tbl.valid = true ∧
    (findPrevCp c.cps (prev.height + 1)).height ≤ bh ∧
    knownWalk c.tbl s.log (prev.height - bh) s.hl prev.id 0 < sumWork c.tbl (h :: rest) ∧
    (s.sync = some p ∨ synced c s = true) := by
  obtain ⟨a, b, d, e, f⟩ := reorg_adopt_facts c s p prev h rest bh hd
  exact ⟨a, b, by omega, e, f⟩

/-- a reorganisation keeps the stored prefix up to the fork point and puts the first header of
the branch on top of it; nothing else of the store changes (every state with a good log). -/
theorem C02_reorg_shape (c : Cfg) (hw : 1 ≤ c.win) (s : State) (p h bh : Nat) (g : Good c.tbl s.log)
    (hc : s.corrupt = false) (hidx : (c.tbl.parent h).bind (idxOf s.log) = some bh) (hv : c.tbl.valid h = true) :
    (doReorg c s p h bh).1.log = s.log.take (bh + 1) ++ [h] ∧ Good c.tbl (doReorg c s p h bh).1.log := by
  refine ⟨?_, (doReorg_inv c hw s p h bh g hc hidx hv).1⟩
  simp only [doReorg, State.write, List.cons_ne_nil, ↓reduceIte, rollBackTo_log]

/-- **Else unchanged** (first non-connecting header of a message): when the decision is to
ignore or to disconnect, the handler returns with the store exactly as it was. -/
theorem C02_else_unchanged_partial (c : Cfg) (p : Nat) (s : State) (l : Loc) (ntf : List Ntfn) (prev : Node)
    (h : Nat) (rest : List Nat) (hhd : s.hl.head? = some prev) (hpar : c.tbl.parent h ≠ some prev.id)
    (hd : reorgDecision c s p prev h rest = .ignore ∨ reorgDecision c s p prev h rest = .disconnect) :
    (loop c p (h :: rest) s l ntf).1.log = s.log ∧ (loop c p (h :: rest) s l ntf).1.corrupt = s.corrupt := by
  simp only [loop, hhd, hpar, ↓reduceIte]
  rcases hd with hd | hd <;> simp [hd]

/-- a batch that is not linked internally changes nothing but the sender's fate -/
theorem C02_unlinked_unchanged (c : Cfg) (s : State) (p : Nat) (hs : List Nat) (h : linked c.tbl hs = false) :
    (handleHeaders c s p hs).1.log = s.log := by
  simp only [handleHeaders]
  by_cases h1 : hs = []
  · simp [h1]
  · simp [h1, h]

/-- Full statements not yet proved in Lean (checked on every run by the oracles `c02Store` /
`expectAfter` on the real system's dumps).  `knownWalk = work of the displaced suffix` needs the
whole in-memory list to be the top of the log (a stronger `ListAnchored`), `adopt_full` a second
induction over the loop. -/
def C02_replace_only_heavier : Prop :=
  ∀ (c : Cfg) (peers : List Peer) (es : List Ev) (p : Nat) (hs : List Nat), 1 ≤ c.win →
    let s := run c (init c peers) es
    let s' := (handleHeaders c s p hs).1
    let k := commonLen s.log s'.log
    s.log.drop k ≠ [] → ¬ excusedRollback c hs s.log s'.log = true →
      (s'.log.drop k).all c.tbl.valid = true ∧ sumWork c.tbl (s.log.drop k) < sumWork c.tbl (s'.log.drop k) ∧
      floorAt c.cps (tipHeight s.log) ≤ k - 1

def C02_adopt_full : Prop :=
  ∀ (c : Cfg) (peers : List Peer) (es : List Ev) (p : Nat) (hs : List Nat), 1 ≤ c.win →
    let s := run c (init c peers) es
    linked c.tbl hs = true → hs.all c.tbl.valid = true → (∀ h, hs.head? = some h → c.tbl.parent h = some (tipId s.log)) →
    s.ncp = none → (handleHeaders c s p hs).1.log = s.log ++ hs

/-- NOTE: false by the letter on the code as it is (finding F16, known-findings.txt
`reorg-truncated-at-checkpoint`): the reorg arm weighs the whole rest of the message but the
loop breaks at the next checkpoint, so the stored part of a heavier branch can be lighter than
what it displaced.  Kept as the full statement; the oracle reports that shape separately. -/
def C02_work_monotone : Prop :=
  ∀ (c : Cfg) (peers : List Peer) (es : List Ev) (e : Ev), 1 ≤ c.win →
    let s := run c (init c peers) es
    (∀ p hs, e = .headers p hs → ¬ cpMismatch c hs = true) →
    sumWork c.tbl s.log ≤ sumWork c.tbl (step c s e).1.log

/-! Non-vacuity -/
def exTbl2 : Tbl :=
  { parent := fun i => match i with | 0 => none | 1 => some 0 | 2 => some 1 | 3 => some 1 | 4 => some 3 | 5 => some 1 | _ => none
    work := fun _ => 2, valid := fun _ => true, fresh := fun _ => true }
def exCfg2 : Cfg := { tbl := exTbl2, cps := [], win := 8 }
def exS : State := run exCfg2 (init exCfg2 [{ id := 1, cand := true }]) [.newPeer 1, .headers 1 [1, 2]]

example : reorgDecision exCfg2 exS 1 ⟨2, 2⟩ 3 [4] = .adopt 1 := by decide      -- heavier: adopted
example : reorgDecision exCfg2 exS 1 ⟨2, 2⟩ 5 [] = .ignore := by decide        -- equal work: ignored
example : (step exCfg2 exS (.headers 1 [3, 4])).1.log = [0, 1, 3, 4] := by decide
example : (step exCfg2 exS (.headers 1 [5])).1.log = [0, 1, 2] := by decide

end Neutrino.BM
