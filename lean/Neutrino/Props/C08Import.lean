/-
C08, header-import arm — a crash at any instant of a header import leaves the
header stores recoverable and un-torn.  The import's write phase is the sequence
of store operations `importOps` (Spec/ImportCrash.lean); lemmas in
Lemmas/ImportCrash.lean; everything rests on `C08_recover`.
-/
import Neutrino.Lemmas.ImportCrash
import Neutrino.Gen.Import
namespace Neutrino.Store

/-- **Any sequence of store operations, killed inside any one of them** (the
reorganisation and import arms are such sequences): see `ops_recover`. -/
theorem C08_sequence_recover (d : Durable) (l : Log) (ops : List Op) (i k torn : Nat) (op : Op)
    (hrep : Rep d l) (hc : ContractSeq l ops) (hop : ops[i]? = some op) :
    let r := exec (runSeq d (ops.take i)) op (.crash k torn)
    (r.2 = .crashed →
        ∃ d' lx, reopen r.1 = some d' ∧ Rep d' lx ∧ lx.filters.length ≤ lx.blocks.length ∧
          (match op with
           | .rollto _ => Between (applySeq l (ops.take i)) (applySeq l (ops.take (i + 1))) lx
           | _ => lx = applySeq l (ops.take i) ∨ lx = applySeq l (ops.take (i + 1)))) ∧
    (r.2 ≠ .crashed → Rep r.1 (applySeq l (ops.take (i + 1)))) :=
  ops_recover d l ops i k torn op hrep hc hop

/-- **Every crash point of a header import.**  `d` is any consistent durable
state (representing any log `l`); the import appends the new block ids `nb`
(distinct, not yet stored) and as many new filter-header ids `nf`, in batches of
`bs`, block batch then filter batch.  The process dies at durable step `k` of
the `i`-th store call of the import (file write after `torn` bytes, truncate,
or index transaction), the calls before it having completed.  Then the restart
succeeds, and the reopened stores represent exactly — nothing torn, shifted or
unreadable — the old contents plus WHOLE BATCHES of the new headers: `⌈j/2⌉`
block batches and `⌊j/2⌋` filter batches for `j = i` (the interrupted call left
no trace) or `j = i+1` (it is complete); the filter-header chain is not ahead of
the block-header chain, and at most one batch behind it. -/
theorem C08_import_recover (d : Durable) (l : Log) (bs : Nat) (nb nf : List Nat) (i k torn : Nat) (op : Op)
    (hbs : bs ≥ 1) (hrep : Rep d l) (hnd : nb.Nodup) (hfresh : ∀ x ∈ nb, x ∉ l.blocks) (hlen : nf.length = nb.length)
    (hop : (importOps bs nb.length nb nf)[i]? = some op) :
    let ops := importOps bs nb.length nb nf
    let r := exec (runSeq d (ops.take i)) op (.crash k torn)
    (r.2 = .crashed →
        ∃ d' lx j, reopen r.1 = some d' ∧ Rep d' lx ∧ (j = i ∨ j = i + 1) ∧
          lx = { blocks := l.blocks ++ nb.take (bs * ((j + 1) / 2)), filters := l.filters ++ nf.take (bs * (j / 2)) } ∧
          lx.filters.length ≤ lx.blocks.length ∧ lx.blocks.length ≤ lx.filters.length + bs +
            (l.blocks.length - l.filters.length)) ∧
    (r.2 ≠ .crashed →
        Rep r.1 { blocks := l.blocks ++ nb.take (bs * ((i + 2) / 2)), filters := l.filters ++ nf.take (bs * ((i + 1) / 2)) }) := by
  intro ops r
  have hc : ContractSeq l ops :=
    importOps_contract bs nb.length l nb nf hnd hfresh (Nat.le_of_eq hlen) hrep.fle
  have hshape := fun j => applySeq_importOps_take bs hbs nb.length l nb nf j (Nat.le_refl _) hlen
  have h := ops_recover d l ops i k torn op hrep hc hop
  have hw : (∃ ids, op = .wb ids) ∨ (∃ ids, op = .wf ids) :=
    importOps_wbwf bs nb.length nb nf op (List.mem_of_getElem? hop)
  refine ⟨fun hcr => ?_, fun hn => ?_⟩
  · obtain ⟨d', lx, h1, h2, h3, h4⟩ := h.1 hcr
    have h4' : lx = applySeq l (ops.take i) ∨ lx = applySeq l (ops.take (i + 1)) := by
      rcases hw with ⟨ids, rfl⟩ | ⟨ids, rfl⟩ <;> exact h4
    have bound : ∀ j, (l.blocks ++ nb.take (bs * ((j + 1) / 2))).length ≤
        (l.filters ++ nf.take (bs * (j / 2))).length + bs + (l.blocks.length - l.filters.length) := by
      intro j
      simp only [List.length_append, List.length_take]
      have := hrep.fle
      have e : bs * ((j + 1) / 2) ≤ bs * (j / 2) + bs := by
        have : (j + 1) / 2 ≤ j / 2 + 1 := by omega
        calc bs * ((j + 1) / 2) ≤ bs * (j / 2 + 1) := Nat.mul_le_mul_left _ this
          _ = bs * (j / 2) + bs := by rw [Nat.mul_add, Nat.mul_one]
      omega
    rcases h4' with h4' | h4'
    · exact ⟨d', lx, i, h1, h2, Or.inl rfl, by rw [h4', hshape i], h3, by rw [h4', hshape i]; exact bound i⟩
    · exact ⟨d', lx, i + 1, h1, h2, Or.inr rfl, by rw [h4', hshape (i + 1)], h3,
        by rw [h4', hshape (i + 1)]; exact bound (i + 1)⟩
  · have := h.2 hn
    rw [hshape (i + 1)] at this
    exact this

/-- the order of the import's store calls the model relies on, regenerated from
chainimport/headers_import.go on this run: per batch the block store is written
before the filter store (`writeHeadersToTargetStores`), and the loop moves on to
the next batch only after both (`batchStart = batchEnd + 1`). -/
theorem C08_import_source_shape :
    Gen.Import.writeOrder = ["block.WriteHeaders", "filter.WriteHeaders", "block.RollbackBlockHeaders"] ∧
    Gen.Import.loopNext = "batchEnd + 1" ∧ Gen.Import.rollbackInFilterFailure = true := by decide

/-! Non-vacuity and the finding `import-crash-not-resumable` in the model: stores
at genesis, five new headers in batches of two; the process dies inside the
filter store's file write of the first batch (global step 2 = step 0 of the
second store call, 40 bytes written).  The restart succeeds, the block store
holds the first batch, the filter store does not — consistent, but the block
store is now AHEAD, the state from which the importer refuses every honest file
(`Neutrino.Import.C14_block_ahead_always_fails`). -/
example : importOps 2 5 [1, 2, 3, 4, 5] [1, 2, 3, 4, 5] =
    [.wb [1, 2], .wf [1, 2], .wb [3, 4], .wf [3, 4], .wb [5], .wf [5]] := by decide
example : (exec (runSeq init [.wb [1, 2]]) (.wf [1, 2]) (.crash 0 40)).2 = .crashed := by decide
example : (reopen (exec (runSeq init [.wb [1, 2]]) (.wf [1, 2]) (.crash 0 40)).1).map (fun d => (d.bf.ents, d.ff.ents)) =
    some ([0, 1, 2], [0]) := by decide
example : runCrash init (importOps 2 5 [1, 2, 3, 4, 5] [1, 2, 3, 4, 5]) 2 40 =
    ((exec (runSeq init [.wb [1, 2]]) (.wf [1, 2]) (.crash 0 40)).1, true) := by decide
example : Rep init Log.init ∧ [1, 2, 3, 4, 5].Nodup ∧ ∀ x ∈ [1, 2, 3, 4, 5], x ∉ Log.init.blocks := by
  refine ⟨rep_init, by decide, by decide⟩

end Neutrino.Store
