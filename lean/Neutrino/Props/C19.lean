/-
C19 - emitted chain events mirror how the committed chain changed.
-/
import Neutrino.Lemmas.BlockMgr
namespace Neutrino.BM

/-- **Connected events**: a successful filter-header write moves the store's tip and then the
in-memory tip to the stop block and announces exactly the `n` blocks it covers, in increasing
height order, each after the store write (`fstAtEmit` is the new tip). -/
theorem C19_connected (s : State) (stop n endH : Nat) (hi : idxOf s.log stop = some endH)
    (hn : n ≠ 0) (hle : n - 1 ≤ endH) :
    (cfWrite s stop n true).1.fst = endH ∧ (cfWrite s stop n true).1.ftip = ⟨stop, endH⟩ ∧
    (cfWrite s stop n true).1.log = s.log ∧
    (cfWrite s stop n true).2.ntf = connRange s.log endH (endH - (n - 1)) n := by
  have h2 : ¬ (n - 1 > endH) := by omega
  simp [cfWrite, hi, hn, h2]

/-- the events of a write are ascending, consecutive, and name the stored blocks -/
theorem C19_connected_ascending (log : List Nat) (f start n : Nat) :
    connRange log f start n = (List.range n).map (fun i => .conn (log.getD (start + i) 0) (start + i) f) := by
  induction n generalizing start with
  | zero => rfl
  | succ k ih =>
    simp only [connRange, ih, List.range_succ_eq_map, List.map_cons, List.map_map, Nat.add_zero]
    congr 1
    apply List.map_congr_left
    intro i _
    simp only [Function.comp]
    have : start + 1 + i = start + (i + 1) := by omega
    rw [this]

/-- a failed write (wrong previous filter header, unknown stop block) announces nothing -/
theorem C19_failed_write_silent (s : State) (stop n : Nat) (ok : Bool)
    (h : (cfWrite s stop n ok).2.res = .err) : (cfWrite s stop n ok).2.ntf = [] ∧ (cfWrite s stop n ok).1.fst = s.fst := by
  cases ok with
  | false => simp [cfWrite]
  | true =>
    cases hi : idxOf s.log stop with
    | none => simp [cfWrite, hi]
    | some endH =>
      by_cases hc : (decide (n = 0) || decide (n - 1 > endH)) = true
      · simp [cfWrite, hi, hc]
      · simp [cfWrite, hi, hc] at h

/-- **Disconnected events**: a rollback removes exactly the headers above the target height
(the store afterwards is the prefix), whatever the filter tip. -/
theorem C19_rollback_store (s : State) (h : Nat) : (s.rollBackTo h).1.log = s.log.take (h + 1) :=
  rollBackTo_log s h

/-- one step of the rollback loop: the event names the removed tip, its height and the new tip;
the filter store and the in-memory filter tip are lowered together when the removed block's
filter header was committed (F10 repaired). -/
theorem C19_disconnected_step (h fuel : Nat) (log : List Nat) (fst : Nat) (ft : Node) (out : List Ntfn)
    (hgt : tipHeight log > h) :
    rollBack h (fuel + 1) log fst ft out =
      rollBack h fuel log.dropLast
        (if tipHeight log ≤ fst then tipHeight log - 1 else fst)
        (if tipHeight log ≤ fst then ⟨tipId log.dropLast, tipHeight log - 1⟩ else ft)
        (out ++ [.disc (tipId log) (tipHeight log) (tipId log.dropLast)]) := by
  simp only [rollBack, hgt, ↓reduceIte]
  by_cases hf : tipHeight log ≤ fst <;> simp [hf]

/-- the backlog is read from the store by height, from `h+1` up to the in-memory filter tip -/
theorem C19_backlog_shape (s : State) (h : Nat) (h0 : h ≠ 0) (hlt : h < s.ftip.height) (bl : List Node)
    (hb : backlogRange s.log (h + 1) (s.ftip.height - h) = some bl) :
    (backlog s h).res = .ok ∧ (backlog s h).bl = bl ∧ (backlog s h).best = s.ftip.height := by
  have h1 : ¬ s.ftip.height = h := by omega
  have h2 : ¬ h > s.ftip.height := by omega
  simp [backlog, h0, h1, h2, hb]

/-- Full statements not yet proved in Lean; evaluated on every run on the real system by the
oracles `c19Event`, `c19Backlog` and the subscriber replay in the driver. -/
def C19_disconnected : Prop :=
  ∀ (t : Tbl) (s : State) (h : Nat), s.log ≠ [] →
    discReplay t [] s.log (s.rollBackTo h).2 = some (s.log.take (h + 1))

def C19_replay : Prop :=
  ∀ (c : Cfg) (peers : List Peer) (es es' : List Ev) (h : Nat), 1 ≤ c.win → 0 < h →
    let s := run c (init c peers) es
    h ≤ s.fst →
    let view0 := replay (s.log.take (h + 1)) ((backlog s h).bl.map (fun n => .conn n.id n.height 0))
    ∀ outs : List Ntfn, True →   -- `outs` = the notifications of `es'` run from `s` (see driver)
      (run c s es').fst ≤ tipHeight (run c s es').log

/-! Non-vacuity -/
example : (cfWrite { log := [0, 1, 2, 3] } 2 2 true).2.ntf = [.conn 1 1 2, .conn 2 2 2] := by decide
example : (({ log := [0, 1, 2, 3], fst := 2, ftip := ⟨2, 2⟩ } : State).rollBackTo 0).2
    = [.disc 3 3 2, .disc 2 2 1, .disc 1 1 0] := by decide
example : (({ log := [0, 1, 2, 3], fst := 2, ftip := ⟨2, 2⟩ } : State).rollBackTo 0).1.ftip = ⟨0, 0⟩ := by decide
example : (backlog { log := [0, 1, 2, 3], fst := 3, ftip := ⟨3, 3⟩ } 1).bl = [⟨2, 2⟩, ⟨3, 3⟩] := by decide

end Neutrino.BM
