/-
C19 - emitted chain events mirror how the committed chain changed.
-/
import Neutrino.Lemmas.BlockMgr
namespace Neutrino.BM

/-- **Connected events**: a successful filter-header write moves the store's tip and then the
in-memory tip to the stop block and announces exactly the `n` blocks it covers, in increasing
height order, each after the store write (`fstAtEmit` is the new tip). -/
theorem C19_connected (s : State) (stop n endH : Nat) (hi : idxOf s.log stop = some endH)
    (hn : n ≠ 0) (hle : n - 1 ≤ endH) :
    (cfWrite s stop n true).1.fst = endH ∧ (cfWrite s stop n true).1.ftip = ⟨stop, endH⟩ ∧
    (cfWrite s stop n true).1.log = s.log ∧
    (cfWrite s stop n true).2.ntf = connRange s.log endH (endH - (n - 1)) n := by
  have h2 : ¬ (n - 1 > endH) := by omega
  simp [cfWrite, hi, hn, h2]

/-- the events of a write are ascending, consecutive, and name the stored blocks -/
theorem C19_connected_ascending (log : List Nat) (f start n : Nat) :
    connRange log f start n = (List.range n).map (fun i => .conn (log.getD (start + i) 0) (start + i) f) := by
  induction n generalizing start with
  | zero => rfl
  | succ k ih =>
    simp only [connRange, ih, List.range_succ_eq_map, List.map_cons, List.map_map, Nat.add_zero]
    congr 1
    apply List.map_congr_left
    intro i _
    simp only [Function.comp]
    have : start + 1 + i = start + (i + 1) := by omega
    rw [this]

/-- a failed write (wrong previous filter header, unknown stop block) announces nothing -/
theorem C19_failed_write_silent (s : State) (stop n : Nat) (ok : Bool)
    (h : (cfWrite s stop n ok).2.res = .err) : (cfWrite s stop n ok).2.ntf = [] ∧ (cfWrite s stop n ok).1.fst = s.fst := by
  cases ok with
  | false => simp [cfWrite]
  | true =>
    cases hi : idxOf s.log stop with
    | none => simp [cfWrite, hi]
    | some endH =>
      by_cases hc : (decide (n = 0) || decide (n - 1 > endH)) = true
      · simp [cfWrite, hi, hc]
      · simp [cfWrite, hi, hc] at h

/-- **Disconnected events**: a rollback removes exactly the headers above the target height
(the store afterwards is the prefix), whatever the filter tip. -/
theorem C19_rollback_store (s : State) (h : Nat) : (s.rollBackTo h).1.log = s.log.take (h + 1) :=
  rollBackTo_log s h

/-- one step of the rollback loop: the event names the removed tip, its height and the new tip;
the filter store and the in-memory filter tip are lowered together when the removed block's
filter header was committed (F10 repaired). -/
theorem C19_disconnected_step (h fuel : Nat) (log : List Nat) (fst : Nat) (ft : Node) (out : List Ntfn)
    (hgt : tipHeight log > h) :
    rollBack h (fuel + 1) log fst ft out =
      rollBack h fuel log.dropLast
        (if tipHeight log ≤ fst then tipHeight log - 1 else fst)
        (if tipHeight log ≤ fst then ⟨tipId log.dropLast, tipHeight log - 1⟩ else ft)
        (out ++ [.disc (tipId log) (tipHeight log) (tipId log.dropLast)]) := by
  simp only [rollBack, hgt, ↓reduceIte]
  by_cases hf : tipHeight log ≤ fst <;> simp [hf]

/-- the backlog is read from the store by height, from `h+1` up to the in-memory filter tip -/
theorem C19_backlog_shape (s : State) (h : Nat) (h0 : h ≠ 0) (hlt : h < s.ftip.height) (bl : List Node)
    (hb : backlogRange s.log (h + 1) (s.ftip.height - h) = some bl) :
    (backlog s h).res = .ok ∧ (backlog s h).bl = bl ∧ (backlog s h).best = s.ftip.height := by
  have h1 : ¬ s.ftip.height = h := by omega
  have h2 : ¬ h > s.ftip.height := by omega
  simp [backlog, h0, h1, h2, hb]

theorem rollBack_out (h fuel : Nat) (log : List Nat) (fst : Nat) (ft : Node) (out : List Ntfn) :
    (rollBack h fuel log fst ft out).2.2.2 = out ++ (rollBack h fuel log fst ft []).2.2.2 := by
  induction fuel generalizing log fst ft out with
  | zero => simp [rollBack]
  | succ n ih =>
    by_cases hgt : tipHeight log > h
    · rw [C19_disconnected_step h n log fst ft out hgt, C19_disconnected_step h n log fst ft [] hgt]
      rw [ih, ih _ _ _ ([] ++ _)]
      simp
    · simp [rollBack, hgt]

theorem rollBack_replay (t : Tbl) (h fuel : Nat) (log : List Nat) (fst : Nat) (ft : Node)
    (hf : log.length ≤ fuel + (h + 1)) :
    discReplay t [] log (rollBack h fuel log fst ft []).2.2.2 = some (log.take (h + 1)) := by
  induction fuel generalizing log fst ft with
  | zero =>
    simp only [rollBack, discReplay]
    rw [List.take_of_length_le]; omega
  | succ n ih =>
    by_cases hgt : tipHeight log > h
    · rw [C19_disconnected_step h n log fst ft [] hgt, rollBack_out]
      have hlen : 2 ≤ log.length := by simp only [tipHeight] at hgt; omega
      have hne : log ≠ [] := by intro e; simp [e] at hlen
      have hne2 : log.dropLast ≠ [] := by
        intro e; have := congrArg List.length e; simp at this; omega
      have h1 : log.getLast? = some (tipId log) := by
        simp only [tipId]; rw [List.getLast?_eq_some_getLast hne]; rfl
      have h2 : log.dropLast.getLast? = some (tipId log.dropLast) := by
        simp only [tipId]; rw [List.getLast?_eq_some_getLast hne2]; rfl
      have h3 : log.length = tipHeight log + 1 := by simp only [tipHeight]; omega
      simp only [List.nil_append, List.cons_append, discReplay, h1, h2, h3, beq_self_eq_true, Bool.and_self, ↓reduceIte]
      rw [ih]
      · rw [List.dropLast_eq_take, List.take_take]; congr 2; simp only [tipHeight] at hgt; omega
      · simp; omega
    · simp only [rollBack, hgt, ↓reduceIte, discReplay]
      simp only [tipHeight] at hgt
      rw [List.take_of_length_le]; omega

/-- **Disconnected events, every state, every target height**: the events a rollback emits,
followed one by one on the chain as it was, each name the then-current tip, carry its height
and the header directly below it, and lead exactly to the chain the store holds afterwards:
one event per removed header, highest first, nothing else.  (`discReplay` is the predicate the
driver evaluates on the real system's notifications.) -/
theorem C19_disconnected (t : Tbl) (s : State) (h : Nat) :
    discReplay t [] s.log (s.rollBackTo h).2 = some (s.rollBackTo h).1.log := by
  rw [rollBackTo_log]
  simp only [State.rollBackTo]
  exact rollBack_replay t h s.log.length s.log s.fst s.ftip (by omega)

/-- Full statement not yet proved in Lean; evaluated on every run on the real system by the
subscriber replay in the driver (and `c19Backlog`). -/
def C19_replay : Prop :=
  ∀ (c : Cfg) (peers : List Peer) (es es' : List Ev) (h : Nat), 1 ≤ c.win → 0 < h →
    let s := run c (init c peers) es
    h ≤ s.fst →
    let view0 := replay (s.log.take (h + 1)) ((backlog s h).bl.map (fun n => .conn n.id n.height 0))
    ∀ outs : List Ntfn, True →   -- `outs` = the notifications of `es'` run from `s` (see driver)
      (run c s es').fst ≤ tipHeight (run c s es').log

/-! Non-vacuity -/
example : (cfWrite { log := [0, 1, 2, 3] } 2 2 true).2.ntf = [.conn 1 1 2, .conn 2 2 2] := by decide
example : (({ log := [0, 1, 2, 3], fst := 2, ftip := ⟨2, 2⟩ } : State).rollBackTo 0).2
    = [.disc 3 3 2, .disc 2 2 1, .disc 1 1 0] := by decide
example : (({ log := [0, 1, 2, 3], fst := 2, ftip := ⟨2, 2⟩ } : State).rollBackTo 0).1.ftip = ⟨0, 0⟩ := by decide
example : (backlog { log := [0, 1, 2, 3], fst := 3, ftip := ⟨3, 3⟩ } 1).bl = [⟨2, 2⟩, ⟨3, 3⟩] := by decide

end Neutrino.BM
