/-
C19 - emitted chain events mirror how the committed chain changed.
-/
import Neutrino.Lemmas.BlockMgr
import Neutrino.Gen.BlockMgr
import Neutrino.Model.NtfnChan
namespace Neutrino.BM

/-- **Connected events**: a successful filter-header write moves the store's tip and then the
in-memory tip to the stop block and announces exactly the `n` blocks it covers, in increasing
height order, each after the store write (`fstAtEmit` is the new tip). -/
theorem C19_connected (s : State) (stop n endH : Nat) (hi : idxOf s.log stop = some endH)
    (hn : n ≠ 0) (hle : n - 1 ≤ endH) :
    (cfWrite s stop n true).1.fst = endH ∧ (cfWrite s stop n true).1.ftip = ⟨stop, endH⟩ ∧
    (cfWrite s stop n true).1.log = s.log ∧
    (cfWrite s stop n true).2.ntf = connRange s.log endH (endH - (n - 1)) n := by
  have h2 : ¬ (n - 1 > endH) := by omega
  simp [cfWrite, hi, hn, h2]

/-- the events of a write are ascending, consecutive, and name the stored blocks -/
theorem C19_connected_ascending (log : List Nat) (f start n : Nat) :
    connRange log f start n = (List.range n).map (fun i => .conn (log.getD (start + i) 0) (start + i) f) := by
  induction n generalizing start with
  | zero => rfl
  | succ k ih =>
    simp only [connRange, ih, List.range_succ_eq_map, List.map_cons, List.map_map, Nat.add_zero]
    congr 1
    apply List.map_congr_left
    intro i _
    simp only [Function.comp]
    have : start + 1 + i = start + (i + 1) := by omega
    rw [this]

/-- a failed write (wrong previous filter header, unknown stop block) announces nothing -/
theorem C19_failed_write_silent (s : State) (stop n : Nat) (ok : Bool)
    (h : (cfWrite s stop n ok).2.res = .err) : (cfWrite s stop n ok).2.ntf = [] ∧ (cfWrite s stop n ok).1.fst = s.fst := by
  cases ok with
  | false => simp [cfWrite]
  | true =>
    cases hi : idxOf s.log stop with
    | none => simp [cfWrite, hi]
    | some endH =>
      by_cases hc : (decide (n = 0) || decide (n - 1 > endH)) = true
      · simp [cfWrite, hi, hc]
      · simp [cfWrite, hi, hc] at h

/-- **Disconnected events**: a rollback removes exactly the headers above the target height
(the store afterwards is the prefix), whatever the filter tip. -/
theorem C19_rollback_store (s : State) (h : Nat) : (s.rollBackTo h).1.log = s.log.take (h + 1) :=
  rollBackTo_log s h

/-- one step of the rollback loop: the event names the removed tip, its height and the new tip;
the filter store and the in-memory filter tip are lowered together when the removed block's
filter header was committed (F10 repaired). -/
theorem C19_disconnected_step (h fuel : Nat) (log : List Nat) (fst : Nat) (ft : Node) (out : List Ntfn)
    (hgt : tipHeight log > h) :
    rollBack h (fuel + 1) log fst ft out =
      rollBack h fuel log.dropLast
        (if tipHeight log ≤ fst then tipHeight log - 1 else fst)
        (if tipHeight log ≤ fst then ⟨tipId log.dropLast, tipHeight log - 1⟩ else ft)
        (out ++ [.disc (tipId log) (tipHeight log) (tipId log.dropLast)]) := by
  simp only [rollBack, hgt, ↓reduceIte]
  by_cases hf : tipHeight log ≤ fst <;> simp [hf]

/-- the backlog is read from the store by height, from `h+1` up to the in-memory filter tip -/
theorem C19_backlog_shape (s : State) (h : Nat) (h0 : h ≠ 0) (hlt : h < s.ftip.height) (bl : List Node)
    (hb : backlogRange s.log (h + 1) (s.ftip.height - h) = some bl) :
    (backlog s h).res = .ok ∧ (backlog s h).bl = bl ∧ (backlog s h).best = s.ftip.height := by
  have h1 : ¬ s.ftip.height = h := by omega
  have h2 : ¬ h > s.ftip.height := by omega
  simp [backlog, h0, h1, h2, hb]

theorem rollBack_out (h fuel : Nat) (log : List Nat) (fst : Nat) (ft : Node) (out : List Ntfn) :
    (rollBack h fuel log fst ft out).2.2.2 = out ++ (rollBack h fuel log fst ft []).2.2.2 := by
  induction fuel generalizing log fst ft out with
  | zero => simp [rollBack]
  | succ n ih =>
    by_cases hgt : tipHeight log > h
    · rw [C19_disconnected_step h n log fst ft out hgt, C19_disconnected_step h n log fst ft [] hgt]
      rw [ih, ih _ _ _ ([] ++ _)]
      simp
    · simp [rollBack, hgt]

theorem rollBack_replay (t : Tbl) (h fuel : Nat) (log : List Nat) (fst : Nat) (ft : Node)
    (hf : log.length ≤ fuel + (h + 1)) :
    discReplay t [] log (rollBack h fuel log fst ft []).2.2.2 = some (log.take (h + 1)) := by
  induction fuel generalizing log fst ft with
  | zero =>
    simp only [rollBack, discReplay]
    rw [List.take_of_length_le]; omega
  | succ n ih =>
    by_cases hgt : tipHeight log > h
    · rw [C19_disconnected_step h n log fst ft [] hgt, rollBack_out]
      have hlen : 2 ≤ log.length := by simp only [tipHeight] at hgt; omega
      have hne : log ≠ [] := by intro e; simp [e] at hlen
      have hne2 : log.dropLast ≠ [] := by
        intro e; have := congrArg List.length e; simp at this; omega
      have h1 : log.getLast? = some (tipId log) := by
        simp only [tipId]; rw [List.getLast?_eq_some_getLast hne]; rfl
      have h2 : log.dropLast.getLast? = some (tipId log.dropLast) := by
        simp only [tipId]; rw [List.getLast?_eq_some_getLast hne2]; rfl
      have h3 : log.length = tipHeight log + 1 := by simp only [tipHeight]; omega
      simp only [List.nil_append, List.cons_append, discReplay, h1, h2, h3, beq_self_eq_true, Bool.and_self, ↓reduceIte]
      rw [ih]
      · rw [List.dropLast_eq_take, List.take_take]; congr 2; simp only [tipHeight] at hgt; omega
      · simp; omega
    · simp only [rollBack, hgt, ↓reduceIte, discReplay]
      simp only [tipHeight] at hgt
      rw [List.take_of_length_le]; omega

/-- **Disconnected events, every state, every target height**: the events a rollback emits,
followed one by one on the chain as it was, each name the then-current tip, carry its height
and the header directly below it, and lead exactly to the chain the store holds afterwards:
one event per removed header, highest first, nothing else.  (`discReplay` is the predicate the
driver evaluates on the real system's notifications.) -/
theorem C19_disconnected (t : Tbl) (s : State) (h : Nat) :
    discReplay t [] s.log (s.rollBackTo h).2 = some (s.rollBackTo h).1.log := by
  rw [rollBackTo_log]
  simp only [State.rollBackTo]
  exact rollBack_replay t h s.log.length s.log s.fst s.ftip (by omega)

/-- the chain a subscriber must end up with: the blocks whose filter headers are committed -/
def committedOf (log : List Nat) (fst : Nat) : List Nat := log.take (fst + 1)

theorem replay_append (v : List Nat) (a b : List Ntfn) : replay v (a ++ b) = replay (replay v a) b := by
  simp [replay, List.foldl_append]

theorem rollBack_acc (h fuel : Nat) (log : List Nat) (fst : Nat) (ft : Node) (out : List Ntfn) :
    rollBack h fuel log fst ft out =
      ((rollBack h fuel log fst ft []).1, (rollBack h fuel log fst ft []).2.1, (rollBack h fuel log fst ft []).2.2.1,
        out ++ (rollBack h fuel log fst ft []).2.2.2) := by
  induction fuel generalizing log fst ft out with
  | zero => simp [rollBack]
  | succ n ih =>
    by_cases hgt : tipHeight log > h
    · rw [C19_disconnected_step h n log fst ft out hgt, C19_disconnected_step h n log fst ft [] hgt]
      rw [ih, ih _ _ _ ([] ++ _)]
      simp
    · simp [rollBack, hgt]

/-- the rollback loop, seen by a subscriber holding the committed chain: the disconnected events
above the filter tip are ignored, the others pop one block each; the filter store tip and the
in-memory filter tip go down together and stay inside the chain. -/
theorem rollBack_trace (k fuel : Nat) (log : List Nat) (fst : Nat) (ft : Node) (hF : fst < log.length)
    (hG : ft.height = fst) :
    replay (committedOf log fst) (rollBack k fuel log fst ft []).2.2.2
      = committedOf (rollBack k fuel log fst ft []).1 (rollBack k fuel log fst ft []).2.1 ∧
    (rollBack k fuel log fst ft []).2.1 < (rollBack k fuel log fst ft []).1.length ∧
    (rollBack k fuel log fst ft []).2.2.1.height = (rollBack k fuel log fst ft []).2.1 ∧
    (∃ j, (rollBack k fuel log fst ft []).1 = log.take j) := by
  induction fuel generalizing log fst ft with
  | zero => simp only [rollBack, replay, List.foldl_nil]; exact ⟨trivial, hF, hG, log.length, by simp⟩
  | succ n ih =>
    by_cases hgt : tipHeight log > k
    · rw [C19_disconnected_step k n log fst ft [] hgt, rollBack_acc]
      simp only [List.nil_append]
      have hth : tipHeight log = log.length - 1 := rfl
      have hlen2 : 2 ≤ log.length := by omega
      have hdl : log.dropLast.length = log.length - 1 := by simp
      by_cases hle : tipHeight log ≤ fst
      · -- the removed block was committed: fst = tip height, the view is the whole chain
        have hfe : fst = log.length - 1 := by omega
        simp only [hle, ↓reduceIte]
        have hv : committedOf log fst = log := by simp only [committedOf]; exact List.take_of_length_le (by omega)
        have hne : log ≠ [] := by intro e; simp [e] at hlen2
        have hlast : log.getLast? = some (tipId log) := by
          simp only [tipId]; rw [List.getLast?_eq_some_getLast hne]; rfl
        have h1 : replay1 log (.disc (tipId log) (tipHeight log) (tipId log.dropLast)) = log.dropLast := by
          simp only [replay1, hlast, hth]
          have : log.length = log.length - 1 + 1 := by omega
          simp [← this]
        obtain ⟨i1, i2, i3, j, i4⟩ := ih log.dropLast (tipHeight log - 1) ⟨tipId log.dropLast, tipHeight log - 1⟩
          (by omega) rfl
        refine ⟨?_, i2, i3, ?_⟩
        · rw [replay_append, hv]
          have : replay log [.disc (tipId log) (tipHeight log) (tipId log.dropLast)] = log.dropLast := by
            simp only [replay, List.foldl_cons, List.foldl_nil]; exact h1
          rw [this]
          have hc : committedOf log.dropLast (tipHeight log - 1) = log.dropLast := by
            simp only [committedOf]; exact List.take_of_length_le (by omega)
          rw [hc] at i1; exact i1
        · exact ⟨min j (log.length - 1), by rw [i4, List.dropLast_eq_take, List.take_take]⟩
      · simp only [hle, ↓reduceIte]
        have hlt : fst + 1 < log.length := by omega
        have h1 : replay1 (committedOf log fst) (.disc (tipId log) (tipHeight log) (tipId log.dropLast)) = committedOf log fst := by
          have hvl : (committedOf log fst).length = fst + 1 := by simp only [committedOf, List.length_take]; omega
          generalize committedOf log fst = v at hvl
          simp only [replay1]
          have : ¬ (v.length = tipHeight log + 1) := by omega
          simp [this]
        have hc : committedOf log.dropLast fst = committedOf log fst := by
          simp only [committedOf, List.dropLast_eq_take, List.take_take]; congr 1; omega
        obtain ⟨i1, i2, i3, j, i4⟩ := ih log.dropLast fst ft (by omega) hG
        refine ⟨?_, i2, i3, ?_⟩
        · rw [replay_append]
          have : replay (committedOf log fst) [.disc (tipId log) (tipHeight log) (tipId log.dropLast)] = committedOf log fst := by
            simp only [replay, List.foldl_cons, List.foldl_nil]; exact h1
          rw [this, ← hc]; exact i1
        · exact ⟨min j (log.length - 1), by rw [i4, List.dropLast_eq_take, List.take_take]⟩
    · simp only [rollBack, hgt, ↓reduceIte, replay, List.foldl_nil]
      exact ⟨trivial, hF, hG, log.length, by simp⟩


/-- the filter-tip part of the shared invariant (`FilterTipConsistent`): the filter store's tip is
inside the block chain and the in-memory filter tip is the store's (F10 repaired) -/
structure FInv (s : State) : Prop where
  F : s.fst < s.log.length
  G : s.ftip.height = s.fst

def committedS (s : State) : List Nat := committedOf s.log s.fst

theorem committedOf_append (log ext : List Nat) (fst : Nat) (h : fst < log.length) :
    committedOf (log ++ ext) fst = committedOf log fst := by
  simp only [committedOf]; exact List.take_append_of_le_length (by omega)

theorem rollBackTo_trace (s : State) (k : Nat) (h : FInv s) :
    replay (committedS s) (s.rollBackTo k).2 = committedS (s.rollBackTo k).1 ∧ FInv (s.rollBackTo k).1 := by
  obtain ⟨a, b, d, _⟩ := rollBack_trace k s.log.length s.log s.fst s.ftip h.F h.G
  simp only [State.rollBackTo, committedS]
  generalize rollBack k s.log.length s.log s.fst s.ftip [] = r at a b d
  obtain ⟨r1, r2, r3, r4⟩ := r
  exact ⟨a, ⟨b, d⟩⟩

theorem finish_trace (c : Cfg) (s : State) (l : Loc) (ntf : List Ntfn) (h : FInv s) :
    (finish c s l ntf).2 = ntf ∧ committedS (finish c s l ntf).1 = committedS s ∧ FInv (finish c s l ntf).1 := by
  have hw : (s.write l.batchFirst l.batch).log = s.log ++ l.batch ∧ (s.write l.batchFirst l.batch).fst = s.fst ∧
      (s.write l.batchFirst l.batch).ftip = s.ftip := by
    simp only [State.write]
    by_cases hb : l.batch = [] <;> simp [hb]
  obtain ⟨w1, w2, w3⟩ := hw
  have hF := h.F
  cases hr : l.recvCp with
  | true =>
    simp only [finish, hr, ↓reduceIte]
    refine ⟨trivial, ?_, ⟨?_, ?_⟩⟩
    · show committedOf (s.write l.batchFirst l.batch).log (s.write l.batchFirst l.batch).fst = committedOf s.log s.fst
      rw [w1, w2]; exact committedOf_append _ _ _ hF
    · show (s.write l.batchFirst l.batch).fst < (s.write l.batchFirst l.batch).log.length
      rw [w1, w2]; simp; omega
    · show (s.write l.batchFirst l.batch).ftip.height = (s.write l.batchFirst l.batch).fst
      rw [w2, w3]; exact h.G
  | false =>
    simp only [finish, hr, Bool.false_eq_true, ↓reduceIte]
    refine ⟨trivial, ?_, ⟨?_, ?_⟩⟩
    · show committedOf (s.write l.batchFirst l.batch).log (s.write l.batchFirst l.batch).fst = committedOf s.log s.fst
      rw [w1, w2]; exact committedOf_append _ _ _ hF
    · show (s.write l.batchFirst l.batch).fst < (s.write l.batchFirst l.batch).log.length
      rw [w1, w2]; simp; omega
    · show (s.write l.batchFirst l.batch).ftip.height = (s.write l.batchFirst l.batch).fst
      rw [w2, w3]; exact h.G

theorem cpTest_trace (c : Cfg) (p h : Nat) (s : State) (l : Loc) (ntf : List Ntfn) (nh : Nat) (r : State × List Ntfn)
    (hr : cpTest c p h s l ntf nh = some r) (hf : FInv s) :
    ∃ new, r.2 = ntf ++ new ∧ replay (committedS s) new = committedS r.1 ∧ FInv r.1 := by
  simp only [cpTest] at hr
  split at hr
  · rename_i cp hcp
    by_cases h1 : nh = cp.height
    · rw [if_pos h1] at hr
      by_cases h2 : h = cp.id
      · rw [if_pos h2, Option.some.injEq] at hr
        subst hr
        obtain ⟨a, b, d⟩ := finish_trace c s { l with recvCp := true } ntf hf
        exact ⟨[], by simp [a], by rw [b]; rfl, d⟩
      · rw [if_neg h2, Option.some.injEq] at hr
        subst hr
        obtain ⟨a, b⟩ := rollBackTo_trace s (findPrevCp c.cps nh).height hf
        exact ⟨_, rfl, a, ⟨b.F, b.G⟩⟩
    · rw [if_neg h1] at hr; cases hr
  · cases hr

theorem doReorg_trace (c : Cfg) (s : State) (p h bh : Nat) (hf : FInv s) :
    replay (committedS s) (doReorg c s p h bh).2 = committedS (doReorg c s p h bh).1 ∧ FInv (doReorg c s p h bh).1 := by
  obtain ⟨a, b⟩ := rollBackTo_trace { s with sync := some p } bh ⟨hf.F, hf.G⟩
  simp only [doReorg, State.write, List.cons_ne_nil, ↓reduceIte]
  refine ⟨?_, ⟨by simp; have := b.F; omega, b.G⟩⟩
  have : committedS s = committedS { s with sync := some p } := rfl
  rw [this, a]
  simp only [committedS]
  exact (committedOf_append _ _ _ b.F).symm

/-- **What a subscriber sees of one `headers` message**: the notifications the loop emits, replayed
on the committedS chain, give the committedS chain afterwards - on every path through the loop. -/
theorem loop_trace (c : Cfg) (p : Nat) (rest : List Nat) :
    ∀ (s : State) (l : Loc) (ntf : List Ntfn), FInv s →
      ∃ new, (loop c p rest s l ntf).2 = ntf ++ new ∧
        replay (committedS s) new = committedS (loop c p rest s l ntf).1 ∧ FInv (loop c p rest s l ntf).1 := by
  induction rest with
  | nil =>
    intro s l ntf hf
    obtain ⟨a, b, d⟩ := finish_trace c s l ntf hf
    exact ⟨[], by simp [loop, a], by simp only [loop]; rw [b]; rfl, by simp only [loop]; exact d⟩
  | cons h rest ih =>
    intro s l ntf hf
    simp only [loop]
    cases hhd : s.hl.head? with
    | none => exact ⟨[], by simp, rfl, ⟨hf.F, hf.G⟩⟩
    | some prev =>
      simp only []
      by_cases hpar : c.tbl.parent h = some prev.id
      · simp only [hpar, ↓reduceIte]
        by_cases hv : c.tbl.valid h = true
        · simp only [hv, Bool.not_true, Bool.false_eq_true, ↓reduceIte]
          have hf' : FInv { s with peers := updLast s.peers p (prev.height + 1), hl := hlPush c.win s.hl ⟨h, prev.height + 1⟩ } :=
            ⟨hf.F, hf.G⟩
          cases hcp : cpTest c p h _ (pushBatch { l with finalId := h } h (prev.height + 1)) ntf (prev.height + 1) with
          | some r =>
            obtain ⟨new, e1, e2, e3⟩ := cpTest_trace c p h
              { s with peers := updLast s.peers p (prev.height + 1), hl := hlPush c.win s.hl ⟨h, prev.height + 1⟩ }
              _ ntf _ r hcp hf'
            exact ⟨new, e1, e2, e3⟩
          | none =>
            obtain ⟨new, e1, e2, e3⟩ := ih
              { s with peers := updLast s.peers p (prev.height + 1), hl := hlPush c.win s.hl ⟨h, prev.height + 1⟩ }
              (pushBatch { l with finalId := h } h (prev.height + 1)) ntf hf'
            exact ⟨new, e1, e2, e3⟩
        · simp only [hv, Bool.not_false, ↓reduceIte]
          exact ⟨[], by simp, rfl, ⟨hf.F, hf.G⟩⟩
      · simp only [hpar, ↓reduceIte]
        cases hd : reorgDecision c s p prev h rest with
        | ignore => exact ⟨[], by simp, rfl, hf⟩
        | skip => exact ih s _ ntf hf
        | disconnect => exact ⟨[], by simp, rfl, ⟨hf.F, hf.G⟩⟩
        | adopt bh =>
          simp only []
          obtain ⟨a, b⟩ := doReorg_trace c s p h bh hf
          cases hcp : cpTest c p h (doReorg c s p h bh).1 { l with finalId := h } (ntf ++ (doReorg c s p h bh).2) 0 with
          | some r =>
            obtain ⟨new, e1, e2, e3⟩ := cpTest_trace _ _ _ _ _ _ _ r hcp b
            exact ⟨(doReorg c s p h bh).2 ++ new, by rw [e1, List.append_assoc], by rw [replay_append, a, e2], e3⟩
          | none =>
            obtain ⟨new, e1, e2, e3⟩ := ih (doReorg c s p h bh).1 { l with finalId := h } (ntf ++ (doReorg c s p h bh).2) b
            exact ⟨(doReorg c s p h bh).2 ++ new, by rw [e1, List.append_assoc], by rw [replay_append, a, e2], e3⟩


theorem conn_replay (log : List Nat) (f : Nat) : ∀ (n start : Nat), start + n ≤ log.length →
    replay (log.take start) (connRange log f start n) = log.take (start + n) := by
  intro n
  induction n with
  | zero => intro start _; simp [connRange, replay]
  | succ k ih =>
    intro start hle
    have hlt : start < log.length := by omega
    simp only [connRange, replay, List.foldl_cons]
    have h1 : replay1 (log.take start) (.conn (log.getD start 0) start f) = log.take (start + 1) := by
      simp only [replay1, List.length_take]
      have : ¬ (start < min start log.length) := by omega
      simp only [this, ↓reduceIte]
      rw [List.take_succ, List.getD_eq_getElem?_getD, List.getElem?_eq_getElem hlt]; simp
    rw [h1]
    have := ih (start + 1) (by omega)
    simp only [replay] at this
    rw [this]; congr 1; omega

/-- **One `headers` message, every path**: the notifications emitted while it is handled,
replayed on the committed chain, reproduce the committed chain afterwards. -/
theorem C19_replay_headers (c : Cfg) (s : State) (p : Nat) (hs : List Nat) (hf : FInv s) :
    replay (committedS s) (handleHeaders c s p hs).2 = committedS (handleHeaders c s p hs).1 ∧
    FInv (handleHeaders c s p hs).1 := by
  simp only [handleHeaders]
  by_cases h1 : hs = []
  · simp only [h1, ↓reduceIte]; exact ⟨rfl, hf⟩
  · simp only [h1, ↓reduceIte]
    by_cases h2 : linked c.tbl hs = true
    · simp only [h2, Bool.not_true, Bool.false_eq_true, ↓reduceIte]
      obtain ⟨new, e1, e2, e3⟩ := loop_trace c p hs s {} [] hf
      rw [e1]; simpa using ⟨e2, e3⟩
    · simp only [h2, Bool.not_false, ↓reduceIte]; exact ⟨rfl, ⟨hf.F, hf.G⟩⟩

/-- **One aligned filter-header write**: the connected events extend the committed chain to the
new filter tip (the writer asks for the headers from `filter tip + 1`, i.e. `endH = fst + n`). -/
theorem C19_replay_cfwrite (s : State) (stop n endH : Nat) (hf : FInv s) (hi : idxOf s.log stop = some endH)
    (hn : n ≠ 0) (hal : endH = s.fst + n) :
    replay (committedS s) (cfWrite s stop n true).2.ntf = committedS (cfWrite s stop n true).1 ∧
    FInv (cfWrite s stop n true).1 := by
  obtain ⟨a, b, d, e⟩ := C19_connected s stop n endH hi hn (by omega)
  obtain ⟨hlt, _⟩ := idxOf_some hi
  have hstart : endH - (n - 1) = s.fst + 1 := by omega
  rw [e, hstart]
  simp only [committedS, committedOf, a, d]
  refine ⟨?_, ⟨by rw [a, d]; exact hlt, by rw [b, a]⟩⟩
  have := conn_replay s.log endH n (s.fst + 1) (by omega)
  rw [this]; congr 1; omega

/-- the notifications of a run, in emission order -/
def ntfsOf (c : Cfg) (s : State) : List Ev → List Ntfn
  | [] => []
  | e :: es => (step c s e).2.ntf ++ ntfsOf c (step c s e).1 es

/-- the filter-header writer's contract: a write that succeeds starts right above the filter tip -/
def alignedEv (s : State) : Ev → Prop
  | .cfWrite stop n true => ∀ endH, idxOf s.log stop = some endH → n ≠ 0 → n - 1 ≤ endH → endH = s.fst + n
  | .importReset _ nf => nf = 0      -- imported filter headers are not announced: not a moment between events
  | _ => True

def alignedRun (c : Cfg) (s : State) : List Ev → Prop
  | [] => True
  | e :: es => alignedEv s e ∧ alignedRun c (step c s e).1 es

theorem step_trace (c : Cfg) (s : State) (e : Ev) (hf : FInv s) (ha : alignedEv s e) :
    replay (committedS s) (step c s e).2.ntf = committedS (step c s e).1 ∧ FInv (step c s e).1 := by
  cases e with
  | newPeer p =>
    simp only [step, newPeer]
    split
    · exact ⟨rfl, hf⟩
    · obtain ⟨a, _, _, d, e, _⟩ := startSync_fields { s with cand := s.cand ++ [p] }
      exact ⟨by simp only [committedS, a, d]; rfl, ⟨by rw [a, d]; exact hf.F, by rw [d, e]; exact hf.G⟩⟩
  | donePeer p =>
    simp only [step, donePeer]
    split
    · obtain ⟨a, _, _, d, e, _⟩ := startSync_fields { s with cand := s.cand.erase p, sync := none, hl := anchor s.log }
      exact ⟨by simp only [committedS, a, d]; rfl, ⟨by rw [a, d]; exact hf.F, by rw [d, e]; exact hf.G⟩⟩
    · exact ⟨rfl, ⟨hf.F, hf.G⟩⟩
  | peerHeight p k => exact ⟨rfl, ⟨hf.F, hf.G⟩⟩
  | inv p id =>
    simp only [step, invMsg]
    split
    · split
      · exact ⟨rfl, ⟨hf.F, hf.G⟩⟩
      · exact ⟨rfl, hf⟩
    · exact ⟨rfl, hf⟩
  | headers p hs => exact C19_replay_headers c s p hs hf
  | cfWrite stop n okk =>
    cases okk with
    | false => simp only [step, cfWrite]; exact ⟨rfl, hf⟩
    | true =>
      cases hi : idxOf s.log stop with
      | none => simp only [step, cfWrite, hi]; exact ⟨rfl, hf⟩
      | some endH =>
        by_cases hc : (decide (n = 0) || decide (n - 1 > endH)) = true
        · simp only [step, cfWrite, hi, hc]; exact ⟨rfl, hf⟩
        · have hn : n ≠ 0 := by intro e; simp [e] at hc
          have hle : n - 1 ≤ endH := by
            rcases Nat.lt_or_ge endH (n - 1) with h | h
            · exfalso; apply hc; simp; right; exact h
            · exact h
          exact C19_replay_cfwrite s stop n endH hf hi hn (ha endH hi hn hle)
  | backlog k =>
    have hn : (backlog s k).ntf = [] := by
      simp only [backlog]
      split
      · rfl
      · split
        · rfl
        · split
          · rfl
          · split <;> rfl
    simp only [step, hn]; exact ⟨rfl, hf⟩
  | headersFailWrite p hs =>
    simp only [step, handleHeadersFailWrite]
    split
    · exact ⟨rfl, ⟨hf.F, hf.G⟩⟩
    · exact C19_replay_headers c s p hs hf
  | importReset blocks nf =>
    -- an import appends blocks above the committed ones and may commit further filter headers
    -- WITHOUT announcing them: the subscriber's view is no longer the committed chain unless no
    -- filter header was imported (`alignedEv` demands that)
    simp only [step, importReset]
    have hnf : nf = 0 := ha
    subst hnf
    have hF := hf.F
    have hfst : (if s.fst + 0 ≤ tipHeight (if chainOk c s.log blocks = true then s.log ++ blocks else s.log)
        then s.fst + 0 else s.fst) = s.fst := by
      generalize tipHeight (if chainOk c s.log blocks = true then s.log ++ blocks else s.log) = T
      by_cases h : s.fst + 0 ≤ T <;> simp [h]
    simp only [hfst]
    refine ⟨?_, ⟨?_, rfl⟩⟩
    · simp only [committedS, replay, List.foldl_nil]
      split
      · exact (committedOf_append _ _ _ hF).symm
      · rfl
    · show s.fst < (if chainOk c s.log blocks = true then s.log ++ blocks else s.log).length
      split
      · simp; omega
      · exact hF

/-- **Events after any moment, every event list**: replaying everything the block manager emits
from a moment on, on the chain committed at that moment, gives the committed chain now. -/
theorem C19_replay_events (c : Cfg) (s : State) (es : List Ev) (hf : FInv s) (ha : alignedRun c s es) :
    replay (committedS s) (ntfsOf c s es) = committedS (run c s es) ∧ FInv (run c s es) := by
  induction es generalizing s with
  | nil => exact ⟨rfl, hf⟩
  | cons e es ih =>
    obtain ⟨a, b⟩ := step_trace c s e hf ha.1
    obtain ⟨a2, b2⟩ := ih (step c s e).1 b ha.2
    exact ⟨by simp only [ntfsOf, run]; rw [replay_append, a, a2], b2⟩

/-- the filter-tip invariant holds in every reachable state (no alignment needed for that) -/
theorem finv_step (c : Cfg) (s : State) (e : Ev) (hf : FInv s) : FInv (step c s e).1 := by
  cases e with
  | cfWrite stop n okk =>
    cases okk with
    | false => simp only [step, cfWrite]; exact hf
    | true =>
      cases hi : idxOf s.log stop with
      | none => simp only [step, cfWrite, hi]; exact hf
      | some endH =>
        by_cases hc : (decide (n = 0) || decide (n - 1 > endH)) = true
        · simp only [step, cfWrite, hi, hc]; exact hf
        · have hn : n ≠ 0 := by intro e; simp [e] at hc
          have hle : n - 1 ≤ endH := by
            rcases Nat.lt_or_ge endH (n - 1) with h | h
            · exfalso; apply hc; simp; right; exact h
            · exact h
          obtain ⟨a, b, d, _⟩ := C19_connected s stop n endH hi hn hle
          exact ⟨by show (cfWrite s stop n true).1.fst < (cfWrite s stop n true).1.log.length
                    rw [a, d]; exact (idxOf_some hi).1,
                 by show (cfWrite s stop n true).1.ftip.height = (cfWrite s stop n true).1.fst
                    rw [a, b]⟩
  | newPeer p => exact (step_trace c s (.newPeer p) hf trivial).2
  | donePeer p => exact (step_trace c s (.donePeer p) hf trivial).2
  | peerHeight p k => exact (step_trace c s (.peerHeight p k) hf trivial).2
  | inv p id => exact (step_trace c s (.inv p id) hf trivial).2
  | headers p hs => exact (step_trace c s (.headers p hs) hf trivial).2
  | backlog k => exact (step_trace c s (.backlog k) hf trivial).2
  | headersFailWrite p hs => exact (step_trace c s (.headersFailWrite p hs) hf trivial).2
  | importReset blocks nf =>
    simp only [step, importReset]
    refine ⟨?_, rfl⟩
    show (if s.fst + nf ≤ tipHeight (if chainOk c s.log blocks = true then s.log ++ blocks else s.log) then s.fst + nf else s.fst)
      < (if chainOk c s.log blocks = true then s.log ++ blocks else s.log).length
    have hF := hf.F
    have hlen : s.log.length ≤ (if chainOk c s.log blocks = true then s.log ++ blocks else s.log).length := by
      split
      · simp
      · exact Nat.le_refl _
    generalize (if chainOk c s.log blocks = true then s.log ++ blocks else s.log) = L at hlen ⊢
    by_cases h : s.fst + nf ≤ tipHeight L
    · rw [if_pos h]; simp only [tipHeight] at h; omega
    · rw [if_neg h]; omega

theorem finv_init (c : Cfg) (peers : List Peer) : FInv (init c peers) := ⟨by simp [init], rfl⟩

theorem finv_run (c : Cfg) (s : State) (es : List Ev) (hf : FInv s) : FInv (run c s es) := by
  induction es generalizing s with
  | nil => exact hf
  | cons e es ih => exact ih _ (finv_step c s e hf)

/-- `FilterTipConsistent` in every reachable state: the filter store's tip is inside the block
chain and the in-memory filter tip equals the store's (F10 repaired). -/
theorem C19_filter_tip_consistent (c : Cfg) (peers : List Peer) (es : List Ev) :
    FInv (run c (init c peers) es) := finv_run c _ es (finv_init c peers)

/-- the backlog read from the store, replayed on the chain cut at `i`, extends it by exactly those blocks -/
theorem backlog_replay (log : List Nat) : ∀ (n i : Nat), i + n ≤ log.length →
    ∃ bl, backlogRange log i n = some bl ∧
      replay (log.take i) (bl.map (fun nd => Ntfn.conn nd.id nd.height 0)) = log.take (i + n) := by
  intro n
  induction n with
  | zero => intro i _; exact ⟨[], rfl, by simp [replay]⟩
  | succ k ih =>
    intro i hle
    have hlt : i < log.length := by omega
    obtain ⟨bl, hb, hr⟩ := ih (i + 1) (by omega)
    refine ⟨⟨log[i], i⟩ :: bl, ?_, ?_⟩
    · simp only [backlogRange, List.getElem?_eq_getElem hlt, hb, Option.map_some]
    · simp only [List.map_cons, replay, List.foldl_cons]
      have h1 : replay1 (log.take i) (.conn log[i] i 0) = log.take (i + 1) := by
        simp only [replay1, List.length_take]
        have : ¬ (i < min i log.length) := by omega
        simp only [this, ↓reduceIte]
        rw [List.take_succ, List.getElem?_eq_getElem hlt]; simp
      rw [h1]
      simp only [replay] at hr
      rw [hr]; congr 1; omega

/-- **The backlog half**: in a state with a consistent filter tip, the backlog offered for a height
`0 < h ≤ filter tip`, replayed on the committed chain cut at `h`, gives the committed chain. -/
theorem C19_backlog_replay (s : State) (h : Nat) (hf : FInv s) (h0 : 0 < h) (hle : h ≤ s.fst) :
    (backlog s h).res = .ok ∧
    replay ((committedS s).take (h + 1)) ((backlog s h).bl.map (fun nd => Ntfn.conn nd.id nd.height 0))
      = committedS s := by
  have hcut : (committedS s).take (h + 1) = s.log.take (h + 1) := by
    simp only [committedS, committedOf, List.take_take]; congr 1; omega
  have hF := hf.F
  have hG := hf.G
  rw [hcut]
  simp only [backlog, hG]
  have h0' : ¬ h = 0 := by omega
  simp only [h0', ↓reduceIte]
  by_cases he : s.fst = h
  · simp only [he, ↓reduceIte]
    exact ⟨trivial, by simp [replay, committedS, committedOf, he]⟩
  · have hgt : ¬ h > s.fst := by omega
    simp only [he, hgt, ↓reduceIte]
    obtain ⟨bl, hb, hr⟩ := backlog_replay s.log (s.fst - h) (h + 1) (by omega)
    rw [hb]
    refine ⟨rfl, ?_⟩
    simp only [committedS, committedOf]
    rw [hr]; congr 1; omega

/-- **C19 replay, every history, every moment, every height**: for every event list `es` leading
to a moment `m`, every height `0 < h ≤` the filter tip at `m` and every event list `es'` after it
(filter-header writes starting right above the filter tip, as the writer does): replaying the
backlog offered at `m` for `h` and then every notification emitted afterwards, on the chain that
was committed at `m` cut at `h`, gives exactly the chain committed now.  A connected event for a
block already held is skipped; a disconnected event pops only if it names the current tip. -/
theorem C19_replay (c : Cfg) (peers : List Peer) (es es' : List Ev) (h : Nat) :
    let s := run c (init c peers) es
    alignedRun c s es' → 0 < h → h ≤ s.fst →
    replay (replay ((committedS s).take (h + 1)) ((backlog s h).bl.map (fun nd => Ntfn.conn nd.id nd.height 0)))
      (ntfsOf c s es') = committedS (run c s es') := by
  intro s hal h0 hle
  have hf : FInv s := C19_filter_tip_consistent c peers es
  rw [(C19_backlog_replay s h hf h0 hle).2]
  exact (C19_replay_events c s es' hf hal).1

/-! ### inside one write: the in-memory tip is raised before the first event -/

theorem cfRun_emits (endH : Nat) (log : List Nat) : ∀ (n start m : Nat) (x : Nat × Nat × Nat),
    x ∈ cfRun endH m (cfEmits log start n) → x.2.2 = m ∧ start ≤ x.2.1 ∧ x.2.1 < start + n := by
  intro n
  induction n with
  | zero => intro start m x hx; simp [cfEmits, cfRun] at hx
  | succ k ih =>
    intro start m x hx
    simp only [cfEmits, cfRun, List.mem_cons] at hx
    rcases hx with rfl | hx
    · exact ⟨rfl, Nat.le_refl _, by show start < start + (k + 1); omega⟩
    · obtain ⟨a, b, d⟩ := ih (start + 1) m x hx
      exact ⟨a, by omega, by omega⟩

/-- **Invariant over the fold, every batch**: with the order found in the source (tip first), at
every emission of a write covering heights `start .. start+n-1 = endH` the in-memory filter tip is
already `endH`, hence at or above the announced height - whatever the tip was before. -/
theorem C19_tip_covers_emission (log : List Nat) (start n endH m0 : Nat) (hend : start + n = endH + 1)
    (x : Nat × Nat × Nat) (hx : x ∈ cfRun endH m0 (cfSteps true log start n)) :
    x.2.2 = endH ∧ x.2.1 ≤ x.2.2 := by
  simp only [cfSteps, ↓reduceIte, cfRun] at hx
  obtain ⟨a, _, d⟩ := cfRun_emits endH log n start endH x hx
  exact ⟨a, by omega⟩

/-- with the tip raised AFTER the notification loop an event is observable while the in-memory tip
is still below it (the seeded regression) -/
theorem C19_tip_after_counterexample :
    (2, 2, 1) ∈ cfRun 3 1 (cfSteps false [0, 1, 2, 3] 2 2) := by decide

theorem replay_held (v : List Nat) : ∀ (evs : List Ntfn),
    (∀ e ∈ evs, ∃ i h f, e = .conn i h f ∧ h < v.length) → replay v evs = v := by
  intro evs
  induction evs with
  | nil => intro _; rfl
  | cons e es ih =>
    intro h
    obtain ⟨i, hh, f, he, hlt⟩ := h e (List.mem_cons_self ..)
    simp only [replay, List.foldl_cons]
    have : replay1 v e = v := by rw [he]; simp [replay1, hlt]
    rw [this]
    exact ih (fun e' he' => h e' (List.mem_cons_of_mem _ he'))

theorem connRange_mem (log : List Nat) (f : Nat) : ∀ (n start : Nat) (e : Ntfn), e ∈ connRange log f start n →
    ∃ i h, e = .conn i h f ∧ start ≤ h ∧ h < start + n := by
  intro n
  induction n with
  | zero => intro start e he; simp [connRange] at he
  | succ k ih =>
    intro start e he
    simp only [connRange, List.mem_cons] at he
    rcases he with rfl | he
    · exact ⟨_, start, rfl, Nat.le_refl _, by omega⟩
    · obtain ⟨i, h, a, b, d⟩ := ih (start + 1) e he
      exact ⟨i, h, a, by omega, by omega⟩

/-- **A subscriber that registers in the middle of a batch** (after the `k`-th event of an aligned
filter-header write, any `k`, backlog requested for any committed height `h > 0`): with the tip
raised first, the backlog already covers the whole batch, the remaining live events are for blocks
it holds and are skipped, and the replay gives exactly the committed chain - no block skipped. -/
theorem C19_midbatch_subscriber (s : State) (stop n endH k h : Nat) (hf : FInv s)
    (hi : idxOf s.log stop = some endH) (hn : n ≠ 0) (hal : endH = s.fst + n) (h0 : 0 < h) (hle : h ≤ s.fst) :
    replay (replay ((committedS s).take (h + 1))
        ((cfProbe true s stop n h).bl.map (fun nd => Ntfn.conn nd.id nd.height 0)))
      ((cfWrite s stop n true).2.ntf.drop k) = committedS (cfWrite s stop n true).1 := by
  obtain ⟨a, b, d, e⟩ := C19_connected s stop n endH hi hn (by omega)
  obtain ⟨_, hf'⟩ := C19_replay_cfwrite s stop n endH hf hi hn hal
  have hlt := (idxOf_some hi).1
  have hcut : (committedS s).take (h + 1) = (committedS (cfWrite s stop n true).1).take (h + 1) := by
    simp only [committedS, committedOf, a, d, List.take_take]
    congr 1; omega
  simp only [cfProbe, ↓reduceIte]
  rw [hcut, (C19_backlog_replay (cfWrite s stop n true).1 h hf' h0 (by rw [a]; omega)).2]
  apply replay_held
  intro ev hev
  have hev' := List.mem_of_mem_drop hev
  rw [e] at hev'
  obtain ⟨i, hh, he, _, hlt2⟩ := connRange_mem s.log endH n _ ev hev'
  refine ⟨i, hh, endH, he, ?_⟩
  simp only [committedS, committedOf, a, d, List.length_take]
  omega

/-- with the tip raised after the loop the same subscriber misses a committed block: stored
`[0,1,2,3]`, filter tip 1, write of blocks 2 and 3, registration after the first event with
height 1 - old-tip backlog is empty, the remaining live event is block 3, block 2 is never heard of -/
theorem C19_midbatch_gap_counterexample :
    let s : State := { log := [0, 1, 2, 3], fst := 1, ftip := ⟨1, 1⟩ }
    replay (replay ((committedS s).take 2) ((cfProbe false s 3 2 1).bl.map (fun nd => Ntfn.conn nd.id nd.height 0)))
      ((cfWrite s 3 2 true).2.ntf.drop 1) = [0, 1, 3] ∧ committedS (cfWrite s 3 2 true).1 = [0, 1, 2, 3] := by
  decide

/-! ### the strict replay rule on the events of one rollback / one write -/

theorem replayStrict_append (v : List Nat) (a b : List Ntfn) :
    replayStrict v (a ++ b) = (replayStrict v a).bind (fun v' => replayStrict v' b) := by
  induction a generalizing v with
  | nil => simp [replayStrict]
  | cons e es ih =>
    simp only [List.cons_append, replayStrict]
    cases h : replayStrict1 v e with
    | none => simp
    | some v' => simp [ih]

/-- **Strict replay of a rollback**: handed over one by one (rendezvous), the disconnected events
of `rollBackToHeight` apply strictly to the committed chain - each either names the held tip or is
for a block above it - and leave exactly the chain committed afterwards. -/
theorem rollBack_trace_strict (k fuel : Nat) (log : List Nat) (fst : Nat) (ft : Node) (hF : fst < log.length) :
    replayStrict (committedOf log fst) (rollBack k fuel log fst ft []).2.2.2
      = some (committedOf (rollBack k fuel log fst ft []).1 (rollBack k fuel log fst ft []).2.1) ∧
    (rollBack k fuel log fst ft []).2.1 < (rollBack k fuel log fst ft []).1.length := by
  induction fuel generalizing log fst ft with
  | zero => simp only [rollBack, replayStrict]; exact ⟨trivial, hF⟩
  | succ n ih =>
    by_cases hgt : tipHeight log > k
    · rw [C19_disconnected_step k n log fst ft [] hgt, rollBack_acc]
      simp only [List.nil_append]
      have hth : tipHeight log = log.length - 1 := rfl
      have hlen2 : 2 ≤ log.length := by omega
      by_cases hle : tipHeight log ≤ fst
      · have hfe : fst = log.length - 1 := by omega
        simp only [hle, ↓reduceIte]
        have hv : committedOf log fst = log := by simp only [committedOf]; exact List.take_of_length_le (by omega)
        have hne : log ≠ [] := by intro e; simp [e] at hlen2
        have hlast : log.getLast? = some (tipId log) := by
          simp only [tipId]; rw [List.getLast?_eq_some_getLast hne]; rfl
        have h1 : replayStrict1 log (.disc (tipId log) (tipHeight log) (tipId log.dropLast)) = some log.dropLast := by
          simp only [replayStrict1, hlast, hth]
          have e1 : ¬ (log.length < log.length - 1 + 1) := by omega
          have e2 : log.length = log.length - 1 + 1 := by omega
          simp [e1, ← e2]
        obtain ⟨i1, i2⟩ := ih log.dropLast (tipHeight log - 1) ⟨tipId log.dropLast, tipHeight log - 1⟩ (by simp; omega)
        refine ⟨?_, i2⟩
        rw [hv, replayStrict_append]
        simp only [replayStrict, h1, Option.bind_some]
        have hc : committedOf log.dropLast (tipHeight log - 1) = log.dropLast := by
          simp only [committedOf]; exact List.take_of_length_le (by simp; omega)
        rw [hc] at i1; exact i1
      · simp only [hle, ↓reduceIte]
        have hlt : fst + 1 < log.length := by omega
        have h1 : replayStrict1 (committedOf log fst) (.disc (tipId log) (tipHeight log) (tipId log.dropLast))
            = some (committedOf log fst) := by
          have hvl : (committedOf log fst).length = fst + 1 := by simp only [committedOf, List.length_take]; omega
          generalize committedOf log fst = v at hvl
          simp only [replayStrict1]
          have : v.length < tipHeight log + 1 := by omega
          simp [this]
        have hc : committedOf log.dropLast fst = committedOf log fst := by
          simp only [committedOf, List.dropLast_eq_take, List.take_take]; congr 1; omega
        obtain ⟨i1, i2⟩ := ih log.dropLast fst ft (by simp; omega)
        refine ⟨?_, i2⟩
        rw [replayStrict_append]
        simp only [replayStrict, h1, Option.bind_some]
        rw [← hc]; exact i1
    · simp only [rollBack, hgt, ↓reduceIte, replayStrict]
      exact ⟨trivial, hF⟩

/-- strict replay of the connected events of an aligned write: each extends the held tip -/
theorem conn_replay_strict (log : List Nat) (f : Nat) : ∀ (n start : Nat), start + n ≤ log.length →
    replayStrict (log.take start) (connRange log f start n) = some (log.take (start + n)) := by
  intro n
  induction n with
  | zero => intro start _; simp [connRange, replayStrict]
  | succ k ih =>
    intro start hle
    have hlt : start < log.length := by omega
    simp only [connRange, replayStrict]
    have h1 : replayStrict1 (log.take start) (.conn (log.getD start 0) start f) = some (log.take (start + 1)) := by
      simp only [replayStrict1, List.length_take]
      have e1 : ¬ (start < min start log.length) := by omega
      have e2 : start = min start log.length := by omega
      simp only [e1, ↓reduceIte, ← e2]
      rw [List.take_succ, List.getD_eq_getElem?_getD, List.getElem?_eq_getElem hlt]; simp
    rw [h1]
    simp only [Option.bind_some]
    have := ih (start + 1) (by omega)
    rw [this]; congr 2; omega

/-! ### the mutex of the in-memory tip is released before the batch is announced -/

theorem cfLockRun_emits (log : List Nat) : ∀ (n start : Nat) (held : Bool) (x : Nat × Bool),
    x ∈ cfLockRun held (cfLockEmits log start n) → x.2 = !held := by
  intro n
  induction n with
  | zero => intro start held x hx; simp [cfLockEmits, cfLockRun] at hx
  | succ k ih =>
    intro start held x hx
    simp only [cfLockEmits, cfLockRun, List.mem_cons] at hx
    rcases hx with rfl | hx
    · rfl
    · exact ih (start + 1) held x hx

/-- **A backlog request is enabled at every emission point of every batch**: with the order found
in the source (acquire, raise the tip, release, then announce) the writer never holds
`newFilterHeadersMtx` while it waits for an event to be taken, so the subscription manager can
serve a new subscription (`NotificationsSinceHeight` takes the read lock) between any two events -
no deadlock between the writer's rendezvous and the subscriber's lock. -/
theorem C19_backlog_enabled_during_batch (log : List Nat) (start n : Nat) (held0 : Bool) (x : Nat × Bool)
    (hx : x ∈ cfLockRun held0 (cfLockSteps true log start n)) : x.2 = true := by
  simp only [cfLockSteps, ↓reduceIte, List.cons_append, List.nil_append, cfLockRun] at hx
  have := cfLockRun_emits log n start false x hx
  simpa using this

/-- with the release moved behind the loop every emission happens with the mutex held: a backlog
request arriving then blocks, the writer waits for the blocked manager to take the next event -/
theorem C19_backlog_blocked_counterexample :
    cfLockRun false (cfLockSteps false [0, 1, 2, 3] 2 2) = [(2, false), (3, false)] := by decide

/-! ### the notification channel is a rendezvous -/

open NtfnChan in
/-- invariant of the channel for every capacity and every schedule: the producer is ahead of the
consumer by exactly the number of buffered events, which never exceeds the capacity -/
theorem chan_invariant (cap total : Nat) (sched : List NtfnChan.Act) (c : NtfnChan.Conf)
    (h : c.done = c.taken + c.queued ∧ c.queued ≤ cap) :
    (NtfnChan.run cap total c sched).done = (NtfnChan.run cap total c sched).taken + (NtfnChan.run cap total c sched).queued ∧
    (NtfnChan.run cap total c sched).queued ≤ cap := by
  induction sched generalizing c with
  | nil => exact h
  | cons a as ih =>
    apply ih
    cases a with
    | send =>
      simp only [NtfnChan.step]
      split
      · simp only; omega
      · exact h
    | recv =>
      simp only [NtfnChan.step]
      split
      · simp only; omega
      · exact h
    | sync =>
      simp only [NtfnChan.step]
      split
      · rename_i hc; simp only; omega
      · exact h

/-- **Rendezvous (capacity 0), every schedule**: whenever the consumer holds `taken` events the
handler has completed exactly the work that produced them - its stores and in-memory tips are the
post-state of the emission just received, it is never ahead.  Hence a backlog request served by
the consumer at any moment sees the state right after the last event it took, and backlog plus
the events still to come replay (`C19_replay`, `C19_midbatch_subscriber`). -/
theorem C19_rendezvous_no_lag (total : Nat) (sched : List NtfnChan.Act) :
    (NtfnChan.run 0 total {} sched).done = (NtfnChan.run 0 total {} sched).taken ∧
    (NtfnChan.run 0 total {} sched).queued = 0 := by
  have := chan_invariant 0 total sched {} ⟨rfl, Nat.le_refl _⟩
  omega

/-- with any buffer the handler can be ahead: capacity 2, two sends, one receive - at that receive
the handler's state is the post-state of the SECOND emission -/
theorem C19_buffered_lag_counterexample :
    NtfnChan.run 2 2 {} [.send, .send, .recv] = { done := 2, queued := 1, taken := 1 } := by decide

/-- what that does to a subscriber (the seeded regression): stored `[0,1,2,3]` with all filter
headers committed; the sync peer's heavier branch `4,5,6` off block 1 is adopted (events: 3 and 2
disconnected) and the filter headers of 4 and 5 are committed (events: 4 and 5 connected).  A
subscriber holding the chain up to height 1 whose backlog request is served while all four events
are still buffered gets `4,5` as backlog and then "3 disconnected at height 3", where it holds 5:
the stream cannot be applied.  Served after the events were handed over (rendezvous) it can. -/
theorem C19_buffered_subscriber_counterexample :
    let t : Tbl := { parent := fun i => match i with | 1 => some 0 | 2 => some 1 | 3 => some 2 | 4 => some 1 | 5 => some 4 | 6 => some 5 | _ => none
                     work := fun _ => 2, valid := fun _ => true, fresh := fun _ => true }
    let c : Cfg := { tbl := t, cps := [], win := 8 }
    let s0 : State := { log := [0, 1, 2, 3], hl := [⟨3, 3⟩, ⟨2, 2⟩, ⟨1, 1⟩, ⟨0, 0⟩], sync := some 1,
                        peers := [{ id := 1, cand := true }], htip := ⟨3, 3⟩, ftip := ⟨3, 3⟩, fst := 3 }
    let a := step c s0 (.headers 1 [4, 5, 6])
    let b := step c a.1 (.cfWrite 5 2 true)
    let evs := a.2.ntf ++ b.2.ntf
    let bl := (backlog b.1 1).bl.map (fun nd => Ntfn.conn nd.id nd.height 0)
    b.1.log = [0, 1, 4, 5, 6] ∧ evs = [.disc 3 3 2, .disc 2 2 1, .conn 4 2 3, .conn 5 3 3] ∧
    ((replayStrict [0, 1] bl).bind (fun v => replayStrict v evs)) = none ∧
    ((replayStrict [0, 1] bl).bind (fun v => replayStrict v [])) = some [0, 1, 4, 5] := by
  decide

/-! ### a block is announced as disconnected only after it was removed -/

theorem rollBack_len_le (k fuel : Nat) (log : List Nat) (fst : Nat) (ft : Node) (out : List Ntfn) :
    (rollBack k fuel log fst ft out).1.length ≤ log.length := by
  induction fuel generalizing log fst ft out with
  | zero => simp [rollBack]
  | succ n ih =>
    by_cases hgt : tipHeight log > k
    · rw [C19_disconnected_step k n log fst ft out hgt]
      have := ih log.dropLast (if tipHeight log ≤ fst then tipHeight log - 1 else fst)
        (if tipHeight log ≤ fst then ⟨tipId log.dropLast, tipHeight log - 1⟩ else ft)
        (out ++ [.disc (tipId log) (tipHeight log) (tipId log.dropLast)])
      simp at this; omega
    · simp [rollBack, hgt]

/-- **Remove, then notify - every rollback**: each disconnected event of `rollBackToHeight` is for a
height that the block header store no longer reaches when the rollback is over, and (fold
invariant) was emitted when the store had already been cut below it. -/
theorem C19_disconnected_after_removal (k fuel : Nat) (log : List Nat) (fst : Nat) (ft : Node) (e : Ntfn)
    (he : e ∈ (rollBack k fuel log fst ft []).2.2.2) :
    ∃ id h nt, e = .disc id h nt ∧ (rollBack k fuel log fst ft []).1.length ≤ h ∧ h < log.length := by
  induction fuel generalizing log fst ft with
  | zero => simp [rollBack] at he
  | succ n ih =>
    by_cases hgt : tipHeight log > k
    · rw [C19_disconnected_step k n log fst ft [] hgt, rollBack_acc] at he ⊢
      simp only [List.nil_append, List.singleton_append, List.mem_cons] at he ⊢
      have hth : tipHeight log = log.length - 1 := rfl
      have hl2 : 2 ≤ log.length := by omega
      rcases he with rfl | he
      · refine ⟨_, _, _, rfl, ?_, by omega⟩
        have := rollBack_len_le k n log.dropLast (if tipHeight log ≤ fst then tipHeight log - 1 else fst)
          (if tipHeight log ≤ fst then ⟨tipId log.dropLast, tipHeight log - 1⟩ else ft) []
        simp at this; omega
      · obtain ⟨id, h, nt, e1, e2, e3⟩ := ih log.dropLast _ _ he
        exact ⟨id, h, nt, e1, e2, by simp at e3; omega⟩
    · simp [rollBack, hgt] at he

/-- the statement order regenerated from blockmanager.go on this run: `writeCFHeadersMsg` writes the
store, then raises `filterHeaderTip(+Hash)` under its mutex, then notifies; `rollBackToHeight`
lowers the in-memory tip with the store; `blockNtfnChan` is made without a capacity (rendezvous) -/
theorem C19_source_facts :
    Gen.BlockMgr.cfWriteBeforeNotify = true ∧ Gen.BlockMgr.cfTipBeforeNotify = true ∧
    Gen.BlockMgr.rollbackLowersFilterTip = true ∧ Gen.BlockMgr.blockNtfnChanUnbuffered = true ∧
    Gen.BlockMgr.rollbackRemovesBeforeNotify = true ∧ Gen.BlockMgr.cfUnlockBeforeNotify = true := by decide

/-! Non-vacuity -/
example : (cfWrite { log := [0, 1, 2, 3] } 2 2 true).2.ntf = [.conn 1 1 2, .conn 2 2 2] := by decide
example : (({ log := [0, 1, 2, 3], fst := 2, ftip := ⟨2, 2⟩ } : State).rollBackTo 0).2
    = [.disc 3 3 2, .disc 2 2 1, .disc 1 1 0] := by decide
example : (({ log := [0, 1, 2, 3], fst := 2, ftip := ⟨2, 2⟩ } : State).rollBackTo 0).1.ftip = ⟨0, 0⟩ := by decide
example : (backlog { log := [0, 1, 2, 3], fst := 3, ftip := ⟨3, 3⟩ } 1).bl = [⟨2, 2⟩, ⟨3, 3⟩] := by decide

end Neutrino.BM
