import Neutrino.Model.GetCFilter
/-!
# C05 — where the committed headers come from, and what a freshly opened filter store holds

* The headers a response is verified against are the filter-header store's RANGE read.  For every
  history of writes, roll backs and range reads the range read returns, height by height, what the
  per-height read returns at that moment (`C05_verification_headers_are_committed`); the file part of
  this is `C07_trans_FetchFilterHeaderAncestors` (the translated `FetchHeaderAncestors` is `readRange`
  of the file).  A memory of earlier range reads that a roll back cuts at the OLD tip keeps the header
  of the lowest disconnected height: `C05_stale_range_cache_counterexample`.
* Every filter store opened in a process holds, under its network's genesis hash, the genesis filter of
  THAT network, whatever other networks were opened before (`C05_genesis_per_network`); a process-wide
  table keyed by something several networks share (the genesis merkle root) hands the first network's
  filter to the second: `C05_shared_genesis_memo_counterexample`.
-/
namespace Neutrino.GetCFilter

/-- what is remembered of earlier range reads agrees with the file -/
def FHStore.Coh (s : FHStore) : Prop := ∀ p ∈ s.mem, s.file[p.1]? = some p.2

theorem lookup_mem {l : List (Nat × Nat)} {k v : Nat} (h : lookup l k = some v) : (k, v) ∈ l := by
  unfold lookup at h
  cases hf : l.find? (·.1 == k) with
  | none => simp [hf] at h
  | some p =>
    have hm := List.mem_of_find?_eq_some hf
    have hk := List.find?_some hf
    obtain ⟨a, b⟩ := p
    simp [hf] at h
    simp at hk
    subst h; subst hk; exact hm

theorem coh_readRange (s : FHStore) (lo n : Nat) (h : s.Coh) : (s.readRange lo n).1.Coh := by
  unfold FHStore.readRange
  simp only
  split
  · exact h
  · intro p hp
    simp only [List.mem_filterMap, Option.map_eq_some_iff] at hp
    obtain ⟨x, _, v, hv, rfl⟩ := hp
    exact hv

theorem coh_step (s : FHStore) (o : FHOp) (h : s.Coh) : (fhStep false s o).Coh := by
  cases o with
  | write hs =>
    intro p hp
    have hf := h p hp
    have hl : p.1 < s.file.length := (List.getElem?_eq_some_iff.mp hf).1
    show (s.file ++ hs)[p.1]? = some p.2
    rw [List.getElem?_append_left hl]; exact hf
  | rollback =>
    unfold fhStep
    by_cases hle : s.file.length ≤ 1
    · simp only [hle, ↓reduceIte]; exact h
    · simp only [hle, ↓reduceIte]
      intro p hp
      simp only [List.mem_filter, decide_eq_true_eq, Bool.false_eq_true, ↓reduceIte] at hp
      have hf := h p hp.1
      show s.file.dropLast[p.1]? = some p.2
      rw [List.getElem?_dropLast]
      have : p.1 < s.file.length - 1 := by omega
      simp only [this, ↓reduceIte]; exact hf
  | readRange lo n => exact coh_readRange s lo n h

theorem coh_run (ops : List FHOp) (s : FHStore) (h : s.Coh) : (fhRun false s ops).Coh := by
  induction ops generalizing s with
  | nil => exact h
  | cons o os ih => exact ih _ (coh_step s o h)

/-- a coherent store's range read is the per-height read, height by height -/
theorem readRange_eq_at (s : FHStore) (lo n : Nat) (h : s.Coh) :
    (s.readRange lo n).2 = (List.range' lo n).map s.at? := by
  unfold FHStore.readRange
  simp only
  split
  · rename_i hall
    apply List.map_congr_left
    intro x hx
    have := List.all_eq_true.mp hall x hx
    cases hl : lookup s.mem x with
    | none => simp [hl] at this
    | some v => exact (h _ (lookup_mem hl)).symm
  · rfl

/-- **The headers handed to the verification are the committed ones**, for every history of header
writes, roll backs and earlier range reads, starting from any file: what `FetchHeaderAncestors` returns
for the heights `lo … lo+n-1` is what `FetchHeaderByHeight` returns for each of them now. -/
theorem C05_verification_headers_are_committed (file : List Nat) (ops : List FHOp) (lo n : Nat) :
    let s := fhRun false { file := file } ops
    (s.readRange lo n).2 = (List.range' lo n).map s.at? := by
  intro s
  exact readRange_eq_at s lo n (coh_run ops _ (by intro p hp; cases hp))

example : let s := fhRun false { file := [1, 2, 3] } [.readRange 1 2, .rollback, .write [9]]
    (s.readRange 1 2).2 = [some 2, some 9] ∧ s.at? 2 = some 9 := by decide

/-- a memory of the last range read that a roll back cuts at the tip BEFORE the roll back keeps the
header of the lowest disconnected height: after the re-org the range read differs from the per-height read -/
theorem C05_stale_range_cache_counterexample :
    let s := fhRun true { file := [1, 2, 3] } [.readRange 1 2, .rollback, .write [9]]
    (s.readRange 1 2).2 = [some 2, some 3] ∧ s.at? 2 = some 9 := by decide

/-! ### several stores in one process -/

theorem lookup_dbPut_self (db : List (Nat × Nat)) (k v : Nat) : lookup (dbPut db k v) k = some v := by
  simp [lookup, dbPut]

theorem find_filter_of_imp (l : List (Nat × Nat)) (q r : Nat × Nat → Bool) (h : ∀ x, q x = true → r x = true) :
    (l.filter r).find? q = l.find? q := by
  induction l with
  | nil => rfl
  | cons a as ih =>
    by_cases hr : r a = true
    · simp [List.filter_cons, hr, List.find?_cons, ih]
    · have hq : q a = false := by
        cases hqa : q a with
        | false => rfl
        | true => exact absurd (h a hqa) hr
      simp [List.filter_cons, hr, List.find?_cons, hq, ih]

theorem lookup_dbPut_other (db : List (Nat × Nat)) (k k' v : Nat) (h : k' ≠ k) :
    lookup (dbPut db k v) k' = lookup db k' := by
  have hk : (k == k') = false := by simp; exact fun e => h e.symm
  simp only [lookup, dbPut, List.find?_cons, hk]
  congr 1
  unfold eraseKey
  apply find_filter_of_imp
  intro x hx
  have : x.1 = k' := by simpa using hx
  simp [this, h]

/-- the invariant: every database holds its own network's filter, every memo entry its key's -/
def Stores.Ok (gen : Nat → Nat) (s : Stores) : Prop :=
  (∀ n f, lookup s.dbs n = some f → f = gen n) ∧ (∀ p ∈ s.memo, p.2 = gen p.1)

theorem open_ok (gen : Nat → Nat) (s : Stores) (net : Nat) (h : s.Ok gen) :
    (openStore gen id s net).Ok gen ∧ genesisGet (openStore gen id s net) net = some (gen net) := by
  unfold openStore
  cases hm : lookup s.memo (id net) with
  | some f =>
    have hf : f = gen net := by have := h.2 _ (lookup_mem hm); simpa using this
    subst hf
    refine ⟨⟨fun n f hl => ?_, h.2⟩, lookup_dbPut_self _ _ _⟩
    by_cases hn : n = net
    · subst hn; simp only [lookup_dbPut_self] at hl; exact (Option.some.inj hl).symm
    · rw [lookup_dbPut_other _ _ _ _ hn] at hl; exact h.1 n f hl
  | none =>
    refine ⟨⟨fun n f hl => ?_, fun p hp => ?_⟩, lookup_dbPut_self _ _ _⟩
    · by_cases hn : n = net
      · subst hn; simp only [lookup_dbPut_self] at hl; exact (Option.some.inj hl).symm
      · rw [lookup_dbPut_other _ _ _ _ hn] at hl; exact h.1 n f hl
    · cases hp with
      | head => rfl
      | tail _ hp => exact h.2 p hp

theorem openAll_ok (gen : Nat → Nat) (nets : List Nat) (s : Stores) (h : s.Ok gen) :
    (openAll gen id s nets).Ok gen := by
  induction nets generalizing s with
  | nil => exact h
  | cons n ns ih => exact ih _ (open_ok gen s n h).1

/-- **Every store opened in the process holds its own network's genesis filter**: whatever networks
were opened before and after (any order, any repetitions), the genesis filter a network's database
returns - the one `GetCFilter(genesis)` hands out unverified right after start-up - is the filter of
that network's genesis block (`gen net`, which is what the committed header of height 0 is made of). -/
theorem C05_genesis_per_network (gen : Nat → Nat) (nets : List Nat) (net f : Nat)
    (h : genesisGet (openAll gen id {} nets) net = some f) : f = gen net :=
  (openAll_ok gen nets {} ⟨fun _ _ hl => by simp [lookup] at hl, fun _ hp => by cases hp⟩).1 net f h

theorem C05_genesis_opened_last (gen : Nat → Nat) (nets : List Nat) (net : Nat) :
    genesisGet (openStore gen id (openAll gen id {} nets) net) net = some (gen net) :=
  (open_ok gen _ net (openAll_ok gen nets {} ⟨fun _ _ hl => by simp [lookup] at hl, fun _ hp => by cases hp⟩)).2

example : genesisGet (openAll (fun n => 10 + n) id {} [1, 2, 1]) 2 = some 12 := by decide

/-- a process-wide table keyed by what two networks share (both map to key 7: the genesis merkle root)
gives the network opened second the first one's genesis filter -/
theorem C05_shared_genesis_memo_counterexample :
    genesisGet (openAll (fun n => 10 + n) (fun _ => 7) {} [1, 2]) 2 = some 11 ∧
    genesisGet (openAll (fun n => 10 + n) (fun _ => 7) {} [2, 1]) 1 = some 12 := by decide

end Neutrino.GetCFilter
