/-
C14, the file side: "both header stores hold … their earlier contents extended
by THE FILE'S HEADERS up to the file's last height" presupposes that what the
importer reads at index `i` is the `i`-th header the file holds, stamped with
height `start + i`, and that a file that is cut short, torn, of another format
version or of an unknown header type is refused.  Proved here for every file
(any number of headers, any metadata) about the byte-level model of
chainimport/headers.go + file_source.go; the model is compared with the real
`fileHeaderImportSource` on generated files (driver `impfile`).
-/
import Neutrino.Lemmas.ImportFile
namespace Neutrino.ImportFile

def Meta.InRange (m : Meta) : Prop := m.magic < two32 ∧ m.version < 256 ∧ m.typ < 256 ∧ m.start < two32

/-- **Metadata round trip**: what `encode` writes, `decode` reads back, leaving the rest of the file. -/
theorem C14_meta_roundtrip (m : Meta) (hr : m.InRange) (hv : m.version = 0) (rest : Bytes) :
    decodeMeta (encodeMeta m ++ rest) = .ok (m, rest) := by
  obtain ⟨h1, _, h3, h4⟩ := hr
  unfold decodeMeta encodeMeta
  simp only [List.append_assoc, rd32_le32 m.magic h1]
  simp only [List.singleton_append, hv, rd8_byte 0 (by omega), ne_eq, not_true_eq_false, ↓reduceIte,
    rd8_byte m.typ h3, rd32_le32 m.start h4]
  cases m; simp_all

/-- another format version is refused, whatever follows -/
theorem C14_meta_version_refused (m : Meta) (hr : m.InRange) (hv : m.version ≠ 0) (rest : Bytes) :
    decodeMeta (encodeMeta m ++ rest) = .error .version := by
  obtain ⟨h1, h2, _, _⟩ := hr
  unfold decodeMeta encodeMeta
  simp only [List.append_assoc, rd32_le32 m.magic h1]
  simp only [List.singleton_append, rd8_byte m.version h2, ne_eq, hv, not_false_eq_true, ↓reduceIte]

/-- a file too short for the metadata is refused -/
theorem C14_short_file_refused (bs : Bytes) (h : bs.length < 10) : openFile bs = .error .short ∨ openFile bs = .error .version := by
  unfold openFile decodeMeta rd32 rd8
  match bs, h with
  | [], _ => simp
  | [_], _ => simp
  | [_, _], _ => simp
  | [_, _, _], _ => simp
  | [_, _, _, _], _ => simp
  | [_, _, _, _, v], _ => by_cases hv : v.toNat = 0 <;> simp [hv]
  | [_, _, _, _, v, _], _ => by_cases hv : v.toNat = 0 <;> simp [hv]
  | [_, _, _, _, v, _, _], _ => by_cases hv : v.toNat = 0 <;> simp [hv]
  | [_, _, _, _, v, _, _, _], _ => by_cases hv : v.toNat = 0 <;> simp [hv]
  | [_, _, _, _, v, _, _, _, _], _ => by_cases hv : v.toNat = 0 <;> simp [hv]
  | _ :: _ :: _ :: _ :: _ :: _ :: _ :: _ :: _ :: _ :: _, h => simp at h; omega

theorem decodeMeta_ok_version (bs : Bytes) (m : Meta) (rest : Bytes) (h : decodeMeta bs = .ok (m, rest)) : m.version = 0 := by
  unfold decodeMeta at h
  cases h1 : rd32 bs with
  | none => simp [h1] at h
  | some p1 =>
    obtain ⟨magic, r1⟩ := p1
    simp only [h1] at h
    cases h2 : rd8 r1 with
    | none => simp [h2] at h
    | some p2 =>
      obtain ⟨ver, r2⟩ := p2
      simp only [h2] at h
      by_cases hv : ver ≠ 0
      · simp [hv] at h
      · simp only [hv, ↓reduceIte] at h
        cases h3 : rd8 r2 with
        | none => simp [h3] at h
        | some p3 =>
          obtain ⟨typ, r3⟩ := p3
          simp only [h3] at h
          cases h4 : rd32 r3 with
          | none => simp [h4] at h
          | some p4 =>
            obtain ⟨start, r4⟩ := p4
            simp only [h4] at h
            have hver : ver = 0 := by simpa using hv
            cases h
            exact hver

/-- **What `Open` accepts is a whole file**: metadata of version 0 and a known type followed by exactly
`count ≥ 1` headers — no torn tail, nothing shifted. -/
theorem C14_open_sound (bs : Bytes) (info : Info) (h : openFile bs = .ok info) :
    info.md.version = 0 ∧ headerSize info.md.typ = some info.size ∧
    bs.length - metaSize = (bs.length - metaSize) / info.size * info.size ∧ bs.length - metaSize ≠ 0 ∧
    info.count = (bs.length - metaSize) / info.size % two32 := by
  unfold openFile at h
  cases hd : decodeMeta bs with
  | error e => simp [hd] at h
  | ok r =>
    obtain ⟨m, rest⟩ := r
    simp only [hd] at h
    have hver : m.version = 0 := decodeMeta_ok_version bs m rest hd
    cases hs : headerSize m.typ with
    | none => simp [hs] at h
    | some sz =>
      simp only [hs] at h
      by_cases h0 : bs.length - metaSize = 0
      · simp [h0] at h
      · by_cases ht : (bs.length - metaSize) % sz ≠ 0
        · simp [h0, ht] at h
        · simp only [h0, ht, ↓reduceIte] at h
          cases h
          refine ⟨hver, hs, ?_, h0, rfl⟩
          have hm : (bs.length - metaSize) % sz = 0 := by simpa using ht
          show bs.length - metaSize = (bs.length - metaSize) / sz * sz
          have hd := Nat.div_add_mod (bs.length - metaSize) sz
          rw [hm, Nat.add_zero, Nat.mul_comm] at hd
          exact hd.symm

/-- the known header types and their sizes -/
theorem C14_header_sizes : headerSize 0 = some 80 ∧ headerSize 1 = some 32 ∧ ∀ t, 2 ≤ t → headerSize t = none := by
  refine ⟨rfl, rfl, ?_⟩
  intro t ht
  match t, ht with
  | t + 2, _ => rfl

/-- **File round trip**: a file made of metadata and `n ≥ 1` headers of the right size opens, reports `n`
headers ending at height `start + n - 1`, and `GetHeader i` returns exactly the `i`-th header stamped with
height `start + i` — for every `i`, every `n`, every content. -/
theorem C14_file_roundtrip (m : Meta) (hr : m.InRange) (hv : m.version = 0) (sz : Nat) (hsz : headerSize m.typ = some sz)
    (hdrs : List Bytes) (hne : hdrs ≠ []) (hL : ∀ c ∈ hdrs, c.length = sz)
    (hsmall : metaSize + hdrs.length * sz < two32) (hend : m.start + hdrs.length < two32) :
    ∃ info, openFile (encodeFile m hdrs) = .ok info ∧ info.md = m ∧ info.size = sz ∧ info.count = hdrs.length ∧
      info.endH = m.start + hdrs.length - 1 ∧
      ∀ i (hi : i < hdrs.length), getHeader (encodeFile m hdrs) info i = .ok (hdrs[i], m.start + i) := by
  have hszpos : 0 < sz := by
    match hm : m.typ, hsz with
    | 0, h => simp [headerSize] at h; omega
    | 1, h => simp [headerSize] at h; omega
    | t + 2, h => simp [headerSize] at h
  have hlen : (encodeFile m hdrs).length = metaSize + hdrs.length * sz := by
    simp [encodeFile, encodeMeta_length, flatten_length sz hdrs hL, metaSize]
  have hpos : 0 < hdrs.length := List.length_pos_iff.mpr hne
  have husable : (encodeFile m hdrs).length - metaSize = hdrs.length * sz := by rw [hlen]; omega
  have hcount : hdrs.length * sz / sz = hdrs.length := Nat.mul_div_cancel _ hszpos
  have hlt : hdrs.length < two32 := by
    have : hdrs.length ≤ hdrs.length * sz := Nat.le_mul_of_pos_right _ hszpos
    omega
  refine ⟨⟨m, sz, hdrs.length, m.start + hdrs.length - 1⟩, ?_, rfl, rfl, rfl, rfl, ?_⟩
  · unfold openFile
    rw [show encodeFile m hdrs = encodeMeta m ++ hdrs.flatten from rfl, C14_meta_roundtrip m hr hv]
    simp only [hsz]
    rw [show encodeMeta m ++ hdrs.flatten = encodeFile m hdrs from rfl, husable]
    have h0 : hdrs.length * sz ≠ 0 := by
      have := Nat.mul_pos hpos hszpos; omega
    rw [if_neg h0, if_neg (by rw [Nat.mul_mod_left]; simp), hcount, Nat.mod_eq_of_lt hlt]
    have he : (m.start + hdrs.length + (two32 - 1)) % two32 = m.start + hdrs.length - 1 := by
      have h1 : m.start + hdrs.length + (two32 - 1) = (m.start + hdrs.length - 1) + two32 := by
        have : 0 < two32 := by unfold two32; omega
        omega
      rw [h1, Nat.add_mod_right, Nat.mod_eq_of_lt (by omega)]
    rw [he]
  · intro i hi
    unfold getHeader
    simp only
    have hoff : metaSize + i * sz < two32 := by
      have : i * sz ≤ hdrs.length * sz := Nat.mul_le_mul_right _ (by omega)
      omega
    rw [Nat.mod_eq_of_lt hoff]
    have hdrop : (encodeFile m hdrs).drop (metaSize + i * sz) = hdrs.flatten.drop (i * sz) := by
      unfold encodeFile
      rw [List.drop_append]
      have : metaSize + i * sz - (encodeMeta m).length = i * sz := by rw [encodeMeta_length]; unfold metaSize; omega
      rw [this, List.drop_eq_nil_of_le (by rw [encodeMeta_length]; unfold metaSize; omega), List.nil_append]
    rw [hdrop, chunk_at sz hdrs hL i hi]
    have hl : hdrs[i].length = sz := hL _ (List.getElem_mem hi)
    simp only [hl, Nat.lt_irrefl, ↓reduceIte]
    congr 2
    rw [Nat.add_comm, Nat.mod_eq_of_lt (by omega)]

/-- an index past the last header is refused (no wrap-around of the offset below 4 GiB) -/
theorem C14_get_past_end_refused (bs : Bytes) (info : Info) (i : Nat) (hsz : 0 < info.size)
    (hoff : metaSize + i * info.size < two32) (hpast : bs.length < metaSize + i * info.size + info.size) :
    getHeader bs info i = .error .read := by
  unfold getHeader
  simp only [Nat.mod_eq_of_lt hoff]
  have : ((bs.drop (metaSize + i * info.size)).take info.size).length < info.size := by
    simp only [List.length_take, List.length_drop]; omega
  rw [if_pos this]

/-- a body that is not a whole number of headers is refused; so is a file with no header -/
theorem C14_torn_or_empty_refused (m : Meta) (hr : m.InRange) (hv : m.version = 0) (sz : Nat) (hsz : headerSize m.typ = some sz)
    (body : Bytes) (hbad : body.length = 0 ∨ body.length % sz ≠ 0) :
    openFile (encodeMeta m ++ body) = .error .empty ∨ openFile (encodeMeta m ++ body) = .error .torn := by
  unfold openFile
  rw [C14_meta_roundtrip m hr hv]
  simp only [hsz]
  have : (encodeMeta m ++ body).length - metaSize = body.length := by
    simp [encodeMeta_length, metaSize]
  rw [this]
  rcases hbad with h | h
  · left; simp [h]
  · by_cases h0 : body.length = 0
    · left; simp [h0]
    · right; simp [h0, h]

/-- Remark (not a finding): the offset of `GetHeader` is computed in `uint32`; an index of `2^32 / size` or
more wraps around and is served from the front of the file with a height that does not belong to it.  The
importer never asks for such an index (files are smaller than 4 GiB and its indices stay below the header
count); the model wraps exactly like the code, and the driver compares the two on such indices too. -/
theorem C14_get_offset_wraps_remark :
    (getHeader (encodeFile ⟨1, 0, 1, 5⟩ [(List.range 32).map (fun i => UInt8.ofNat i)]) ⟨⟨1, 0, 1, 5⟩, 32, 1, 5⟩ 134217728).toOption =
      some ((List.range 32).map (fun i => UInt8.ofNat i), 134217733) := by decide

/-! ### non-vacuity -/
namespace Ex
def m : Meta := ⟨0x0709110b, 0, 1, 700000⟩
def h0 : Bytes := (List.range 32).map (fun i => UInt8.ofNat i)
def h1 : Bytes := (List.range 32).map (fun i => UInt8.ofNat (100 + i))
end Ex

example : Ex.m.InRange ∧ Ex.m.version = 0 ∧ headerSize Ex.m.typ = some 32 ∧ (∀ c ∈ [Ex.h0, Ex.h1], c.length = 32) := by
  refine ⟨by unfold Meta.InRange two32; decide, rfl, rfl, by decide⟩
example : (openFile (encodeFile Ex.m [Ex.h0, Ex.h1])).toOption.map (fun i => (i.count, i.endH)) = some (2, 700001) := by decide
example : (getHeader (encodeFile Ex.m [Ex.h0, Ex.h1]) ⟨Ex.m, 32, 2, 700001⟩ 1).toOption = some (Ex.h1, 700001) := by decide
example : (match openFile ((encodeFile Ex.m [Ex.h0, Ex.h1]).dropLast) with | .error .torn => true | _ => false) = true := by decide
example : (match openFile (encodeMeta Ex.m) with | .error .empty => true | _ => false) = true := by decide
example : (match openFile (encodeMeta { Ex.m with typ := 7 } ++ Ex.h0) with | .error .type => true | _ => false) = true := by decide
example : (match openFile (encodeMeta { Ex.m with version := 1 } ++ Ex.h0) with | .error .version => true | _ => false) = true := by decide

end Neutrino.ImportFile
