/-
C04 - what `ChainService.IsCurrent` answers, in terms of the function the CODE defines
(`blockManager.IsFullySynced`, translated from blockmanager.go on every run, Gen/TransSync.lean): the
client calls itself current only with block and filter header tips at the same height (the "matching block
and filter headers" of the property) and block headers synced (`BlockHeadersSynced`, itself translated:
`C02_trans_BlockHeadersSynced`; the model's `Net.current`).
-/
import Neutrino.Lemmas.TransSync
namespace Neutrino.Net
open Neutrino.Gen.TransSync Neutrino.GoInt

theorem C04_trans_IsFullySynced (headersSynced : Bool) (btip : Option T_wire_BlockHeader × Nat × Bool)
    (ftip : Atom × Nat × Bool) :
    IsFullySynced headersSynced btip ftip
      = (!btip.2.2 && !ftip.2.2 && decide (btip.2.1 = ftip.2.1) && headersSynced) :=
  trans_isFullySynced headersSynced btip ftip

/-- "current" implies: both stores answered, the filter header tip is at the block header tip's height,
and the block headers are synced -/
theorem C04_trans_current_matching (headersSynced : Bool) (btip : Option T_wire_BlockHeader × Nat × Bool)
    (ftip : Atom × Nat × Bool) (h : IsFullySynced headersSynced btip ftip = true) :
    btip.2.2 = false ∧ ftip.2.2 = false ∧ btip.2.1 = ftip.2.1 ∧ headersSynced = true := by
  rw [trans_isFullySynced] at h
  simp only [Bool.and_eq_true, Bool.not_eq_true', decide_eq_true_eq] at h
  exact ⟨h.1.1.1, h.1.1.2, h.1.2, h.2⟩

example : IsFullySynced true (none, 100, false) (7, 100, false) = true := by decide
example : IsFullySynced true (none, 100, false) (7, 99, false) = false := by decide

end Neutrino.Net
