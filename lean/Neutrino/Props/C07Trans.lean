/-
C07 - the read arithmetic of the header stores in terms of the functions the CODE defines
(`FetchHeaderAncestors` of both stores, `readHeadersFromFile`; translated from headerfs/store.go and
file.go on every run, Gen/TransStore.lean), against the store model `C07_ancestors` is about.
-/
import Neutrino.Props.C07
import Neutrino.Lemmas.TransStore
import Neutrino.Lemmas.TransFile
namespace Neutrino.Store
open Neutrino.Gen.TransStore Neutrino.Gen.TransFile Neutrino.GoInt

/-- **`blockHeaderStore.FetchHeaderAncestors` as the code spells it is the model's
`fetchAncestors`** over the durable state (index lookup and range read of that state), for every
count below 2^32 - wrap-around of `endHeight - numHeaders` included. -/
theorem C07_trans_FetchHeaderAncestors (d : Durable) (mk : Nat → T_wire_BlockHeader) (n id : Nat) (hn : n < 2 ^ 32) :
    blockHeaderStore_FetchHeaderAncestors n id (heightFn d) (rangeFn d.bf mk)
      = (match fetchAncestors d n id with
         | some (s, hs) => (hs.map mk, s, false)
         | none => ([], 0, true)) :=
  trans_fetchAncestors_block d mk n id hn

/-- `C07_ancestors` for the code's own function: on a durable state representing the list `l`,
asking for `n ≤ h` ancestors of the hash stored at height `h` returns the `n + 1` entries of the
list ending there and their start height; asking for more fails. -/
theorem C07_trans_ancestors (d : Durable) (l : Log) (hrep : Rep d l) (mk : Nat → T_wire_BlockHeader)
    (id h n : Nat) (hid : l.blocks[h]? = some id) (hn : n < 2 ^ 32) :
    (n ≤ h → blockHeaderStore_FetchHeaderAncestors n id (heightFn d) (rangeFn d.bf mk)
              = (((l.blocks.drop (h - n)).take (n + 1)).map mk, h - n, false)) ∧
    (n > h → blockHeaderStore_FetchHeaderAncestors n id (heightFn d) (rangeFn d.bf mk) = ([], 0, true)) := by
  obtain ⟨h1, h2, _, _⟩ := C07_ancestors d l hrep id h n hid
  rw [C07_trans_FetchHeaderAncestors d mk n id hn]
  exact ⟨fun hle => by rw [h1 hle], fun hgt => by rw [h2 hgt]⟩

/-- the filter-header store's `FetchHeaderAncestors`, over the filter file -/
theorem C07_trans_FetchFilterHeaderAncestors (d : Durable) (n id : Nat) (hn : n < 2 ^ 32) :
    filterHeaderStore_FetchHeaderAncestors n id (heightFn d) (rangeFn d.ff (fun x => x))
      = (match d.db.height? id with
         | none => ([], 0, true)
         | some h => if n > h then ([], 0, true)
                     else match readRange d.ff (h - n) h with
                          | some hs => (hs, h - n, false)
                          | none => ([], 0, true)) :=
  trans_fetchAncestors_filter d n id hn

/-- **`readHeadersFromFile` asks the file for exactly the bytes of entries `lo … hi`**: `(hi-lo+1)·sz`
bytes at offset `lo·sz` (for ranges that fit the code's uint32 length arithmetic), and returns the
reader over what `ReadAt` left in the buffer, or `ReadAt`'s error. -/
theorem C07_trans_readHeadersFromFile (f : Atom) (sz lo hi : Nat) (f1 : Atom → List Nat → Int → Int × Bool)
    (f2 : Atom → List Nat → Int → List Nat) (f3 : List Nat → Atom)
    (hle : lo ≤ hi) (hlen : sz * (hi - lo + 1) < 2 ^ 32) (hoff : lo * sz < 2 ^ 64) (hsz : 0 < sz) :
    readHeadersFromFile f sz lo hi f1 f2 f3
      = (if (f1 f (List.replicate ((hi - lo + 1) * sz) 0) ((lo * sz : Nat) : Int)).2 = false
         then (f3 (f2 f (List.replicate ((hi - lo + 1) * sz) 0) ((lo * sz : Nat) : Int)), false)
         else (0, true)) :=
  trans_readHeadersFromFile f sz lo hi f1 f2 f3 hle hlen hoff hsz

/-! satisfiable -/
example : (3 : Nat) ≤ 5 ∧ 80 * (5 - 3 + 1) < 2 ^ 32 ∧ 3 * 80 < 2 ^ 64 ∧ 0 < 80 := by decide
example : blockHeaderStore_FetchHeaderAncestors 2 7 (fun _ => (5, false)) (fun lo hi => ([], decide (lo ≠ 3 ∨ hi ≠ 5)))
    = ([], 3, false) := by decide
example : (blockHeaderStore_FetchHeaderAncestors 6 7 (fun _ => (5, false)) (fun lo hi => ([], decide (hi < lo)))).2.2 = true := by
  decide

/-- **`HeaderType.Size` is the model's entry width**: the width all offsets of the store model are computed
with (`width`: 80 bytes per entry of the block header file, 32 per entry of the filter header file) is what
the code's own function answers for the two header types, and any other header type is an error. -/
theorem C07_trans_HeaderType_Size (w : Which) (t : Atom) :
    HeaderType_Size (typeOf w) = (((width w : Nat) : Int), false) ∧
    ((∀ w', t ≠ typeOf w') → HeaderType_Size t = (0, true)) :=
  ⟨trans_headerTypeSize w, trans_headerTypeSize_unknown t⟩

example : HeaderType_Size 0 = (80, false) ∧ HeaderType_Size 1 = (32, false) ∧ HeaderType_Size 2 = (0, true) := by decide
example : ∀ w', (2 : Atom) ≠ typeOf w' := by intro w'; cases w' <;> decide

end Neutrino.Store
