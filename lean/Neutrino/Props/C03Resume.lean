/-
Property C03, the region "RESUMED cfheaders sync on a network with hard-coded
filter-header checkpoints": the start state of `cfHandler` is a parameter (any
filter tip F at or below any block tip B, any stores), the peers' checkpoint
lists are arbitrary.

* the checkpointed phase (the only place where served values meet the
  hard-coded checkpoints) is entered whenever a checkpoint-interval boundary -
  hence whenever a hard-coded height - lies in (F, B];
* its first step validates EVERY index, from 0, of EVERY peer's list: each peer
  whose (capped) list contradicts a hard-coded checkpoint at any index, also one
  at or below F, is banned, and a list handed back agrees with every hard-coded
  checkpoint;
* nothing is committed by that step.

The two variants that were tried against the code ("enter the phase only if the
filter tip lags a whole interval", "scan from index F/interval") are refuted by
closed counterexamples.
-/
import Neutrino.Props.C03
namespace Neutrino.CFHeaders

/-- what the theorems below rely on in the source (regenerated on every run): `cfHandler` enters the
checkpointed phase on the block tip alone (`checkpointedPhase`), fetches unconditionally after it, and
`resolveConflict` ranges over every peer's whole list when it calls `chainsync.ValidateCFHeader`
(`contradictsHard` = the scan from index 0) -/
theorem C03_resume_source_facts :
    Gen.CFHeaders.checkpointedPhaseCond = "len(goodCheckpoints)==0&&lastHeight>=wire.CFCheckptInterval" ∧
    Gen.CFHeaders.checkpointedFetchUnconditional = true ∧
    Gen.CFHeaders.hardScanWholeLists = true := by decide

/-- a checkpoint-interval boundary in (F, B] puts the block tip at or above the first interval -/
theorem C03_checkpointed_phase_resume (interval F B k : Nat) (hF : F < k * interval) (hB : k * interval ≤ B) :
    checkpointedPhase interval B = true := by
  unfold checkpointedPhase
  have hk : 0 < k := by
    rcases Nat.eq_zero_or_pos k with h | h
    · subst h; simp at hF
    · exact h
  have : interval ≤ k * interval := Nat.le_mul_of_pos_left interval hk
  exact decide_eq_true (Nat.le_trans this hB)

/-- in particular: for every hard-coded height H (a multiple of the interval) with F < H ≤ B -/
theorem C03_hardcoded_height_in_reach_runs_phase (interval F B i : Nat)
    (hF : F < (i + 1) * interval) (hB : (i + 1) * interval ≤ B) :
    checkpointedPhase interval B = true :=
  C03_checkpointed_phase_resume interval F B (i + 1) hF hB

/-- the "restart optimisation" skips the phase although a boundary lies between the tips
(seeded C03h-2: F = 1990, H = 2000, B = 2010) -/
theorem C03_checkpointed_phase_lag_counterexample :
    1990 < 2 * 1000 ∧ 2 * 1000 ≤ 2010 ∧ checkpointedPhaseLag 1000 1990 2010 = false ∧
    checkpointedPhase 1000 2010 = true := by decide

/-- the scan of the hard-coded pass covers every index: starting at 0 is the whole test -/
theorem C03_hard_scan_from_zero (interval : Nat) (hard : Nat → Option Hdr) (cps : List Hdr) :
    contradictsHardFrom 0 interval hard cps = contradictsHard interval hard cps := by
  unfold contradictsHardFrom contradictsHard
  simp only [Nat.zero_le, decide_true, Bool.true_and]

/-- a scan that starts at the store tip's index misses a forgery at an old hard-coded index
(seeded C13h-2: store tip 1000, hard-coded checkpoint 5 at height 1000, served 6) -/
theorem C03_hard_scan_from_tip_counterexample :
    contradictsHard 1000 (fun h => if h = 1000 then some 5 else none) [6, 9] = true ∧
    contradictsHardFrom (1000 / 1000) 1000 (fun h => if h = 1000 then some 5 else none) [6, 9] = false := by
  decide

/-- RESUMED sync, every start state, every family of lists: if a checkpoint-interval boundary
lies in (F, B] the checkpointed phase runs; every peer whose capped list contradicts a
hard-coded checkpoint at ANY index (from 0, also at or below the filter tip) is banned by its
first pass; a list handed back equals every hard-coded checkpoint at its index; and the store is
untouched by this step -/
theorem C03_checkpoints_resume (interval : Nat) (hard : Nat → Option Hdr) (s : St) (net : Net)
    (cp : List (Peer × List Hdr)) (k : Nat)
    (hF : s.fstore.length - 1 < k * interval) (hB : k * interval ≤ s.blocks.length - 1) :
    (cfStart interval hard s net cp).2 ≠ none ∧
    (∀ pc ∈ capLists interval (s.blocks.length - 1) cp, contradictsHard interval hard pc.2 = true →
      (pc.1, reasonCheckpoint) ∈
        (hardPass interval hard s (capLists interval (s.blocks.length - 1) cp)).1.bans) ∧
    (∀ good, (cfStart interval hard s net cp).2 = some (.ok good) →
      ∀ i c x, hard ((i + 1) * interval) = some c → good[i]? = some x → x = c) ∧
    (cfStart interval hard s net cp).1.fstore = s.fstore := by
  have hp := C03_checkpointed_phase_resume interval _ _ k hF hB
  unfold cfStart
  simp only [hp, ↓reduceIte]
  refine ⟨by simp, ?_, ?_, ?_⟩
  · intro pc hpc hc
    exact (C03_checkpoints interval hard s _).2 pc hpc hc
  · intro good hg i c x hh hx
    have hg' : (resolveConflict interval hard s net (capLists interval (s.blocks.length - 1) cp)).2 = .ok good := by
      simpa using hg
    exact C03_checkpoints_resolve interval hard s net _ good hg' i c x hh hx
  · exact (resolveConflict_frame interval hard s net _).1

/-- the hypotheses are satisfiable: filter tip 1, block tip 3, interval 2, a hard-coded
checkpoint at height 2 that the only peer contradicts - it is banned, nothing is handed back -/
example :
    let s : St := { blocks := [0, 1, 2, 3], fstore := [1, 11], fblk := [0, 1] }
    let net : Net := { peers := [1], resps := fun _ => [], served := fun _ _ => none,
                       verify := fun _ _ => .bad, getBlock := fun _ => true, pick := 0 }
    s.fstore.length - 1 < 1 * 2 ∧ 1 * 2 ≤ s.blocks.length - 1 ∧
    (cfStart 2 (fun h => if h = 2 then some 5 else none) s net [(1, [6])]).1.bans = [(1, reasonCheckpoint)] := by
  decide

end Neutrino.CFHeaders
