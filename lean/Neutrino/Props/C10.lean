/-
C10 — every UTXO-scan request is answered, once, with the true fate of its outpoint.
Property theorems only; lemmas live in Neutrino/Lemmas/Utxo*.lean.

Clauses:
* the answer is right (`C10_answer`; exact form `C10_answer_exact_partial`, falsified for duplicate requests with
  different start heights: `C10_answer_exact_counterexample`);
* a request is answered at most once (`C10_once`) and the request object hands the first answer out, to every call
  (`C10_result_first`, `C10_deliver_drops_second`, `C10_result_idempotent`);
* no request is lost: at every moment each request that entered is queued, held by the reporter, or has been
  delivered to (`C10_none_lost`); once the manager is idle or stopped every one has been delivered to
  (`C10_all_answered_partial`, failure paths included);
* every request is answered: falsified by the start-height-above-tip spin (`C10_all_answered_counterexample`); the
  spin is the only way not to finish (`C10_spin_only_above_tip`, `C10_no_spin_partial`).
-/
import Neutrino.Lemmas.UtxoPerm
import Neutrino.Lemmas.UtxoExact
import Neutrino.Lemmas.UtxoReaders
import Neutrino.Gen.Utxo
namespace Neutrino.Utxo

/-! ### example world (non-vacuity): tx 1 (two outputs) is created at height 0, output 0 is spent at height 2 by tx 2;
two requests for (1,0) and one for (7,0) are queued before `Start`, one for (1,1) arrives during the second
`GetBlockHash` call with a start height that has already been passed (it is served by the next batch). -/

def exW : World where
  chain := [[⟨1, [], 2⟩], [], [⟨2, [⟨1, 0⟩], 1⟩], []]
  tip := fun _ => 3
  arrive := fun k => if k = 2 then [⟨4, ⟨1, 1⟩, 0⟩] else []
  stopAt := fun _ => false
  hashErr := fun _ => false
  fm := fun _ _ _ => some true
  blockErr := fun _ => false

def exInit : List Req := [⟨1, ⟨1, 0⟩, 0⟩, ⟨2, ⟨1, 0⟩, 0⟩, ⟨3, ⟨7, 0⟩, 1⟩]

theorem exW_filterSound : FilterSound exW :=
  fun _ _ _ _ _ _ h => Bool.noConfusion (Option.some.inj h)

theorem exW_arrived (k : Nat) : arrived exW k = if 2 ≤ k then [⟨4, ⟨1, 1⟩, 0⟩] else [] := by
  induction k with
  | zero => rfl
  | succ k ih =>
    simp only [arrived]
    rw [ih]
    simp only [exW]
    by_cases h1 : k + 1 = 2
    · have : k = 1 := by omega
      subst this; rfl
    · by_cases h2 : 2 ≤ k
      · have h3 : 2 ≤ k + 1 := by omega
        simp only [h1, h2, h3, ↓reduceIte, List.append_nil]
      · have h3 : ¬ 2 ≤ k + 1 := by omega
        simp only [h1, h2, h3, ↓reduceIte, List.append_nil]

/-! ### the answer is right -/

/-- **Every delivery of every run** (any chain, any tip movement, any arrivals, `Stop`, failures, any sound filter):
an error, or the earliest spend of the outpoint in `[start height, last scanned height]`, or — when there is none —
the creating output (located in the request's own start block or, for duplicates sharing a batch, in another block
of the chain). -/
theorem C10_answer (w : World) (hf : FilterSound w) (sf mf : Nat) (init : List Req) :
    ∀ d ∈ (run w sf mf init).2.out, delivOk w.chain d :=
  mgr_ok w hf sf mf _ (fun _ hd => by cases hd)

example : FilterSound exW ∧ (run exW 20 10 exInit).1 = .idle ∧
    (run exW 20 10 exInit).2.out.map (fun d => (d.req.id, d.res)) =
      [(1, .ok (.spent 2 0 2)), (2, .ok (.spent 2 0 2)), (3, .ok .empty), (4, .ok (.output 0 0))] :=
  ⟨exW_filterSound, by decide, by decide⟩

/-- Full statement "the answer is exactly the fate seen from the request's own start height" is false when two
requests for one outpoint with different start heights share a batch: the later one is told about the output its
own start block does not create. -/
theorem C10_answer_exact_counterexample :
    ∃ (w : World) (init : List Req), FilterSound w ∧ ∃ d ∈ (run w 20 20 init).2.out, ¬ delivExact w.chain d :=
  ⟨{ chain := [[⟨1, [], 1⟩], []], tip := fun _ => 1, arrive := fun _ => [], stopAt := fun _ => false,
     hashErr := fun _ => false, fm := fun _ _ _ => some true, blockErr := fun _ => false },
   [⟨1, ⟨1, 0⟩, 0⟩, ⟨2, ⟨1, 0⟩, 1⟩],
   fun _ _ _ _ _ _ h => Bool.noConfusion (Option.some.inj h), by decide⟩

/-- With the excluded shape as hypothesis (duplicate requests for an outpoint name the same start height) every
non-error answer is exactly the fate: the earliest spend in `[start, last scanned]`, else the output created in the
start block, else empty. -/
theorem C10_answer_exact_partial (w : World) (hf : FilterSound w) (sf mf : Nat) (init : List Req)
    (hsb : ∀ k, SameBirth (init ++ arrived w k)) :
    ∀ d ∈ (run w sf mf init).2.out, delivExact w.chain d :=
  run_x w hf sf mf init hsb

example : FilterSound exW ∧ (∀ k, SameBirth (exInit ++ arrived exW k)) ∧ (run exW 20 10 exInit).1 = .idle ∧
    (run exW 20 10 exInit).2.out.length = 4 := by
  refine ⟨exW_filterSound, ?_, by decide, by decide⟩
  intro k
  rw [exW_arrived]
  unfold SameBirth
  split <;> decide

/-! ### answered at most once -/

/-- requests with distinct ids receive at most one delivery each -/
theorem C10_once (w : World) (sf mf : Nat) (init : List Req)
    (hnd : ∀ k, ((init ++ arrived w k).map (·.id)).Nodup) :
    ((run w sf mf init).2.out.map (fun d => d.req.id)).Nodup := by
  have hp := (run_cons w sf mf init).perm
  have hnd' : ((holds (run w sf mf init).2).map (·.id)).Nodup := ((hp.map _).nodup_iff).2 (hnd _)
  have hsub : ((run w sf mf init).2.out.map (·.req)).Sublist (holds (run w sf mf init).2) :=
    List.sublist_append_right _ _
  have := List.Nodup.sublist (hsub.map (·.id)) hnd'
  rw [List.map_map] at this
  exact this

example : (∀ k, ((exInit ++ arrived exW k).map (·.id)).Nodup) ∧ (run exW 20 10 exInit).2.out.length = 4 := by
  refine ⟨?_, by decide⟩
  intro k
  rw [exW_arrived]
  split <;> decide

/-- the first delivery is what `Result` returns -/
theorem C10_result_first (o : ReqObj) (r : Res) (h : o = {}) : ((o.deliver r).result).2 = some r := by
  subst h; rfl

/-- a second delivery to the same request object is dropped -/
theorem C10_deliver_drops_second :
    ∀ r1 r2, (({} : ReqObj).deliver r1).deliver r2 = ({} : ReqObj).deliver r1 := fun _ _ => rfl

/-- once a `Result` call has returned `r`, every later call returns `r` and leaves the object as it is (any object
state, any deliveries in between being dropped or not) -/
theorem C10_result_idempotent (o : ReqObj) (r : Res) (h : (o.result).2 = some r) :
    o.result.1.result = (o.result.1, some r) := by
  obtain ⟨chan, cache⟩ := o
  cases cache with
  | some c =>
    simp only [ReqObj.result] at h ⊢
    rw [h]
  | none =>
    cases chan with
    | none => simp only [ReqObj.result] at h; cases h
    | some x =>
      simp only [ReqObj.result] at h ⊢
      rw [h]

/-- ... and so do `n` further calls -/
theorem C10_result_idempotent_iter (o : ReqObj) (r : Res) (h : (o.result).2 = some r) :
    ∀ n, Nat.repeat (fun p : ReqObj × Option Res => p.1.result) n o.result = (o.result.1, some r)
  | 0 => Prod.ext rfl h
  | n + 1 => by
    show (Nat.repeat (fun p : ReqObj × Option Res => p.1.result) n o.result).1.result = _
    rw [C10_result_idempotent_iter o r h n]
    exact C10_result_idempotent o r h

example : let o := ({} : ReqObj).deliver (.ok (.spent 2 0 2))
    o.result.2 = some (.ok (.spent 2 0 2)) ∧ o.result.1.result.2 = some (.ok (.spent 2 0 2)) ∧
    (o.result.1.deliver (.err .shutdown)).result.2 = some (.ok (.spent 2 0 2)) := by decide

/-! ### any number of readers of one request, in any interleaving with the deliveries
(`C10_result_idempotent` generalised: `Model/UtxoReaders.lean`) -/

/-- **Every `Result` call on a request returns the same answer**: whatever the number of readers, the
order in which they complete and the deliveries in between (a second delivery is dropped or sits in
the channel unread), any two answers handed out are equal. -/
theorem C10_readers_agree (evs : List REv) :
    ∀ p ∈ (runR {} evs).2, ∀ q ∈ (runR {} evs).2, p.2 = q.2 :=
  answers_agree {} evs

/-- **... and it is the first delivery**, i.e. (by `C10_answer`) the true fate of the outpoint. -/
theorem C10_readers_first (pre post : List REv) (r : Res) (hpre : ∀ e ∈ pre, ∃ i, e = .read i) :
    ∀ p ∈ (runR {} (pre ++ .deliver r :: post)).2, p.2 = r := by
  have h0 : ∀ (l : List REv), (∀ e ∈ l, ∃ i, e = REv.read i) → runR {} l = ({}, []) := by
    intro l
    induction l with
    | nil => intro _; rfl
    | cons e es ih =>
      intro h
      obtain ⟨i, rfl⟩ := h e (List.mem_cons_self ..)
      have := ih (fun e he => h e (List.mem_cons_of_mem _ he))
      simp [runR, stepR, ReqObj.result, this]
  intro p hp
  rw [runR_append, h0 pre hpre] at hp
  simp only [List.nil_append] at hp
  have ha : (stepR {} (.deliver r)).1.answer = some r := by simp [stepR, ReqObj.deliver, ReqObj.answer]
  have := (answer_stable_run _ r post ha).2
  simp only [runR, stepR, Option.toList, List.nil_append] at hp
  exact this p hp

/-- **No reader hangs once the request is answered**: after a delivery, however many readers have come
and gone and whatever else was delivered, the next attempt of ANY reader completes. -/
theorem C10_readers_none_hang (pre post : List REv) (r : Res) (i : Nat) :
    ∃ a, (i, a) ∈ (runR {} (pre ++ .deliver r :: post ++ [.read i])).2 := by
  have hsome := deliver_answers (runR {} pre).1 r
  obtain ⟨a, ha⟩ := Option.isSome_iff_exists.mp hsome
  have hst := (answer_stable_run _ a post ha).1
  refine ⟨a, ?_⟩
  rw [show pre ++ REv.deliver r :: post ++ [REv.read i] = pre ++ (REv.deliver r :: (post ++ [REv.read i])) by simp]
  rw [runR_append]
  simp only [List.mem_append]
  right
  simp only [runR]
  rw [List.mem_append]; right
  rw [runR_append]
  simp only [List.mem_append]
  right
  simp only [runR, read_completes _ a i hst, Option.toList, List.append_nil]
  exact List.mem_singleton.mpr rfl

/-- three readers, two of them inside `Result` before the delivery, a second delivery in between: all get the first -/
example : (runR {} [.read 1, .read 2, .deliver (.ok (.spent 2 0 2)), .read 2, .deliver (.err .shutdown), .read 1, .read 3]).2 =
    [(2, .ok (.spent 2 0 2)), (1, .ok (.spent 2 0 2)), (3, .ok (.spent 2 0 2))] := by decide

/-! ### every request is answered -/

/-- Full statement "every request is eventually answered" is false: a request whose start height is above the tip
makes the manager rescan nothing for ever. -/
theorem C10_all_answered_counterexample :
    ∃ (w : World) (init : List Req), FilterSound w ∧ (run w 10 10 init).1 = .spin ∧ (run w 10 10 init).2.out = [] :=
  ⟨{ chain := [[], []], tip := fun _ => 1, arrive := fun _ => [], stopAt := fun _ => false,
     hashErr := fun _ => false, fm := fun _ _ _ => some true, blockErr := fun _ => false },
   [⟨1, ⟨1, 0⟩, 5⟩],
   fun _ _ _ _ _ _ h => Bool.noConfusion (Option.some.inj h), by decide, by decide⟩

/-- No request is ever lost: whatever the run status (fuel exhaustion included) every request that entered is still
queued, deferred to the next batch, held by the reporter, or has been delivered to — as multisets. -/
theorem C10_none_lost (w : World) (sf mf : Nat) (init : List Req) :
    let r := run w sf mf init
    (r.2.pq ++ r.2.next ++ entReqs r.2.ents ++ r.2.out.map (·.req)).Perm (init ++ arrived w r.2.k) :=
  (run_cons w sf mf init).perm

/-- a run cut short inside a batch: one request deferred to the next batch, one held by the reporter, two answered -/
example : (run exW 3 10 exInit).1 = .fuelOut ∧ (run exW 3 10 exInit).2.next.map (·.id) = [4] ∧
    (entReqs (run exW 3 10 exInit).2.ents).map (·.id) = [3] ∧
    (run exW 3 10 exInit).2.out.map (·.req.id) = [1, 2] := by decide

/-- Once the manager is idle or stopped nothing is queued or watched and every request that entered has been
delivered to — block-fetch failures and `Stop` included (the requests dequeued at the failing height get the error). -/
theorem C10_all_answered_partial (w : World) (sf mf : Nat) (init : List Req) :
    let r := run w sf mf init
    (r.1 = .idle ∨ r.1 = .stopped) →
      r.2.pq = [] ∧ r.2.next = [] ∧ r.2.ents = [] ∧ (r.2.out.map (·.req)).Perm (init ++ arrived w r.2.k) := by
  intro r hs
  have hfin := mgr_final w sf mf { pq := init } rfl hs
  refine ⟨hfin.1, hfin.2.1, hfin.2.2, ?_⟩
  have hp := C10_none_lost w sf mf init
  have h1 : (run w sf mf init).2.pq = [] := hfin.1
  have h2 : (run w sf mf init).2.next = [] := hfin.2.1
  have h3 : (run w sf mf init).2.ents = [] := hfin.2.2
  simp only [h1, h2, h3, entReqs_nil, List.append_nil, List.nil_append] at hp
  exact hp

example : (run exW 20 10 exInit).1 = .idle ∧
    (run exW 20 10 exInit).2.out.length = 4 ∧ (run exW 20 10 exInit).2.k = 8 :=
  ⟨by decide, by decide, by decide⟩

/-- failure path: the block fetch of the request's start height fails; the request gets the error -/
example :
    let w : World := { chain := [[]], tip := fun _ => 0, arrive := fun _ => [], stopAt := fun _ => false,
                       hashErr := fun _ => false, fm := fun _ _ _ => some true, blockErr := fun _ => true }
    let q : Req := ⟨1, ⟨1, 0⟩, 0⟩
    (run w 10 10 [q]).1 = .idle ∧
    (run w 10 10 [q]).2.out.map (fun d => (d.req.id, d.res)) = [(1, .err .blockFail)] := by decide

/-- failure path: `Stop` during the `GetBlockHash` call of the request's start height; the request gets the error -/
example :
    let w : World := { chain := [[]], tip := fun _ => 0, arrive := fun _ => [], stopAt := fun k => k == 1,
                       hashErr := fun _ => false, fm := fun _ _ _ => some true, blockErr := fun _ => false }
    let q : Req := ⟨1, ⟨1, 0⟩, 0⟩
    (run w 10 10 [q]).1 = .idle ∧
    (run w 10 10 [q]).2.out.map (fun d => (d.req.id, d.res)) = [(1, .err .shutdown)] := by decide

/-- the only way not to finish (fuel aside) is the spin: the queue is non-empty and every queued request starts
above the tip -/
theorem C10_spin_only_above_tip (w : World) (sf mf : Nat) (init : List Req) :
    let r := run w sf mf init
    r.1 = .spin → r.2.pq ≠ [] ∧ ∀ q ∈ r.2.pq, w.tip r.2.k < q.birth := by
  intro r hs
  exact mgr_spin w sf mf _ hs

/-- The exclusion for the spin as an explicit hypothesis: when every start height is at or below every tip the
scanner is shown, the manager never spins; so (fuel aside) it ends idle or stopped and `C10_all_answered_partial`
applies. -/
theorem C10_no_spin_partial (w : World) (sf mf : Nat) (init : List Req)
    (hb : ∀ k, ∀ q ∈ init ++ arrived w k, ∀ j, q.birth ≤ w.tip j) :
    (run w sf mf init).1 ≠ .spin := by
  intro hs
  obtain ⟨hne, hall⟩ := C10_spin_only_above_tip w sf mf init hs
  have hp := (run_cons w sf mf init).perm
  cases hpq : (run w sf mf init).2.pq with
  | nil => exact hne hpq
  | cons q rest =>
    have hq : q ∈ (run w sf mf init).2.pq := by rw [hpq]; exact List.mem_cons_self
    have hh : q ∈ holds (run w sf mf init).2 := by
      unfold holds
      exact List.mem_append_left _ (List.mem_append_left _ (List.mem_append_left _ hq))
    have hin := hp.subset hh
    have h1 := hb _ q hin (run w sf mf init).2.k
    have h2 := hall q hq
    omega

example : (∀ k, ∀ q ∈ exInit ++ arrived exW k, ∀ j, q.birth ≤ exW.tip j) := by
  intro k q hq j
  rw [exW_arrived] at hq
  show q.birth ≤ 3
  split at hq
  · exact (by decide : ∀ q ∈ exInit ++ [(⟨4, ⟨1, 1⟩, 0⟩ : Req)], q.birth ≤ 3) q hq
  · exact (by decide : ∀ q ∈ exInit ++ ([] : List Req), q.birth ≤ 3) q hq

/-- What the model takes from the Go source, re-extracted from the repo's working tree on every run:
`ProcessBlock` adds the new requests and looks for their initial outputs before it looks for spends (`joinReq`
before `notifySpends`); `dequeueAtHeight` defers with `<` and takes with `==` (the partition in `stepH`);
`scanFromHeight` makes a fresh reporter, fails the remaining requests on every error path (and, after the dequeue, the
just-dequeued ones with `failRequests`: `failNew`), and ends with
`NotifyUnspentAndUnfound` (`scan`); `notifyRequests` forgets the outpoint in all three maps before it delivers (one
`Entry` list) and the watch list is rebuilt from the per-outpoint map `outpoints` (one entry per watched outpoint: the
key list of the `Entry` list); a nil initial report does not overwrite a recorded one (`mergeInit`, the F5 repair); `deliver` is a
non-blocking send on a channel of capacity 1 and `Result` returns the cached result before it selects (`ReqObj`). -/
theorem C10_source_facts :
    Gen.Utxo.processBlockSteps = ["b.addNewRequests", "b.findInitialTransactions", "b.notifySpends"] ∧
    Gen.Utxo.dequeueOps = ["<", "=="] ∧
    Gen.Utxo.dequeueTargets = ["s.nextBatch", "requests"] ∧
    Gen.Utxo.scanSeq = ["s.cfg.BestSnapshot", "newBatchSpendReporter", "reporter.FailRemaining",
      "s.cfg.GetBlockHash", "reporter.FailRemaining", "s.dequeueAtHeight", "s.cfg.BlockFilterMatches",
      "reporter.FailRemaining", "reporter.NotifyProgress", "failRequests", "reporter.FailRemaining",
      "s.cfg.GetBlock", "failRequests", "reporter.FailRemaining", "failRequests", "reporter.FailRemaining",
      "reporter.ProcessBlock", "reporter.NotifyProgress",
      "s.cfg.BestSnapshot", "reporter.FailRemaining", "reporter.NotifyUnspentAndUnfound"] ∧
    Gen.Utxo.watchListSources = ["b.outpoints"] ∧
    Gen.Utxo.notifyRequestsSeq = ["delete b.initialTxns", "delete b.outpoints", "delete b.requests", "deliver"] ∧
    Gen.Utxo.initialKeepsNonNil = true ∧
    Gen.Utxo.deliverNonBlocking = true ∧
    Gen.Utxo.resultChecksCacheFirst = true ∧
    Gen.Utxo.resultChanCap = 1 := by decide

end Neutrino.Utxo
