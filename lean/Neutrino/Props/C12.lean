/-
C12 — each query batch gets exactly one verdict; success means all answered.
Property theorems only; lemmas live in Neutrino/Lemmas.
-/
import Neutrino.Spec.Dispatcher
import Neutrino.Gen.Dispatcher
namespace Neutrino.Disp

/-- The facts regenerated from query/*.go on this run that the model and the
proofs rely on: the timeout/retry/score constants; every send on a batch's
result channel inside the dispatcher loop is followed by
`delete(currentBatches, …)` in the same block, the only other send is the exit
`defer`; the channel has capacity 1; a failed job is pushed back as the same
object (same index); the queue orders by index; the ranking orders by
ascending score. -/
theorem C12_source_facts :
    Gen.Dispatcher.minQueryTimeoutSec = 2 ∧ Gen.Dispatcher.maxQueryTimeoutSec = 32 ∧
    Gen.Dispatcher.defaultNumRetries = 2 ∧
    Gen.Dispatcher.bestScore = 0 ∧ Gen.Dispatcher.defaultScore = 4 ∧ Gen.Dispatcher.worstScore = 8 ∧
    Gen.Dispatcher.verdictSends = 5 ∧ Gen.Dispatcher.verdictSendsFollowedByDelete = 5 ∧
    Gen.Dispatcher.shutdownSendsInDefer = 1 ∧ Gen.Dispatcher.errChanCapOne = true ∧
    Gen.Dispatcher.requeueSameJob = true ∧ Gen.Dispatcher.heapPushes = 2 ∧
    Gen.Dispatcher.queueOrderedByIndex = true ∧ Gen.Dispatcher.orderAscendingScore = true := by decide

end Neutrino.Disp
