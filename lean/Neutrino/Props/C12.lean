/-
C12 — each query batch gets exactly one verdict; success means all answered.
Property theorems only; lemmas live in Neutrino/Lemmas.
-/
import Neutrino.Spec.Dispatcher
import Neutrino.Lemmas.Dispatcher
import Neutrino.Lemmas.DispatcherJobs
import Neutrino.Lemmas.DispatcherRank
import Neutrino.Lemmas.Worker
import Neutrino.Gen.Worker
import Neutrino.Gen.Dispatcher
namespace Neutrino.Disp

/-- The facts regenerated from query/*.go on this run that the model and the
proofs rely on: the timeout/retry/score constants; every send on a batch's
result channel inside the dispatcher loop is followed by
`delete(currentBatches, …)` in the same block, the only other send is the exit
`defer`; the channel has capacity 1; a failed job is pushed back as the same
object (same index); the queue orders by index; the ranking orders by
ascending score; every select that offers a job on a worker's `NewJob()`
channel is blocking (none has a `default` arm: the dispatcher stays with the
worker it is offering the job to until that worker takes it, exits, or the work
manager quits); nothing in peer_rank.go can remove an entry from the score map
(no `delete`, no `clear`, the map is never re-assigned). -/
theorem C12_source_facts :
    Gen.Dispatcher.minQueryTimeoutSec = 2 ∧ Gen.Dispatcher.maxQueryTimeoutSec = 32 ∧
    Gen.Dispatcher.defaultNumRetries = 2 ∧
    Gen.Dispatcher.bestScore = 0 ∧ Gen.Dispatcher.defaultScore = 4 ∧ Gen.Dispatcher.worstScore = 8 ∧
    Gen.Dispatcher.verdictSends = 5 ∧ Gen.Dispatcher.verdictSendsFollowedByDelete = 5 ∧
    Gen.Dispatcher.shutdownSendsInDefer = 1 ∧ Gen.Dispatcher.errChanCapOne = true ∧
    Gen.Dispatcher.requeueSameJob = true ∧ Gen.Dispatcher.heapPushes = 2 ∧
    Gen.Dispatcher.queueOrderedByIndex = true ∧ Gen.Dispatcher.orderAscendingScore = true ∧
    1 ≤ Gen.Dispatcher.jobOfferSelects ∧ Gen.Dispatcher.jobOfferSelectsWithDefault = 0 ∧
    Gen.Dispatcher.rankRemovals = 0 := by decide

/-- number of verdicts written to batch `b`'s result channel so far -/
def verdictCount (s : State) (b : Nat) : Nat := (s.verdicts.filter (fun x => x.1 == b)).length

/-- **At most one verdict** — for every event list (any interleaving of new
batches, peers connecting, workers accepting, results of every kind, idle-timer
wakes fresh or stale, hard deadlines passing, workers exiting, shutdown, late
submissions) and every batch number, the batch's result channel is written at
most once.  The channel has capacity 1 (`C12_source_facts`), so this is also
"a finished batch never blocks the dispatcher". -/
theorem C12_at_most_once (es : List Ev) (b : Nat) : verdictCount (run init es) b ≤ 1 :=
  count_le_one_of_nodup _ b (invA_run init es invA_init).nodupVs

/-- **Exactly one verdict once the dispatcher was stopped** — after any event
list containing `quit`, every batch ever submitted (batch numbers are
`0 … nextBatch-1`, including batches submitted after the stop) has exactly one
verdict. -/
theorem C12_exactly_once_on_quit (es : List Ev) (hq : Ev.quit ∈ es) (b : Nat)
    (hb : b < (run init es).nextBatch) : verdictCount (run init es) b = 1 := by
  have inv := invA_run init es invA_init
  have hquit : (run init es).quit = true := run_quit_of_mem init es hq
  have hids := inv.quitEmpty hquit
  have hmem : b ∈ vids (abs (run init es)) := by
    cases (inv.cover b).mp hb with
    | inl h => rw [hids] at h; exact absurd h List.not_mem_nil
    | inr h => exact h
  exact Nat.le_antisymm (C12_at_most_once es b) (count_pos_of_mem _ b hmem)

/-- every `newBatch` event, before or after shutdown, takes the next batch number -/
theorem C12_batch_numbers (s : State) (n : Nat) (nrm : Bool) (mr : Nat) (pr hn : Bool)
    (h : offering s = false ∨ s.quit = true) :
    (step s (.newBatch n nrm mr pr hn)).1.nextBatch = s.nextBatch + 1 := by
  unfold step
  by_cases hq : s.quit = true
  · simp only [hq, ↓reduceIte, stepLate]
  · have hq' : s.quit = false := by cases hh : s.quit <;> simp_all
    cases h with
    | inl h => simp only [hq', h, Bool.false_eq_true, ↓reduceIte, stepNewBatch]
    | inr h => exact absurd h hq

/-- **Ranking** — whenever the dispatcher hands out a job, it is the head of
the queue and goes to a worker that is free, still running, and whose score no
free worker beats: minimal among ALL free running workers (`freeLive`: no
active job by the dispatcher's bookkeeping, `Run` not returned), whether or not
they are receiving on their job channel at that moment — being at the channel
is not part of the state the hand-out looks at (`C12_rank_waits_for_best` makes
the not-yet-receiving workers explicit). -/
theorem C12_rank (s : State) (p idx tries to : Nat)
    (h : (step s (.accept p)).2 = [.dispatched p idx tries to]) :
    bestFree s p = true ∧ ∃ job rest, s.work = job :: rest ∧ job.idx = idx ∧
      (∀ q ∈ freeLive s, scoreOf s.rank p ≤ scoreOf s.rank q.addr) := by
  unfold step at h
  by_cases hq : s.quit = true
  · simp only [hq, ↓reduceIte] at h; cases h
  · have hq' : s.quit = false := by cases hh : s.quit <;> simp_all
    simp only [hq', Bool.false_eq_true, ↓reduceIte, stepAccept] at h
    cases hw : s.work with
    | nil => simp only [hw] at h; cases h
    | cons job rest =>
      simp only [hw] at h
      by_cases hb : bestFree s p = true
      · simp only [hb, ↓reduceIte, List.cons.injEq, Out.dispatched.injEq, and_true, true_and] at h
        refine ⟨hb, job, rest, rfl, h.1, ?_⟩
        intro q hqm
        simp only [bestFree, Bool.and_eq_true, List.all_eq_true, decide_eq_true_eq] at hb
        exact hb.2 q hqm
      · simp only [hb, Bool.false_eq_true, ↓reduceIte] at h; cases h


/-- **The dispatcher waits for the best-ranked free worker** — the offer loop
over any list `Order` may produce in state `s` (`RankedFree`), for EVERY
assignment `fate` of what each free worker does while the job is on offer:
take it at once (`takes 0`: it is receiving on its job channel), take it later
(`takes (n+1)`: free by the bookkeeping but not yet back at its channel — a real
worker that has just delivered a result), or exit.  The worker `p` that ends up
with the job does not exit, everything ranked ahead of it exited, and no free
running worker that stays — receiving or not — has a strictly better score.  In
particular a worse-ranked worker that is already waiting at its channel never
gets the job while a better-ranked free one is merely not there yet. -/
theorem C12_rank_waits_for_best (s : State) (fate : Nat → Fate) (l : List Nat) (p : Nat)
    (hl : RankedFree s fate l) (h : offerLoop fate l = some p) :
    fate p ≠ .exits ∧
    (∃ pre post, l = pre ++ p :: post ∧ ∀ q ∈ pre, fate q = .exits) ∧
    (∀ w ∈ freeLive s, fate w.addr ≠ .exits → scoreOf s.rank p ≤ scoreOf s.rank w.addr) ∧
    (∀ w ∈ freeLive s, ∀ n, fate w.addr = .takes (n + 1) → scoreOf s.rank p ≤ scoreOf s.rank w.addr) := by
  have hs := offerLoop_spec fate l p h
  have hm := offerLoop_minimal s.rank fate l p hl.sorted h
  refine ⟨hs.1, hs.2, ?_, ?_⟩
  · intro w hw hne
    exact hm w.addr (hl.all w hw) hne
  · intro w hw n hn
    exact hm w.addr (hl.all w hw) (by rw [hn]; exact fun c => Fate.noConfusion c)

/-- **… and that is the model's `accept`** — once the exits the loop saw have
happened (as `exit` events), the worker the loop picks is a best-ranked free
running worker of the resulting state, so `accept p` is enabled there and hands
out the head of the queue: `offerLoop` refines the dispatcher model's
scheduling, it adds no behaviour. -/
theorem C12_offer_is_accept (s : State) (hq : s.quit = false) (fate : Nat → Fate) (l : List Nat) (p : Nat)
    (hl : RankedFree s fate l) (h : offerLoop fate l = some p) :
    let s' := run s ((l.filter (fun q => fate q == .exits)).map Ev.exit)
    bestFree s' p = true ∧
    ∀ job rest, s.work = job :: rest →
      (step s' (.accept p)).2 = [.dispatched p job.idx job.tries job.timeout] := by
  intro s'
  obtain ⟨hfree, hquit, hrank, hwork⟩ := run_exits s (l.filter (fun q => fate q == .exits)) hq
  have hs := offerLoop_spec fate l p h
  have hm := offerLoop_minimal s.rank fate l p hl.sorted h
  have hpl : p ∈ l := by
    obtain ⟨pre, post, e, _⟩ := hs.2
    rw [e]; exact List.mem_append.mpr (Or.inr List.mem_cons_self)
  have hbest : bestFree s' p = true := by
    show bestFree (run s ((l.filter (fun q => fate q == .exits)).map Ev.exit)) p = true
    unfold bestFree
    rw [hfree, hrank]
    simp only [Bool.and_eq_true, List.any_eq_true, List.all_eq_true, List.mem_filter, decide_eq_true_eq,
      Bool.not_eq_true', List.contains_eq_mem, decide_eq_false_iff_not, beq_iff_eq, and_imp]
    constructor
    · have ha := hl.live p hpl hs.1
      simp only [List.any_eq_true, beq_iff_eq] at ha
      obtain ⟨w, hw, hwp⟩ := ha
      refine ⟨w, ⟨hw, ?_⟩, hwp⟩
      rw [hwp]
      intro hc
      exact hs.1 (hc.2)
    · intro w hw hnot
      apply hm w.addr (hl.all w hw)
      intro hc
      exact hnot ⟨hl.all w hw, hc⟩
  refine ⟨hbest, ?_⟩
  intro job rest hw
  have hw' : s'.work = job :: rest := by
    show (run s ((l.filter (fun q => fate q == .exits)).map Ev.exit)).work = _
    rw [hwork]; exact hw
  have hq' : s'.quit = false := hquit
  simp only [step, hq', Bool.false_eq_true, ↓reduceIte, stepAccept, hw', hbest]

/-- What the statement rules out: a first non-blocking pass over the ranked list
("give it to whoever takes it right away") hands the job to a worse-ranked
worker whenever the best-ranked free one is momentarily not receiving. -/
theorem C12_eager_offer_counterexample :
    let s := run init [.peer 1, .peer 2, .newBatch 2 true 0 false false, .accept 1, .accept 2, .result 1 .ok, .result 2 .other]
    let fate : Nat → Fate := fun q => if q = 1 then .takes 1 else .takes 0
    scoreOf s.rank 1 = 3 ∧ scoreOf s.rank 2 = 5 ∧
    offerLoop fate [1, 2] = some 1 ∧ offerLoopEager fate [1, 2] = some 2 := by decide

/-- **A record survives peer churn (1): the ranking itself** — ranking calls
that name other addresses — any number of `AddPeer` for peers that come and go,
and their rewards, punishments and resets — leave a peer's entry exactly as it
was: still known (so `Reward` / `Punish` keep applying to it), same score. -/
theorem C12_rank_survives_churn (r : List (Nat × Nat)) (ops : List RankOp) (p : Nat)
    (h : ∀ o ∈ ops, o.addr ≠ p) :
    (rankRun r ops).lookup p = r.lookup p ∧ scoreOf (rankRun r ops) p = scoreOf r p := by
  have hl := lookup_rankRun_other r ops p h
  exact ⟨hl, by simp only [scoreOf, hl]⟩

/-- … so after any history the score of `p` is a function of the calls that name
`p` alone — exactly the score the driver's oracle computes from `p`'s own
history (`ownScore`), whatever else the ranking was told in between; and
`Order` compares these. -/
theorem C12_rank_own_history (hist : List RankOp) (p : Nat) :
    scoreOf (rankRun [] hist) p = ownScore hist p := by
  have h1 := rankRun_congr [] [] hist p rfl
  have h2 : ∀ (ops : List RankOp) (r : List (Nat × Nat)), (∀ o ∈ ops, o.addr = p) →
      (rankRun r ops).lookup p = ops.foldl ownStep (r.lookup p) := by
    intro ops
    induction ops with
    | nil => intro r _; rfl
    | cons o os ih =>
      intro r ho
      simp only [rankRun, List.foldl_cons]
      rw [ih _ (fun o' ho' => ho o' (List.mem_cons_of_mem _ ho'))]
      congr 1
      have hop := ho o List.mem_cons_self
      cases o with
      | add q =>
        simp only [RankOp.addr] at hop; subst hop
        simp only [rankStep, addPeer, ownStep]
        cases hl : r.lookup q with
        | some v => simp only [hl, Option.getD_some]
        | none => simp only [setScore, List.lookup, beq_self_eq_true, Option.getD_none]
      | reward q =>
        simp only [RankOp.addr] at hop; subst hop
        simp only [rankStep, reward, ownStep]
        cases hl : r.lookup q with
        | none => simp only [hl, Option.map_none]
        | some v =>
          simp only [Option.map_some]
          split
          · exact hl
          · simp only [setScore, List.lookup, beq_self_eq_true]
      | punish q =>
        simp only [RankOp.addr] at hop; subst hop
        simp only [rankStep, punish, ownStep]
        cases hl : r.lookup q with
        | none => simp only [hl, Option.map_none]
        | some v =>
          simp only [Option.map_some]
          split
          · exact hl
          · simp only [setScore, List.lookup, beq_self_eq_true]
      | reset q =>
        simp only [RankOp.addr] at hop; subst hop
        simp only [rankStep, resetRank, ownStep]
        cases hl : r.lookup q with
        | none => simp only [hl, Option.map_none]
        | some v => simp only [Option.map_some, setScore, List.lookup, beq_self_eq_true]
  have h3 := h2 (hist.filter (fun o => o.addr == p)) [] (by
    intro o ho
    have := (List.mem_filter.mp ho).2
    simpa only [beq_iff_eq] using this)
  simp only [scoreOf, ownScore, ownEntry, h1, h3, List.lookup]

/-- **A record survives peer churn (2): the dispatcher** — in EVERY state, an
event that is not a result reported by `p` itself leaves `p`'s score where it
was: peers connecting (new addresses, or `p`'s own address again), workers
exiting, batches, wakes, deadlines, hand-outs, other peers' results, shutdown.
Hence for every event list without a result from `p` — any amount of peer
churn — `p` is ranked as before. -/
theorem C12_record_persists (s : State) (es : List Ev) (p : Nat)
    (h : ∀ e ∈ es, ∀ err, e ≠ .result p err) :
    scoreOf (run s es).rank p = scoreOf s.rank p := by
  induction es generalizing s with
  | nil => rfl
  | cons e es ih =>
    simp only [run]
    rw [ih _ (fun e' he' => h e' (List.mem_cons_of_mem _ he'))]
    exact step_scoreOf_other s e p (h e List.mem_cons_self)

/-- What the statement rules out: were `AddPeer` to make room by dropping some
other address's entry (a ranking bounded by eviction), a connected peer's
earned score would silently fall back to the default. -/
theorem C12_evicting_ranking_counterexample :
    let r := rankRun [] [.add 1, .reward 1, .reward 1, .add 2]
    let evict (victim : Nat) (r : List (Nat × Nat)) (q : Nat) := addPeer (r.filter (fun x => x.1 != victim)) q
    scoreOf r 1 = 2 ∧ scoreOf (addPeer r 3) 1 = 2 ∧ scoreOf (evict 1 r 3) 1 = 4 := by decide

/-- **Scores move as specified (1)** — a result for a live batch changes the
ranking exactly by result kind: OK rewards the reporting peer, a disconnect
resets it to the default score, cancellation leaves the ranking alone, every
other failure punishes it; nothing else in that step touches the ranking. -/
theorem C12_rank_scores (s : State) (p : Nat) (e : Err) (w : Worker) (job : Job) (bp : Batch)
    (hq : s.quit = false) (hoff : offering s = false)
    (hw : findW s.workers p = some w) (ha : w.active = some job)
    (hf : findB s.batches ((s.queries.lookup job.idx).getD 0) = some bp) :
    (step s (.result p e)).1.rank =
      (match e with
       | .ok => reward s.rank p
       | .canceled => s.rank
       | .disconnected => resetRank s.rank p
       | _ => punish s.rank p) := by
  have hs : (step s (.result p e)).1 = (stepResult s p e).1 := by
    simp only [step, hq, hoff, Bool.false_eq_true, ↓reduceIte]
  rw [hs]; exact rank_after_result s p e w job bp hw ha hf

/-- **Scores move as specified (2)** — for a peer the ranking knows with score
`sc`: a reward lowers the score by one but not below `bestScore`, a punishment
raises it by one but not above `worstScore`, a reset gives `defaultScore`; no
other peer's score changes. -/
theorem C12_score_moves (r : List (Nat × Nat)) (p sc : Nat) (h : r.lookup p = some sc) :
    scoreOf (reward r p) p = (if sc = Gen.Dispatcher.bestScore then sc else sc - 1) ∧
    scoreOf (punish r p) p = (if sc = Gen.Dispatcher.worstScore then sc else sc + 1) ∧
    scoreOf (resetRank r p) p = Gen.Dispatcher.defaultScore ∧
    ∀ q, q ≠ p → scoreOf (reward r p) q = scoreOf r q ∧ scoreOf (punish r p) q = scoreOf r q ∧
      scoreOf (resetRank r p) q = scoreOf r q := by
  have hsc : scoreOf r p = sc := by simp only [scoreOf, h, Option.getD_some]
  refine ⟨?_, ?_, ?_, ?_⟩
  · simp only [reward, h]
    split
    · rename_i hb; simp only [hb, ↓reduceIte] at hsc ⊢; exact hsc
    · exact scoreOf_setScore_self _ _ _
  · simp only [punish, h]
    split
    · rename_i hb; simp only [hb, ↓reduceIte] at hsc ⊢; exact hsc
    · exact scoreOf_setScore_self _ _ _
  · simp only [resetRank, h]; exact scoreOf_setScore_self _ _ _
  · intro q hq
    refine ⟨?_, ?_, ?_⟩
    · simp only [reward, h]; split
      · rfl
      · exact scoreOf_setScore_other _ _ _ _ hq
    · simp only [punish, h]; split
      · rfl
      · exact scoreOf_setScore_other _ _ _ _ hq
    · simp only [resetRank, h]; exact scoreOf_setScore_other _ _ _ _ hq

/-- **The hard deadline is honoured on every result** — in every state, when a
worker's result (of ANY kind: OK, timeout, disconnect, cancellation, other
failure, below or at the retry cap, with or without `NoRetryMax`) is processed
for a job of a live batch whose hard deadline has passed, the batch is ended by
that very step: it is gone from `currentBatches` and its result channel holds a
verdict.  In particular a `NoRetryMax` batch whose peers only fail is not
retried beyond its hard `Timeout`. -/
theorem C12_hard_timeout_honoured (s : State) (p : Nat) (e : Err) (w : Worker) (job : Job) (bp : Batch)
    (hq : s.quit = false) (hoff : offering s = false)
    (hw : findW s.workers p = some w) (ha : w.active = some job)
    (hf : findB s.batches ((s.queries.lookup job.idx).getD 0) = some bp) (hh : bp.hardPassed = true) :
    let s' := (step s (.result p e)).1
    let bn := (s.queries.lookup job.idx).getD 0
    findB s'.batches bn = none ∧ ∃ v, (bn, v) ∈ s'.verdicts := by
  intro s' bn
  have hs : s' = (stepResult s p e).1 := by
    show (step s (.result p e)).1 = _
    simp only [step, hq, hoff, Bool.false_eq_true, ↓reduceIte]
  rw [hs]; exact result_ends_overdue_batch s p e w job bp hw ha hf hh

/-- **A connecting peer always gets a worker** — whenever the dispatcher takes a
peer from `peersConnected` (it is not shut down and not blocked offering a job),
a live, idle worker is registered under the peer's address afterwards, whatever
was registered under that address before: nothing, a worker whose `Run` has
returned but which was not pruned yet (pruning is lazy), or even a running one.
So a persistent peer that drops and reconnects under the same address is
available for the next hand-out. -/
theorem C12_connect_registers (s : State) (p : Nat) (hq : s.quit = false) (hoff : offering s = false) :
    let s' := (step s (.peer p)).1
    findW s'.workers p = some ⟨p, none, false⟩ ∧
    (freeLive s').any (fun w => w.addr == p) = true ∧
    (∀ q, q ≠ p → findW s'.workers q = findW s.workers q) := by
  intro s'
  have hs : s' = (stepPeer s p).1 := by
    show (step s (.peer p)).1 = _
    simp only [step, hq, hoff, Bool.false_eq_true, ↓reduceIte]
  rw [hs]
  refine ⟨?_, ?_, ?_⟩
  · simp only [stepPeer, findW, setW, List.find?_cons, beq_self_eq_true]
  · simp only [stepPeer, freeLive, setW, List.filter_cons, Option.isNone_none, Bool.not_false, Bool.and_self,
      ↓reduceIte, List.any_cons, beq_self_eq_true, Bool.true_or]
  · intro q hne
    have hb : (p == q) = false := by simp only [beq_eq_false_iff_ne, ne_eq]; exact fun e => hne e.symm
    simp only [stepPeer, findW, setW, List.find?_cons, hb]
    induction s.workers with
    | nil => rfl
    | cons x xs ih =>
      simp only [List.filter_cons]
      by_cases hx : x.addr = p
      · have h1 : (x.addr != p) = false := by simp only [hx, bne_self_eq_false]
        have h2 : (x.addr == q) = false := by
          simp only [beq_eq_false_iff_ne, ne_eq, hx]; exact fun e => hne e.symm
        simp only [h1, Bool.false_eq_true, ↓reduceIte, List.find?_cons, h2, ih]
      · have h1 : (x.addr != p) = true := by simp only [bne_iff_ne, ne_eq]; exact hx
        simp only [h1, ↓reduceIte, List.find?_cons]
        cases (x.addr == q) <;> simp only [ih]

/-- **A stale wake is ignored** — a wake from an idle timer that does not carry
the batch's current generation (or names a batch that has ended) changes
nothing and produces no verdict, in every state.  Together with
`C12_progress_advances_generation` this is "a batch fails with an idle timeout
only if no request finished within the window": every successful result that
leaves the batch live opens a new generation, so the timer of the window it
closed can no longer end the batch. -/
theorem C12_stale_wake_ignored (s : State) (b g : Nat)
    (h : ∀ bp, findB s.batches b = some bp → g ≠ bp.gen) :
    (step s (.wake b g)).1 = s ∧ ∀ b' v, Out.verdict b' v ∉ (step s (.wake b g)).2 := by
  unfold step
  by_cases hq : s.quit = true
  · simp only [hq, ↓reduceIte, List.mem_singleton, reduceCtorEq, not_false_eq_true, implies_true, and_self]
  · have hq' : s.quit = false := by cases hh : s.quit <;> simp_all
    simp only [hq', Bool.false_eq_true, ↓reduceIte]
    by_cases ho : offering s = true
    · simp only [ho, ↓reduceIte, List.mem_singleton, reduceCtorEq, not_false_eq_true, implies_true, and_self]
    · simp only [ho, Bool.false_eq_true, ↓reduceIte, stepWake]
      cases hf : findB s.batches b with
      | none => simp only [List.not_mem_nil, not_false_eq_true, implies_true, and_self]
      | some bp =>
        have hne : (g != bp.gen) = true := by simp only [bne_iff_ne, ne_eq]; exact h bp hf
        simp only [hne, ↓reduceIte, List.not_mem_nil, not_false_eq_true, implies_true, and_self]

/-- a successful result that leaves a batch with a ProgressTimeout live (not its
last request, hard deadline not passed) advances the batch's generation -/
theorem C12_progress_advances_generation (s : State) (p : Nat) (w : Worker) (job : Job) (bp : Batch)
    (hq : s.quit = false) (hoff : offering s = false)
    (hw : findW s.workers p = some w) (ha : w.active = some job)
    (hf : findB s.batches ((s.queries.lookup job.idx).getD 0) = some bp)
    (hrem : bp.rem ≠ 1) (hh : bp.hardPassed = false) (hp : bp.prog = true) :
    (step s (.result p .ok)).1.batches =
      bumpGen (setRem s.batches ((s.queries.lookup job.idx).getD 0) (bp.rem - 1)) ((s.queries.lookup job.idx).getD 0) := by
  have hr : (bp.rem == 1) = false := by simp only [beq_eq_false_iff_ne, ne_eq]; exact hrem
  simp only [step, hq, hoff, Bool.false_eq_true, ↓reduceIte, stepResult, hw, ha, hf, hr, hardCheck, hh, hp,
    Bool.and_self]

/-- **Re-issue** — when a worker reports a failure other than cancellation
(timeout, disconnect, any other error) for the job it holds, then, unless the
job's batch ended in this very step (retry cap reached, hard deadline passed) or
had ended before, the job is back in the work queue under its ORIGINAL index
(and is again mapped to its batch), so it keeps its place ahead of all later
requests. -/
theorem C12_reissue (s : State) (p : Nat) (e : Err) (w : Worker) (job : Job)
    (hq : s.quit = false) (hoff : offering s = false)
    (hw : findW s.workers p = some w) (ha : w.active = some job)
    (he1 : e ≠ .ok) (he2 : e ≠ .canceled) :
    let s' := (step s (.result p e)).1
    let bn := (s.queries.lookup job.idx).getD 0
    (findB s'.batches bn).isSome = true →
      ∃ j' ∈ s'.work, j'.idx = job.idx ∧ j'.batch = job.batch ∧ s'.queries.lookup job.idx = some bn := by
  intro s' bn hl
  have hs : s' = (stepResult s p e).1 := by
    show (step s (.result p e)).1 = _
    simp only [step, hq, hoff, Bool.false_eq_true, ↓reduceIte]
  rw [hs] at hl ⊢
  exact reissue_core s p e w job hw ha he1 he2 hl

/-- **Success means all answered** — for every event list: if batch `b`'s
result channel received the nil verdict, then every request index of `b`
(`sub.first … sub.first+sub.count-1` of its submission record) is in `okd`,
i.e. a worker reported OK for the job carrying that index.  Proved from the
accounting invariant `KW`: in every reachable state a live batch's `rem` is the
number of its jobs in queue ∪ held by workers ∪ lost with an overwritten worker,
job indices are pairwise distinct and mapped to their batch by `queries`, and
every request index of a live batch is finished OK or carried by such a job. -/
theorem C12_success_all (es : List Ev) (b : Nat)
    (hv : (b, Verdict.res .ok) ∈ (run init es).verdicts) :
    ∀ sub ∈ (run init es).subs, sub.id = b →
      ∀ i, sub.first ≤ i → i < sub.first + sub.count → i ∈ (run init es).okd := by
  intro sub hs hid i h1 h2
  have k := (KW_run init es KW_init invA_init).k
  exact k.done sub hs (hid ▸ hv) i h1 h2

/-- every submitted batch has a submission record: `C12_success_all` is not vacuous in `sub` -/
theorem C12_subs_recorded (s : State) (n : Nat) (nrm : Bool) (mr : Nat) (pr hn : Bool)
    (h : offering s = false ∨ s.quit = true) :
    (⟨s.nextBatch, s.nextQuery, n⟩ : Sub) ∈ (step s (.newBatch n nrm mr pr hn)).1.subs := by
  unfold step
  by_cases hq : s.quit = true
  · simp only [hq, ↓reduceIte, stepLate, List.mem_append, List.mem_singleton, or_true]
  · have hq' : s.quit = false := by cases hh : s.quit <;> simp_all
    cases h with
    | inl h => simp only [hq', h, Bool.false_eq_true, ↓reduceIte, stepNewBatch, List.mem_append,
        List.mem_singleton, or_true]
    | inr h => exact absurd h hq

/-- **Success only through the last outstanding request finishing OK**
(the part of `C12_success_all` that is proved for every state and event): a nil
verdict for batch `b` is written only by the step in which a worker reports OK
for the job it holds, that job is mapped to `b`, `b` is live and its remaining
counter is exactly 1; the job is recorded as finished OK.  No timeout, wake,
failure, cancellation, shutdown or late submission ever produces a nil verdict.

This is the single-step companion of `C12_success_all` (which gives "every
request index is in `okd`" for whole histories); the oracle clause
`nil-without-all-ok` checks the same statement on the real dispatcher. -/
theorem C12_success_all_partial (s : State) (e : Ev) (b : Nat)
    (h : Out.verdict b (.res .ok) ∈ (step s e).2) :
    ∃ p w job bp, e = .result p .ok ∧ s.quit = false ∧ findW s.workers p = some w ∧ w.active = some job ∧
      b = (s.queries.lookup job.idx).getD 0 ∧ findB s.batches b = some bp ∧ bp.rem = 1 ∧
      job.idx ∈ (step s e).1.okd :=
  step_ok_verdict s e b h

/-! Non-vacuity: concrete histories that meet the hypotheses and exercise the branches. -/

/-- two batches in flight, a retry, a stale wake, a fresh wake, shutdown, a late submission -/
def demo : List Ev :=
  [.newBatch 2 false 2 true false, .peer 1, .accept 1, .newBatch 1 true 0 false false,
   .result 1 .timeout, .accept 1, .wake 0 7, .result 1 .ok, .accept 1, .result 1 .ok,
   .accept 1, .wake 1 0, .quit, .newBatch 3 false 2 false false]

example : (run init demo).verdicts = [(0, .res .ok), (1, .res .timeout), (2, .shutdown)] := by decide
example : Ev.quit ∈ demo ∧ (run init demo).nextBatch = 3 := by decide
example : verdictCount (run init demo) 1 = 1 := by decide
/-- a re-issued job keeps index 0 and is handed out again before job 1, with a doubled timeout -/
example : outs init (demo.take 6) =
    [.dispatched 1 0 0 2, .resultFor 0, .dispatched 1 0 1 4] := by decide
/-- the hypotheses of `C12_reissue` hold in a reachable state and its conclusion is not vacuous -/
example :
    let s := run init (demo.take 4)
    s.quit = false ∧ offering s = false ∧
    findW s.workers 1 = some ⟨1, some ⟨0, 0, 0, 2⟩, false⟩ ∧
    (findB (step s (.result 1 .timeout)).1.batches 0).isSome = true := by decide
/-- `C12_success_all_partial`: the step that writes batch 0's nil verdict, both requests finished -/
example : Out.verdict 0 (.res .ok) ∈ (step (run init (demo.take 9)) (.result 1 .ok)).2 ∧
    (run init (demo.take 10)).okd = [1, 0] := by decide
/-- `C12_success_all` on the demo history: batch 0 has the nil verdict, its record is ⟨0,0,2⟩, both indices are in `okd` -/
example : (0, Verdict.res .ok) ∈ (run init demo).verdicts ∧ (⟨0, 0, 2⟩ : Sub) ∈ (run init demo).subs ∧
    (run init demo).okd = [1, 0] := by decide
/-- `C12_rank_scores` / `C12_score_moves`: default 4, punished to 5, rewarded twice to 3, reset to 4 -/
example :
    scoreOf (run init [.peer 1, .newBatch 3 true 0 false false, .accept 1, .result 1 .other]).rank 1 = 5 ∧
    scoreOf (run init [.peer 1, .newBatch 3 true 0 false false, .accept 1, .result 1 .other, .accept 1,
      .result 1 .ok, .accept 1, .result 1 .ok]).rank 1 = 3 ∧
    scoreOf (run init [.peer 1, .newBatch 3 true 0 false false, .accept 1, .result 1 .ok, .accept 1,
      .result 1 .disconnected]).rank 1 = 4 := by decide
/-- `C12_hard_timeout_honoured`: unlimited retries, the deadline passes, the next FAILED result ends the batch with a timeout -/
example :
    (run init [.peer 1, .newBatch 1 true 0 false false, .accept 1, .result 1 .other, .accept 1,
      .elapse 0, .result 1 .disconnected]).verdicts = [(0, .res .timeout)] := by decide
/-- `C12_connect_registers`: peer 1 goes away while idle (its stale entry is still in the map), reconnects under
the same address, and the next batch's only request is handed to it -/
example :
    let s := run init [.peer 1, .exit 1]
    findW s.workers 1 = some ⟨1, none, true⟩ ∧ s.quit = false ∧ offering s = false ∧
    outs s [.peer 1, .newBatch 1 false 2 false false, .accept 1] = [.dispatched 1 0 0 2] := by decide
/-- `C12_stale_wake_ignored`: after one of two requests finished OK the batch is in generation 2; the wake of
generation 1 (the timer that was racing the result) is dropped, the wake of generation 2 ends the batch -/
example :
    let s := run init [.peer 1, .newBatch 2 false 2 true false, .accept 1, .result 1 .ok]
    (findB s.batches 0).map (·.gen) = some 2 ∧
    (step s (.accept 1)).1.verdicts = [] ∧
    (step (step s (.accept 1)).1 (.wake 0 1)).1.verdicts = [] ∧
    (step (step s (.accept 1)).1 (.wake 0 2)).1.verdicts = [(0, .res .timeout)] := by decide
/-- `C12_rank`: with two free workers of different score only the better one may accept -/
example :
    let s := run init [.peer 1, .peer 2, .newBatch 1 false 2 false false, .accept 1, .result 1 .other]
    (step s (.accept 1)).2 = [.ignored] ∧ (step s (.accept 2)).2 = [.dispatched 2 0 1 2] := by decide

/-- `C12_rank_waits_for_best` / `C12_offer_is_accept`: worker 1 (score 3) has just delivered a result and is not back
at its channel, worker 2 (score 5) is waiting at its own: the hypotheses hold and the re-issued job goes to worker 1 -/
example :
    let s := run init [.peer 1, .peer 2, .newBatch 2 true 0 false false, .accept 1, .accept 2, .result 1 .ok, .result 2 .other]
    let fate : Nat → Fate := fun q => if q = 1 then .takes 1 else .takes 0
    s.quit = false ∧ (freeLive s).map (·.addr) = [2, 1] ∧ scoreOf s.rank 1 = 3 ∧ scoreOf s.rank 2 = 5 ∧
    offerLoop fate [1, 2] = some 1 ∧ (step s (.accept 1)).2 = [.dispatched 1 1 0 2] ∧
    (step s (.accept 2)).2 = [.ignored] := by decide
example : RankedFree (run init [.peer 1, .peer 2, .newBatch 2 true 0 false false, .accept 1, .accept 2, .result 1 .ok, .result 2 .other])
    (fun q => if q = 1 then .takes 1 else .takes 0) [1, 2] := by
  refine ⟨by decide, by decide, by decide⟩
/-- `C12_rank_survives_churn` / `C12_record_persists`: 130 other addresses come and go, peer 1 keeps its 3 -/
example :
    let churn : List Ev := (List.range 130).flatMap (fun i => [Ev.peer (100 + i), Ev.exit (100 + i)])
    let s := run init [.peer 1, .newBatch 3 true 0 false false, .accept 1, .result 1 .ok]
    scoreOf s.rank 1 = 3 ∧ (∀ e ∈ churn, ∀ err, e ≠ Ev.result 1 err) := by
  refine ⟨by decide, ?_⟩
  intro e he err hc
  subst hc
  simp only [List.mem_flatMap, List.mem_range, List.mem_cons, List.not_mem_nil, reduceCtorEq, or_self,
    and_false, exists_false] at he
example : ownScore [.add 1, .reward 1, .add 7, .punish 2, .reward 1, .add 2, .punish 2] 1 = 2 ∧
    ownScore [.add 1, .reward 1, .add 7, .punish 2, .reward 1, .add 2, .punish 2] 2 = 5 ∧
    ownScore [.add 1] 9 = 4 := by decide

end Neutrino.Disp

/-! ## The worker loop (query/worker.go `Run`) -/
namespace Neutrino.Wrk
open Neutrino.Disp (Err)

/-- The arms of the four selects of `worker.Run` as regenerated from the source
on this run, and what the model derives from them.  A channel is named by its
ROLE (the parameter of type `chan<- *jobResult` / `<-chan struct{}`, the
channel obtained from `SubscribeRecvMsg()`, the result of `OnDisconnect()`,
the `.C` of a `time.NewTimer` timer, the struct fields `nextJob`, `cancelChan`,
`internalCancelChan`), the error is whatever is assigned to the variable that
is stored in the `err` field of the result sent, and the wait loop's label is
written `Loop`: no local, receiver or label name enters the facts.  Both
pre-check cancel arms `break` out of the select into the wait loop (they
neither `continue` nor `return`), the default arm sends the request, every wait
arm that holds a job leaves the loop with `break Loop` and the error it stands
for, `quit` returns, the hand-off select sends or returns on quit, and `Run`
returns after an `ErrPeerDisconnected` result. -/
theorem C12_worker_source_facts :
    Arms.ofSource = Arms.good ∧
    Gen.Worker.idleArms = [("nextJob", "", "fall"), ("peerMsg", "", "continue"),
      ("peerDisconnect", "", "return"), ("quit", "", "return")] ∧
    Gen.Worker.precheckArms = [("job.cancelChan", "", "break"), ("job.internalCancelChan", "", "break"),
      ("default", "", "fall")] ∧
    Gen.Worker.waitArms = [("peerMsg", "", "finished:break Loop;unfinished:continue Loop"), ("jobTimer", "ErrQueryTimeout", "break Loop"),
      ("peerDisconnect", "ErrPeerDisconnected", "break Loop"), ("job.cancelChan", "ErrJobCanceled", "break Loop"),
      ("job.internalCancelChan", "ErrJobCanceled", "break Loop"), ("quit", "", "return")] ∧
    Gen.Worker.reportArms = [("results<-", "", "fall"), ("quit", "", "return")] ∧
    Gen.Worker.waitQuitReturns = true ∧ Gen.Worker.reportSendsOrQuits = true := by decide

/-- **Every accepted job yields exactly one result, unless the worker quits** —
for every event list (any interleaving of jobs handed out with either cancel
channel already closed or not, messages that finish / progress / do nothing,
job timeouts, peer disconnects, external and internal cancellation, the
dispatcher taking results, quit), with the arms as they are in the source:
the results the dispatcher received are, in order, exactly the jobs the worker
accepted, except for the job currently in hand and at most one job that was in
hand when `quit` was seen; no job is ever abandoned.  So the dispatcher's
`activeJob` for this worker is cleared for every job it handed out (each
`reported` entry is one `jobResult`), which is what `C12_reissue` and the
dispatch phase rely on. -/
theorem C12_worker_reports (es : List Ev) :
    let s := run Arms.ofSource init es
    s.dropped = [] ∧
    s.accepted = s.reported.map (·.1) ++ inflight s ++ s.lost ∧
    (s.lost ≠ [] → s.phase = .exited true) ∧ s.lost.length ≤ 1 := by
  intro s
  have h : WInv s := by
    show WInv (run Arms.ofSource init es)
    rw [C12_worker_source_facts.1]; exact winv_run init es winv_init
  exact ⟨h.nodrop, h.acct, h.lostq, h.lost1⟩

/-- **A held job can always be reported**: from any state in which the worker
waits on a job, the job timer firing and the dispatcher taking the result
yield that job's result; from the hand-off state the dispatcher taking it
does.  (The timer is armed for every job, `time.NewTimer(job.timeout)`; that it
eventually fires is the fairness assumption.) -/
theorem C12_worker_progress (s : State) (j : Nat) :
    (∀ sent, s.phase = .waiting j sent →
      (run Arms.ofSource s [.timeout, .deliver]).reported = s.reported ++ [(j, .timeout)]) ∧
    (∀ e, s.phase = .reporting j e →
      (run Arms.ofSource s [.deliver]).reported = s.reported ++ [(j, e)]) := by
  rw [C12_worker_source_facts.1]
  obtain ⟨phase, acc, rep, snt, lost, drp⟩ := s
  constructor
  · intro sent hp
    simp only at hp; subst hp
    simp [run, step, leave, Arms.good]
  · intro e hp
    simp only at hp; subst hp
    simp [run, step, Arms.good]

/-- What the statement rules out: were the pre-check arm on the internal cancel
channel to `continue` instead of breaking into the wait loop, a job handed out
after its batch ended would be accepted and never reported — the worker is back
in `idle`, the dispatcher keeps it marked busy for ever. -/
theorem C12_worker_reports_counterexample_if_precheck_continues :
    let s := run { Arms.good with preInt := false } init [.job 7 .int, .timeout, .deliver]
    s.accepted = [7] ∧ s.reported = [] ∧ s.phase = .idle ∧ s.dropped = [7] := by decide

/-! Non-vacuity -/
example :
    (run Arms.ofSource init [.job 1 .none, .msg .progressed, .msg .finished, .deliver, .job 2 .int, .cancelInt,
      .deliver, .job 3 .none, .disconnect, .deliver]).reported =
      [(1, .ok), (2, .canceled), (3, .disconnected)] := by decide
example :
    let s := run Arms.ofSource init [.job 1 .ext, .cancelExt, .deliver, .job 2 .none, .quit]
    s.accepted = [1, 2] ∧ s.reported = [(1, .canceled)] ∧ s.lost = [2] ∧ s.phase = .exited true := by decide

end Neutrino.Wrk
