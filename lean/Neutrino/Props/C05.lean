/-
C05 — a compact filter is returned only if it matches the committed filter
header.  Property theorems only; lemmas live in Neutrino/Lemmas/GetCFilter.lean.

All theorems quantify over every response stream (any order, duplication,
omission, corruption), every batching mode and size, every chain length / lag
of the filter tip, an adversarial dispatcher (stops or not after `Finished`,
any verdict) and every hashing `H`, `fhash`.
-/
import Neutrino.Lemmas.GetCFilter
import Neutrino.Gen.Query
namespace Neutrino.GetCFilter
open Neutrino

instance (hs : Hashing) (fhs : List Nat) (b f : Nat) : Decidable (Good hs fhs b f) := by
  unfold Good; infer_instance

instance (hs : Hashing) (fhs : List Nat) (st : Store) : Decidable (StoreOk hs fhs st) := by
  unfold StoreOk; infer_instance

/-- **C05, full strength** (false for the code, see `C05_sound_counterexample`):
after any history of calls, header re-commits and restarts, whatever `GetCFilter`
returns for a block — fresh, from the cache or from the database — hashes with
the committed header of the previous block to the committed header of that
block, and so does every cached and every persisted filter. -/
def C05_sound_statement : Prop :=
  ∀ (hs : Hashing) (cap tip : Nat) (fhs : List Nat) (persist : Bool) (ops : List Op) (c : Call), 1 ≤ fhs.length →
    let s := run hs (init cap tip fhs persist) ops
    (∀ fid, (getCFilter hs s c).result = .ret fid → Good hs s.chain.fhs c.target fid) ∧
    (∀ e ∈ s.store.cache.items, Good hs s.chain.fhs e.key e.vid) ∧
    (∀ p ∈ s.store.db, Good hs s.chain.fhs p.1 p.2)

/-- the hashing used in the closed examples: `H(fhash, prev) = 10·fhash + prev` -/
def exHash : Hashing := { fhash := id, H := fun f p => 10 * f + p }

/-- a filter for block 1 is fetched and verified against headers `[1, 51]`; the
filter headers are then re-committed as `[1, 61]`; the next call returns the old
filter 5 from the cache (and the database still holds it). -/
def exOps : List Op :=
  [.get { target := 1, batch := .none, maxBatch := 0, resps := [⟨true, true, 1, true, 5, 4⟩], cont := false, verdict := .nil },
   .recommit 1 [61]]

def exCall : Call := { target := 1, batch := .none, maxBatch := 0, resps := [], cont := false, verdict := .nil }

theorem C05_sound_counterexample : ¬ C05_sound_statement := by
  intro h
  have h1 := (h exHash 100 1 [1, 51] true exOps exCall (by decide)).1 5
  revert h1
  decide

/-- the same after a restart: the cache is gone, the database answers -/
theorem C05_sound_counterexample_db :
    (getCFilter exHash (run exHash (init 100 1 [1, 51] true) (exOps ++ [.restart])) exCall).result = .ret 5 ∧
    (getCFilter exHash (run exHash (init 100 1 [1, 51] true) (exOps ++ [.restart])) exCall).source = .db ∧
    ¬ Good exHash [1, 61] 1 5 := by decide

/-- **C05 under the excluded shape**: if no re-commit of filter headers changes
the committed (previous header, header) pair of a block whose filter is cached
or persisted (`opsStable`, the predicate behind `shape=db-filter-after-header-change`),
the full statement holds. -/
theorem C05_sound_partial (hs : Hashing) (cap tip : Nat) (fhs : List Nat) (persist : Bool) (ops : List Op) (c : Call)
    (hne : 1 ≤ fhs.length) (hst : opsStable hs (init cap tip fhs persist) ops = true) :
    let s := run hs (init cap tip fhs persist) ops
    (∀ fid, (getCFilter hs s c).result = .ret fid → Good hs s.chain.fhs c.target fid) ∧
    (∀ e ∈ s.store.cache.items, Good hs s.chain.fhs e.key e.vid) ∧
    (∀ p ∈ s.store.db, Good hs s.chain.fhs p.1 p.2) := by
  intro s
  have hi : Inv hs s := run_inv hs ops _ (init_inv hs cap tip fhs persist hne) hst
  exact ⟨(getCFilter_ok hs s c hi.1 hi.2).2, hi.2.1, hi.2.2⟩

example : opsStable exHash (init 100 1 [1, 51] true)
    [.get { target := 1, batch := .none, maxBatch := 0, resps := [⟨true, true, 1, true, 5, 4⟩], cont := false, verdict := .nil },
     .restart, .recommit 2 [7]] = true := by decide

/-- **C05 for one call against the headers committed when it was prepared**
(no hypothesis on the history other than that the stores were consistent when
the call started): what is returned, and everything the call leaves in the cache
and the database, matches those headers. -/
theorem C05_sound (hs : Hashing) (s : State) (c : Call) (hne : 1 ≤ s.chain.fhs.length)
    (hst : StoreOk hs s.chain.fhs s.store) :
    (∀ fid, (getCFilter hs s c).result = .ret fid → Good hs s.chain.fhs c.target fid) ∧
    StoreOk hs s.chain.fhs (getCFilter hs s c).st.store :=
  ⟨(getCFilter_ok hs s c hne hst).2, (getCFilter_ok hs s c hne hst).1⟩

/-! ### the database layer under concurrent writers; what may enter the cache -/

/-- **A read of the filter database is a snapshot read.**  `FetchFilter` decodes
(copies) the value inside its read transaction, so whatever writers commit after
the transaction was closed — any number of transactions, pages freed and re-used,
the file re-mapped, modelled by an arbitrary `garble` of bytes read too late —
the call returns what the snapshot held. -/
theorem C05_db_read_is_snapshot (garble : Nat → Nat) (db ws : List (Nat × Nat)) (k : Nat) :
    dbFetch true garble db ws k = lookup db k := dbFetch_inTx garble db ws k

/-- **C05 for one call with concurrent writers** committing between the end of
the call's database read transaction and whatever it does next: if the stores
were consistent and the writers persist matching filters (the batch writer
persists what `handleResponse` verified), what is returned and everything left
in the cache and the database matches the committed headers — for every `garble`. -/
theorem C05_sound_concurrent_writer (garble : Nat → Nat) (hs : Hashing) (s : State) (c : Call) (ws : List (Nat × Nat))
    (hne : 1 ≤ s.chain.fhs.length) (hst : StoreOk hs s.chain.fhs s.store)
    (hws : ∀ p ∈ ws, Good hs s.chain.fhs p.1 p.2) :
    (∀ fid, (getCFilterW true garble hs s c ws).result = .ret fid → Good hs s.chain.fhs c.target fid) ∧
    StoreOk hs s.chain.fhs (getCFilterW true garble hs s c ws).st.store :=
  ⟨(getCFilterW_ok garble hs s c ws hne hst hws).2.1, (getCFilterW_ok garble hs s c ws hne hst hws).1⟩

def exGet1 : Op :=
  .get { target := 1, batch := .none, maxBatch := 0, resps := [⟨true, true, 1, true, 5, 4⟩], cont := false, verdict := .nil }

example : StoreOk exHash [1, 51, 561] (run exHash (init 100 2 [1, 51, 561] true) [exGet1, .restart]).store ∧
    Good exHash [1, 51, 561] 2 51 := by decide

/-- **Decoding after the read transaction is a counterexample**: the database
holds the verified filter 5 of block 1, a writer persists the verified filter of
block 2 right after the read transaction; decoded inside the transaction the call
returns filter 5, decoded afterwards it returns the garbled bytes, which do not
match the committed header — although the database never held anything wrong. -/
def exS2 : State := run exHash (init 100 2 [1, 51, 561] true) [exGet1, .restart]

theorem C05_decode_after_tx_counterexample :
    StoreOk exHash exS2.chain.fhs exS2.store ∧ Good exHash exS2.chain.fhs 2 51 ∧
    (getCFilterW true (· + 1) exHash exS2 exCall [(2, 51)]).result = .ret 5 ∧
    (getCFilterW false (· + 1) exHash exS2 exCall [(2, 51)]).result = .ret 6 ∧
    (getCFilterW false (· + 1) exHash exS2 exCall [(2, 51)]).source = .db ∧
    ¬ Good exHash exS2.chain.fhs 1 6 := by decide

/-- **Only validated filters enter the cache.**  A cache fill that checks each
(block, filter) pair against the headers committed NOW keeps every cached filter
matching — whatever pairs it is offered (stale database entries after a header
change, filters paired with the wrong block, anything), and it does not touch the
database. -/
theorem C05_cache_fill_validated (hs : Hashing) (fhs : List Nat) (st : Store) (kvs : List (Nat × Nat × Nat))
    (h : ∀ e ∈ st.cache.items, Good hs fhs e.key e.vid) :
    (∀ e ∈ (cacheFillChecked hs fhs st kvs).cache.items, Good hs fhs e.key e.vid) ∧
    (cacheFillChecked hs fhs st kvs).db = st.db :=
  ⟨cacheFillChecked_ok hs fhs kvs st h, cacheFillChecked_db hs fhs kvs st⟩

/-- a read-ahead from the database that validates is sound for every set of asked blocks and every database -/
theorem C05_read_ahead_checked (hs : Hashing) (fhs : List Nat) (st : Store) (ks : List Nat)
    (h : StoreOk hs fhs st) : StoreOk hs fhs (readAheadChecked hs fhs st ks) := by
  unfold readAheadChecked
  exact ⟨cacheFillChecked_ok hs fhs _ st h.1, by rw [cacheFillChecked_db]; exact h.2⟩

example : StoreOk exHash [1, 51, 561, 631] { cache := { cap := 100 }, db := [(3, 7), (1, 5)] } ∧
    (readAheadChecked exHash [1, 51, 561, 631] { cache := { cap := 100 }, db := [(3, 7), (2, 51), (1, 5)] } [2, 3]).cache.items.length = 2 := by
  decide

/-- **A read-ahead step that skips the validation is a counterexample.**  The
database holds the verified filters of blocks 1 and 3 (nothing for block 2); the
stored filters of blocks [2, 3] come back with the missing one left out and are
paired with the asked blocks by position: the filter of block 3 enters the cache
under block 2 and the next call for block 2 returns it.  The validated fill
offered the same pairs leaves the cache empty. -/
def exFhs3 : List Nat := [1, 51, 561, 631]
def exGapStore : Store := { cache := { cap := 100 }, db := [(3, 7), (1, 5)] }
def exCall2 : Call := { target := 2, batch := .none, maxBatch := 0, resps := [], cont := false, verdict := .nil }

theorem C05_read_ahead_unchecked_counterexample :
    StoreOk exHash exFhs3 exGapStore ∧
    ¬ (∀ e ∈ (readAheadNaive exGapStore [2, 3]).cache.items, Good exHash exFhs3 e.key e.vid) ∧
    (getCFilter exHash { chain := { tip := 3, fhs := exFhs3 }, store := readAheadNaive exGapStore [2, 3] } exCall2).result = .ret 7 ∧
    ¬ Good exHash exFhs3 2 7 ∧
    (readAheadChecked exHash exFhs3 exGapStore [2, 3]).cache.items.isEmpty = true := by decide

/-- the same after a header change: an unvalidated fill copies the stale database
entry into the cache (a second, new way for it to be returned); the validated fill
refuses it -/
def exS3 : State := run exHash (init 100 1 [1, 51] true) (exOps ++ [.restart])

theorem C05_read_ahead_stale_counterexample :
    exS3.store.cache.items.isEmpty = true ∧
    ¬ (∀ e ∈ (readAheadNaive exS3.store [1]).cache.items, Good exHash exS3.chain.fhs e.key e.vid) ∧
    (readAheadChecked exHash exS3.chain.fhs exS3.store [1]).cache.items.isEmpty = true := by decide

/-- **Rejected kinds.**  A response that is not a cfilter message, has another
filter type, names a block that is not (or no longer: duplicates) awaited,
does not deserialize, or does not hash to the committed header, changes nothing
— query, cache and database stay as they are — and reports no progress; and a
block that was accepted is no longer awaited. -/
theorem C05_reject (hs : Hashing) (q : Query) (st : Store) (r : Resp)
    (h : r.isCFilter = false ∨ r.ftypeOk = false ∨ lookup q.index r.blk = none ∨ r.decodes = false ∨
      (∀ i, lookup q.index r.blk = some i → hs.hdr r.fid (q.fhdrs.getD (i - 1) 0) ≠ q.fhdrs.getD i 0)) :
    handle hs (q, st) r = ((q, st), .none) ∧
    (∀ r' : Resp, lookup (accept q st r').1.1.index r'.blk = none) :=
  ⟨handle_reject hs (q, st) r (verify_none_of hs q r h), fun r' => lookup_eraseKey_self _ _⟩

/-- **A duplicate is never accepted.**  Once a response for a block has made
progress, that block is not awaited any more — not right away and not after any
further responses (any peers, any order) — so every later response naming it,
the very same valid filter included, is rejected without touching the query, the
cache or the database and without progress. -/
theorem C05_duplicate_rejected (hs : Hashing) (qs : Query × Store) (r : Resp) (cont : Bool) (rs : List Resp)
    (h : (handle hs qs r).2 ≠ .none) :
    let after := (feed hs cont (handle hs qs r).1 rs).1
    lookup after.1.index r.blk = none ∧
    ∀ r' : Resp, r'.blk = r.blk → handle hs after r' = (after, .none) := by
  intro after
  have hl : lookup after.1.index r.blk = none :=
    feed_lookup_none hs cont rs r.blk _ (handle_accepted_not_awaited hs qs r h)
  refine ⟨hl, fun r' hb => handle_reject hs after r' (verify_none_of hs after.1 r' ?_)⟩
  right; right; left
  rw [hb]; exact hl

example : (feed exHash false
      (⟨1, 2, [1, 51, 561], [(1, 1), (2, 2)], 2, none⟩, { cache := { cap := 100 } })
      [⟨true, true, 1, true, 5, 4⟩, ⟨true, true, 1, true, 5, 4⟩, ⟨true, true, 1, true, 5, 4⟩]).2 =
    [.progressed, .none, .none] := by decide

/-- **Complete means everything was received.**  If the handler ever answers
`Finished` for a prepared query, nothing is awaited any more, and every block of
the prepared range [start, stop] was answered by a response of the stream that
passed all tests when it arrived (and, by `C05_duplicate_rejected`, exactly one
per block made progress): a batch is never reported complete with filters
missing. -/
theorem C05_complete_all_received (hs : Hashing) (c : Chain) (t : Nat) (bt : Batch) (mb : Int) (q : Query)
    (st : Store) (cont : Bool) (rs : List Resp) (hp : prepare c t bt mb = .ok q)
    (hf : Progress.finished ∈ (feed hs cont (q, st) rs).2) :
    (feed hs cont (q, st) rs).1.1.index = [] ∧
    ∀ b : Nat, q.start ≤ (b : Int) → (b : Int) ≤ q.stop →
      ∃ r ∈ rs, r.blk = b ∧ r.isCFilter = true ∧ r.ftypeOk = true ∧ r.decodes = true := by
  have hnil := feed_finished_index hs cont rs (q, st) hf
  refine ⟨hnil, fun b h1 h2 => ?_⟩
  obtain ⟨i, hi⟩ := prepare_covers c t bt mb q hp b h1 h2
  rcases feed_received hs cont rs (q, st) (b, i) hi with h | h
  · rw [hnil] at h; cases h
  · exact h

/-- **The requested filter is recognised by its block hash, not by its position.**
For ANY query (however its index and headers were obtained) and any stream:
if the requested hash is not among the awaited blocks, `targetFilter` stays
unset — so `GetCFilter` fails with `ErrFilterFetchFailed` rather than return the
filter of whatever block sits at the requested block's position. -/
theorem C05_target_by_hash (hs : Hashing) (cont : Bool) (rs : List Resp) (q : Query) (st : Store)
    (hnone : q.found = none) (hna : ∀ i, (q.target, i) ∉ q.index) :
    (feed hs cont (q, st) rs).1.1.found = none :=
  feed_target_not_awaited hs cont rs (q, st) hnone hna

/-- **A reorganisation between the by-hash and the by-height lookups of
`prepareCFiltersQuery`.**  If the chain read afterwards has another block at the
requested block's height (`t` above the fork point), the prepared query awaits
the new chain's blocks, not the requested hash, and whatever the peers send —
the verified filter of the replacement block included — the call does not
return a filter: with nothing cached or persisted for the hash it fails. -/
theorem C05_reorged_target_fails (hs : Hashing) (s : State) (rg : Reorg) (c : Call)
    (htip : s.chain.tip < altBase) (hfork : rg.fork < c.target)
    (hc : ∀ e ∈ s.store.cache.items, e.key ≠ c.target) (hd : lookup s.store.db c.target = none) :
    (getCFilterReorg hs s rg c).result.isRet = false := by
  have hm := GetBlock.spec_get_miss_of_nokey hc
  have hsame := GetBlock.spec_get_miss hm
  unfold getCFilterReorg
  split
  · rfl
  · generalize s.store.cache.step (.get c.target) = p at hm hsame
    obtain ⟨c', o⟩ := p
    simp only at hm hsame
    subst hsame
    cases o with
    | val v => exact absurd rfl (hm v)
    | okPut _ | err | notFound | no | unit | hang =>
      simp only [hd]
      cases hp : prepareReorg s.chain rg c.target c.batch c.maxBatch with
      | error e => rfl
      | ok q =>
        obtain ⟨ht, hn, hidx⟩ := prepareReorg_index s.chain rg c.target c.batch c.maxBatch q htip hp
        have hf := feed_target_not_awaited hs c.cont c.resps (q, s.store) hn (by rw [ht]; exact hidx hfork)
        simp only
        cases c.verdict <;> simp only [hf] <;> rfl

example : (getCFilterReorg exHash (init 100 3 [1, 51, 561, 5671] true) ⟨1, 3, [1, 51, 141, 1551]⟩
      { target := 2, batch := .none, maxBatch := 0, resps := [⟨true, true, altBase + 2, true, 9, 4⟩],
        cont := false, verdict := .nil }).result = .errFetchFailed ∧
    (getCFilterReorg exHash (init 100 3 [1, 51, 561, 5671] true) ⟨1, 3, [1, 51, 141, 1551]⟩
      { target := 2, batch := .none, maxBatch := 0, resps := [⟨true, true, altBase + 2, true, 9, 4⟩],
        cont := false, verdict := .nil }).prog = [.finished] := by decide

/-- the handler makes progress exactly when all tests pass -/
theorem C05_progress_iff (hs : Hashing) (qs : Query × Store) (r : Resp) :
    (handle hs qs r).2 ≠ .none ↔ (verify hs qs.1 r).isSome = true := handle_progress_iff hs qs r

/-- **Fail closed.**  With nothing in the cache or the database for the block,
a call whose dispatcher does not report success, or none of whose responses
passes the tests, fails; in the second case nothing is stored either. -/
theorem C05_fail_closed (hs : Hashing) (s : State) (c : Call)
    (hne : 1 ≤ s.chain.fhs.length)
    (hc : ∀ e ∈ s.store.cache.items, e.key ≠ c.target) (hd : lookup s.store.db c.target = none) :
    (c.verdict ≠ .nil → (getCFilter hs s c).result.isRet = false) ∧
    ((∀ q, prepare s.chain c.target c.batch c.maxBatch = .ok q →
        ∀ (q' : Query) (r : Resp), r ∈ c.resps → q'.index = q.index → q'.fhdrs = q.fhdrs → verify hs q' r = none) →
      (getCFilter hs s c).result.isRet = false ∧ (getCFilter hs s c).st.store = s.store) := by
  have hm := GetBlock.spec_get_miss_of_nokey hc
  rcases getCFilter_cases hs s c with ⟨_, he⟩ | ⟨v, hv, _⟩ | ⟨_, fid, hl, _⟩ | ⟨_, _, he⟩
  · rw [he]; exact ⟨fun _ => rfl, fun _ => ⟨rfl, rfl⟩⟩
  · exact absurd hv (hm v)
  · rw [hd] at hl; cases hl
  · rw [he]
    unfold afterMiss
    cases hp : prepare s.chain c.target c.batch c.maxBatch with
    | error e => exact ⟨fun _ => rfl, fun _ => ⟨rfl, rfl⟩⟩
    | ok q =>
      simp only
      constructor
      · intro hv
        cases hvd : c.verdict with
        | nil => exact absurd hvd hv
        | err => rfl
        | quit => rfl
      · intro hall
        have hfeed := feed_all_rejected hs c.cont c.resps (q, s.store) (fun q' r hr h1 h2 => hall q rfl q' r hr h1 h2)
        have hnone : q.found = none := (prepare_ok hs s.chain c.target c.batch c.maxBatch q hne hp).2.2.1
        rw [hfeed]
        cases hvd : c.verdict <;> simp [hnone, Result.isRet]

/-- **The prepared range** for a block with committed headers (1 ≤ height ≤
min(block tip, filter tip)), in every batching mode and for every requested
batch size (also ≤ 0 and above the limit): contains the target, lies within
[1, best], has at most `wire.MaxGetCFiltersReqRange` = 1000 filters, at most
`maxBatch` when that is a proper limit, and is the single block without batching.
Holds in particular at block 1, at the tip and at limit ±1. -/
theorem C05_range (c : Chain) (t : Nat) (bt : Batch) (mb : Int) (q : Query)
    (h1 : 1 ≤ t) (h2 : t ≤ c.best) (hne : 1 ≤ c.fhs.length) (hp : prepare c t bt mb = .ok q) :
    1 ≤ q.start ∧ q.start ≤ t ∧ (t : Int) ≤ q.stop ∧ q.stop ≤ c.best ∧ q.stop - q.start + 1 ≤ maxRange ∧
    (0 < mb ∧ mb < maxRange → q.stop - q.start + 1 ≤ mb) ∧ (bt = .none → q.start = t ∧ q.stop = t) := by
  obtain ⟨_, _, _, hs1, hs2⟩ := prepare_ok ⟨id, fun _ _ => 0⟩ c t bt mb q hne hp
  rw [hs1, hs2]
  exact rangeOf_spec (t : Int) (c.best : Int) bt mb (by omega) (by omega)

/-- **Index ↔ header alignment of a prepared query** (any mode, size, boundary):
every awaited block `b` is mapped to a position `i ≥ 1` of the query's private
header slice such that `filterHeaders[i]` is the committed header of `b` and
`filterHeaders[i-1]` the committed header of the block before `b` — so a response
naming `b` is checked against the headers of `b` and of no other block (a
genuine filter of another block relabelled as `b` is rejected, `C05_reject`). -/
theorem C05_index_aligned (c : Chain) (t : Nat) (bt : Batch) (mb : Int) (q : Query)
    (hne : 1 ≤ c.fhs.length) (hp : prepare c t bt mb = .ok q) :
    ∀ p ∈ q.index, 1 ≤ p.2 ∧ 1 ≤ p.1 ∧ p.1 < c.fhs.length ∧
      q.fhdrs.getD p.2 0 = c.fhs.getD p.1 0 ∧ q.fhdrs.getD (p.2 - 1) 0 = c.fhs.getD (p.1 - 1) 0 :=
  (prepare_ok ⟨id, fun _ _ => 0⟩ c t bt mb q hne hp).1.1

/-- a known block with committed headers always gets a query -/
theorem C05_range_total (c : Chain) (t : Nat) (bt : Batch) (mb : Int) (h1 : 1 ≤ t) (h2 : t ≤ c.best) :
    ∃ q, prepare c t bt mb = .ok q := by
  have hr := rangeOf_spec (t : Int) (c.best : Int) bt mb (by omega) (by omega)
  have ht : ¬ t > c.tip := by unfold Chain.best at h2; omega
  have hb : ¬ t > c.best := by omega
  unfold prepare
  simp only [ht, hb, ↓reduceIte]
  split
  · omega
  · exact ⟨_, rfl⟩

/-- **No query above the filter-header tip**: for a block whose filter header is not committed (height above
min(block tip, filter tip)) `prepareCFiltersQuery` fails in every batching mode — no request is sent, nothing can
be cached or returned for it — and conversely a prepared query's target is committed. -/
theorem C05_no_query_above_tip (c : Chain) (t : Nat) (bt : Batch) (mb : Int) (h : t > c.best) :
    ∃ e, prepare c t bt mb = .error e := by
  by_cases ht : t > c.tip
  · exact ⟨.unknownBlock, by unfold prepare; simp only [ht, ↓reduceIte]⟩
  · exact ⟨.notCommitted, by unfold prepare; simp only [ht, h, ↓reduceIte]⟩

theorem C05_prepared_target_committed (c : Chain) (t : Nat) (bt : Batch) (mb : Int) (q : Query)
    (hp : prepare c t bt mb = .ok q) : t ≤ c.best := by
  by_cases h : t > c.best
  · obtain ⟨e, he⟩ := C05_no_query_above_tip c t bt mb h
    rw [he] at hp; cases hp
  · omega

example : (rangeOf 1 1100 .reverse 0) = (1, 1) ∧ (rangeOf 1100 1100 .forward 5) = (1100, 1100) ∧
    (rangeOf 50 1100 .forward 1001) = (50, 1049) ∧ (rangeOf 50 1100 .forward 999) = (50, 1048) ∧
    (rangeOf 1050 1100 .reverse (-1)) = (51, 1050) := by decide

/-- **What the proofs rely on in query.go** (regenerated on every run): the
tests of `handleResponse` in the order of `verify`, every rejecting branch is a
bare `return noProgress`, the recomputation uses `filterHeaders[i-1]` and is
compared with `filterHeaders[i]`, cache / persist / delete come after all of
them, and `GetCFilter` looks up cache → database → (lock) cache → prepare → query and
returns `targetFilter` or fails.  (That the arithmetic of `prepareCFiltersQuery` is the
one of `rangeOf` is no longer a textual fact: the function is translated on every run and
`C05_trans_prepareCFiltersQuery` / `C05_trans_headerIndex` in Props/C05Trans.lean prove it.) -/
theorem C05_source_facts :
    Gen.Query.cfSteps = ["reqtype", "type", "reqftype", "ftype", "index", "decode", "headers", "rehash", "compare",
      "target", "cache", "persist", "delete", "more", "finish"] ∧
    Gen.Query.cfGuards = 8 ∧ Gen.Query.cfGuardsPure = true ∧
    Gen.Query.cfCurHeader = "q.filterHeaders[i]" ∧ Gen.Query.cfPrevHeader = "q.filterHeaders[i-1]" ∧
    Gen.Query.cfRehashArgs = "filter, prevHeader" ∧
    Gen.Query.getCFilterOrder = ["cache", "db", "lock", "deferUnlock", "cache", "prepare", "query"] ∧
    Gen.Query.getCFilterReturnsTargetOrFails = true := by decide

/-- **What the database-layer and cache theorems rely on** (regenerated on every run):
`filterdb.FetchFilter` decodes (copies) the stored bytes inside the `walletdb.View` closure and no value
read from the bucket outlives the closure (`dbFetch` with `inTx = true`, `C05_db_read_is_snapshot`); a
filter enters the memory cache through `putFilterToCache` only, and the only caller of that is
`cfiltersQuery.handleResponse`, after every test passed (`accept`; any other fill would have to be a
`cacheFillChecked`, `C05_cache_fill_validated`).  `filterdb` and `headerfs` keep no package-level state
shared by the stores of one process apart from the package logger and the pool of read buffers (`pkgLevelState`: every
package-level `var` that is not a named byte string, an error value or a `var _` assertion): what a
store holds depends on its own files and chain parameters only (`openStore` with `keyOf = id`,
`C05_genesis_per_network`; `FHStore` with an empty `mem`, `C05_verification_headers_are_committed`). -/
theorem C05_store_source_facts :
    Gen.Query.fetchDecodesInTx = true ∧
    Gen.Query.cachePutCallers = ["cfiltersQuery.handleResponse"] ∧
    Gen.Query.cachePutSites = ["ChainService.putFilterToCache"] ∧
    Gen.Query.pkgLevelState = ["filterdb.log:other", "headerfs.headerBufPool:pool"] := by decide

end Neutrino.GetCFilter
