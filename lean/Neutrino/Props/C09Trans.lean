/-
C09 - the rescan's retry queue in terms of the functions the CODE defines (`blockRetryQueue.push`, `peek`,
`pop`, `clear`; translated from rescan.go on every run, Gen/TransRescan.lean): the queue the model
(`Model/Rescan.lean`: `queue ++ [b]`, `b :: rest`, `queue := []`) threads through `retryLoop` - which the
C09 walk theorems are about - is what the code computes: a plain first-in first-out list.
-/
import Neutrino.Model.Rescan
import Neutrino.Lemmas.TransRescan
namespace Neutrino.Rescan
open Neutrino.Gen.TransRescan Neutrino.GoInt

/-- **closed forms for every queue**: `push` appends at the back, `peek` reads and `pop` removes the front
(nil on an empty queue, which is left as it is), `clear` empties. -/
theorem C09_trans_retryQueue (b : QBlock) (q : List QBlock) :
    blockRetryQueue_push b q = q ++ [b] ∧
    blockRetryQueue_peek q = q.head?.join ∧
    blockRetryQueue_pop q = (q.head?.join, q.tail) ∧
    blockRetryQueue_clear q = [] :=
  ⟨trans_push b q, trans_peek q, trans_pop q, trans_clear q⟩

/-- **the model's queue**: under any naming `nm` of blocks the code's queue is the model's list of block
ids - `push` is the model's `queue ++ [b]`, `peek`/`pop` on a non-empty queue are the model's
`b :: rest` pattern. -/
theorem C09_trans_retryQueue_model (nm : QBlock → Nat) (b c : QBlock) (q r : List QBlock) :
    (blockRetryQueue_push b q).map nm = q.map nm ++ [nm b] ∧
    (q = c :: r → blockRetryQueue_peek q = c ∧ blockRetryQueue_pop q = (c, r) ∧
      (blockRetryQueue_pop q).2.map nm = (q.map nm).tail) ∧
    (blockRetryQueue_clear q).map nm = [] := by
  refine ⟨by simp [trans_push], ?_, by simp [trans_clear]⟩
  intro hq
  subst hq
  simp [trans_peek, trans_pop]

/-- first in, first out: what was pushed onto a queue of `n` blocks comes out after exactly `n` pops -/
theorem C09_trans_retryQueue_fifo (b : QBlock) (q : List QBlock) :
    (blockRetryQueue_pop ((blockRetryQueue_push b q).drop q.length)) = (b, []) := by
  simp [trans_push, trans_pop]

example : blockRetryQueue_pop (blockRetryQueue_push (some ⟨default, 7⟩) [some ⟨default, 5⟩])
    = (some ⟨default, 5⟩, [some ⟨default, 7⟩]) := by decide
example : blockRetryQueue_peek [] = none ∧ blockRetryQueue_pop [] = (none, []) := by decide

end Neutrino.Rescan
