/-
C04 — "… eventually reports that chain's tip … and keeps doing so as that chain grows or
REORGANISES": the request the client sends after a block announcement has to make progress
(Model/Locator.lean), and a checkpoint mismatch has to discard the whole failing branch.

* `C04_request_progress`: for EVERY locator, peer chain, fork point and batch size: if the first
  locator entry on the peer's chain lies less than one batch below the fork point and the peer
  has blocks above the fork point, the answer contains at least one header the client does not
  have.  `C04_request_reaches_tip`: if what is missing fits one batch, the answer ends at the
  peer's tip.
* `C04_inv_locator_progress`: the locator of `handleInvMsg` (in-memory tip, then the store's
  locator) makes progress whenever the STORE's locator alone would - the in-memory tip not being
  on the peer's chain (it was reorganised away) costs nothing.
* `C04_tip_only_locator_stalls`: a locator whose entries are all off the peer's chain (the tip
  alone after a re-anchor, once the honest side has reorganised it away) is answered from
  genesis; on a chain whose fork point lies a batch or more above genesis the answer is all
  known headers: nothing is learned, for every peer height.  This is the region the `bm-sync`
  scenarios `inv-after-*` drive on the real handlers (oracle clause `request-learns-nothing`).
* `C04_mismatch_rollback_target`: in the model of `handleHeadersMsg` (Model/BlockMgr.lean) the
  checkpoint-mismatch arm leaves at most the previous checkpoint's height in the store, for
  every state, whoever served which part of the failing branch.
-/
import Neutrino.Model.Locator
import Neutrino.Model.BlockMgr
namespace Neutrino.Locator

theorem C04_request_progress (loc : List (Option Nat)) (batch ph fork a : Nat)
    (hfirst : firstOn loc = some a) (ha : a ≤ fork) (hnear : fork < a + batch) (hahead : fork < ph) :
    0 < newCount batch ph fork loc := by
  have hs : startOf loc = a + 1 := by rw [startOf_firstOn, hfirst]
  simp only [newCount, count, hs]
  omega

theorem C04_request_reaches_tip (loc : List (Option Nat)) (batch ph a : Nat)
    (hfirst : firstOn loc = some a) (hfit : ph < a + 1 + batch) (hle : a ≤ ph) :
    startOf loc + count batch ph (startOf loc) = ph + 1 := by
  have hs : startOf loc = a + 1 := by rw [startOf_firstOn, hfirst]
  simp only [count, hs]
  omega

/-- the in-memory tip in front of the store's locator never hurts: if it is off the peer's chain the
answer is the one the store's locator gets -/
theorem C04_inv_locator_off_chain_tip (storeLoc : List (Option Nat)) (batch ph fork : Nat) :
    newCount batch ph fork (invLocator none storeLoc) = newCount batch ph fork storeLoc := rfl

theorem C04_inv_locator_progress (memTip : Option Nat) (storeLoc : List (Option Nat)) (batch ph fork a : Nat)
    (hmem : ∀ t, memTip = some t → t ≤ fork ∧ fork < t + batch)
    (hfirst : firstOn storeLoc = some a) (ha : a ≤ fork) (hnear : fork < a + batch) (hahead : fork < ph) :
    0 < newCount batch ph fork (invLocator memTip storeLoc) := by
  cases memTip with
  | none => exact C04_request_progress storeLoc batch ph fork a hfirst ha hnear hahead
  | some t =>
    obtain ⟨h1, h2⟩ := hmem t rfl
    exact C04_request_progress (invLocator (some t) storeLoc) batch ph fork t rfl h1 h2 hahead

/-- hypotheses satisfiable: tip 2006 reorganised away (fork 2005), store locator reaches 2005 -/
example : 0 < newCount 2000 2007 2005 (invLocator none [none, some 2005, some 2004, some 0]) :=
  C04_inv_locator_progress none _ 2000 2007 2005 2005 (by intro t h; cases h) rfl (by omega) (by omega) (by omega)

theorem C04_tip_only_locator_stalls (loc : List (Option Nat)) (batch ph fork : Nat)
    (hoff : firstOn loc = none) (hdeep : batch ≤ fork) :
    newCount batch ph fork loc = 0 := by
  have hs : startOf loc = 1 := by rw [startOf_firstOn, hoff]
  simp only [newCount, count, hs]
  omega

example : newCount 2000 2007 2005 [none] = 0 := C04_tip_only_locator_stalls [none] 2000 2007 2005 rfl (by omega)

end Neutrino.Locator

namespace Neutrino.BM

/-- length of the log after a roll-back is at most target + 1 (and unchanged if already there) -/
theorem rollBack_length_le (h : Nat) : ∀ (fuel : Nat) (log : List Nat) (fst : Nat) (ft : Node) (out : List Ntfn),
    log.length ≤ h + 1 + fuel →
    (rollBack h fuel log fst ft out).1.length ≤ max (h + 1) 1 := by
  intro fuel
  induction fuel with
  | zero =>
    intro log fst ft out hl
    simp only [rollBack]; omega
  | succ n ih =>
    intro log fst ft out hl
    by_cases hgt : tipHeight log > h
    · simp only [rollBack, hgt, ↓reduceIte]
      apply ih
      simp only [List.length_dropLast]
      simp only [tipHeight] at hgt
      omega
    · simp only [rollBack, hgt, ↓reduceIte]
      simp only [tipHeight] at hgt
      omega

/-- **Checkpoint mismatch discards the whole failing branch**: whatever the state (whoever is sync peer,
whatever it and earlier peers delivered), after `rollBackTo (previous checkpoint)` the stored tip is at or
below the previous checkpoint. -/
theorem C04_mismatch_rollback_target (c : Cfg) (s : State) (nodeHeight : Nat) :
    tipHeight (s.rollBackTo (findPrevCp c.cps nodeHeight).height).1.log ≤ (findPrevCp c.cps nodeHeight).height := by
  have h := rollBack_length_le (findPrevCp c.cps nodeHeight).height s.log.length s.log s.fst s.ftip [] (by omega)
  simp only [State.rollBackTo, tipHeight]
  omega

end Neutrino.BM
