/-
Model of banman (store.go, codec.go, util.go).  Core Lean only.

* An IP is a `List Nat` of bytes exactly as Go's `net.IP` (`[]` stands for a nil
  or empty slice; every function below treats the two alike, as Go does).
* `to4`, `to16`, `ipMask` are `net.IP.To4`, `net.IP.To16`, `net.IP.Mask`.
* `parseIPNet` is `banman.ParseIPNet` AFTER Go's `net.SplitHostPort` /
  `net.ParseIP` have turned the text into bytes (the textual parser is Go's and
  is not modelled; the harness hands over `net.ParseIP`'s bytes).
* `encodeKey` is `encodeIPNet`: type byte ‖ 4- or 16-byte IP ‖ mask bytes as given.
* The two bbolt buckets `ban-index` (key → big-endian Unix SECONDS) and
  `reason-index` (key → reason byte) are always written and deleted together in
  one transaction; they are modelled as one association list key ↦ (expiry, reason).
* Time is an explicit `now` in MILLISECONDS carried by every operation; durations
  are whole milliseconds (possibly negative).  `time.Now().Add(d).Unix()` is
  `(now + d) / 1000` (floor; `Int./` is Euclidean division and the divisor is
  positive), `!time.Now().Before(time.Unix(e, 0))` is `now ≥ e * 1000`.
* bbolt is durable: `reopen` leaves the state unchanged.
-/
namespace Neutrino.Ban

abbrev Bytes := List Nat

def v4Prefix : Bytes := [0, 0, 0, 0, 0, 0, 0, 0, 0, 0, 255, 255]
/-- `net.CIDRMask(32, 32)` -/
def ff4 : Bytes := [255, 255, 255, 255]
/-- `net.CIDRMask(128, 128)` -/
def ff16 : Bytes := [255, 255, 255, 255, 255, 255, 255, 255, 255, 255, 255, 255, 255, 255, 255, 255]

/-- `net.IP.To4` (`none` = nil). -/
def to4 (ip : Bytes) : Option Bytes :=
  if ip.length = 4 then some ip
  else if ip.length = 16 ∧ ip.take 12 = v4Prefix then some (ip.drop 12)
  else none

/-- `net.IP.To16` (`none` = nil). -/
def to16 (ip : Bytes) : Option Bytes :=
  if ip.length = 4 then some (v4Prefix ++ ip)
  else if ip.length = 16 then some ip
  else none

def allFF (l : Bytes) : Bool := l.all (· == 255)

/-- `net.IP.Mask` (`[]` = nil). -/
def ipMask (ip mask : Bytes) : Bytes :=
  let mask := if mask.length = 16 ∧ ip.length = 4 ∧ allFF (mask.take 12) = true then mask.drop 12 else mask
  let ip := if mask.length = 4 ∧ ip.length = 16 ∧ ip.take 12 = v4Prefix then ip.drop 12 else ip
  if ip.length = mask.length then List.zipWith Nat.land ip mask else []

/-- `banman.ParseIPNet` on the bytes `net.ParseIP(host)` returned (`[]` when it
returned nil) and the mask argument (`none` = nil).  `none` = `ErrUnsupportedIP`. -/
def parseIPNet (ip : Bytes) (mask : Option Bytes) : Option (Bytes × Bytes) :=
  match to4 ip with
  | some _ => let m := mask.getD ff4; some (ipMask ip m, m)
  | none =>
    match to16 ip with
    | some _ => let m := mask.getD ff16; some (ipMask ip m, m)
    | none => none

/-- `encodeIPNet`: `none` = `ErrUnsupportedIP`. -/
def encodeKey (ip mask : Bytes) : Option Bytes :=
  match to4 ip with
  | some ip4 => some (0 :: (ip4 ++ mask))
  | none =>
    match to16 ip with
    | some ip16 => some (1 :: (ip16 ++ mask))
    | none => none

inductive Via where
  | parse   -- the caller went through `ParseIPNet(addr, mask)` (as the client always does)
  | raw     -- the caller built the `*net.IPNet` itself
deriving DecidableEq, Repr

/-- What a store call is applied to. -/
structure Target where
  via  : Via
  /-- parse: `net.ParseIP(host)`; raw: `IPNet.IP` as given -/
  ip   : Bytes
  /-- parse: the mask argument (`none` = nil); raw: `IPNet.Mask` -/
  mask : Option Bytes
  /-- the port `net.SplitHostPort` removed, if any (nothing looks at it) -/
  port : Option Nat := none
deriving DecidableEq, Repr

/-- The `*net.IPNet` handed to the store (`none`: `ParseIPNet` failed). -/
def resolve (tg : Target) : Option (Bytes × Bytes) :=
  match tg.via with
  | .parse => parseIPNet tg.ip tg.mask
  | .raw => some (tg.ip, tg.mask.getD [])

/-- The bbolt key of a target (`none`: the call returns an error). -/
def keyOf (tg : Target) : Option Bytes :=
  match resolve tg with
  | none => none
  | some (ip, m) => encodeKey ip m

inductive Op where
  | ban (tg : Target) (reason : Nat) (dur : Int)
  | status (tg : Target)
  | unban (tg : Target)
  | reopen
deriving DecidableEq, Repr

inductive Out where
  | ok
  | errParse                       -- `ParseIPNet` returned `ErrUnsupportedIP`
  | errEncode                      -- the store returned "unable to encode ...: unsupported IP type"
  | banned (reason : Nat) (expiryMs : Int)
  | notBanned
deriving DecidableEq, Repr

abbrev Recs := List (Bytes × Int × Nat)

def lookup (rs : Recs) (k : Bytes) : Option (Int × Nat) :=
  match rs with
  | [] => none
  | (k', v) :: rest => if k' = k then some v else lookup rest k

def del (rs : Recs) (k : Bytes) : Recs :=
  match rs with
  | [] => []
  | (k', v) :: rest => if k' = k then del rest k else (k', v) :: del rest k

def put (rs : Recs) (k : Bytes) (v : Int × Nat) : Recs := (k, v) :: del rs k

structure State where
  recs : Recs := []
deriving DecidableEq, Repr

/-- One store call at wall-clock time `now` (ms). -/
def step (s : State) (now : Int) : Op → State × Out
  | .ban tg reason dur =>
    match resolve tg with
    | none => (s, .errParse)
    | some (ip, m) =>
      match encodeKey ip m with
      | none => (s, .errEncode)
      | some k => ({ recs := put s.recs k ((now + dur) / 1000, reason) }, .ok)
  | .status tg =>
    match resolve tg with
    | none => (s, .errParse)
    | some (ip, m) =>
      match encodeKey ip m with
      | none => (s, .errEncode)
      | some k =>
        match lookup s.recs k with
        | none => (s, .notBanned)     -- zero Status; "removing" the absent key is a no-op
        | some (e, r) =>
          if now ≥ e * 1000 then ({ recs := del s.recs k }, .notBanned)
          else (s, .banned r (e * 1000))
  | .unban tg =>
    match resolve tg with
    | none => (s, .errParse)
    | some (ip, m) =>
      match encodeKey ip m with
      | none => (s, .errEncode)
      | some k => ({ recs := del s.recs k }, .ok)
  | .reopen => (s, .ok)

/-- A history: operations with the time at which each ran. -/
abbrev Hist := List (Int × Op)

def run (s : State) : Hist → State
  | [] => s
  | (t, o) :: os => run (step s t o).1 os

def outs (s : State) : Hist → List Out
  | [] => []
  | (t, o) :: os => (step s t o).2 :: outs (step s t o).1 os

/-! ### What `Status` must NOT be: two transactions

`banStore.Status` runs in ONE bbolt write transaction (`walletdb.Update`): the
read of the record and the removal of a lapsed one are one atomic step under the
database's writer lock, which is why `step` treats a call as atomic.  The
variant below reads in a read-only transaction (`statusView`) and purges the key
in a later write transaction without looking at the record again
(`statusPurge`); other calls can commit in between.  It is only used to state
the counterexample `C13_split_status_counterexample`. -/

inductive SplitOp where
  | call (t : Int) (op : Op)             -- any atomic store call
  | statusView (t : Int) (tg : Target)    -- first transaction of a split Status: the answer, nothing removed
  | statusPurge (tg : Target)             -- its second transaction: delete the key, whatever is stored now
deriving DecidableEq, Repr

def stepSplit (s : State) : SplitOp → State × Out
  | .call t op => step s t op
  | .statusView t tg => (s, (step s t (.status tg)).2)
  | .statusPurge tg =>
    match keyOf tg with
    | some k => ({ recs := del s.recs k }, .notBanned)
    | none => (s, .notBanned)

def runSplit (s : State) : List SplitOp → State
  | [] => s
  | o :: os => runSplit (stepSplit s o).1 os

end Neutrino.Ban
