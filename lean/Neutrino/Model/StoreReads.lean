import Neutrino.Spec.Store
/-
The read side of the block-header store that is more than one lookup:
`FetchHeaderAncestors` (a range ending at a hash) and the block locator
(headerfs/store.go `blockLocatorFromHash`, `LatestBlockLocator`), on the
durable state.  Core Lean only.
-/
namespace Neutrino.Store

/-- `FetchHeaderAncestors(numHeaders, stopHash)`: the start height and the
`numHeaders + 1` entries ending at `stopHash`; `none` = error (unknown hash, or
more ancestors asked for than exist: the uint32 start height wraps and the read
fails). -/
def fetchAncestors (d : Durable) (n id : Nat) : Option (Nat × List Nat) :=
  match d.db.height? id with
  | none => none
  | some h => if n > h then none else (readRange d.bf (h - n) h).map (fun hs => (h - n, hs))

/-- `filterHeaderStore.FetchHeader(blockHash)`: height through the shared index, entry from the filter file -/
def fetchFilterByHash (d : Durable) (id : Nat) : Option Nat :=
  (d.db.height? id).bind d.ff.get?

/-- `LatestBlockLocator`: the tip, then the entries at `locatorHeights` -/
def locator (d : Durable) : Option (List Nat) :=
  match btipHeight? d with
  | none => none
  | some (_, h) => (locatorHeights h).mapM d.bf.get?

end Neutrino.Store
