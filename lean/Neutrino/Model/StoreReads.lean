import Neutrino.Spec.Store
/-
The read side of the block-header store that is more than one lookup:
`FetchHeaderAncestors` (a range ending at a hash) and the block locator
(headerfs/store.go `blockLocatorFromHash`, `LatestBlockLocator`), on the
durable state.  Core Lean only.
-/
namespace Neutrino.Store

/-- `FetchHeaderAncestors(numHeaders, stopHash)`: the start height and the
`numHeaders + 1` entries ending at `stopHash`; `none` = error (unknown hash, or
more ancestors asked for than exist: the uint32 start height wraps and the read
fails). -/
def fetchAncestors (d : Durable) (n id : Nat) : Option (Nat × List Nat) :=
  match d.db.height? id with
  | none => none
  | some h => if n > h then none else (readRange d.bf (h - n) h).map (fun hs => (h - n, hs))

/-- `filterHeaderStore.FetchHeader(blockHash)`: height through the shared index, entry from the filter file -/
def fetchFilterByHash (d : Durable) (id : Nat) : Option Nat :=
  (d.db.height? id).bind d.ff.get?

/-- `filterHeaderStore.FetchHeaderAncestors(numHeaders, stopHash)`: the height
of `stopHash` comes from the shared BLOCK index, the range from the FILTER
file — which is shorter than the index says whenever the block store is ahead.
A range that is not entirely in the file is an error, whatever part of it is. -/
def fetchFilterAncestors (d : Durable) (n id : Nat) : Option (Nat × List Nat) :=
  match d.db.height? id with
  | none => none
  | some h => if n > h then none else (readRange d.ff (h - n) h).map (fun hs => (h - n, hs))

/-- `LatestBlockLocator`: the tip, then the entries at `locatorHeights` -/
def locator (d : Durable) : Option (List Nat) :=
  match btipHeight? d with
  | none => none
  | some (_, h) => (locatorHeights h).mapM d.bf.get?

end Neutrino.Store
