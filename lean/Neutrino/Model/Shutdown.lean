/-
C17 — the shutdown protocol as a finite classification problem.

`Gen.StopSites.sites` is every statement of the shutdown-relevant files at which a
goroutine can park for an unbounded time (bare send/receive, `range` over a
channel, `select`, `WaitGroup.Wait`, `Cond.Wait`).  `Gen.StopSites.stopEvents`
lists what every `Stop` method closes / waits for, `Gen.StopSites.chainServiceStop`
is the order of `ChainService.Stop`.  All three are regenerated from the source on
every run.

A parked goroutine is *released* at a site when
  (a) the select has a `default` (it never parks), or
  (b) one alternative receives from a quit channel that a `Stop` method closes
      *before* it waits (`closeBeforeWait`), and that close happens no later in
      `ChainService.Stop` than every `Wait` that may be waiting for a goroutine
      parked in that function (`waitedBy`; a per-response callback of the work
      manager, and what it calls, is waited for by the work manager's Stop), or
  (c) the (function, channel) pair is in the reviewed table `ShutdownDischarge.discharge`
      with the reason why the operation cannot park for ever; a reason of the
      kind "the channel's capacity covers every send" lives in `capDischarge`
      and is checked against the regenerated `make(chan …)` rows.
Core Lean only.
-/
import Neutrino.Gen.StopSites
namespace Neutrino.Shutdown
open Neutrino.Gen.StopSites

/-- index of the first element equal to `x` -/
def indexOf? (x : Nat) : List Nat → Option Nat
  | [] => none
  | y :: ys => if x == y then some 0 else (indexOf? x ys).map (· + 1)

/-- A subsystem stopped by `ChainService.Stop`. -/
structure Comp where
  /-- short name used in the tables below -/
  name : String
  /-- the entry of `Gen.StopSites.chainServiceStop` that stops it (its quit is closed and its goroutines are waited for inside that call) -/
  stopStep : Nat
  /-- the step of `ChainService.Stop` that waits for its goroutines -/
  waitStep : Nat
  /-- its quit channel -/
  quit : Nat
  /-- its Stop method (`N.«-»` for ChainService itself, whose close/Wait are steps of the order) -/
  stopFn : Nat
  /-- receiver types whose methods run on the goroutines its Wait waits for -/
  recvs : List Nat

def comps : List Comp := [
  ⟨"broadcaster", N.«call ChainService.broadcaster.Stop», N.«call ChainService.broadcaster.Stop»,
     N.«pushtx.Broadcaster.quit», N.«pushtx.Broadcaster.Stop», [N.«pushtx.Broadcaster»]⟩,
  ⟨"utxoScanner", N.«call ChainService.utxoScanner.Stop», N.«call ChainService.utxoScanner.Stop»,
     N.«UtxoScanner.quit», N.«UtxoScanner.Stop», [N.«UtxoScanner»]⟩,
  ⟨"workManager", N.«call ChainService.workManager.Stop», N.«call ChainService.workManager.Stop»,
     N.«query.peerWorkManager.quit», N.«query.peerWorkManager.Stop», [N.«query.peerWorkManager», N.«query.worker»]⟩,
  ⟨"blockSubscriptionMgr", N.«call ChainService.blockSubscriptionMgr.Stop», N.«call ChainService.blockSubscriptionMgr.Stop»,
     N.«blockntfns.SubscriptionManager.quit», N.«blockntfns.SubscriptionManager.Stop»,
     [N.«blockntfns.SubscriptionManager», N.«blockntfns.newSubscription»]⟩,
  ⟨"blockManager", N.«call ChainService.blockManager.Stop», N.«call ChainService.blockManager.Stop»,
     N.«blockManager.quit», N.«blockManager.Stop», [N.«blockManager», N.«checkpointedCFHeadersQuery»]⟩,
  ⟨"filterBatchWriter", N.«call ChainService.filterBatchWriter.Stop», N.«call ChainService.filterBatchWriter.Stop»,
     N.«chanutils.BatchWriter.quit», N.«chanutils.BatchWriter.Stop», [N.«chanutils.BatchWriter»]⟩,
  ⟨"chainService", N.«close ChainService.quit», N.«wait ChainService.wg», N.«ChainService.quit», N.«-», []⟩]

/-- Functions that run on a goroutine some *other* component's Wait waits for
(hand-written from the call graph; reviewed).  A function not listed here is
waited for by the component owning its receiver type (`Comp.recvs`), or by
nobody (API callers, peer goroutines, detached helpers). -/
def calledFrom : List (Nat × List String) := [
  -- the only goroutine in ChainService.wg
  (N.«ChainService.peerHandler»,          ["chainService"]),
  (N.«ChainService.handleQuery»,          ["chainService"]),
  (N.«ChainService.handleAddPeerMsg»,     ["chainService"]),
  (N.«ChainService.notifyConnectedPeer»,  ["chainService"]),
  -- peerHandler -> blockManager.NewPeer
  (N.«blockManager.NewPeer»,              ["blockManager", "chainService"]),
  -- blockHandler/cfHandler -> cfg.queryAllPeers; broadcastHandler/rebroadcast -> cfg.Broadcast = sendTransaction -> queryAllPeers
  (N.«ChainService.queryAllPeers»,        ["blockManager", "broadcaster"]),
  (N.«ChainService.Peers»,                ["blockManager", "broadcaster"]),
  -- batchManager -> cfg.GetBlock / cfg.BlockFilterMatches -> GetCFilter
  (N.«ChainService.GetBlock»,             ["utxoScanner"]),
  (N.«ChainService.GetCFilter»,           ["utxoScanner"]),
  -- cfHandler and the two above -> QueryDispatcher.Query
  (N.«query.peerWorkManager.Query»,       ["workManager", "blockManager", "utxoScanner"]),
  -- workDispatcher -> cfg.ConnectedPeers
  (N.«ChainService.ConnectedPeers»,       ["workManager"]),
  -- blockHandler -> cfg.UpdatePeerHeights (handleHeadersMsg / blockHandler)
  (N.«ChainService.UpdatePeerHeights»,    ["blockManager"]),
  -- broadcastHandler: Start subscribes, exit runs `defer sub.Cancel()`
  (N.«blockntfns.SubscriptionManager.cancelSubscription», ["blockSubscriptionMgr", "broadcaster"])]

/-- Local names of quit channels: (function, channel as written there, the Stop-closed channel it denotes, why). -/
def aliases : List (Nat × Nat × Nat × String) := [
  (N.«query.worker.Run», N.«quit», N.«query.peerWorkManager.quit»,
     "the only caller is workDispatcher: `r.Run(w.jobResults, w.quit)`"),
  (N.«GetUtxoRequest.Result», N.«GetUtxoRequest.quit», N.«UtxoScanner.quit»,
     "set once by UtxoScanner.Enqueue: `quit: s.quit`")]

def resolveChan (fn ch : Nat) : Nat :=
  match aliases.find? (fun a => a.1 == fn && a.2.1 == ch) with
  | some a => a.2.2.1
  | none => ch

def compOfRecv (r : Nat) : List String :=
  (comps.filter (fun c => c.recvs.contains r)).map (·.name)

/-- `fn` runs on a worker goroutine of the query work manager according to the extractor: it is registered as the
`HandleResp` callback of a `query.Request` (the worker calls it synchronously for every message of the peer), or it is
called directly by such a callback.  Regenerated (`Gen.StopSites.workerCallbacks`, `workerCallbackCallees`), not reviewed:
whichever struct a callback is a method of, the `Wait` that must be able to finish while it is parked is the work
manager's. -/
def onWorker (fn : Nat) : Bool :=
  workerCallbacks.contains fn || workerCallbackCallees.any (·.2 == fn)

/-- the components whose Wait may be waiting for a goroutine parked in `fn` -/
def waitedBy (fn recv : Nat) : List String :=
  let base := match calledFrom.find? (·.1 == fn) with
    | some e => e.2
    | none => compOfRecv recv
  if onWorker fn && !base.contains "workManager" then "workManager" :: base else base

def compNamed (n : String) : Option Comp := comps.find? (·.name == n)
def compOfQuit (q : Nat) : Option Comp := comps.find? (·.quit == q)

def closePos (order : List Nat) (q : Nat) : Option Nat :=
  match compOfQuit q with
  | some c => indexOf? c.stopStep order
  | none => none

def waitPos (order : List Nat) (n : String) : Option Nat :=
  match compNamed n with
  | some c => indexOf? c.waitStep order
  | none => none

/-- inside a component's own Stop method: the quit is closed, and closed before every Wait -/
def closeBeforeWait (evs : List StopEv) (c : Comp) : Bool :=
  if c.stopFn == N.«-» then true else
  let mine := evs.filter (·.fn == c.stopFn)
  let kinds := mine.map (fun e => if e.kind == "close" && e.arg == c.quit then 1 else if e.kind == "wait" then 2 else 0)
  match indexOf? 1 kinds with
  | none => false
  | some i => match indexOf? 2 kinds with
    | none => true
    | some j => i < j

/-- alternative `a` of a site in function `fn` is a receive from a quit channel closed in time -/
def quitAltOk (order : List Nat) (evs : List StopEv) (fn recv : Nat) (a : Alt) : Bool :=
  !a.send &&
  match compOfQuit (resolveChan fn a.chan) with
  | none => false
  | some c =>
    closeBeforeWait evs c &&
    match indexOf? c.stopStep order with
    | none => false
    | some p => (waitedBy fn recv).all (fun w =>
        match waitPos order w with
        | some wp => p ≤ wp
        | none => false)

structure Discharge where
  fn : Nat
  chan : Nat
  reason : String

def Discharge.covers (d : Discharge) (s : Site) : Bool :=
  d.fn == s.fn && s.alts.any (·.chan == d.chan)

def ruleA (s : Site) : Bool := s.hasDefault
def ruleB (order : List Nat) (evs : List StopEv) (s : Site) : Bool :=
  s.alts.any (quitAltOk order evs s.fn s.recv)
def ruleC (tbl : List Discharge) (s : Site) : Bool := tbl.any (·.covers s)

def siteOkWith (order : List Nat) (evs : List StopEv) (tbl : List Discharge) (s : Site) : Bool :=
  ruleA s || ruleB order evs s || ruleC tbl s

/-- key of a site as used by `known-findings.txt` (`shape=<function>:<channel>` of the first alternative) -/
structure SiteKey where
  fn : Nat
  chan : Nat
  deriving DecidableEq, Repr

def keysOf (s : Site) : List SiteKey := s.alts.map (fun a => ⟨s.fn, a.chan⟩)

/-- the order constraints the discharge reasons rely on: `a` is stopped (strictly) before `b` -/
def before (order : List Nat) (a b : Nat) : Bool :=
  match indexOf? a order, indexOf? b order with
  | some i, some j => i < j
  | _, _ => false

def nameOf (i : Nat) : String := names.getD i "?"

def describe (s : Site) : String :=
  nameOf s.fn ++ ":" ++ (match s.alts with | a :: _ => nameOf a.chan | [] => "") ++ " (" ++ s.kind ++ " at " ++ s.file ++ ":" ++ toString s.line ++ ")"

end Neutrino.Shutdown
