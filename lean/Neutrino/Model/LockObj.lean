/-
A generic mutex-protected object and the interleaving theorem used wherever a
Go type guards all of its shared state with one mutex (cache/lru.Cache after
the repair, the header stores, the ban store's bbolt transaction).

A method call, once it holds the lock, is any finite sequence of micro-steps
on the shared state with a thread-local accumulator (`Loc`); the last
micro-step releases the lock and yields the result.  Other threads can only
take the lock when it is free.  Theorem `lock_serializes`: for EVERY schedule,
every number of threads and every decomposition into micro-steps, whenever the
lock is free the shared state is the one produced by running the completed
calls one after the other, atomically, in lock-acquisition order, and each
call returned what that sequential run returns.
-/
namespace Neutrino.LockObj

structure Obj (σ ι ρ : Type) where
  Loc   : Type
  start : ι → Loc
  /-- one micro-step inside the critical section: continue or finish -/
  micro : σ → Loc → σ × (Loc ⊕ ρ)

variable {σ ι ρ : Type}

/-- `Partial o s l s' l'`: some micro-steps from `(s,l)` reach `(s',l')` without finishing. -/
inductive Partial (o : Obj σ ι ρ) : σ → o.Loc → σ → o.Loc → Prop
  | refl (s l) : Partial o s l s l
  | step {s l s1 l1 s2 l2} : Partial o s l s1 l1 → o.micro s1 l1 = (s2, .inl l2) → Partial o s l s2 l2

/-- Big-step (atomic) execution of one call. -/
def Exec (o : Obj σ ι ρ) (s : σ) (i : ι) (s' : σ) (r : ρ) : Prop :=
  ∃ s1 l1, Partial o s (o.start i) s1 l1 ∧ o.micro s1 l1 = (s', .inr r)

/-- Sequential replay of a log of completed calls. -/
inductive Replay (o : Obj σ ι ρ) (s0 : σ) : List (Nat × ι × ρ) → σ → Prop
  | nil : Replay o s0 [] s0
  | snoc {log s s' t i r} : Replay o s0 log s → Exec o s i s' r → Replay o s0 (log ++ [(t, i, r)]) s'

structure Conf (o : Obj σ ι ρ) where
  shared : σ
  holder : Option (Nat × ι × o.Loc)
  log    : List (Nat × ι × ρ)

inductive Ev (ι : Type) where
  | acquire (t : Nat) (i : ι)   -- thread t's next call takes the lock (only if free)
  | micro (t : Nat)             -- the lock holder t performs one micro-step
  | other (t : Nat)             -- any step of any thread outside a critical section

def cstep (o : Obj σ ι ρ) (c : Conf o) : Ev ι → Conf o
  | .acquire t i =>
    match c.holder with
    | none => { c with holder := some (t, i, o.start i) }
    | some _ => c                                   -- blocked: nothing happens
  | .micro t =>
    match c.holder with
    | some (t', i, l) =>
      if t = t' then
        match o.micro c.shared l with
        | (s', .inl l') => { c with shared := s', holder := some (t', i, l') }
        | (s', .inr r) => { shared := s', holder := none, log := c.log ++ [(t', i, r)] }
      else c
    | none => c
  | .other _ => c

def crun (o : Obj σ ι ρ) (c : Conf o) : List (Ev ι) → Conf o
  | [] => c
  | e :: es => crun o (cstep o c e) es

def CInv (o : Obj σ ι ρ) (s0 : σ) (c : Conf o) : Prop :=
  match c.holder with
  | none => Replay o s0 c.log c.shared
  | some (_, i, l) => ∃ s1, Replay o s0 c.log s1 ∧ Partial o s1 (o.start i) c.shared l

theorem cinv_step (o : Obj σ ι ρ) (s0 : σ) (c : Conf o) (e : Ev ι) (h : CInv o s0 c) :
    CInv o s0 (cstep o c e) := by
  cases e with
  | other t => exact h
  | acquire t i =>
    unfold cstep
    cases hh : c.holder with
    | some x => simpa [CInv, hh] using h
    | none =>
      simp only [CInv, hh] at h ⊢
      exact ⟨c.shared, h, Partial.refl _ _⟩
  | micro t =>
    unfold cstep
    cases hh : c.holder with
    | none => simpa [CInv, hh] using h
    | some x =>
      obtain ⟨t', i, l⟩ := x
      simp only [CInv, hh] at h
      obtain ⟨s1, hr, hp⟩ := h
      by_cases ht : t = t'
      · simp only [ht, ↓reduceIte]
        cases hm : o.micro c.shared l with
        | mk s' res =>
          cases res with
          | inl l' =>
            simp only [CInv]
            exact ⟨s1, hr, Partial.step hp hm⟩
          | inr r =>
            simp only [CInv]
            exact Replay.snoc hr ⟨c.shared, l, hp, hm⟩
      · simp only [ht, ↓reduceIte, CInv, hh]
        exact ⟨s1, hr, hp⟩

/-- For every schedule: whenever the lock is free, the shared state and every
returned result are those of the atomic, sequential execution of the
completed calls in lock-acquisition order. -/
theorem lock_serializes (o : Obj σ ι ρ) (s0 : σ) (evs : List (Ev ι)) :
    let c := crun o { shared := s0, holder := none, log := [] } evs
    c.holder = none → Replay o s0 c.log c.shared := by
  intro c
  have key : ∀ (evs : List (Ev ι)) (c0 : Conf o), CInv o s0 c0 → CInv o s0 (crun o c0 evs) := by
    intro evs
    induction evs with
    | nil => intro c0 h; exact h
    | cons e es ih => intro c0 h; exact ih _ (cinv_step o s0 c0 e h)
  have h := key evs { shared := s0, holder := none, log := [] } (by simp [CInv]; exact Replay.nil)
  intro hn
  simpa [CInv, c, hn] using h

/-- While a call is in its critical section nobody else has changed the shared
state since it acquired the lock: it sees exactly its own partial effects. -/
theorem holder_sees_own_effects (o : Obj σ ι ρ) (s0 : σ) (evs : List (Ev ι)) :
    let c := crun o { shared := s0, holder := none, log := [] } evs
    ∀ t i l, c.holder = some (t, i, l) →
      ∃ s1, Replay o s0 c.log s1 ∧ Partial o s1 (o.start i) c.shared l := by
  intro c t i l hh
  have key : ∀ (evs : List (Ev ι)) (c0 : Conf o), CInv o s0 c0 → CInv o s0 (crun o c0 evs) := by
    intro evs
    induction evs with
    | nil => intro c0 h; exact h
    | cons e es ih => intro c0 h; exact ih _ (cinv_step o s0 c0 e h)
  have h := key evs { shared := s0, holder := none, log := [] } (by simp [CInv]; exact Replay.nil)
  simpa [CInv, c, hh] using h

end Neutrino.LockObj
