/-
Executable model of the UTXO scanner (utxoscanner.go `batchManager`, `scanFromHeight`,
`dequeueAtHeight`) and of `batchSpendReporter` (batch_spend_reporter.go).  Core Lean only.

Abstractions (each is observationally exact for what a caller can see through `Result`):
* the three reporter maps `requests` / `initialTxns` / `outpoints` always have the same key set
  (`addNewRequests`+`findInitialTransactions` add to all, `notifyRequests` deletes from all), so one
  association list of `Entry` stands for them; the watch list handed to the filter is its key list;
* `addNewRequests` and `findInitialTransactions` are fused per request (`joinReq`): both are per-request
  map updates that commute across outpoints;
* `notifySpends` walks the entries and asks for the first spending input of the block instead of walking the
  inputs and looking the map up: the map entry is deleted at the first hit, so later hits are ignored either way;
* the priority queue is a list; `dequeueAtHeight` partitions it by `<`, `==`, `>`;
* everything the environment decides (tip seen by `BestSnapshot`, requests enqueued from inside the k-th
  `GetBlockHash` call, `Stop`, failures, filter verdicts) is a field of `World`, indexed by the number `k` of
  `GetBlockHash` calls made so far, so "for every schedule" is "for every `World`".

Quirk reproduced: a batch whose least start height is above the tip scans nothing and is retried for ever
(`MStatus.spin`).  The model is of the code WITH three repairs: a nil initial report does not erase a recorded one
(`mergeInit`); requests dequeued at a height are failed together with the reporter's requests when the block fetch of
that height fails or the quit signal is seen before it (`failNew`); `Result` returns the cached first result to every
later call (`ReqObj.result`).
-/
namespace Neutrino.Utxo

structure Outpoint where
  txid : Nat
  idx : Nat
deriving DecidableEq, Repr, Inhabited

/-- abstract transaction: id, the outpoints its inputs spend (in order), number of outputs -/
structure Tx where
  id : Nat
  ins : List Outpoint
  nout : Nat
deriving DecidableEq, Repr

abbrev Block := List Tx
/-- position = height -/
abbrev Chain := List Block

structure Req where
  id : Nat
  op : Outpoint
  birth : Nat
deriving DecidableEq, Repr, Inhabited

inductive Report
  | spent (txid inIdx height : Nat)
  | output (height txIdx : Nat)
  | empty
deriving DecidableEq, Repr, Inhabited

inductive Err | shutdown | hashFail | filterFail | blockFail
deriving DecidableEq, Repr

inductive Res
  | ok (r : Report)
  | err (e : Err)
deriving DecidableEq, Repr

/-- one call of `GetUtxoRequest.deliver`; `upto` (ghost) = last height the batch had looked at -/
structure Deliv where
  req : Req
  res : Res
  upto : Nat
deriving DecidableEq, Repr

def blockAt (c : Chain) (h : Nat) : Block := c.getD h []

/-- index of the first input equal to `op` -/
def inputIdx : List Outpoint → Outpoint → Option Nat
  | [], _ => none
  | i :: rest, op => if i = op then some 0 else (inputIdx rest op).map (· + 1)

/-- first (transaction id, input index) of the block that spends `op`, in block order -/
def spendIn : Block → Outpoint → Option (Nat × Nat)
  | [], _ => none
  | tx :: rest, op =>
    match inputIdx tx.ins op with
    | some i => some (tx.id, i)
    | none => spendIn rest op

/-- `findInitialTransactions` for one outpoint: the first transaction of the block with that id, if the output
index exists; `pos` = position in the block -/
def initialFrom (h : Nat) (op : Outpoint) : Nat → Block → Report
  | _, [] => .empty
  | pos, tx :: rest =>
    if tx.id = op.txid then (if op.idx < tx.nout then .output h pos else .empty)
    else initialFrom h op (pos + 1) rest

def initialIn (blk : Block) (h : Nat) (op : Outpoint) : Report := initialFrom h op 0 blk

def initialAt (c : Chain) (h : Nat) (op : Outpoint) : Report := initialIn (blockAt c h) h op

/-- the reporter's state for one watched outpoint -/
structure Entry where
  op : Outpoint
  reqs : List Req
  init : Report
deriving Repr

/-- repaired `b.initialTxns[op] = tx`: a nil result does not erase what an earlier request found
(the unrepaired code is `fun _ new => new`) -/
def mergeInit (old new : Report) : Report := if new = .empty then old else new

/-- `addNewRequests` + `findInitialTransactions` for one new request -/
def joinReq (blk : Block) (h : Nat) : List Entry → Req → List Entry
  | [], r => [⟨r.op, [r], initialIn blk h r.op⟩]
  | e :: es, r =>
    if e.op = r.op then
      { e with reqs := e.reqs ++ [r], init := mergeInit e.init (initialIn blk h r.op) } :: es
    else e :: joinReq blk h es r

def addNew (blk : Block) (h : Nat) (ents : List Entry) (new : List Req) : List Entry :=
  new.foldl (joinReq blk h) ents

/-- `notifySpends` -/
def notifySpends (blk : Block) (h : Nat) : List Entry → List Entry × List Deliv
  | [] => ([], [])
  | e :: es =>
    let r := notifySpends blk h es
    match spendIn blk e.op with
    | some (t, i) => (r.1, e.reqs.map (fun q => ⟨q, .ok (.spent t i h), h⟩) ++ r.2)
    | none => (e :: r.1, r.2)

/-- `NotifyUnspentAndUnfound` -/
def notifyUnspent (ents : List Entry) (upto : Nat) : List Deliv :=
  ents.flatMap (fun e => e.reqs.map (fun q => ⟨q, .ok e.init, upto⟩))

/-- `FailRemaining` -/
def failAll (ents : List Entry) (e : Err) (upto : Nat) : List Deliv :=
  ents.flatMap (fun en => en.reqs.map (fun q => ⟨q, .err e, upto⟩))

/-- callback log (compared with the implementation's callback sequence) -/
inductive Ev
  | hash (h : Nat) (ok : Bool)
  | filter (h : Nat) (watch : List Outpoint) (r : Option Bool)
  | block (h : Nat) (ok : Bool)
deriving DecidableEq, Repr

structure World where
  chain : Chain
  /-- height `BestSnapshot` reports once `k` `GetBlockHash` calls have been made -/
  tip : Nat → Nat
  /-- requests enqueued from inside the k-th `GetBlockHash` call (k ≥ 1) -/
  arrive : Nat → List Req
  /-- `Stop` takes effect during the k-th `GetBlockHash` call (after the arrivals of that call) -/
  stopAt : Nat → Bool
  hashErr : Nat → Bool
  /-- filter verdict in iteration k at a height for a watch list; `none` = error -/
  fm : Nat → Nat → List Outpoint → Option Bool
  blockErr : Nat → Bool

structure St where
  pq : List Req := []
  next : List Req := []
  ents : List Entry := []
  out : List Deliv := []
  k : Nat := 0
  quit : Bool := false
  log : List Ev := []

def St.fail (st : St) (e : Err) (h : Nat) : St :=
  { st with ents := [], out := st.out ++ failAll st.ents e h }

/-- `failRequests`: the error goes to the requests just taken from the queue for height `h`, which the reporter
does not hold yet -/
def failNew (new : List Req) (e : Err) (upto : Nat) : List Deliv :=
  new.map (fun q => ⟨q, .err e, upto⟩)

inductive Step
  | cont (st : St)
  | fail (st : St)

/-- the part of an iteration after the decision to fetch the block -/
def fetchStep (w : World) (h : Nat) (st : St) (new : List Req) : Step :=
  if st.quit then .fail ({ st with out := st.out ++ failNew new .shutdown h }.fail .shutdown h)
  else if w.blockErr st.k then
    .fail ({ st with out := st.out ++ failNew new .blockFail h, log := st.log ++ [Ev.block h false] }.fail .blockFail h)
  else
    let blk := blockAt w.chain h
    let r := notifySpends blk h (addNew blk h st.ents new)
    .cont { st with ents := r.1, out := st.out ++ r.2, log := st.log ++ [Ev.block h true] }

/-- one iteration of the height loop of `scanFromHeight` -/
def stepH (w : World) (h : Nat) (st : St) : Step :=
  if st.quit then .fail (st.fail .shutdown h)
  else
    let k := st.k + 1
    let pq := st.pq ++ w.arrive k
    let st1 : St := { st with k := k, pq := pq, quit := w.stopAt k }
    if w.hashErr k then .fail ({ st1 with log := st.log ++ [Ev.hash h false] }.fail .hashFail h)
    else
      -- dequeueAtHeight
      let new := pq.filter (fun q => q.birth == h)
      let st2 : St := { st1 with pq := pq.filter (fun q => h < q.birth),
                                 next := st.next ++ pq.filter (fun q => q.birth < h),
                                 log := st.log ++ [Ev.hash h true] }
      if new.isEmpty then
        let watch := st2.ents.map (·.op)
        let verdict := w.fm k h watch
        let st3 : St := { st2 with log := st2.log ++ [Ev.filter h watch verdict] }
        match verdict with
        | none => .fail (st3.fail .filterFail h)
        | some false => .cont st3
        | some true => fetchStep w h st3 new
      else fetchStep w h st2 new

inductive Status | done | failed | fuelOut
deriving DecidableEq, Repr

/-- `scanFromHeight` from height `h` with current end estimate `endH` -/
def scan (w : World) : Nat → Nat → Nat → St → Status × St
  | 0, _, _, st => (.fuelOut, st)
  | fuel + 1, h, endH, st =>
    if h ≤ endH then
      match stepH w h st with
      | .cont st' => scan w fuel (h + 1) endH st'
      | .fail st' => (.failed, st')
    else if endH < w.tip st.k then scan w fuel (endH + 1) (w.tip st.k) st
    else (.done, { st with ents := [], out := st.out ++ notifyUnspent st.ents endH })

def minBirth : List Req → Nat
  | [] => 0
  | [q] => q.birth
  | q :: rest => min q.birth (minBirth rest)

inductive MStatus
  | idle      -- queue empty: the manager waits on its condition variable
  | stopped   -- quit seen; `Stop` fails what is queued
  | spin      -- least start height above the tip: empty scan, retried for ever (F6)
  | fuelOut
deriving DecidableEq, Repr

/-- `batchManager` (+ the queue drain of `Stop`) -/
def mgr (w : World) (sf : Nat) : Nat → St → MStatus × St
  | 0, st => (.fuelOut, st)
  | fuel + 1, st =>
    let st : St := { st with pq := st.pq ++ st.next, next := [] }
    if st.pq.isEmpty then (.idle, st)
    else if st.quit then
      (.stopped, { st with pq := [], out := st.out ++ st.pq.map (fun q => ⟨q, .err .shutdown, 0⟩) })
    else
      let b := minBirth st.pq
      if w.tip st.k < b then (.spin, st)
      else
        match scan w sf b (w.tip st.k) { st with ents := [] } with
        | (.fuelOut, st') => (.fuelOut, st')
        | (_, st') => mgr w sf fuel st'

/-- whole run: `init` = requests enqueued before `Start` -/
def run (w : World) (sf mf : Nat) (init : List Req) : MStatus × St :=
  mgr w sf mf { pq := init }

/-- every request that entered the scanner by the time `k` `GetBlockHash` calls were made -/
def arrived (w : World) : Nat → List Req
  | 0 => []
  | k + 1 => arrived w k ++ w.arrive (k + 1)

/-! ### the request object: a 1-buffered channel and a cache -/

structure ReqObj where
  chan : Option Res := none
  cache : Option Res := none
deriving DecidableEq, Repr

/-- `deliver`: non-blocking send on the 1-buffered channel (dropped when full) -/
def ReqObj.deliver (o : ReqObj) (r : Res) : ReqObj :=
  match o.chan with
  | none => { o with chan := some r }
  | some _ => o

/-- `Result` with no cancel and no quit: the cached first result if there is one, else a receive from the channel
(which is cached); `none` = the caller blocks -/
def ReqObj.result (o : ReqObj) : ReqObj × Option Res :=
  match o.cache with
  | some c => (o, some c)
  | none =>
    match o.chan with
    | none => (o, none)
    | some r => ({ chan := none, cache := some r }, some r)

/-- what request `q` finds in its channel after the deliveries `out` -/
def objAfter (out : List Deliv) (q : Req) : ReqObj :=
  (out.filter (fun d => d.req == q)).foldl (fun o d => o.deliver d.res) {}

end Neutrino.Utxo
