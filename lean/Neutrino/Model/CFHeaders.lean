/-
Model of the committed-filter-header logic of blockmanager.go:
`writeCFHeadersMsg`, `getCFHeadersForAllPeers`, `getUncheckpointedCFHeaders`,
`checkForCFHeaderMismatch`, `detectBadPeers`, `resolveFilterMismatchFromBlock`,
`checkCFCheckptSanity`, the hard-coded-checkpoint pass of `resolveConflict`,
and `rollBackToHeight`.  Core Lean only.

Hashes are abstract: filter hashes, filter headers and blocks are small
naturals; `H f p` stands for `dsha256(f ‖ p)` (an injective pairing; the
theorems assume injectivity where they need it, the driver instantiates `H` by
the table of real double-SHA values the harness computed).  `0` is the all-zero
hash, which the Go code uses as "unset" in `checkForCFHeaderMismatch`.

Filters are abstract too: `served p h` is the filter (identified by its hash)
peer `p` hands out for the block at height `h`, `verify f h` is the result of
the real `VerifyBasicBlockFilter` on that filter and the block at height `h`
(run by the harness), `getBlock h` whether the block can be fetched.

Go `range` over a map: the order of `Net.peers` is the iteration order used by
the baseline test of `resolveConflict` (only its zero-hash sentinel makes it matter), `Net.pick`
selects which of the surviving peers the "longest chain" loop meets first.  The
theorems quantify over both; the driver enumerates `pick`.
-/
namespace Neutrino.CFHeaders

abbrev Hdr := Nat
abbrev FHash := Nat
abbrev Blk := Nat
abbrev Peer := Nat

inductive VRes where
  | bad
  | ok (opReturns : Nat)
deriving DecidableEq, Repr

/-- one `cfheaders` message; `stopOk` = stop hash and filter type are the requested ones -/
structure Msg where
  stopOk : Bool
  prev   : Hdr
  hashes : List FHash
deriving DecidableEq, Repr

inductive Ntf where
  | conn (h : Nat) (b : Blk)
  | disc (h : Nat) (b : Blk)
deriving DecidableEq, Repr

/-- `blocks`: block-header store by height.  `fstore`: filter-header store by
height.  `fblk`: the block each filter header was written for (what
`writeCFHeadersMsg` puts into its connect notifications).  `bans`: every
`BanPeer` call so far (peer, reason).  `discBanned`: banned peers are
disconnected at once and answer no further query. -/
structure St where
  blocks : List Blk := [0]
  fstore : List Hdr := [1]
  fblk   : List Blk := [0]
  bans   : List (Peer × Nat) := []
  ntf    : List Ntf := []
  discBanned : Bool := false
deriving Repr

structure Net where
  peers    : List Peer
  resps    : Peer → List Msg
  served   : Peer → Nat → Option FHash
  verify   : FHash → Nat → VRes
  getBlock : Nat → Bool
  pick     : Nat

def maxPerMsg : Nat := 2000
def reasonHeader : Nat := 3
def reasonCheckpoint : Nat := 4

def chainFrom (H : FHash → Hdr → Hdr) (prev : Hdr) : List FHash → List Hdr
  | [] => []
  | f :: fs => H f prev :: chainFrom H (H f prev) fs

def heightOf : List Blk → Blk → Option Nat
  | [], _ => none
  | x :: xs, b => if x = b then some 0 else (heightOf xs b).map (· + 1)

def connNtfs (start : Nat) : List Blk → List Ntf
  | [] => []
  | b :: bs => .conn start b :: connNtfs (start + 1) bs

inductive WOut where
  | ok (last : Hdr) (height : Nat)
  | errTip | errPrev | errAnc | misaligned
deriving DecidableEq, Repr

/-- `writeCFHeadersMsg`: previous-header test, header derivation, ancestor
lookup, store write, notifications — in the order of the source
(`Gen.CFHeaders.writeOrder`). -/
def writeMsg (H : FHash → Hdr → Hdr) (s : St) (prev : Hdr) (stop : Blk) (hashes : List FHash) :
    St × WOut :=
  match s.fstore.getLast? with
  | none => (s, .errTip)
  | some tip =>
    if tip ≠ prev then (s, .errPrev) else
    match heightOf s.blocks stop with
    | none => (s, .errAnc)
    | some e =>
      let n := hashes.length
      if n = 0 ∨ e + 1 < n then (s, .errAnc) else
      let start := e + 1 - n
      if start ≠ s.fstore.length then (s, .misaligned) else
      let hs := chainFrom H prev hashes
      let bl := (s.blocks.drop start).take n
      ({ s with fstore := s.fstore ++ hs, fblk := s.fblk ++ bl, ntf := s.ntf ++ connNtfs start bl },
       .ok ((hs.getLast?).getD prev) e)

/-- one iteration of the loop of `rollBackToHeight`; `filterFirst` is the
order of the two store calls in the source (`Gen.CFHeaders.rollbackFilterFirst`).
With the block header removed first the filter store can no longer resolve its
tip (it names the removed block) and the call fails. -/
def rollbackOne (filterFirst : Bool) (s : St) : St × Bool :=
  let bh := s.blocks.length - 1
  let regH := s.fstore.length - 1
  let b := (s.blocks.getLast?).getD 0
  let dropF (t : St) : St := { t with fstore := t.fstore.dropLast, fblk := t.fblk.dropLast }
  let dropB (t : St) : St := { t with blocks := t.blocks.dropLast }
  if filterFirst then
    let s1 := if bh ≤ regH then dropF s else s
    let s2 := dropB s1
    ({ s2 with ntf := s2.ntf ++ [.disc bh b] }, true)
  else
    let s1 := dropB s
    if bh ≤ regH then (s1, false)
    else ({ s1 with ntf := s1.ntf ++ [.disc bh b] }, true)

def rollbackLoop (filterFirst : Bool) : Nat → St → Nat → St × Bool
  | 0, s, _ => (s, true)
  | fuel + 1, s, h =>
    if s.blocks.length - 1 ≤ h then (s, true) else
    match rollbackOne filterFirst s with
    | (s1, false) => (s1, false)
    | (s1, true) => rollbackLoop filterFirst fuel s1 h

def rollBackToHeight (filterFirst : Bool) (s : St) (h : Nat) : St × Bool :=
  rollbackLoop filterFirst s.blocks.length s h

/-! ### the at-tip round -/

def ban (s : St) (ps : List Peer) (reason : Nat) : St :=
  { s with bans := s.bans ++ ps.map (fun p => (p, reason)) }

def live (s : St) (p : Peer) : Bool :=
  !(s.discBanned && s.bans.any (fun b => b.1 == p))

/-- the response filter of `getCFHeadersForAllPeers`: first message with the
right stop hash and exactly `n` hashes; the peer's sub-query is closed after it -/
def accept (n : Nat) (msgs : List Msg) : Option Msg :=
  msgs.find? (fun m => m.stopOk && m.hashes.length == n)

def gather (s : St) (net : Net) (n : Nat) : List (Peer × Msg) :=
  (net.peers.filter (live s)).filterMap (fun p => (accept n (net.resps p)).map (fun m => (p, m)))

/-- `checkForCFHeaderMismatch`: the first value seen is remembered (`none` =
nothing seen yet; since the repair of finding `zero-hash-sentinel` this is no
longer encoded as the all-zero hash), any later different value is a mismatch -/
def mismatchGo (i : Nat) (acc : Option FHash) : List (Peer × Msg) → Bool
  | [] => false
  | pm :: r =>
    match pm.2.hashes[i]? with
    | none => mismatchGo i acc r
    | some f =>
      match acc with
      | none => mismatchGo i (some f) r
      | some a => if a ≠ f then true else mismatchGo i acc r

def mismatch (hs : List (Peer × Msg)) (i : Nat) : Bool := mismatchGo i none hs

inductive TOut where
  | nil | errReorg | errNoPeers | errAllBad | errNoMajority | errGetBlock | errPrev | errOther
deriving DecidableEq, Repr

/-- the cfilter answers of all connected peers for height `h` -/
def filtersAt (s : St) (net : Net) (h : Nat) : List (Peer × FHash) :=
  (net.peers.filter (live s)).filterMap (fun p => (net.served p h).map (fun f => (p, f)))

def lookupF (fl : List (Peer × FHash)) (p : Peer) : Option FHash :=
  (fl.find? (fun x => x.1 == p)).map (·.2)

def opRet (verify : FHash → Nat → VRes) (f : FHash) (h : Nat) : Nat :=
  match verify f h with
  | .ok n => n
  | .bad => 0

/-- `resolveFilterMismatchFromBlock` -/
def resolveFromBlock (verify : FHash → Nat → VRes) (h : Nat) (fl : List (Peer × FHash))
    (threshold : Nat) : Except TOut (List Peer) :=
  let bad := (fl.filter (fun x => verify x.2 h == .bad)).map (·.1)
  if !bad.isEmpty then .ok bad else
  let most := fl.foldl (fun m x => max m (opRet verify x.2 h)) 0
  let pot := (fl.filter (fun x => opRet verify x.2 h == most)).map (·.1)
  if !pot.isEmpty && fl.length - pot.length ≥ threshold then .ok pot else
  let count (f : FHash) : Nat := fl.countP (fun x => x.2 == f)
  let best := fl.foldl (fun m x => max m (count x.2)) 0
  if best < threshold then .error .errNoMajority else
  .ok ((fl.filter (fun x => count x.2 < best)).map (·.1))

/-- the test of phase 1 for one entry of the header map -/
def p1cond (fl : List (Peer × FHash)) (pm : Peer × Msg) (i : Nat) : Bool :=
  match lookupF fl pm.1 with
  | none => true
  | some f => !(pm.2.hashes[i]? == some f)

/-- phase 1 of `detectBadPeers`: peers in the header map that did not serve
the filter, or whose filter does not hash to what they advertised -/
def phase1 (fl : List (Peer × FHash)) (hs : List (Peer × Msg)) (i : Nat) : List Peer :=
  (hs.filter (fun pm => p1cond fl pm i)).map (·.1)

/-- `detectBadPeers`.  `earlyReturn` = the `if len(badPeers) != 0 { return }`
after phase 1 is present in the source (`Gen.CFHeaders.detectEarlyReturn`). -/
def detect (net : Net) (s : St) (hs : List (Peer × Msg)) (h i : Nat) : Except TOut (List Peer) :=
  let fl := filtersAt s net h
  let p1 := phase1 fl hs i
  if !p1.isEmpty then .ok p1 else
  if !net.getBlock h then .error .errGetBlock else
  resolveFromBlock net.verify h fl ((fl.length + 2) / 2)

def dropPeers (hs : List (Peer × Msg)) (bad : List Peer) : List (Peer × Msg) :=
  hs.filter (fun pm => !bad.contains pm.1)

def idxLoop (net : Net) (start : Nat) :
    List Nat → St → List (Peer × Msg) → St × Except TOut (List (Peer × Msg))
  | [], s, hs => (s, .ok hs)
  | i :: is, s, hs =>
    if mismatch hs i then
      match detect net s hs (start + i) i with
      | .error e => (s, .error e)
      | .ok bad => idxLoop net start is (ban s bad reasonHeader) (dropPeers hs bad)
    else idxLoop net start is s hs

/-- height of the stop hash of the at-tip request: the block tip, or the end of a maximum-size message -/
def stopHeight (s : St) : Nat :=
  let start := s.fstore.length
  let btH := s.blocks.length - 1
  if btH - start ≥ maxPerMsg then start + maxPerMsg - 1 else btH

/-- number of filter hashes a well-formed answer must carry -/
def batchLen (s : St) : Nat := stopHeight s - s.fstore.length + 1

/-- error mapping of the final write -/
def wToT : St × WOut → St × TOut
  | (s3, .ok _ _) => (s3, .nil)
  | (s3, .errPrev) => (s3, .errPrev)
  | (s3, _) => (s3, .errOther)

/-- the tail of `getUncheckpointedCFHeaders`: pick the first surviving peer and write its batch -/
def commitPick (H : FHash → Hdr → Hdr) (s2 : St) (pick : Nat) (hs2 : List (Peer × Msg)) : St × TOut :=
  match hs2[pick % hs2.length]? with
  | none => (s2, .errAllBad)
  | some pm =>
    match s2.blocks[stopHeight s2]? with
    | none => (s2, .errOther)
    | some stopB => wToT (writeMsg H s2 pm.2.prev stopB pm.2.hashes)

/-- `getUncheckpointedCFHeaders` -/
def tipRound (H : FHash → Hdr → Hdr) (s : St) (net : Net) : St × TOut :=
  match s.fstore.getLast? with
  | none => (s, .errOther)
  | some tip =>
    if s.blocks.length - 1 < s.fstore.length - 1 then (s, .errReorg) else
    if s.blocks.length - 1 = s.fstore.length - 1 then (s, .nil) else
    let hs0 := gather s net (batchLen s)
    let wrong := (hs0.filter (fun pm => pm.2.prev != tip)).map (·.1)
    let s1 := ban s wrong reasonHeader
    let hs1 := hs0.filter (fun pm => pm.2.prev == tip)
    if hs1.isEmpty then (s1, .errNoPeers) else
    match idxLoop net s.fstore.length (List.range (batchLen s)) s1 hs1 with
    | (s2, .error e) => (s2, e)
    | (s2, .ok hs2) => commitPick H s2 net.pick hs2

/-- a reorganisation of the block-header chain performed by the block handler
while the cf handler is waiting for the answers to its query: roll back to
height `h`, then connect the blocks `ids` -/
def applyMid (filterFirst : Bool) (s : St) (h : Nat) (ids : List Blk) : St :=
  let r := (rollBackToHeight filterFirst s h).1
  { r with blocks := r.blocks ++ ids }

/-- `getUncheckpointedCFHeaders` with a reorganisation landing between the
query and the write.  Tips, batch length and the STOP HASH are those read
before the query; the previous-header test uses the tip value read then; the
detection loop and `writeCFHeadersMsg` see the stores as they are afterwards.
`writeCFHeadersMsg` resolves the batch's blocks through the stop hash
(`FetchHeaderAncestors`), so a batch for blocks that are gone is not written. -/
def tipRoundMid (H : FHash → Hdr → Hdr) (filterFirst : Bool) (s : St) (net : Net) (h : Nat) (ids : List Blk) :
    St × TOut :=
  match s.fstore.getLast? with
  | none => (s, .errOther)
  | some tip =>
    if s.blocks.length - 1 < s.fstore.length - 1 then (s, .errReorg) else
    if s.blocks.length - 1 = s.fstore.length - 1 then (s, .nil) else
    let sm := applyMid filterFirst s h ids
    let hs0 := gather sm net (batchLen s)
    let wrong := (hs0.filter (fun pm => pm.2.prev != tip)).map (·.1)
    let s1 := ban sm wrong reasonHeader
    let hs1 := hs0.filter (fun pm => pm.2.prev == tip)
    if hs1.isEmpty then (s1, .errNoPeers) else
    match idxLoop net s.fstore.length (List.range (batchLen s)) s1 hs1 with
    | (s2, .error e) => (s2, e)
    | (s2, .ok hs2) =>
      match hs2[net.pick % hs2.length]? with
      | none => (s2, .errAllBad)
      | some pm =>
        match s.blocks[stopHeight s]? with
        | none => (s2, .errOther)
        | some stopB => wToT (writeMsg H s2 pm.2.prev stopB pm.2.hashes)

/-! ### checkpoints -/

/-- `checkCFCheckptSanity`: `none` = the Go `-1` (full agreement), `some i` =
first index at which two peers differ or the store differs.  `interval` = 1000. -/
def sanityPeers (i : Nat) (acc : Hdr) : List (Peer × List Hdr) → Option Hdr
  -- `none` = mismatch among peers; `some c` = the value compared so far (0 if nobody has index i)
  | [] => some acc
  | pc :: r =>
    match pc.2[i]? with
    | none => sanityPeers i acc r
    | some c =>
      let acc' := if acc = 0 then c else acc
      if acc' ≠ c then none else sanityPeers i acc' r

def sanityLoop (interval : Nat) (fstore : List Hdr) (cp : List (Peer × List Hdr)) :
    List Nat → Option Nat
  | [] => none
  | i :: is =>
    match sanityPeers i 0 cp with
    | none => some i
    | some c =>
      let ht := (i + 1) * interval
      if ht ≤ fstore.length - 1 then
        if fstore[ht]? ≠ some c then some i else sanityLoop interval fstore cp is
      else sanityLoop interval fstore cp is

def checkSanity (interval : Nat) (fstore : List Hdr) (cp : List (Peer × List Hdr)) : Option Nat :=
  let maxLen := cp.foldl (fun m pc => max m pc.2.length) 0
  sanityLoop interval fstore cp (List.range maxLen)

/-- does the list `cps` contradict a hard-coded checkpoint (`ValidateCFHeader` per index)? -/
def contradictsHard (interval : Nat) (hard : Nat → Option Hdr) (cps : List Hdr) : Bool :=
  (List.range cps.length).any (fun i =>
    match hard ((i + 1) * interval), cps[i]? with
    | some c, some x => x != c
    | _, _ => false)

/-- first pass of `resolveConflict`: peers whose list contradicts a hard-coded
checkpoint are banned (reason 4) and dropped -/
def hardPass (interval : Nat) (hard : Nat → Option Hdr) (s : St) (cp : List (Peer × List Hdr)) :
    St × List (Peer × List Hdr) :=
  let badp := (cp.filter (fun pc => contradictsHard interval hard pc.2)).map (·.1)
  (ban s badp reasonCheckpoint, cp.filter (fun pc => !contradictsHard interval hard pc.2))

/-! ### `resolveConflict` -/

inductive RCOut where
  | ok (cps : List Hdr)
  | errNoCp | errNoLong | errBaseline | errMismatched
  | t (e : TOut)
deriving DecidableEq, Repr

/-- "make sure we're working off the same baseline": zero = unset -/
def baselineGo (acc : Hdr) : List (Peer × Msg) → Bool
  | [] => true
  | pm :: r =>
    if acc = 0 then baselineGo pm.2.prev r
    else if acc ≠ pm.2.prev then false else baselineGo acc r

def pickList (cp : List (Peer × List Hdr)) (pick : Nat) : RCOut :=
  match cp[pick % cp.length]? with
  | none => .errMismatched
  | some pc => .ok pc.2

/-- the end of `resolveConflict`: drop the lists of the peers banned in the loop
and of the peers that did not answer the cfheaders query (banned, reason 4),
then test sanity again -/
def rcFinish (interval : Nat) (pick : Nat) (bansBefore : Nat) (cp2 : List (Peer × List Hdr)) (s2 : St)
    (hs2 : List (Peer × Msg)) : St × RCOut :=
  let bannedNow := (s2.bans.drop bansBefore).map (·.1)
  let cp3 := cp2.filter (fun pc => !bannedNow.contains pc.1)
  let quiet := (cp3.filter (fun pc => !(hs2.any (fun pm => pm.1 == pc.1)))).map (·.1)
  let s3 := ban s2 quiet reasonCheckpoint
  let cp4 := cp3.filter (fun pc => hs2.any (fun pm => pm.1 == pc.1))
  (s3, match checkSanity interval s3.fstore cp4 with
       | none => pickList cp4 pick
       | some _ => .errMismatched)

/-- the conflict arm of `resolveConflict`: fetch the cfheaders of the interval
in question from everybody, find the liars with the detection loop -/
def rcConflict (interval : Nat) (s1 : St) (net : Net) (cp2 : List (Peer × List Hdr)) (start n : Nat) :
    St × RCOut :=
  let hs := gather s1 net n
  if !baselineGo 0 hs then (s1, .errBaseline) else
  match idxLoop net start (List.range n) s1 hs with
  | (s2, .error e) => (s2, .t e)
  | (s2, .ok hs2) => rcFinish interval net.pick s1.bans.length cp2 s2 hs2

/-- number of cfheaders `getCFHeadersForAllPeers start` asks for -/
def batchLenFrom (s : St) (start : Nat) : Nat :=
  let btH := s.blocks.length - 1
  (if btH - start ≥ maxPerMsg then start + maxPerMsg - 1 else btH) - start + 1

/-- `resolveConflict`; `interval` = `wire.CFCheckptInterval`, `hard` = the
hard-coded filter-header checkpoints of the network -/
def resolveConflict (interval : Nat) (hard : Nat → Option Hdr) (s : St) (net : Net)
    (cp : List (Peer × List Hdr)) : St × RCOut :=
  let s1 := (hardPass interval hard s cp).1
  let cp1 := (hardPass interval hard s cp).2
  if cp1.isEmpty then (s1, .errNoCp) else
  match checkSanity interval s1.fstore cp1 with
  | none => (s1, pickList cp1 net.pick)
  | some d =>
    let cp2 := cp1.filter (fun pc => !(decide (pc.2.length < d)))
    if cp2.isEmpty then (s1, .errNoLong) else
    rcConflict interval s1 net cp2 (d * interval) (batchLenFrom s1 (d * interval))

/-! ### `getCheckpointedCFHeaders` -/

def perQuery : Nat := 2

/-- one `cfheaders` message reaching `handleResponse`: from `peer`, in answer to
the query that starts at checkpoint index `k` -/
structure CpEv where
  peer   : Peer
  k      : Nat
  stopOk : Bool
  prev   : Hdr
  hashes : List FHash
deriving DecidableEq, Repr

/-- `verifyCheckpoint` -/
def verifyCp (H : FHash → Hdr → Hdr) (prevCp nextCp prev : Hdr) (hashes : List FHash) : Bool :=
  prevCp == prev && ((chainFrom H prev hashes).getLast?).getD prev == nextCp

/-- `handleResponse`: `some true` = delivered to the loop, `some false` = banned, `none` = ignored -/
def handleResp (H : FHash → Hdr → Hdr) (genesis : Hdr) (cps : List Hdr) (startInt : Nat) (ev : CpEv) :
    Option Bool :=
  if !ev.stopOk then none else
  if ev.k < startInt || ev.k ≥ cps.length || (ev.k - startInt) % perQuery != 0 then none else
  let prevCp := if ev.k = 0 then genesis else (cps[ev.k - 1]?).getD 0
  let nextIdx := if ev.k + perQuery - 1 ≥ cps.length then cps.length - 1 else ev.k + perQuery - 1
  some (verifyCp H prevCp ((cps[nextIdx]?).getD 0) ev.prev ev.hashes)

/-- the loop's variables -/
structure CpLoop where
  st      : St
  cur     : Hdr
  curH    : Nat
  curInt  : Nat
  initial : Hdr
  cache   : List (Nat × Hdr × List FHash)
  done    : Bool := false
  panic   : Bool := false

/-- the first-interval re-basing: while nothing has been written yet
(`curHeader == initialFilterHeader`) the response is cut to start right above
our tip and its previous header is replaced by our tip.  `arrStart` is the
start height of the response that just arrived (what the Go code uses). -/
def rebase (c : CpLoop) (e : Nat × Hdr × List FHash) (arrStart : Nat) : Hdr × List FHash :=
  if c.cur == c.initial then (c.cur, e.2.2.drop (c.curH + 1 - arrStart)) else (e.2.1, e.2.2)

/-- the inner `for`: write cached responses while the next expected one is there -/
def cpInner (H : FHash → Hdr → Hdr) (interval : Nat) (ncps : Nat) (arrStart : Nat) : Nat → CpLoop → CpLoop
  | 0, c => c
  | fuel + 1, c =>
    match c.cache.find? (fun e => e.1 == c.curInt) with
    | none => c
    | some e =>
      match c.st.blocks[(min (e.1 + perQuery) ncps) * interval]? with
      | none => { c with cache := c.cache.filter (fun x => x.1 != c.curInt), panic := true }
      | some stopB =>
        match writeMsg H c.st (rebase c e arrStart).1 stopB (rebase c e arrStart).2 with
        | (st', .ok last e') =>
          cpInner H interval ncps arrStart fuel
            { c with st := st', cur := last, curH := e', curInt := e' / interval,
                     cache := c.cache.filter (fun x => x.1 != c.curInt) }
        | (st', _) => { c with st := st', cache := c.cache.filter (fun x => x.1 != c.curInt), panic := true }

/-- one accepted response taken from `headerChan` -/
def cpTake (H : FHash → Hdr → Hdr) (interval : Nat) (ncps : Nat) (c : CpLoop) (ev : CpEv) : CpLoop :=
  let startHeight := ev.k * interval + 1
  let lastHeight := startHeight + ev.hashes.length - 1
  if lastHeight ≤ c.curH then c else
  let cache' := (ev.k, ev.prev, ev.hashes) :: c.cache.filter (fun x => x.1 != ev.k)
  let c1 := cpInner H interval ncps startHeight (cache'.length + 1) { c with cache := cache' }
  if c1.panic then c1 else
  if c1.curInt ≥ ncps then { c1 with done := true } else c1

def cpEvents (H : FHash → Hdr → Hdr) (interval : Nat) (genesis : Hdr) (cps : List Hdr) (startInt : Nat) :
    List CpEv → CpLoop → CpLoop
  | [], c => c
  | ev :: evs, c =>
    match handleResp H genesis cps startInt ev with
    | none => cpEvents H interval genesis cps startInt evs c
    | some false =>
      cpEvents H interval genesis cps startInt evs { c with st := ban c.st [ev.peer] reasonCheckpoint }
    | some true =>
      if c.done || c.panic then cpEvents H interval genesis cps startInt evs c
      else cpEvents H interval genesis cps startInt evs (cpTake H interval cps.length c ev)

inductive CPOut where
  | ok | panic
deriving DecidableEq, Repr

/-- `getCheckpointedCFHeaders` fed with the responses `evs` in arrival order -/
def cpRound (H : FHash → Hdr → Hdr) (interval : Nat) (s : St) (cps : List Hdr) (evs : List CpEv) :
    St × CPOut :=
  match s.fstore.getLast? with
  | none => (s, .panic)
  | some cur =>
    let curH := s.fstore.length - 1
    let startInt := curH / interval
    if startInt ≥ cps.length then (s, .ok) else
    if s.blocks.length ≤ cps.length * interval then (s, .panic) else
    let c := cpEvents H interval ((s.fstore.head?).getD 0) cps startInt evs
      { st := s, cur := cur, curH := curH, curInt := startInt, initial := cur, cache := [] }
    (c.st, if c.panic then .panic else .ok)

/-! ### start of a cfheaders sync (`cfHandler`) from ANY start state (fresh or resumed) -/

/-- `cfHandler` enters the checkpointed phase (getcfcheckpt of every peer, `resolveConflict`,
`getCheckpointedCFHeaders`) iff the block tip has reached the first checkpoint interval
(`lastHeight >= wire.CFCheckptInterval`) - whatever the filter tip is -/
def checkpointedPhase (interval blockTip : Nat) : Bool := decide (interval ≤ blockTip)

/-- the variant with a "restart optimisation": only if the filter tip lags a whole interval -/
def checkpointedPhaseLag (interval filterTip blockTip : Nat) : Bool :=
  decide (interval ≤ blockTip) && decide (filterTip + interval ≤ blockTip)

/-- the hard-coded pass with its scan starting at index `start` (the code: 0) -/
def contradictsHardFrom (start interval : Nat) (hard : Nat → Option Hdr) (cps : List Hdr) : Bool :=
  (List.range cps.length).any (fun i => decide (start ≤ i) &&
    match hard ((i + 1) * interval), cps[i]? with
    | some c, some x => x != c
    | _, _ => false)

/-- `cfHandler` caps every served checkpoint list at the block tip -/
def capLists (interval blockTip : Nat) (cp : List (Peer × List Hdr)) : List (Peer × List Hdr) :=
  cp.map (fun pc => (pc.1, pc.2.take (blockTip / interval)))

/-- first turn of the cfheaders sync from state `s` (filter tip `s.fstore.length - 1` anywhere at or
below the block tip `s.blocks.length - 1`): `none` = the checkpointed phase is not entered -/
def cfStart (interval : Nat) (hard : Nat → Option Hdr) (s : St) (net : Net)
    (cp : List (Peer × List Hdr)) : St × Option RCOut :=
  if checkpointedPhase interval (s.blocks.length - 1) then
    let r := resolveConflict interval hard s net (capLists interval (s.blocks.length - 1) cp)
    (r.1, some r.2)
  else (s, none)

/-! ### state machine -/

inductive Op where
  | ext (ids : List Blk)
  | rb (h : Nat)
  | wr (prev : Hdr) (stop : Blk) (hashes : List FHash)
  | tip (net : Net)
  | tipMid (net : Net) (h : Nat) (ids : List Blk)
  | resolve (interval : Nat) (hard : Nat → Option Hdr) (net : Net) (cp : List (Peer × List Hdr))
  | cp (interval : Nat) (cps : List Hdr) (evs : List CpEv)

inductive Out where
  | unit
  | rb (ok : Bool)
  | w (o : WOut)
  | t (o : TOut)
  | rc (o : RCOut)
  | c (o : CPOut)

def step (H : FHash → Hdr → Hdr) (filterFirst : Bool) (s : St) : Op → St × Out
  | .ext ids => ({ s with blocks := s.blocks ++ ids }, .unit)
  | .rb h => let r := rollBackToHeight filterFirst s h; (r.1, .rb r.2)
  | .wr prev stop hashes => let r := writeMsg H s prev stop hashes; (r.1, .w r.2)
  | .tip net => let r := tipRound H s net; (r.1, .t r.2)
  | .tipMid net h ids => let r := tipRoundMid H filterFirst s net h ids; (r.1, .t r.2)
  | .resolve interval hard net cp => let r := resolveConflict interval hard s net cp; (r.1, .rc r.2)
  | .cp interval cps evs => let r := cpRound H interval s cps evs; (r.1, .c r.2)

def run (H : FHash → Hdr → Hdr) (filterFirst : Bool) (s : St) : List Op → St
  | [] => s
  | op :: ops => run H filterFirst (step H filterFirst s op).1 ops

end Neutrino.CFHeaders
