/-
Model of `ChainService.GetCFilter`, `prepareCFiltersQuery` and
`cfiltersQuery.handleResponse` (query.go).  Core Lean only.

Blocks of the (fixed) best chain are named by their height; ids above the block
tip stand for hashes the header store does not know.  The filter-header store
is the list `fhs` (index = height).  A filter is an id `fid`; `Hashing.hdr fid
prev` is `builder.MakeHeaderForFilter(filter, prev)`, i.e. `H (fhash fid) prev`.
The dispatcher is adversarial as in `Model/GetBlock.lean`.  The filter cache is
the recency list `Lru.Spec` (C16), the filter database an association list;
the batch writer is modelled as writing at once (the harness waits for it).
-/
import Neutrino.Spec.Lru
namespace Neutrino.GetCFilter
open Neutrino

structure Hashing where
  fhash : Nat → Nat
  H     : Nat → Nat → Nat

def Hashing.hdr (hs : Hashing) (fid prev : Nat) : Nat := hs.H (hs.fhash fid) prev

inductive Batch where
  | none | forward | reverse
deriving DecidableEq, Repr

/-- `wire.MaxGetCFiltersReqRange` -/
def maxRange : Int := 1000

/-- the range arithmetic of `prepareCFiltersQuery`, on `int64` as written -/
def rangeOf (height best : Int) (bt : Batch) (maxBatch : Int) : Int × Int :=
  let batchSize := if maxBatch > 0 ∧ maxBatch < maxRange then maxBatch else maxRange
  let ss : Int × Int := match bt with
    | .none => (height, height)
    | .forward => (height, height + batchSize - 1)
    | .reverse => (height - batchSize + 1, height)
  let start := if ss.1 < 1 then 1 else ss.1
  let stop := if ss.2 > best then best else ss.2
  (start, stop)

structure Resp where
  isCFilter : Bool     -- the message is a `*wire.MsgCFilter`
  ftypeOk   : Bool     -- its filter type is the requested one
  blk       : Nat      -- block hash it names
  decodes   : Bool     -- `gcs.FromNBytes` accepts the data
  fid       : Nat      -- id of the filter bytes
  size      : Nat
deriving DecidableEq, Repr, Inhabited

structure Query where
  start  : Int
  stop   : Int
  fhdrs  : List Nat           -- `filterHeaders`: committed headers of heights start-1 … stop
  index  : List (Nat × Nat)   -- `headerIndex`: block ↦ position in `fhdrs`
  target : Nat
  found  : Option Resp := none
deriving Repr

def lookup (l : List (Nat × Nat)) (k : Nat) : Option Nat := (l.find? (·.1 == k)).map (·.2)
def eraseKey (l : List (Nat × Nat)) (k : Nat) : List (Nat × Nat) := l.filter (fun p => !(p.1 == k))

/-- `for i := 1; i < len(blockHeaders); i++ { headerIndex[blockHeaders[i].BlockHash()] = i }`
with `blockHeaders[i]` the header of height `start-1+i` -/
def mkIndex (start : Nat) : Nat → List (Nat × Nat)
  | 0 => []
  | n + 1 => mkIndex start n ++ [(start + n, n + 1)]

inductive PrepErr where
  | unknownBlock | notCommitted | badRange
deriving DecidableEq, Repr

structure Chain where
  tip : Nat            -- height of the block-header tip
  fhs : List Nat       -- committed filter headers, index = height (never empty: genesis)
deriving Repr

def Chain.best (c : Chain) : Nat := min c.tip (c.fhs.length - 1)

def prepare (c : Chain) (target : Nat) (bt : Batch) (maxBatch : Int) : Except PrepErr Query :=
  if target > c.tip then .error .unknownBlock
  -- `if int64(height) > bestHeight`: the target's filter header is not committed yet
  else if target > c.best then .error .notCommitted
  else
    let r := rangeOf target c.best bt maxBatch
    let n := r.2 - r.1 + 1
    -- numFilters := uint32(stop-start+1): a negative value wraps and the header fetch fails
    if n < 0 then .error .badRange
    else
      let start := r.1.toNat
      let cnt := n.toNat
      .ok { start := r.1, stop := r.2,
            fhdrs := (c.fhs.drop (start - 1)).take (cnt + 1),
            index := mkIndex start cnt, target := target }

/-- the rejection tests of `handleResponse`, in source order; `some i` = passed all -/
def verify (hs : Hashing) (q : Query) (r : Resp) : Option Nat :=
  if r.isCFilter = false then none
  else if r.ftypeOk = false then none
  else match lookup q.index r.blk with
    | none => none
    | some i =>
      if r.decodes = false then none
      else
        let cur := q.fhdrs.getD i 0
        let prev := q.fhdrs.getD (i - 1) 0
        if hs.hdr r.fid prev ≠ cur then none else some i

inductive Progress where
  | none | progressed | finished
deriving DecidableEq, Repr

structure Store where
  cache   : Lru.Spec
  db      : List (Nat × Nat) := []     -- block ↦ fid
  persist : Bool := true               -- `persistToDisk`
deriving Repr

def dbPut (db : List (Nat × Nat)) (k v : Nat) : List (Nat × Nat) := (k, v) :: eraseKey db k

/-- what `handleResponse` does once every test has passed -/
def accept (q : Query) (st : Store) (r : Resp) : (Query × Store) × Progress :=
  (({ q with found := if r.blk = q.target then some r else q.found, index := eraseKey q.index r.blk },
    { st with cache := (st.cache.step (.put r.blk r.fid r.size)).1,
              db := if st.persist then dbPut st.db r.blk r.fid else st.db }),
   if (eraseKey q.index r.blk).isEmpty then .finished else .progressed)

def handle (hs : Hashing) (qs : Query × Store) (r : Resp) : (Query × Store) × Progress :=
  match verify hs qs.1 r with
  | none => (qs, .none)
  | some _ => accept qs.1 qs.2 r

def feed (hs : Hashing) (cont : Bool) : Query × Store → List Resp → (Query × Store) × List Progress
  | qs, [] => (qs, [])
  | qs, r :: rs =>
    let hp := handle hs qs r
    if hp.2 = .finished ∧ cont = false then (hp.1, [hp.2])
    else
      let rest := feed hs cont hp.1 rs
      (rest.1, hp.2 :: rest.2)

inductive Verdict where
  | nil | err | quit
deriving DecidableEq, Repr

structure Call where
  target   : Nat
  regular  : Bool := true     -- filterType == wire.GCSFilterRegular
  batch    : Batch
  maxBatch : Int
  resps    : List Resp
  cont     : Bool
  verdict  : Verdict
deriving Repr

inductive Result where
  | ret (fid : Nat)
  | errType | errPrepare | errQuery | errFetchFailed | errQuit
deriving DecidableEq, Repr

def Result.isRet : Result → Bool
  | .ret _ => true
  | _ => false

inductive Source where
  | cache | db | network | nowhere
deriving DecidableEq, Repr

structure State where
  chain : Chain
  store : Store
deriving Repr

structure Outcome where
  st      : State
  result  : Result
  source  : Source
  prog    : List Progress
  range   : Option (Int × Int)     -- the prepared [start, stop], when a query was prepared
deriving Repr

def getCFilter (hs : Hashing) (s : State) (c : Call) : Outcome :=
  if c.regular = false then ⟨s, .errType, .nowhere, [], none⟩
  else
    match s.store.cache.step (.get c.target) with
    | (cache', .val v) => ⟨{ s with store := { s.store with cache := cache' } }, .ret v, .cache, [], none⟩
    | (cache', _) =>
      let st0 : Store := { s.store with cache := cache' }
      match lookup st0.db c.target with
      | some fid => ⟨{ s with store := st0 }, .ret fid, .db, [], none⟩
      | none =>
        -- mtxCFilter; the second cache lookup misses again (nothing ran in between)
        match prepare s.chain c.target c.batch c.maxBatch with
        | .error _ => ⟨{ s with store := st0 }, .errPrepare, .nowhere, [], none⟩
        | .ok q =>
          let hp := feed hs c.cont (q, st0) c.resps
          let s1 : State := { s with store := hp.1.2 }
          let rg := some (q.start, q.stop)
          match c.verdict with
          | .quit => ⟨s1, .errQuit, .nowhere, hp.2, rg⟩
          | .err => ⟨s1, .errQuery, .nowhere, hp.2, rg⟩
          | .nil =>
            match hp.1.1.found with
            | none => ⟨s1, .errFetchFailed, .nowhere, hp.2, rg⟩
            | some r => ⟨s1, .ret r.fid, .network, hp.2, rg⟩

/-! ### a reorganisation between the by-hash and the by-height lookups

`prepareCFiltersQuery` learns the HEIGHT of the requested block from
`BlockHeaders.FetchHeader(hash)` and reads everything else (best block, stop
hash, block headers, filter headers) by height afterwards, without a lock shared
with the block manager.  `Reorg` is the chain those later reads see: the same
blocks up to `fork`, other blocks (named `altBase + height`) above it. -/

def altBase : Nat := 500000

structure Reorg where
  fork : Nat            -- last common height
  tip  : Nat            -- block tip of the new chain
  fhs  : List Nat       -- committed filter headers of the new chain, index = height
deriving Repr

/-- the block at height `h` of the chain read afterwards -/
def Reorg.idAt (rg : Reorg) (h : Nat) : Nat := if h > rg.fork then altBase + h else h

def Reorg.chain (rg : Reorg) : Chain := { tip := rg.tip, fhs := rg.fhs }

/-- the query that `prepareCFiltersQuery` builds when the reorganisation hits
right after `FetchHeader(hash)`: the height is that of the requested block on
the old chain, range, headers and the header index are those of the new chain;
`target` is still the requested hash. -/
def prepareReorg (c : Chain) (rg : Reorg) (target : Nat) (bt : Batch) (maxBatch : Int) : Except PrepErr Query :=
  if target > c.tip then .error .unknownBlock
  else match prepare rg.chain target bt maxBatch with
    | .error e => .error e
    | .ok q => .ok { q with index := q.index.map (fun p => (rg.idAt p.1, p.2)) }

/-- `GetCFilter` with that interleaving; afterwards the stores hold the new chain -/
def getCFilterReorg (hs : Hashing) (s : State) (rg : Reorg) (c : Call) : Outcome :=
  if c.regular = false then ⟨s, .errType, .nowhere, [], none⟩
  else
    match s.store.cache.step (.get c.target) with
    | (cache', .val v) => ⟨{ s with store := { s.store with cache := cache' } }, .ret v, .cache, [], none⟩
    | (cache', _) =>
      let st0 : Store := { s.store with cache := cache' }
      match lookup st0.db c.target with
      | some fid => ⟨{ s with store := st0 }, .ret fid, .db, [], none⟩
      | none =>
        match prepareReorg s.chain rg c.target c.batch c.maxBatch with
        | .error _ => ⟨{ chain := rg.chain, store := st0 }, .errPrepare, .nowhere, [], none⟩
        | .ok q =>
          let hp := feed hs c.cont (q, st0) c.resps
          let s1 : State := { chain := rg.chain, store := hp.1.2 }
          let rg' := some (q.start, q.stop)
          match c.verdict with
          | .quit => ⟨s1, .errQuit, .nowhere, hp.2, rg'⟩
          | .err => ⟨s1, .errQuery, .nowhere, hp.2, rg'⟩
          | .nil =>
            match hp.1.1.found with
            | none => ⟨s1, .errFetchFailed, .nowhere, hp.2, rg'⟩
            | some r => ⟨s1, .ret r.fid, .network, hp.2, rg'⟩

/-! ### the database layer under `GetCFilter`, with concurrent writers

`FilterDB.FetchFilter` opens a read transaction of the bbolt file, looks the key
up and decodes (copies) the value.  A read transaction sees the snapshot `db`;
the bytes it hands out point into the memory-mapped page and are valid only
while the transaction is open.  `ws` is what concurrent writers commit between
the END of that read transaction and the next thing `GetCFilter` does (any number
of write transactions: pages are freed and re-used, the file grows and is
re-mapped).  `inTx`: the value is decoded inside the transaction, as the code
does.  If it were decoded afterwards, it would be decoded from whatever the
re-used pages hold by then: `garble v`, an arbitrary function of the stored value. -/

def dbCommit (db : List (Nat × Nat)) : List (Nat × Nat) → List (Nat × Nat)
  | [] => db
  | w :: ws => dbCommit (dbPut db w.1 w.2) ws

def dbFetch (inTx : Bool) (garble : Nat → Nat) (db ws : List (Nat × Nat)) (k : Nat) : Option Nat :=
  match lookup db k with
  | none => none
  | some v => if inTx || ws.isEmpty then some v else some (garble v)

/-- the branch of `GetCFilter` after the cache and the database missed -/
def netBranch (hs : Hashing) (s : State) (c : Call) : Outcome :=
  match prepare s.chain c.target c.batch c.maxBatch with
  | .error _ => ⟨s, .errPrepare, .nowhere, [], none⟩
  | .ok q =>
    let hp := feed hs c.cont (q, s.store) c.resps
    let s1 : State := { s with store := hp.1.2 }
    let rg := some (q.start, q.stop)
    match c.verdict with
    | .quit => ⟨s1, .errQuit, .nowhere, hp.2, rg⟩
    | .err => ⟨s1, .errQuery, .nowhere, hp.2, rg⟩
    | .nil =>
      match hp.1.1.found with
      | none => ⟨s1, .errFetchFailed, .nowhere, hp.2, rg⟩
      | some r => ⟨s1, .ret r.fid, .network, hp.2, rg⟩

/-- `GetCFilter` with writers `ws` committing right after the read transaction of
its database lookup was closed (no database transaction, hence no such moment,
when the memory cache answers). -/
def getCFilterW (inTx : Bool) (garble : Nat → Nat) (hs : Hashing) (s : State) (c : Call) (ws : List (Nat × Nat)) : Outcome :=
  if c.regular = false then ⟨s, .errType, .nowhere, [], none⟩
  else
    match s.store.cache.step (.get c.target) with
    | (cache', .val v) => ⟨{ s with store := { s.store with cache := cache' } }, .ret v, .cache, [], none⟩
    | (cache', _) =>
      let st1 : Store := { s.store with cache := cache', db := dbCommit s.store.db ws }
      match dbFetch inTx garble s.store.db ws c.target with
      | some fid => ⟨{ s with store := st1 }, .ret fid, .db, [], none⟩
      | none => netBranch hs { s with store := st1 } c

/-! ### filling the cache from the database ("read-ahead")

The code puts a filter into the memory cache at one place only: in
`handleResponse`, after every test passed.  A cache fill from the database is
modelled in two forms.  `cacheFillChecked` validates each (block, filter) pair
against the headers committed NOW before it enters the cache.  `readAheadNaive`
is the shape of an unvalidated optimisation: the stored filters of the asked
blocks come back with the missing ones left out and are paired with the asked
blocks by position. -/

def goodB (hs : Hashing) (fhs : List Nat) (blk fid : Nat) : Bool :=
  decide (1 ≤ blk) && decide (blk < fhs.length) && (hs.hdr fid (fhs.getD (blk - 1) 0) == fhs.getD blk 0)

def cachePut (st : Store) (k v z : Nat) : Store := { st with cache := (st.cache.step (.put k v z)).1 }

def cacheFillChecked (hs : Hashing) (fhs : List Nat) : Store → List (Nat × Nat × Nat) → Store
  | st, [] => st
  | st, (k, v, z) :: rest =>
    cacheFillChecked hs fhs (if goodB hs fhs k v then cachePut st k v z else st) rest

def cacheFillUnchecked : Store → List (Nat × Nat × Nat) → Store
  | st, [] => st
  | st, (k, v, z) :: rest => cacheFillUnchecked (cachePut st k v z) rest

/-- the stored filters of the asked blocks, "blocks for which no filter is stored are left out" -/
def fetchPresent (db : List (Nat × Nat)) (ks : List Nat) : List Nat := ks.filterMap (lookup db)

def readAheadNaive (st : Store) (ks : List Nat) : Store :=
  cacheFillUnchecked st ((ks.zip (fetchPresent st.db ks)).map (fun p => (p.1, p.2, 1)))

/-- the same with every pair validated before it enters the cache -/
def readAheadChecked (hs : Hashing) (fhs : List Nat) (st : Store) (ks : List Nat) : Store :=
  cacheFillChecked hs fhs st ((ks.zip (fetchPresent st.db ks)).map (fun p => (p.1, p.2, 1)))

inductive Op where
  | get (c : Call)
  /-- a call during which concurrent writers commit `ws` right after its database read transaction -/
  | getW (c : Call) (ws : List (Nat × Nat))
  /-- the filter headers from height `h` on are rolled back and committed anew
  (reorg back and forth, `AssertFilterHeader` reset + resync, …) -/
  | recommit (h : Nat) (newfhs : List Nat)
  /-- restart: the memory cache is lost, the database is kept -/
  | restart
deriving Repr

def step (hs : Hashing) (s : State) : Op → State
  | .get c => (getCFilter hs s c).st
  | .getW c ws => (getCFilterW true id hs s c ws).st
  | .recommit h nf => { s with chain := { s.chain with fhs := s.chain.fhs.take h ++ nf } }
  | .restart => { s with store := { s.store with cache := { cap := s.store.cache.cap } } }

def run (hs : Hashing) (s : State) : List Op → State
  | [] => s
  | o :: os => run hs (step hs s o) os

def init (cap tip : Nat) (fhs : List Nat) (persist : Bool) : State :=
  { chain := { tip := tip, fhs := fhs }, store := { cache := { cap := cap }, persist := persist } }

/-! ## The header source of the verification as a store operation

`prepareCFiltersQuery` takes the headers a response is verified against from the filter-header
store's range read (`FetchHeaderAncestors`) and from nowhere else.  The store is the file (headers by
height) plus whatever the implementation keeps in memory of earlier range reads (`mem`: height ↦ header;
empty in the code as it is).  `truncOld` selects which height a roll back passes on to that memory: the
tip after the roll back (`false`) or the tip before it (`true`). -/

structure FHStore where
  file : List Nat
  mem : List (Nat × Nat) := []
  deriving Repr, DecidableEq

inductive FHOp where
  | write (hs : List Nat)
  | rollback
  | readRange (lo n : Nat)
  deriving Repr, DecidableEq

/-- per-height read: `FetchHeaderByHeight` -/
def FHStore.at? (s : FHStore) (h : Nat) : Option Nat := s.file[h]?

/-- range read: `FetchHeaderAncestors` for the heights `lo, …, lo+n-1`; served from memory if all of them
are held there, from the file otherwise (and then remembered) -/
def FHStore.readRange (s : FHStore) (lo n : Nat) : FHStore × List (Option Nat) :=
  let hsx := List.range' lo n
  if hsx.all (fun h => (lookup s.mem h).isSome) then (s, hsx.map (lookup s.mem))
  else ({ s with mem := hsx.filterMap (fun h => (s.file[h]?).map (fun v => (h, v))) }, hsx.map (fun h => s.file[h]?))

def fhStep (truncOld : Bool) (s : FHStore) : FHOp → FHStore
  | .write hs => { s with file := s.file ++ hs }
  | .rollback =>
    if s.file.length ≤ 1 then s
    else
      let newTip := s.file.length - 2
      let t := if truncOld then newTip + 1 else newTip
      { file := s.file.dropLast, mem := s.mem.filter (fun p => decide (p.1 ≤ t)) }
  | .readRange lo n => (s.readRange lo n).1

def fhRun (truncOld : Bool) (s : FHStore) : List FHOp → FHStore
  | [] => s
  | o :: os => fhRun truncOld (fhStep truncOld s o) os

/-! ## Several filter stores (one per set of chain parameters) in one process

`filterdb.New` writes the basic filter of the genesis block of ITS network under that network's genesis
hash.  `memo`: what a process-wide table shared by the stores would hold (key ↦ filter); `keyOf` is what
such a table is keyed by (the code as it is has no such table: `keyOf = id`, one entry per network). -/

structure Stores where
  dbs : List (Nat × Nat) := []     -- network ↦ filter stored under its genesis hash
  memo : List (Nat × Nat) := []
  deriving Repr, DecidableEq

def openStore (gen keyOf : Nat → Nat) (s : Stores) (net : Nat) : Stores :=
  match lookup s.memo (keyOf net) with
  | some f => { s with dbs := dbPut s.dbs net f }
  | none => { dbs := dbPut s.dbs net (gen net), memo := (keyOf net, gen net) :: s.memo }

def openAll (gen keyOf : Nat → Nat) (s : Stores) : List Nat → Stores
  | [] => s
  | n :: ns => openAll gen keyOf (openStore gen keyOf s n) ns

/-- `GetCFilter(genesis hash)` of network `net`: answered from that network's database -/
def genesisGet (s : Stores) (net : Nat) : Option Nat := lookup s.dbs net

end Neutrino.GetCFilter
