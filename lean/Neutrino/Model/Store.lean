import Neutrino.Gen.Store
/-
Model of headerfs: the block-header store and the filter-header store over
their two flat files and the shared bbolt index (headerfs/store.go, file.go,
index.go), at the granularity of *durable steps* — file write (which a crash
or an I/O fault may cut short at any byte), file truncate, index commit — so
that I/O faults and crashes can be injected at every step.  Core Lean only.

Entries are identified by small naturals (block ids / filter-header ids: the
harness interns hashes); double-SHA256 is taken to be injective.
-/
namespace Neutrino.Store

/-- A flat file: whole entries, then `junk` bytes of an incomplete entry.
`corrupt` is set if an entry was ever appended after junk (everything behind
it is then stored at a shifted offset). -/
structure FileSt where
  ents    : List Nat
  junk    : Nat := 0
  corrupt : Bool := false
deriving Repr, DecidableEq

/-- The bbolt index: block id ↦ height, and the two tip keys (both name a
*block* id; the filter store's tip height is looked up through the block
entries). -/
structure Db where
  idx  : List (Nat × Nat) := []
  btip : Option Nat := none
  ftip : Option Nat := none
deriving Repr, DecidableEq

structure Durable where
  bf : FileSt
  ff : FileSt
  db : Db
deriving Repr, DecidableEq

inductive Which | B | F
deriving Repr, DecidableEq

/-- entry sizes, regenerated from headerfs/index.go on every run -/
def width : Which → Nat
  | .B => Gen.Store.blockHeaderSize
  | .F => Gen.Store.regularFilterHeaderSize

def Durable.file (d : Durable) : Which → FileSt
  | .B => d.bf
  | .F => d.ff

def Durable.setFile (d : Durable) (w : Which) (f : FileSt) : Durable :=
  match w with
  | .B => { d with bf := f }
  | .F => { d with ff := f }

def FileSt.size (f : FileSt) (w : Nat) : Nat := f.ents.length * w + f.junk

/-- the first `t` bytes of the serialisation of `ids` reach the file -/
def FileSt.appendBytes (f : FileSt) (w : Nat) (ids : List Nat) (t : Nat) : FileSt :=
  let whole := min (t / w) ids.length
  let rest := if whole < ids.length then t % w else 0
  if f.junk = 0 then
    { f with ents := f.ents ++ ids.take whole, junk := rest }
  else if whole = 0 then
    { f with junk := f.junk + rest }     -- more junk (never ≥ w in reachable states)
  else
    { f with ents := f.ents ++ ids.take whole, junk := rest, corrupt := true }

def FileSt.appendAll (f : FileSt) (w : Nat) (ids : List Nat) : FileSt :=
  f.appendBytes w ids (ids.length * w)

/-- `Truncate(newSize)` with `newSize = size - k*w`; `none` = EINVAL (negative). -/
def FileSt.truncateBy (f : FileSt) (w : Nat) (k : Nat) : Option FileSt :=
  if k * w > f.size w then none
  else if k ≤ f.ents.length then some { f with ents := f.ents.take (f.ents.length - k) }
  else none   -- would cut into more entries than there are whole ones (only with junk ≥ w; unreachable)

def FileSt.get? (f : FileSt) (i : Nat) : Option Nat :=
  if f.corrupt then none else f.ents[i]?

def Db.height? (db : Db) (id : Nat) : Option Nat :=
  (db.idx.find? (·.1 == id)).map (·.2)

def Db.put (db : Db) (id h : Nat) : Db :=
  { db with idx := (id, h) :: db.idx.filter (fun p => !(p.1 == id)) }

def Db.del (db : Db) (id : Nat) : Db :=
  { db with idx := db.idx.filter (fun p => !(p.1 == id)) }

/-- `addHeaders`: one entry per header; the tip becomes the entry of greatest
height (ties: the later one in hash order — here: the last of the batch, the
caller contract makes heights strictly increasing). -/
def Db.addHeaders (db : Db) (ids : List Nat) (start : Nat) : Db :=
  let rec go (db : Db) : List Nat → Nat → Db
    | [], _ => db
    | id :: rest, h => go (db.put id h) rest (h + 1)
  let db' := go db ids start
  { db' with btip := ids.getLast?.orElse (fun _ => db.btip) }

def Db.delAll (db : Db) : List Nat → Db
  | [] => db
  | id :: rest => (db.del id).delAll rest

/-! ### Fault and crash injection -/

inductive FaultKind | shortwrite | writeerr | truncerr | dberr
deriving Repr, DecidableEq

inductive Inj
  | none
  | fault (k : FaultKind) (step arg : Nat)
  | crash (step torn : Nat)
deriving Repr, DecidableEq

structure Ctx where
  d    : Durable
  step : Nat := 0
  inj  : Inj := .none
deriving Repr

/-- result of running code that may be cut by a crash -/
inductive R (α : Type)
  | ok (a : α) (c : Ctx)
  | crashed (d : Durable)

def R.bind {α β} (r : R α) (f : α → Ctx → R β) : R β :=
  match r with
  | .ok a c => f a c
  | .crashed d => .crashed d

/-- `File.Write(bytes of ids)`: returns `none` on success, `some n` = error after `n` bytes. -/
def fileWrite (w : Which) (ids : List Nat) (c : Ctx) : R (Option Nat) :=
  let s := c.step
  let c1 := { c with step := s + 1 }
  let f := c.d.file w
  let len := ids.length * width w
  match c.inj with
  | .crash cs torn =>
    if cs = s then .crashed (c.d.setFile w (f.appendBytes (width w) ids (min torn len)))
    else .ok none { c1 with d := c.d.setFile w (f.appendAll (width w) ids) }
  | .fault .shortwrite fs arg =>
    if fs = s then
      let t := if arg ≥ len then len - 1 else arg
      .ok (some t) { c1 with d := c.d.setFile w (f.appendBytes (width w) ids t) }
    else .ok none { c1 with d := c.d.setFile w (f.appendAll (width w) ids) }
  | .fault .writeerr fs _ =>
    if fs = s then .ok (some 0) c1
    else .ok none { c1 with d := c.d.setFile w (f.appendAll (width w) ids) }
  | _ => .ok none { c1 with d := c.d.setFile w (f.appendAll (width w) ids) }

/-- `File.Truncate` to the given state (`none` = the OS rejects the size);
returns `true` on success. -/
def fileTruncate (w : Which) (target : Option FileSt) (c : Ctx) : R Bool :=
  let s := c.step
  let c1 := { c with step := s + 1 }
  match c.inj with
  | .crash cs _ => if cs = s then .crashed c.d else
      match target with
      | some f => .ok true { c1 with d := c.d.setFile w f }
      | none => .ok false c1
  | .fault .truncerr fs _ =>
    if fs = s then .ok false c1 else
      match target with
      | some f => .ok true { c1 with d := c.d.setFile w f }
      | none => .ok false c1
  | _ =>
    match target with
    | some f => .ok true { c1 with d := c.d.setFile w f }
    | none => .ok false c1

/-- `walletdb.Update`: atomic and durable on return; returns `true` on success. -/
def dbUpdate (g : Db → Db) (c : Ctx) : R Bool :=
  let s := c.step
  let c1 := { c with step := s + 1 }
  match c.inj with
  | .crash cs _ => if cs = s then .crashed c.d else .ok true { c1 with d := { c.d with db := g c.d.db } }
  | .fault .dberr fs _ => if fs = s then .ok false c1 else .ok true { c1 with d := { c.d with db := g c.d.db } }
  | _ => .ok true { c1 with d := { c.d with db := g c.d.db } }

/-- `appendRaw` (after the repair: a short write is reverted to the end of the
file as it was before the write). -/
def appendRaw (w : Which) (ids : List Nat) (c : Ctx) : R Bool :=
  let before := c.d.file w
  (fileWrite w ids c).bind fun r c =>
    match r with
    | none => .ok true c
    | some n =>
      if n > 0 then (fileTruncate w (some before) c).bind fun _ c => .ok false c
      else .ok false c

/-- `truncateHeaders(n)` -/
def truncateHeaders (w : Which) (n : Nat) (c : Ctx) : R Bool :=
  if n = 0 then .ok true c
  else fileTruncate w ((c.d.file w).truncateBy (width w) n) c

inductive Out
  | ok
  | err
  | okTip (height : Nat) (id : Nat)   -- rollback result
  | okNone                            -- RollbackBlockHeaders(0)
  | crashed
deriving Repr, DecidableEq

/-- `blockHeaderStore.WriteHeaders` -/
def writeBlocks (ids : List Nat) (start : Nat) (c : Ctx) : R Out :=
  (appendRaw .B ids c).bind fun ok c =>
    if !ok then .ok .err c
    else if ids.isEmpty then .ok .ok c          -- addHeaders returns early on an empty batch
    else (dbUpdate (fun db => db.addHeaders ids start) c).bind fun ok c =>
      if ok then .ok .ok c
      else (truncateHeaders .B ids.length c).bind fun _ c => .ok .err c

/-- `filterHeaderStore.WriteHeaders`; `lastBlock` = block id of the last entry -/
def writeFilters (fids : List Nat) (lastBlock : Nat) (c : Ctx) : R Out :=
  if fids.isEmpty then .ok .ok c else
  (appendRaw .F fids c).bind fun ok c =>
    if !ok then .ok .err c
    else (dbUpdate (fun db => { db with ftip := some lastBlock }) c).bind fun ok c =>
      if ok then .ok .ok c
      else (truncateHeaders .F fids.length c).bind fun _ c => .ok .err c

def btipHeight? (d : Durable) : Option (Nat × Nat) :=
  match d.db.btip with
  | none => none
  | some id => (d.db.height? id).map (fun h => (id, h))

def ftipHeight? (d : Durable) : Option (Nat × Nat) :=
  match d.db.ftip with
  | none => none
  | some id => (d.db.height? id).map (fun h => (id, h))

/-- entries `lo..hi` (inclusive) of a file, `none` if any is unreadable -/
def readRange (f : FileSt) (lo hi : Nat) : Option (List Nat) :=
  if f.corrupt then none
  else if hi < f.ents.length ∧ lo ≤ hi then some ((f.ents.drop lo).take (hi - lo + 1)) else none

/-- `RollbackBlockHeaders(n)` (after the repair: index first, then file). -/
def rollbackBlocks (n : Nat) (c : Ctx) : R Out :=
  if n = 0 then .ok .okNone c else
  match btipHeight? c.d with
  | none => .ok .err c
  | some (_, tipH) =>
    if n > tipH then .ok .err c else
    match readRange c.d.bf (tipH - n) tipH with
    | none => .ok .err c
    | some hs =>
      match hs with
      | [] => .ok .err c
      | prev :: gone =>
        (dbUpdate (fun db => { db.delAll gone with btip := some prev }) c).bind fun ok c =>
          if !ok then .ok .err c
          else (truncateHeaders .B n c).bind fun ok c =>
            if ok then .ok (.okTip (tipH - n) prev) c else .ok .err c

/-- `filterHeaderStore.RollbackLastBlock(newTip)` (after the repair). -/
def rollbackFilter (newTip : Nat) (c : Ctx) : R Out :=
  match ftipHeight? c.d with
  | none => .ok .err c
  | some (_, tipH) =>
    if tipH = 0 then .ok .err c      -- uint32 underflow: the read of height 2^32-1 fails
    else
    match c.d.ff.get? (tipH - 1) with
    | none => .ok .err c
    | some fh =>
      (dbUpdate (fun db => { db with ftip := some newTip }) c).bind fun ok c =>
        if !ok then .ok .err c
        else (truncateHeaders .F 1 c).bind fun ok c =>
          if ok then .ok (.okTip (tipH - 1) fh) c else .ok .err c

/-- the block id stored before `id` (its `PrevBlock`): the harness's chains are
linear per store content, so this is the entry one height below -/
def prevOf (d : Durable) (h : Nat) : Option Nat := if h = 0 then none else d.bf.get? (h - 1)

/-- `blockManager.rollBackToHeight`'s sequence of store calls. -/
def rollTo (target : Nat) : Nat → Ctx → Nat → Nat → R Out
  | 0, c, _, _ => .ok .ok c
  | fuel + 1, c, bsH, regH =>
    if bsH ≤ target then .ok .ok c else
    -- FetchHeader(bs.Hash): needs the index entry and the file entry
    match c.d.bf.get? bsH, prevOf c.d bsH with
    | some _, some newTip =>
      let afterFilter : R (Option Nat) :=
        if bsH ≤ regH then
          (rollbackFilter newTip c).bind fun o c =>
            match o with
            | .okTip h _ => .ok (some h) c
            | _ => .ok none c
        else .ok (some regH) c
      afterFilter.bind fun r c =>
        match r with
        | none => .ok .err c
        | some regH' =>
          (rollbackBlocks 1 c).bind fun o c =>
            match o with
            | .okTip h _ => rollTo target fuel c h regH'
            | _ => .ok .err c
    | _, _ => .ok .err c

/-- has the index recorded a tip for this store yet (`hasChainTip`) -/
def Db.hasTip (db : Db) : Which → Bool
  | .B => db.btip.isSome
  | .F => db.ftip.isSome

/-- start-up reconciliation of one store (after the repairs: trim first, then
start an interrupted first initialisation over).  `none` = the constructor fails. -/
def openStore (w : Which) (d : Durable) : Option Durable :=
  let f := d.file w
  let f := { f with junk := 0 }                       -- trimPartialHeader
  -- resetInterruptedInit: nothing but the initial entry in the file and no tip in the index
  let f := if f.ents.length = 1 ∧ d.db.hasTip w = false then { f with ents := [] } else f
  let d := d.setFile w f
  if f.corrupt then none else
  match f.ents.getLast? with
  | none =>
    -- first-time initialisation: the file is empty, the genesis entry is written (file, then index)
    match w with
    | .B => some { d with bf := { ents := [0] }, db := d.db.addHeaders [0] 0 }
    | .F => some { d with ff := { ents := [0] }, db := { d.db with ftip := some 0 } }
  | some latest =>
    let tip := match w with | .B => btipHeight? d | .F => ftipHeight? d
    match tip with
    | none => none
    | some (tipId, tipH) =>
      let fileH := f.ents.length - 1
      if w = .B ∧ latest = tipId then some d
      else if tipH > fileH then none                  -- uint32 underflow ⇒ negative size ⇒ EINVAL
      else
        match f.truncateBy (width w) (fileH - tipH) with
        | none => none
        | some f' => some (d.setFile w f')

def reopen (d : Durable) : Option Durable :=
  (openStore .B d).bind (openStore .F)

/-- The same constructor, step by step: every durable step it takes (the
index's own start-up transaction, the trim of a partial entry, the reset of an
interrupted first initialisation, the genesis write and its index transaction,
the reconciling truncate) is a point at which the process can die, a file
write at every torn length.  The result is `true` iff the constructor succeeds.
`reopenR_quiet` (Lemmas/StoreStartup) ties it to `openStore`. -/
def stageIndex (c : Ctx) : R Bool := dbUpdate id c   -- newHeaderIndex: buckets (nothing the model tracks)

def stageTrim (w : Which) (c : Ctx) : R Bool :=          -- trimPartialHeader
  if (c.d.file w).junk = 0 then R.ok true c
  else fileTruncate w (some { c.d.file w with junk := 0 }) c

def stageReset (w : Which) (c : Ctx) : R Bool :=         -- resetInterruptedInit
  if (c.d.file w).ents.length = 1 ∧ c.d.db.hasTip w = false
  then fileTruncate w (some { c.d.file w with ents := [] }) c else R.ok true c

def stageSync (w : Which) (c : Ctx) : R Bool :=
  let f := c.d.file w
  if f.corrupt then .ok false c else
  match f.ents.getLast? with
  | none =>
    (match w with
     | .B => writeBlocks [0] 0 c
     | .F => writeFilters [0] 0 c).bind fun o c => R.ok (o == Out.ok) c
  | some latest =>
    match (match w with | .B => btipHeight? c.d | .F => ftipHeight? c.d) with
    | none => .ok false c
    | some (tipId, tipH) =>
      let fileH := f.ents.length - 1
      if w = .B ∧ latest = tipId then .ok true c
      else if tipH > fileH then .ok false c
      else truncateHeaders w (fileH - tipH) c

/-- run `next` if the stage before it succeeded -/
def R.andThen (r : R Bool) (next : Ctx → R Bool) : R Bool :=
  r.bind fun ok c => if ok then next c else .ok false c

def openStoreR (w : Which) (c : Ctx) : R Bool :=
  (((stageIndex c).andThen (stageTrim w)).andThen (stageReset w)).andThen (stageSync w)

def reopenR (c : Ctx) : R Bool := (openStoreR .B c).andThen (openStoreR .F)

inductive Op
  | wb (ids : List Nat)
  | wf (fids : List Nat)
  | rb (n : Nat)
  | rf
  | rollto (h : Nat)
  | reopen
deriving Repr, DecidableEq

/-- what the caller (or the restarted process) sees -/
def R.fin : R Out → Durable × Out
  | .ok o c => (c.d, o)
  | .crashed d => (d, .crashed)

/-- Run one operation under an injection.  Heights and ids that the real
callers derive from reads (tip height, the block ids a filter batch is for,
the new filter tip) are derived here the same way. -/
def exec (d : Durable) (op : Op) (inj : Inj) : Durable × Out :=
  let c : Ctx := { d := d, inj := inj }
  match op with
  | .wb ids =>
    match btipHeight? d with
    | none => (d, .err)
    | some (_, tipH) => R.fin (writeBlocks ids (tipH + 1) c)
  | .wf fids =>
    match ftipHeight? d with
    | none => (d, .err)
    | some (_, ftipH) =>
      if fids.isEmpty then R.fin (writeFilters fids 0 c) else
      match d.bf.get? (ftipH + fids.length) with
      | none => (d, .err)
      | some last => R.fin (writeFilters fids last c)
  | .rb n => R.fin (rollbackBlocks n c)
  | .rf =>
    match ftipHeight? d with
    | none => (d, .err)
    | some (_, ftipH) =>
      if ftipH = 0 then (d, .err) else
      match d.bf.get? (ftipH - 1) with
      | none => (d, .err)
      | some nt => R.fin (rollbackFilter nt c)
  | .rollto h =>
    match btipHeight? d, ftipHeight? d with
    | some (_, tipH), some (_, ftipH) => R.fin (rollTo h (tipH + 1) c tipH ftipH)
    | _, _ => (d, .err)
  | .reopen =>
    match inj with
    | .crash _ _ =>
      -- a start that is itself killed
      match reopenR c with
      | .crashed d' => (d', .crashed)
      | .ok true c' => (c'.d, .ok)
      | .ok false c' => (c'.d, .err)
    | _ =>
      match reopen d with
      | some d' => (d', .ok)
      | none => (d, .err)

/-- an empty data directory -/
def empty : Durable := { bf := { ents := [] }, ff := { ents := [] }, db := {} }

/-- the state right after first-time initialisation -/
def init : Durable :=
  { bf := { ents := [0] }, ff := { ents := [0] },
    db := { idx := [(0, 0)], btip := some 0, ftip := some 0 } }

/-! ### The index write of one batch as SEVERAL transactions

`addHeaders` writes a batch and its new tip in one `walletdb.Update` (source
fact `Gen.Store.indexAddOneTransaction`); `writeBlocks` above models exactly
that.  Here is the same append with the index write cut into any number of
transactions — `N` transactions are `N` durable steps, each a point where a
commit can fail or the process can die — so that what the single transaction
is needed for can be stated: the entries of the chunks that committed stay
behind when a later one fails, whichever transaction moves the tip. -/

def Db.putAll (db : Db) : List (Nat × Nat) → Db
  | [] => db
  | (id, h) :: rest => (db.put id h).putAll rest

/-- heights `start, start+1, …` stamped on the batch -/
def stamped : List Nat → Nat → List (Nat × Nat)
  | [], _ => []
  | id :: rest, h => (id, h) :: stamped rest (h + 1)

/-- the transactions of one index write, in order; the LAST one also moves the
tip (the arrangement under which no tip ever names a missing entry) -/
def indexTxs (tip : Option Nat) : List (List (Nat × Nat)) → Ctx → R Bool
  | [], c => .ok true c
  | [last], c => dbUpdate (fun db => { db.putAll last with btip := tip.orElse (fun _ => db.btip) }) c
  | ch :: rest, c =>
    (dbUpdate (fun db => db.putAll ch) c).bind fun ok c =>
      if ok then indexTxs tip rest c else .ok false c

/-- `blockHeaderStore.WriteHeaders` over an index that writes the batch as the
transactions `chunks` (a split of `stamped ids start`) -/
def writeBlocksSplit (ids : List Nat) (chunks : List (List (Nat × Nat))) (c : Ctx) : R Out :=
  (appendRaw .B ids c).bind fun ok c =>
    if !ok then .ok .err c
    else if ids.isEmpty then .ok .ok c
    else (indexTxs ids.getLast? chunks c).bind fun ok c =>
      if ok then .ok .ok c
      else (truncateHeaders .B ids.length c).bind fun _ c => .ok .err c

end Neutrino.Store
