/-
The registration handshake of blockntfns/manager.go seen from the handler goroutine:
one caller of `NewSubscription`, the handler, the reply channel (`errChan`, capacity `cap`)
and the manager's quit channel.  Core Lean only.

  caller                                   handler (`subscriptionHandler`)
  ------                                   -------
  select { newSubscriptions <- sub         select { msg := <-newSubscriptions:
         | <-quit: return stopped }                     (lookup, backlog pushes, map insert)
  select { err := <-sub.errChan                         msg.errChan <- err        -- plain send
         | <-quit: return stopped }                   | <-quit: return }

`Model/Subs.lean` treats the registration as ONE atomic handler step (`subscribe`); this
model opens that step up to answer the question the atomic step cannot ask: can the
handler get stuck on the caller?  Every scheduling choice is an event, disabled events are
no-ops, so "for every interleaving" is "for every `List Ev`".
-/
namespace Neutrino.Subs.Reg

/-- where the handler goroutine is -/
inductive HPos where
  | idle      -- in its select
  | lookup    -- has taken the request: backlog lookup, pushes, map insert
  | reply     -- about to execute `msg.errChan <- err`
  | blocked   -- parked in that send for ever: the buffer is full and nobody will receive
  | exited    -- left through `<-m.quit`
deriving DecidableEq, Repr

/-- where the caller of `NewSubscription` is -/
inductive CPos where
  | sending   -- in the first select
  | waiting   -- in the second select
  | answered  -- received the handler's reply
  | gaveUp    -- left through `<-m.quit` (ErrSubscriptionManagerStopped)
deriving DecidableEq, Repr

structure St where
  h    : HPos := .idle
  c    : CPos := .sending
  buf  : Nat := 0          -- replies sitting in errChan's buffer
  quit : Bool := false     -- `Stop` has closed m.quit
deriving DecidableEq, Repr

inductive Ev where
  | take          -- the handler receives the request (rendezvous on the unbuffered newSubscriptions)
  | lookupDone    -- handleNewSubscription returns
  | reply         -- the handler executes the reply send
  | clientRecv    -- the caller takes the reply out of the buffer
  | clientGiveUp  -- the caller leaves through the closed quit channel
  | quitClose     -- Stop closes m.quit
  | handlerExit   -- the handler, in its select, takes the quit case
deriving DecidableEq, Repr

/-- the caller's events -/
def Ev.ofClient : Ev → Bool
  | .clientRecv => true
  | .clientGiveUp => true
  | _ => false

def step (cap : Nat) (s : St) : Ev → St
  | .take =>
    match s.h, s.c with
    | .idle, .sending => { s with h := .lookup, c := .waiting }
    | _, _ => s
  | .lookupDone =>
    match s.h with
    | .lookup => { s with h := .reply }
    | _ => s
  | .reply =>
    match s.h with
    | .reply =>
      if s.buf < cap then { s with h := .idle, buf := s.buf + 1 }
      else match s.c with
        | .waiting => { s with h := .idle, c := .answered }     -- direct hand-over to the waiting caller
        | _ => { s with h := .blocked }
    | _ => s
  | .clientRecv =>
    match s.c, s.buf with
    | .waiting, b + 1 => { s with c := .answered, buf := b }
    | _, _ => s
  | .clientGiveUp =>
    if s.quit then
      match s.c with
      | .sending => { s with c := .gaveUp }
      | .waiting => { s with c := .gaveUp }
      | _ => s
    else s
  | .quitClose => { s with quit := true }
  | .handlerExit =>
    match s.h with
    | .idle => if s.quit then { s with h := .exited } else s
    | _ => s

def run (cap : Nat) (s : St) : List Ev → St
  | [] => s
  | e :: es => run cap (step cap s e) es

def init : St := {}

/-- `Stop` returns (its `wg.Wait()` ends) iff the handler has exited -/
def stopReturns (s : St) : Bool := s.h == .exited

end Neutrino.Subs.Reg
