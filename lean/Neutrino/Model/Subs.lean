/-
Model of blockntfns/manager.go (`SubscriptionManager`): the handler goroutine
(`subscriptionHandler`: register-with-backlog, cancel, fan-out), per subscriber
the unbounded `queue.ConcurrentQueue`, the forwarder goroutine that moves items
from the queue into the subscriber's outgoing channel (`ntfnChan`, capacity
`chanCap` = `Gen.Subs.ntfnChanCap`), the consumer, and `Stop`.  Core Lean only.

Every scheduling choice is an explicit event, so "for every interleaving" is
"for every `List Ev`":

  `subscribe id h bl`  NewSubscription(h) is handled by the handler goroutine;
                       `bl` is what `NotificationsSinceHeight(h)` returned.  The
                       whole backlog is pushed into the new client's queue and
                       only then is the client inserted into `m.subscribers`
                       (one handler step: nothing else touches the map).
                       The lookup itself runs inside this handler step
                       (`Gen.Subs.backlogLookupCallers`): while it is in
                       progress the handler takes nothing from the source, so a
                       notification emitted meanwhile is an `emit` BEFORE this
                       event whose `handlerFanout` comes AFTER it — it reaches
                       the new client after its backlog.
  `subscribeFail id h` the same call when `NotificationsSinceHeight` fails.
  `emit n`             the source makes `n` available on `Notifications()`.
  `handlerFanout`      the handler takes the oldest available notification and
                       pushes it into the queue of every client in the map.
  `forward id`         id's forwarder moves the head of the queue into the
                       channel (enabled iff forwarder alive, queue non-empty,
                       channel not full).
  `consume id`         the client receives from its channel (an item, `closed`,
                       or nothing available).
  `cancel id`          the handler handles id's cancel request: delete from the
                       map, then `cancel()` = stop queue, close quit, wait for
                       the forwarder to exit, close the channel (sync.Once).
                       Items still in the queue stay there for ever.
  `stop`               `Stop()`: handler exits, then `cancel()` on every client
                       still in the map.

Ghost fields (`backlog`, `since`, `delivered`, `regAt`, `fanned`) record history
and do not influence behaviour.

Granularity: `cancel`/`stop` are atomic.  In the Go, between the client's call
and the forwarder's exit the forwarder may still move a few items into the
channel; those moves are `forward` events placed before the `cancel`/`stop`
event, so the atomic events lose no behaviour.  A fan-out is atomic: the handler
is the only writer of the queues and forwarders only take queue heads, so the
per-client pushes commute with every other event.  Not modelled: notifications
that the source emits *while `Stop()` is executing* (between `close(m.quit)`
and the handler's exit each client may or may not get them).
-/
import Neutrino.Gen.Subs
namespace Neutrino.Subs

/-- a block notification: `serial` identifies the Go object, the rest is its content -/
structure Ntfn where
  serial    : Nat
  connected : Bool
  height    : Nat
deriving DecidableEq, Repr, Inhabited

/-- capacity of a subscriber's outgoing channel (regenerated from the source) -/
def chanCap : Nat := Gen.Subs.ntfnChanCap

structure Sub where
  height    : Nat                 -- bestHeight given at registration
  regAt     : Nat                 -- ghost: number of notifications fanned out before registration
  backlog   : List Ntfn           -- ghost: what NotificationsSinceHeight returned
  since     : List Ntfn := []     -- ghost: notifications pushed to this client by fan-outs
  queue     : List Ntfn           -- ConcurrentQueue contents, oldest first
  chan      : List Ntfn := []     -- ntfnChan buffer, oldest first
  delivered : List Ntfn := []     -- ghost: what the consumer has received, oldest first
  live      : Bool := true        -- present in m.subscribers
  closed    : Bool := false       -- cancel() ran: forwarder exited, ntfnChan closed
  sawClosed : Bool := false       -- the consumer has observed the close
deriving DecidableEq, Repr

structure State where
  subs    : Nat → Option Sub := fun _ => none
  src     : List Ntfn := []       -- emitted by the source, not yet taken by the handler
  fanned  : List Ntfn := []       -- ghost: everything the handler has fanned out, in order
  stopped : Bool := false

inductive Ev where
  | subscribe (id height : Nat) (backlog : List Ntfn)
  | subscribeFail (id height : Nat)
  | emit (n : Ntfn)
  | handlerFanout
  | forward (id : Nat)
  | consume (id : Nat)
  | cancel (id : Nat)
  | stop
deriving Repr, DecidableEq

inductive Out where
  | ok                  -- subscribe registered / fan-out done
  | err                 -- subscribe: backlog retrieval failed
  | stopped             -- subscribe: ErrSubscriptionManagerStopped
  | invalid             -- event names an id that is not usable here (no state change)
  | idle                -- fan-out: nothing to do (nothing emitted, or handler gone)
  | item (n : Ntfn)     -- consume: received n
  | empty               -- consume: nothing available, channel open
  | closed              -- consume: channel closed and drained
  | unit
deriving Repr, DecidableEq

/-! ### per-subscriber transitions -/

/-- `notifySubscriber` for a client in the map -/
def Sub.push (n : Ntfn) (x : Sub) : Sub :=
  if x.live then { x with queue := x.queue ++ [n], since := x.since ++ [n] } else x

/-- one iteration of the forwarder goroutine -/
def Sub.forward (x : Sub) : Sub :=
  if x.closed then x else
  match x.queue with
  | [] => x
  | n :: q => if x.chan.length < chanCap then { x with queue := q, chan := x.chan ++ [n] } else x

/-- the client receives from `Subscription.Notifications` -/
def Sub.consume (x : Sub) : Sub × Out :=
  match x.chan with
  | n :: c => ({ x with chan := c, delivered := x.delivered ++ [n] }, .item n)
  | [] => if x.closed then ({ x with sawClosed := true }, .closed) else (x, .empty)

/-- `handleCancelSubscription` / the per-client part of `Stop`: only for clients in the map -/
def Sub.cancel (x : Sub) : Sub :=
  if x.live then { x with live := false, closed := true } else x

/-! ### the machine -/

def upd (f : Nat → Option Sub) (id : Nat) (g : Sub → Sub) : Nat → Option Sub :=
  fun i => if i = id then (f i).map g else f i

def mapAll (f : Nat → Option Sub) (g : Sub → Sub) : Nat → Option Sub :=
  fun i => (f i).map g

def setSub (f : Nat → Option Sub) (id : Nat) (x : Sub) : Nat → Option Sub :=
  fun i => if i = id then some x else f i

def step (s : State) : Ev → State × Out
  | .subscribe id h bl =>
    if s.stopped then (s, .stopped) else
    match s.subs id with
    | some _ => (s, .invalid)
    | none =>
      let x : Sub := { height := h, regAt := s.fanned.length, backlog := bl, queue := bl }
      ({ s with subs := setSub s.subs id x }, .ok)
  | .subscribeFail id _ =>
    if s.stopped then (s, .stopped) else
    match s.subs id with
    | some _ => (s, .invalid)
    | none => (s, .err)
  | .emit n => ({ s with src := s.src ++ [n] }, .unit)
  | .handlerFanout =>
    if s.stopped then (s, .idle) else
    match s.src with
    | [] => (s, .idle)
    | n :: rest =>
      ({ s with subs := mapAll s.subs (Sub.push n), src := rest, fanned := s.fanned ++ [n] }, .ok)
  | .forward id => ({ s with subs := upd s.subs id Sub.forward }, .unit)
  | .consume id =>
    match s.subs id with
    | none => (s, .invalid)
    | some x => ({ s with subs := setSub s.subs id x.consume.1 }, x.consume.2)
  | .cancel id =>
    if s.stopped then (s, .unit) else ({ s with subs := upd s.subs id Sub.cancel }, .unit)
  | .stop =>
    if s.stopped then (s, .unit) else
    ({ s with subs := mapAll s.subs Sub.cancel, stopped := true }, .unit)

def run (s : State) : List Ev → State
  | [] => s
  | e :: es => run (step s e).1 es

/-- outputs of a whole event sequence -/
def outs (s : State) : List Ev → List Out
  | [] => []
  | e :: es => (step s e).2 :: outs (step s e).1 es

def init : State := {}

/-- the subscriber an event belongs to (`none`: a global event) -/
def Ev.about : Ev → Option Nat
  | .subscribe id _ _ => some id
  | .subscribeFail id _ => some id
  | .forward id => some id
  | .consume id => some id
  | .cancel id => some id
  | .emit _ => none
  | .handlerFanout => none
  | .stop => none

end Neutrino.Subs
