/-
Model of query/workmanager.go `peerWorkManager.workDispatcher` (+ `Query`,
`peer_rank.go`, `workqueue.go`).  Core Lean only.

One `step` = the dispatcher goroutine taking one event.  The Go locals are kept
one for one:
  `work`      the heap of jobs ordered by `index` (here: a list kept sorted by
              `idx`; `Peek`/`Pop` = head),
  `batches`   `currentBatches`  (batch number ↦ batchProgress),
  `queries`   `currentQueries`  (job index ↦ batch number),
  `workers`   `workers`         (address ↦ activeWorker{activeJob,onExit}),
  `rank`      `peerRanking.rank`,
  `nextBatch`/`nextQuery`       `batchIndex` / `queryIndex`.
History fields (`verdicts`, `okd`, `lost`, `subs`) are ghosts: `step` never
reads them; the property theorems are stated with them.

Scheduling is explicit: the dispatcher blocks, offering the head job to a
best-ranked free worker, whenever the queue is non-empty and a free worker
exists (`offering`); in that state it can only see `accept`, that worker
exiting, or `quit`, so every other dispatcher event is *not enabled* (`ignored`).
`sort.Slice` over the map-ordered free list leaves ties in any order, so
`accept p` is enabled for every free `p` of minimal score.

"Free" is the dispatcher's bookkeeping (`activeJob == nil`), not "receiving on
its job channel": a worker that has just delivered a result needs a moment to
get back to its idle select.  The offer `select { NewJob() <- next | <-onExit |
<-quit }` has no `default`, so the dispatcher stays with the best-ranked free
worker until that worker takes the job or exits; `offerLoop` below is that loop
with what each worker does (and how long it takes) as an explicit argument, and
`accept p` is its outcome.

The ranking is keyed by address and entries are never removed
(`Gen.Dispatcher.rankRemovals = 0`): `rankRun` is the `PeerRanking` object as a
state machine of its own, driven directly as well.

A worker whose `Run` has returned stays in the Go map until the dispatch loop
next walks over it (`<-r.onExit` arm); that lazy removal is unobservable, the
model keeps an `exited` flag and never offers to such a worker.
-/
import Neutrino.Gen.Dispatcher
namespace Neutrino.Disp

inductive Err where
  | ok | timeout | disconnected | canceled | other
deriving DecidableEq, Repr

/-- what is written to a batch's result channel -/
inductive Verdict where
  | res (e : Err)          -- `.res .ok` is the nil verdict
  | shutdown               -- ErrWorkManagerShuttingDown
deriving DecidableEq, Repr

structure Job where
  idx     : Nat
  batch   : Nat            -- ghost: the batch the job was created for
  tries   : Nat
  timeout : Nat            -- seconds
deriving DecidableEq, Repr

structure Batch where
  id         : Nat
  noRetryMax : Bool
  maxRetries : Nat
  hardPassed : Bool        -- the hard deadline channel is ready
  prog       : Bool        -- progressTimeout ≠ 0
  gen        : Nat         -- progressGen
  rem        : Nat
deriving DecidableEq, Repr

structure Worker where
  addr   : Nat
  active : Option Job
  exited : Bool
deriving DecidableEq, Repr

/-- ghost record of a submitted batch: id, first job index, number of requests -/
structure Sub where
  id    : Nat
  first : Nat
  count : Nat
deriving DecidableEq, Repr

structure State where
  work      : List Job := []
  batches   : List Batch := []
  queries   : List (Nat × Nat) := []
  workers   : List Worker := []
  rank      : List (Nat × Nat) := []
  nextBatch : Nat := 0
  nextQuery : Nat := 0
  quit      : Bool := false
  verdicts  : List (Nat × Verdict) := []
  okd       : List Nat := []
  lost      : List Job := []
  subs      : List Sub := []
deriving Repr

inductive Ev where
  | newBatch (n : Nat) (noRetryMax : Bool) (maxRetries : Nat) (prog hardNow : Bool)
  | peer (p : Nat)
  | accept (p : Nat)
  | result (p : Nat) (e : Err)
  | wake (b g : Nat)
  | elapse (b : Nat)
  | exit (p : Nat)
  | quit
deriving DecidableEq, Repr

inductive Out where
  | verdict (b : Nat) (v : Verdict)
  | dispatched (p idx tries timeout : Nat)
  | resultFor (idx : Nat)
  | maxTries (p : Nat)
  | ignored
deriving DecidableEq, Repr

/-! ### work queue -/

/-- `heap.Push`: position by `idx` (indices in the queue are distinct). -/
def insertJob (j : Job) : List Job → List Job
  | [] => [j]
  | x :: xs => if j.idx < x.idx then j :: x :: xs else x :: insertJob j xs

/-- jobs `first … first+n-1` of a new batch, as `Query`'s loop creates them -/
def newJobs (b first : Nat) : Nat → List Job
  | 0 => []
  | n + 1 => ⟨first, b, 0, Gen.Dispatcher.minQueryTimeoutSec⟩ :: newJobs b (first + 1) n

def pushAll (js : List Job) (w : List Job) : List Job := js.foldl (fun w j => insertJob j w) w

/-! ### peer ranking (peer_rank.go) -/

def scoreOf (rank : List (Nat × Nat)) (p : Nat) : Nat :=
  (rank.lookup p).getD Gen.Dispatcher.defaultScore

def setScore (rank : List (Nat × Nat)) (p v : Nat) : List (Nat × Nat) :=
  (p, v) :: rank.filter (fun x => x.1 != p)

def addPeer (rank : List (Nat × Nat)) (p : Nat) : List (Nat × Nat) :=
  match rank.lookup p with
  | some _ => rank
  | none => setScore rank p Gen.Dispatcher.defaultScore

def punish (rank : List (Nat × Nat)) (p : Nat) : List (Nat × Nat) :=
  match rank.lookup p with
  | none => rank
  | some s => if s = Gen.Dispatcher.worstScore then rank else setScore rank p (s + 1)

def reward (rank : List (Nat × Nat)) (p : Nat) : List (Nat × Nat) :=
  match rank.lookup p with
  | none => rank
  | some s => if s = Gen.Dispatcher.bestScore then rank else setScore rank p (s - 1)

def resetRank (rank : List (Nat × Nat)) (p : Nat) : List (Nat × Nat) :=
  match rank.lookup p with
  | none => rank
  | some _ => setScore rank p Gen.Dispatcher.defaultScore

/-- the `PeerRanking` object as a state machine: what the work manager (or anyone) may call on it -/
inductive RankOp where
  | add (p : Nat)
  | reward (p : Nat)
  | punish (p : Nat)
  | reset (p : Nat)
deriving DecidableEq, Repr

def RankOp.addr : RankOp → Nat
  | .add p => p
  | .reward p => p
  | .punish p => p
  | .reset p => p

def rankStep (r : List (Nat × Nat)) : RankOp → List (Nat × Nat)
  | .add p => addPeer r p
  | .reward p => reward r p
  | .punish p => punish r p
  | .reset p => resetRank r p

def rankRun (r : List (Nat × Nat)) : List RankOp → List (Nat × Nat)
  | [] => r
  | o :: os => rankRun (rankStep r o) os

/-- `Order` yields some permutation of its argument with non-decreasing scores (`sort.Slice`: ties in any order) -/
def scoresAscending (r : List (Nat × Nat)) : List Nat → Bool
  | [] => true
  | [_] => true
  | a :: b :: rest => decide (scoreOf r a ≤ scoreOf r b) && scoresAscending r (b :: rest)

/-! ### maps -/

def findB (bs : List Batch) (b : Nat) : Option Batch := bs.find? (fun x => x.id == b)
def delB (bs : List Batch) (b : Nat) : List Batch := bs.filter (fun x => x.id != b)
def setRem (bs : List Batch) (b r : Nat) : List Batch :=
  bs.map (fun x => if x.id == b then { x with rem := r } else x)
def bumpGen (bs : List Batch) (b : Nat) : List Batch :=
  bs.map (fun x => if x.id == b then { x with gen := x.gen + 1 } else x)
def setHard (bs : List Batch) (b : Nat) : List Batch :=
  bs.map (fun x => if x.id == b then { x with hardPassed := true } else x)

def findW (ws : List Worker) (p : Nat) : Option Worker := ws.find? (fun w => w.addr == p)
def setW (ws : List Worker) (w : Worker) : List Worker :=
  w :: ws.filter (fun x => x.addr != w.addr)

def freeLive (s : State) : List Worker :=
  s.workers.filter (fun w => w.active.isNone && !w.exited)

/-- the dispatcher is blocked offering the head job to a worker -/
def offering (s : State) : Bool := !s.work.isEmpty && !(freeLive s).isEmpty

/-- `p` is free and no free worker has a strictly better (lower) score -/
def bestFree (s : State) (p : Nat) : Bool :=
  (freeLive s).any (fun w => w.addr == p) &&
  (freeLive s).all (fun q => decide (scoreOf s.rank p ≤ scoreOf s.rank q.addr))

/-! ### the offer loop, one worker at a time

`for _, p := range freeWorkers { select { case r.w.NewJob() <- next: …; continue Loop
                                           case <-r.onExit: delete(workers, p); continue
                                           case <-w.quit: return } }`
over the ranked list of free workers.  The select has no `default`
(`Gen.Dispatcher.jobOfferSelectsWithDefault = 0`). -/

/-- what a free worker does while the dispatcher is blocked offering it the head job -/
inductive Fate where
  | takes (after : Nat)   -- it receives the job `after` scheduling steps after the offer began: `0` = it was already
                          -- receiving on its job channel; `n+1` = free by the bookkeeping but not (yet) receiving
  | exits                 -- its `Run` returns first (`onExit` is closed)
deriving DecidableEq, Repr

/-- the worker is at its job channel at the moment the offer begins -/
def Fate.receiving : Fate → Bool
  | .takes 0 => true
  | _ => false

/-- The blocking offer loop over the ranked list: the first worker that does not exit gets the job, however long it
takes to get to its channel.  How long (`after`) is deliberately not looked at. -/
def offerLoop (fate : Nat → Fate) : List Nat → Option Nat
  | [] => none
  | p :: ps =>
    match fate p with
    | .takes _ => some p
    | .exits => offerLoop fate ps

/-- What a non-blocking first pass over the ranked list would do (the shape the property rules out): the first worker
that is receiving right now gets the job; only if none is, the blocking loop runs. -/
def offerLoopEager (fate : Nat → Fate) (l : List Nat) : Option Nat :=
  match l.find? (fun p => (fate p).receiving) with
  | some p => some p
  | none => offerLoop fate l

/-- `l` is what `Order(freeWorkers)` may hand the offer loop in state `s`: every free running worker is in it, an entry
that does not exit is a free running worker (the others are workers whose `Run` has returned and which were not
pruned yet), and scores are non-decreasing along the list. -/
structure RankedFree (s : State) (fate : Nat → Fate) (l : List Nat) : Prop where
  all    : ∀ w ∈ freeLive s, w.addr ∈ l
  live   : ∀ p ∈ l, fate p ≠ .exits → (freeLive s).any (fun w => w.addr == p) = true
  sorted : l.Pairwise (fun a b => scoreOf s.rank a ≤ scoreOf s.rank b)

/-! ### the verdict paths -/

/-- `errChan <- v; stopTimers; delete(currentBatches, b)` -/
def emit (s : State) (b : Nat) (v : Verdict) : State :=
  { s with batches := delB s.batches b, verdicts := s.verdicts ++ [(b, v)] }

/-- the tail of the result arm: hard-deadline select, then re-arm on progress -/
def hardCheck (s : State) (bn : Nat) (bp : Batch) (progressed : Bool) (outs : List Out) :
    State × List Out :=
  if bp.hardPassed then (emit s bn (.res .timeout), outs ++ [.verdict bn (.res .timeout)])
  else if progressed && bp.prog then ({ s with batches := bumpGen s.batches bn }, outs)
  else (s, outs)

def stepResult (s : State) (p : Nat) (e : Err) : State × List Out :=
  match findW s.workers p with
  | none => (s, [.ignored])
  | some w =>
    match w.active with
    | none => (s, [.ignored])
    | some job =>
      -- r.activeJob = nil; batchNum := currentQueries[idx] (zero value when absent); delete
      let bn := (s.queries.lookup job.idx).getD 0
      let s1 : State := { s with workers := setW s.workers { w with active := none },
                                 queries := s.queries.filter (fun x => x.1 != job.idx) }
      match findB s1.batches bn with
      | none => (s1, [.resultFor job.idx])
      | some bp =>
        match e with
        | .canceled =>
          (emit s1 bn (.res .canceled), [.resultFor job.idx, .verdict bn (.res .canceled)])
        | .ok =>
          let s2 : State := { s1 with rank := reward s1.rank p, okd := job.idx :: s1.okd,
                                      batches := setRem s1.batches bn (bp.rem - 1) }
          if bp.rem == 1 then
            (emit s2 bn (.res .ok), [.resultFor job.idx, .verdict bn (.res .ok)])
          else hardCheck s2 bn bp true [.resultFor job.idx]
        | err =>
          let s2 : State := { s1 with rank := if err = .disconnected then resetRank s1.rank p
                                              else punish s1.rank p }
          let tries' := if bp.noRetryMax then job.tries else job.tries + 1
          if !bp.noRetryMax && decide (tries' ≥ bp.maxRetries) then
            (emit s2 bn (.res err), [.resultFor job.idx, .verdict bn (.res err), .maxTries p])
          else
            let to' := if err = .timeout then
                         (if job.timeout * 2 > Gen.Dispatcher.maxQueryTimeoutSec
                          then Gen.Dispatcher.maxQueryTimeoutSec else job.timeout * 2)
                       else job.timeout
            let s3 : State := { s2 with
              work := insertJob { job with tries := tries', timeout := to' } s2.work,
              queries := (job.idx, bn) :: s2.queries }
            hardCheck s3 bn bp false [.resultFor job.idx]

def stepWake (s : State) (b g : Nat) : State × List Out :=
  match findB s.batches b with
  | none => (s, [])
  | some bp =>
    if g != bp.gen then (s, [])
    else (emit s b (.res .timeout), [.verdict b (.res .timeout)])

def stepNewBatch (s : State) (n : Nat) (nrm : Bool) (mr : Nat) (prog hardNow : Bool) :
    State × List Out :=
  let js := newJobs s.nextBatch s.nextQuery n
  ({ s with work := pushAll js s.work,
            queries := js.map (fun j => (j.idx, s.nextBatch)) ++ s.queries,
            batches := s.batches ++ [{ id := s.nextBatch, noRetryMax := nrm, maxRetries := mr,
                                       hardPassed := hardNow, prog := prog,
                                       gen := if prog then 1 else 0, rem := n }],
            subs := s.subs ++ [⟨s.nextBatch, s.nextQuery, n⟩],
            nextBatch := s.nextBatch + 1, nextQuery := s.nextQuery + n }, [])

def stepPeer (s : State) (p : Nat) : State × List Out :=
  let lost := match findW s.workers p with
    | some w => (match w.active with | some j => j :: s.lost | none => s.lost)
    | none => s.lost
  ({ s with workers := setW s.workers ⟨p, none, false⟩, rank := addPeer s.rank p, lost := lost }, [])

def stepAccept (s : State) (p : Nat) : State × List Out :=
  match s.work with
  | [] => (s, [.ignored])
  | job :: rest =>
    if bestFree s p then
      ({ s with work := rest, workers := setW s.workers ⟨p, some job, false⟩ },
       [.dispatched p job.idx job.tries job.timeout])
    else (s, [.ignored])

def stepExit (s : State) (p : Nat) : State × List Out :=
  match findW s.workers p with
  | none => (s, [.ignored])
  | some w => ({ s with workers := setW s.workers { w with exited := true } }, [])

def stepQuit (s : State) : State × List Out :=
  ({ s with quit := true, batches := [],
            verdicts := s.verdicts ++ s.batches.map (fun b => (b.id, Verdict.shutdown)) },
   s.batches.map (fun b => Out.verdict b.id .shutdown))

/-- `Query` after `quit` is closed writes the verdict itself. -/
def stepLate (s : State) (n : Nat) : State × List Out :=
  ({ s with verdicts := s.verdicts ++ [(s.nextBatch, .shutdown)],
            subs := s.subs ++ [⟨s.nextBatch, s.nextQuery, n⟩],
            nextBatch := s.nextBatch + 1 }, [.verdict s.nextBatch .shutdown])

def step (s : State) (e : Ev) : State × List Out :=
  if s.quit then
    match e with
    | .newBatch n _ _ _ _ => stepLate s n
    | _ => (s, [.ignored])
  else
    match e with
    | .quit => stepQuit s
    | .exit p => stepExit s p
    | .elapse b => ({ s with batches := setHard s.batches b }, [])
    | .accept p => stepAccept s p
    | .newBatch n nrm mr prog hardNow =>
      if offering s then (s, [.ignored]) else stepNewBatch s n nrm mr prog hardNow
    | .peer p => if offering s then (s, [.ignored]) else stepPeer s p
    | .result p err => if offering s then (s, [.ignored]) else stepResult s p err
    | .wake b g => if offering s then (s, [.ignored]) else stepWake s b g

def run (s : State) : List Ev → State
  | [] => s
  | e :: es => run (step s e).1 es

def outs (s : State) : List Ev → List Out
  | [] => []
  | e :: es => (step s e).2 ++ outs (step s e).1 es

def init : State := {}

/-! ### results that arrive after their worker's address was taken over

`workers` is keyed by ADDRESS.  When a peer connects under an address whose
previous worker still holds a job (the peer handler announces the new
connection while the old worker is still noticing the disconnect), `stepPeer`
overwrites the entry: the job stays in flight at a worker the bookkeeping no
longer knows (`lost`).  That worker still delivers its one result; the result
carries the job itself and the ADDRESS of its peer, so the result arm does
`workers[addr].activeJob = nil` on the entry of the address's CURRENT worker
(whatever it holds stays in flight, now unknown to the bookkeeping as well) and
then treats the carried job exactly as in `stepResult`.  `swapIn` is that
re-association, `late p idx e` the event. -/

/-- the result arm's view when the old worker of address `p` reports the lost job `idx`: the entry of `p` is made to
carry that job; what it carried before (if anything) is in flight without the bookkeeping knowing -/
def swapIn (s : State) (w : Worker) (job : Job) : State :=
  { s with workers := setW s.workers { w with active := some job },
           lost := w.active.toList ++ s.lost.filter (fun j => j.idx != job.idx) }

def stepLateResult (s : State) (p idx : Nat) (e : Err) : State × List Out :=
  match s.lost.find? (fun j => j.idx == idx) with
  | none => (s, [.ignored])
  | some job =>
    match findW s.workers p with
    | none => (s, [.ignored])        -- Go: `workers[addr]` is nil here (the entry was pruned): not driven, see DESIGN §11
    | some w => stepResult (swapIn s w job) p e

/-- dispatcher events including late results -/
inductive Ev2 where
  | base (e : Ev)
  | late (p idx : Nat) (e : Err)
deriving DecidableEq, Repr

def step2 (s : State) : Ev2 → State × List Out
  | .base e => step s e
  | .late p idx e => if s.quit || offering s then (s, [.ignored]) else stepLateResult s p idx e

def run2 (s : State) : List Ev2 → State
  | [] => s
  | e :: es => run2 (step2 s e).1 es

/-- The rejected variant (seeded regression C12g-1): the peer-connected arm pushes the overwritten worker's job back
onto the heap at once — while that worker still holds it and still owes its result. -/
def stepPeerRequeue (s : State) (p : Nat) : State × List Out :=
  match findW s.workers p with
  | some w =>
    (match w.active with
     | some j => ({ (stepPeer s p).1 with work := insertJob j (stepPeer s p).1.work }, [])
     | none => stepPeer s p)
  | none => stepPeer s p

end Neutrino.Disp
