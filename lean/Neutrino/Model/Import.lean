/-
Model of chainimport/headers_import.go (`headersImport.Import` and everything
below it), chainimport/iter.go (`ReadBatch`), chainimport/file_source.go
(`GetHeader`: index `i` of the file is height `i + startHeight`) and the block
validator's batch walk.  Core Lean only.

The two target stores are verified elsewhere (C07/C08); here each is the list of
its entries in file order (position = height for a healthy store) together with
the tip HEIGHT its index reports:
  * block store: `WriteHeaders` appends the headers and makes the tip the height
    STAMPED on the last header (`BlockHeader.Height`, not the file position);
  * filter store: `WriteHeaders` appends and makes the tip the height the shared
    index knows for `HeaderHash` of the last filter header — a block hash;
    `none` when that hash is unknown to the index (the all-zero hash that
    `processBatch` leaves on every filter-only batch except the last).
`ChainTip()` fails when the tip height has no entry in the file.

Abstract headers: `id` stands for the block hash, `prev` for `PrevBlock`, and
`valid` for btcd's `CheckBlockHeaderSanity`/`CheckBlockHeaderContext` (trusted).
Filter headers are bare ids (the importer never recomputes them; the filter
validator only consults hard-coded checkpoints, of which the test network has
none).

Heights and source indices are both `Nat` here, exactly as both are `uint32` in
the Go code: `processBatch` receives `batchStart` as a target HEIGHT and passes
it to `ReadBatch`, which expects a source INDEX.  This is transcribed as written.
-/
namespace Neutrino.Import

structure BHdr where
  id    : Nat
  prev  : Nat
  valid : Bool
deriving DecidableEq, Repr, Inhabited

structure Stores where
  blocks  : List BHdr
  btip    : Nat
  filters : List Nat
  ftip    : Option Nat
deriving DecidableEq, Repr

/-- The two import files: metadata and bodies. `bnet`/`fnet`: 0 = the target
network's magic; `btyp`/`ftyp`: 0 = the expected header type. -/
structure File where
  openOk  : Bool := true
  bnet    : Nat := 0
  fnet    : Nat := 0
  btyp    : Nat := 0
  ftyp    : Nat := 0
  bstart  : Nat
  fstart  : Nat
  blocks  : List BHdr
  filters : List Nat
deriving Repr

/-- `WriteBatchSizePerRegion` and the injected store failures: `failB = some k`
makes the k-th (0-based) non-empty `WriteHeaders` call on the block store fail. -/
structure Cfg where
  bs    : Nat
  failB : Option Nat := none
  failF : Option Nat := none
  /-- the context is cancelled, for good, from its `k`-th poll on (0-based); the
  importer polls it once per batch in each validator and once per iteration of
  the write loop -/
  cancelAt : Option Nat := none
deriving Repr

inductive Err where
  | open | net | type | start | count | tip | gap | conn | mismatch | invalid
  | read | tipmis | lenmis | bwrite | fwrite | rbfail | fuel | cancel
deriving DecidableEq, Repr

/-- stores plus the number of non-empty writes attempted and of context polls made so far -/
structure Run where
  st : Stores
  nb : Nat := 0
  nf : Nat := 0
  np : Nat := 0
deriving Repr

/-- `ctxCancelled(ctx)` at the poll with index `p` -/
def cancelled (cfg : Cfg) (p : Nat) : Bool :=
  match cfg.cancelAt with
  | some c => decide (c ≤ p)
  | none => false

/-- `BlockHeaderStore.ChainTip()`: the index's tip height, if the file has it. -/
def bChainTip (st : Stores) : Option Nat :=
  if st.btip < st.blocks.length then some st.btip else none

/-- `FilterHeaderStore.ChainTip()`. -/
def fChainTip (st : Stores) : Option Nat :=
  match st.ftip with
  | some f => if f < st.filters.length then some f else none
  | none => none

/-! ### iter.go -/

inductive RB (α : Type) where
  | eof
  | err
  | ok (l : List α)

/-- `importSourceHeaderIterator.ReadBatch(startIdx, endIdx, batchSize)` over a
file body: indices `startIdx .. min endIdx (startIdx+batchSize-1)`; `io.EOF` when
that range is empty, a read error when it leaves the file. -/
def readBatch {α : Type} (body : List α) (startIdx endIdx bs : Nat) : RB α :=
  let actualEnd := min endIdx (startIdx + bs - 1)
  if startIdx > actualEnd then .eof
  else if actualEnd < body.length then .ok ((body.drop startIdx).take (actualEnd + 1 - startIdx))
  else .err

/-! ### validation of the source -/

/-- consecutive pairs: `ValidatePair` = PrevBlock link + context + sanity of the second -/
def pairsOk : List BHdr → Bool
  | a :: b :: rest => (b.prev == a.id && b.valid) && pairsOk (b :: rest)
  | _ => true

/-- `blockHeadersImportSourceValidator.Validate` walking batches of `bs`:
every header but the first is the second element of exactly one `ValidatePair`
(inside a batch or across two); the FIRST header of the file is only ever
checked by `ValidateSingle`, and only when the first batch has length one. -/
def validateBlocks (body : List BHdr) (bs : Nat) : Bool :=
  (if min bs body.length = 1 then (body.head?.map (·.valid)).getD true else true) && pairsOk body

/-! ### continuity -/

inductive Verify where | both | blockOnly | filterOnly
deriving DecidableEq, Repr

inductive Mode where | both | blockOnly | filterOnly
deriving DecidableEq, Repr

def verifyBlockAt (F : File) (st : Stores) (h : Nat) : Bool :=
  match F.blocks[h - F.bstart]?, st.blocks[h]? with
  | some a, some b => a.id == b.id
  | _, _ => false

def verifyFilterAt (F : File) (st : Stores) (h : Nat) : Bool :=
  match F.filters[h - F.bstart]?, st.filters[h]? with
  | some a, some b => a == b
  | _, _ => false

/-- `verifyHeadersAtTargetHeight` -/
def verifyAt (F : File) (st : Stores) (v : Verify) (h : Nat) : Bool :=
  match v with
  | .both => verifyBlockAt F st h && verifyFilterAt F st h
  | .blockOnly => verifyBlockAt F st h
  | .filterOnly => verifyFilterAt F st h

/-- `validateHeaderConnection(targetStartHeight, prevTargetBlockHeight)` -/
def connects (F : File) (st : Stores) (target prevH : Nat) : Bool :=
  match st.blocks[prevH]?, F.blocks[target - F.bstart]? with
  | some p, some c => c.prev == p.id
  | _, _ => false

def endHeight (F : File) : Nat := F.bstart + F.blocks.length - 1

/-- `validateChainContinuity`: only the first and the last overlapping height
are compared with the stores. -/
def continuity (F : File) (st : Stores) : Option Err :=
  match bChainTip st, fChainTip st with
  | some b, some f =>
    let eff := min b f
    let s := F.bstart
    let e := endHeight F
    if s > eff + 1 then some .gap
    else if s > eff then (if connects F st s b then none else some .conn)
    else
      let oe := min eff e
      if !verifyAt F st .both s then some .mismatch
      else if oe > s && !verifyAt F st .both oe then some .mismatch
      else if oe < e && !connects F st (oe + 1) b then some .conn
      else none
  | _, _ => some .tip

/-! ### regions -/

structure Region where
  start  : Nat
  stop   : Nat
  «exists» : Bool
  verify : Verify
  mode   : Mode
deriving Repr

/-- `determineProcessingRegions` (+ `determineDivergenceSyncModes`) -/
def regions (F : File) (b f : Nat) : Region × Region :=
  let e := endHeight F
  let eff := min b f
  let dStart := eff + 1
  let dEnd := min (max b f) e
  let (v, m) := if b > f then (Verify.blockOnly, Mode.filterOnly)
                else if b < f then (Verify.filterOnly, Mode.blockOnly)
                else (Verify.both, Mode.both)
  ({ start := dStart, stop := dEnd, «exists» := decide (b ≠ f) && decide (dStart ≤ dEnd), verify := v, mode := m },
   { start := max b f + 1, stop := e, «exists» := decide (max b f + 1 ≤ e), verify := .both, mode := .both })

/-! ### writing -/

/-- `TargetBlockHeaderStore.WriteHeaders(l...)`; `stamp` = height stamped on the last header. -/
def writeBlocks (cfg : Cfg) (r : Run) (l : List BHdr) (stamp : Nat) : Bool × Run :=
  if l = [] then (true, r)
  else if cfg.failB = some r.nb then (false, { r with nb := r.nb + 1 })
  else (true, { r with st := { r.st with blocks := r.st.blocks ++ l, btip := stamp }, nb := r.nb + 1 })

/-- `TargetFilterHeaderStore.WriteHeaders(l...)`; `tip` = what the index resolves the last `HeaderHash` to. -/
def writeFilters (cfg : Cfg) (r : Run) (l : List Nat) (tip : Option Nat) : Bool × Run :=
  if l = [] then (true, r)
  else if cfg.failF = some r.nf then (false, { r with nf := r.nf + 1 })
  else (true, { r with st := { r.st with filters := r.st.filters ++ l, ftip := tip }, nf := r.nf + 1 })

/-- `RollbackBlockHeaders(n)` -/
def rollbackBlocks (st : Stores) (n : Nat) : Option Stores :=
  if n = 0 then some st
  else if n > st.btip || st.btip ≥ st.blocks.length then none
  else some { st with blocks := st.blocks.take (st.blocks.length - n), btip := st.btip - n }

/-- `writeHeadersToTargetStores`: block store first, then the filter store; if
the latter fails the block store is rolled back by the number of block headers
just written. -/
def writeBoth (cfg : Cfg) (r : Run) (bl : List BHdr) (stamp : Nat) (fl : List Nat) (ftip : Option Nat) :
    Option Err × Run :=
  match writeBlocks cfg r bl stamp with
  | (false, r1) => (some .bwrite, r1)
  | (true, r1) =>
    match writeFilters cfg r1 fl ftip with
    | (true, r2) => (none, r2)
    | (false, r2) =>
      match rollbackBlocks r2.st bl.length with
      | some st' => (some .fwrite, { r2 with st := st' })
      | none => (some .rbfail, r2)

inductive Step where
  | eof
  | err (e : Err) (r : Run)
  | next (batchEnd : Nat) (r : Run)

/-- `processBatch(blockIter, filterIter, batchStart, appendMode)`.  `srcEnd` is
the iterators' end INDEX, `batchStart` is a HEIGHT — and is handed to
`ReadBatch` as the start index, unchanged (headers_import.go:784 and :812). -/
def processBatch (F : File) (cfg : Cfg) (srcEnd : Nat) (mode : Mode) (batchStart : Nat) (r : Run) : Step :=
  match (if mode = .filterOnly then RB.ok [] else readBatch F.blocks batchStart srcEnd cfg.bs) with
  | .eof => .eof
  | .err => .err .read r
  | .ok bl =>
    match (if mode = .blockOnly then RB.ok [] else readBatch F.filters batchStart srcEnd cfg.bs) with
    | .eof => .eof
    | .err => .err .read r
    | .ok fl =>
      let n := if mode = .blockOnly then bl.length else fl.length
      let batchEnd := batchStart + n - 1
      -- `GetHeader(i)` stamps height `i + startHeight`
      let stamp := batchEnd + F.bstart
      match mode with
      | .filterOnly =>
        if batchEnd ≥ srcEnd then
          match bChainTip r.st with
          | none => .err .tip r
          | some h =>
            if h ≠ stamp then .err .tipmis r
            else
              match writeBoth cfg r bl stamp fl (some h) with
              | (none, r') => .next batchEnd r'
              | (some e, r') => .err e r'
        else
          match writeBoth cfg r bl stamp fl none with
          | (none, r') => .next batchEnd r'
          | (some e, r') => .err e r'
      | .both =>
        if bl.length ≠ fl.length then .err .lenmis r
        else
          match writeBoth cfg r bl stamp fl (some (batchStart + bl.length - 1 + F.bstart)) with
          | (none, r') => .next batchEnd r'
          | (some e, r') => .err e r'
      | .blockOnly =>
        match writeBoth cfg r bl stamp fl none with
        | (none, r') => .next batchEnd r'
        | (some e, r') => .err e r'

/-- the `for` loop of `appendNewHeaders`; `fuel` bounds the number of batches.
Every iteration begins with `ctxCancelled(ctx)` — BEFORE `processBatch`
(source fact `Gen.Import.cancelCheckBeforeProcessBatch`). -/
def appendLoop (F : File) (cfg : Cfg) (srcEnd : Nat) (mode : Mode) : Nat → Nat → Run → Option Err × Run
  | 0, _, r => (some .fuel, r)
  | fuel + 1, batchStart, r =>
    if cancelled cfg r.np then (some .cancel, r)
    else
      match processBatch F cfg srcEnd mode batchStart { r with np := r.np + 1 } with
      | .eof => (none, { r with np := r.np + 1 })
      | .err e r' => (some e, r')
      | .next batchEnd r' => appendLoop F cfg srcEnd mode fuel (batchEnd + 1) r'

/-- `appendNewHeaders(startHeight, endHeight, mode)`: the iterators get source
INDICES `startHeight - fileStart .. endHeight - fileStart`; the loop starts at
`batchStart := startHeight`. -/
def appendNew (F : File) (cfg : Cfg) (startH endH : Nat) (mode : Mode) (r : Run) : Option Err × Run :=
  appendLoop F cfg (endH - F.bstart) mode (endH + 2) startH r

/-- `openSources` + `validateSourcesCompatibility`, in source order -/
def preChecks (F : File) : Option Err :=
  if !F.openOk || F.blocks.isEmpty || F.filters.isEmpty then some .open
  else if F.btyp ≠ 0 || F.ftyp ≠ 0 then some .type
  else if F.bnet ≠ F.fnet || F.bnet ≠ 0 then some .net
  else if F.bstart ≠ F.fstart then some .start
  else if F.blocks.length ≠ F.filters.length then some .count
  else none

/-- `determineProcessingRegions`, `processDivergenceHeadersRegion`, `processNewHeadersRegion`
for store tips `b` (block) and `f` (filter) -/
def processRegions (F : File) (cfg : Cfg) (b f : Nat) (r : Run) : Option Err × Run :=
  let (d, n) := regions F b f
  let (e1, r1) :=
    if d.exists then
      if !verifyAt F r.st d.verify d.stop then (some Err.mismatch, r)
      else appendNew F cfg d.start d.stop d.mode r
    else (none, r)
  match e1 with
  | some e => (some e, r1)
  | none =>
    if n.exists then appendNew F cfg n.start n.stop n.mode r1
    else (none, r1)

/-- number of batches (= context polls) of one validator pass over the file -/
def valBatches (F : File) (cfg : Cfg) : Nat := (F.blocks.length + cfg.bs - 1) / cfg.bs

/-- the part of the block file the block validator has checked when it returns:
all of it, or — the validators return `nil` as soon as they see a cancelled
context (source fact `Gen.Import.validatorsReturnNilOnCancel`) — the batches
before the one at whose poll the cancellation was noticed -/
def validatedBody (F : File) (cfg : Cfg) : List BHdr :=
  match cfg.cancelAt with
  | some c => if c < valBatches F cfg then F.blocks.take (c * cfg.bs) else F.blocks
  | none => F.blocks

/-- `headersImport.Import` -/
def importRun (F : File) (cfg : Cfg) (st : Stores) : Option Err × Run :=
  let r : Run := { st := st }
  match preChecks F with
  | some e => (some e, r)
  | none =>
    match continuity F st with
    | some e => (some e, r)
    | none =>
      if !validateBlocks (validatedBody F cfg) cfg.bs then (some .invalid, r)
      else
        match bChainTip st, fChainTip st with
        -- both validators have polled the context once per batch
        | some b, some f => processRegions F cfg b f { r with np := 2 * valBatches F cfg }
        | _, _ => (some .tip, r)

def importStores (F : File) (cfg : Cfg) (st : Stores) : Option Err × Stores :=
  ((importRun F cfg st).1, (importRun F cfg st).2.st)

/-! ### an import source that starts failing while the importer is at work

`fileHeaderImportSource.GetHeader` reads its file afresh on every call; a file
that has become shorter than its mapping, or a failing disk, makes the read of
every header from some index on fail (the error wraps `io.EOF`,
`io.ErrUnexpectedEOF` or an errno).  The fault is armed by the number of context
polls made, which names every moment of the run (`Run.np`): the `j`-th iteration
of the write loop is poll `2 * valBatches + j`.  What the write loop can read
from then on is the file cut at the failing index — `readBatch` already reports
a read that leaves the body as an error, never as the end of the data. -/
structure ReadFault where
  block : Bool        -- the block-header file (else: the filter-header file)
  poll  : Nat         -- armed once more than `poll` polls were made
  idx   : Nat         -- first unreadable file index
deriving Repr, DecidableEq

/-- the file as the importer can read it after `np` polls -/
def File.under (F : File) (rf : Option ReadFault) (np : Nat) : File :=
  match rf with
  | none => F
  | some f =>
    if f.poll < np then
      (if f.block then { F with blocks := F.blocks.take f.idx } else { F with filters := F.filters.take f.idx })
    else F

def appendLoopRF (F : File) (cfg : Cfg) (rf : Option ReadFault) (srcEnd : Nat) (mode : Mode) :
    Nat → Nat → Run → Option Err × Run
  | 0, _, r => (some .fuel, r)
  | fuel + 1, batchStart, r =>
    if cancelled cfg r.np then (some .cancel, r)
    else
      match processBatch (F.under rf (r.np + 1)) cfg srcEnd mode batchStart { r with np := r.np + 1 } with
      | .eof => (none, { r with np := r.np + 1 })
      | .err e r' => (some e, r')
      | .next batchEnd r' => appendLoopRF F cfg rf srcEnd mode fuel (batchEnd + 1) r'

def appendNewRF (F : File) (cfg : Cfg) (rf : Option ReadFault) (startH endH : Nat) (mode : Mode) (r : Run) :
    Option Err × Run :=
  appendLoopRF F cfg rf (endH - F.bstart) mode (endH + 2) startH r

/-- `processRegions` with a failing source (the regions come from the metadata
read at `Open`, which is memoised: they are those of the whole file) -/
def processRegionsRF (F : File) (cfg : Cfg) (rf : Option ReadFault) (b f : Nat) (r : Run) : Option Err × Run :=
  let (d, n) := regions F b f
  let (e1, r1) :=
    if d.exists then
      if !verifyAt F r.st d.verify d.stop then (some Err.mismatch, r)
      else appendNewRF F cfg rf d.start d.stop d.mode r
    else (none, r)
  match e1 with
  | some e => (some e, r1)
  | none =>
    if n.exists then appendNewRF F cfg rf n.start n.stop n.mode r1
    else (none, r1)

/-- `headersImport.Import` with a source that fails from the write phase on
(`rf.poll ≥ 2 * valBatches`: validation has read the whole file) -/
def importRunRF (F : File) (cfg : Cfg) (rf : Option ReadFault) (st : Stores) : Option Err × Run :=
  let r : Run := { st := st }
  match preChecks F with
  | some e => (some e, r)
  | none =>
    match continuity F st with
    | some e => (some e, r)
    | none =>
      if !validateBlocks (validatedBody F cfg) cfg.bs then (some .invalid, r)
      else
        match bChainTip st, fChainTip st with
        | some b, some f => processRegionsRF F cfg rf b f { r with np := 2 * valBatches F cfg }
        | _, _ => (some .tip, r)

/-- the write loop as it would be if ANY read failure of a batch were taken for
the end of the data (what `errors.Is(err, io.EOF)` does to a wrapped short read):
kept to show what the exact sentinel comparison is needed for -/
def appendLoopLax (F : File) (cfg : Cfg) (rf : Option ReadFault) (srcEnd : Nat) (mode : Mode) :
    Nat → Nat → Run → Option Err × Run
  | 0, _, r => (some .fuel, r)
  | fuel + 1, batchStart, r =>
    match processBatch (F.under rf (r.np + 1)) cfg srcEnd mode batchStart { r with np := r.np + 1 } with
    | .eof => (none, { r with np := r.np + 1 })
    | .err .read r' => (none, r')
    | .err e r' => (some e, r')
    | .next batchEnd r' => appendLoopLax F cfg rf srcEnd mode fuel (batchEnd + 1) r'

end Neutrino.Import
