/-
C04 — abstract message-level model of the composition  client ∘ peers.

What is modelled
* Ground truth is a `World`: which header chains (lists of header ids above
  genesis) are paths of valid blocks in the fork tree, and the cumulative work
  of a chain.
* The client holds one accepted chain, a set of connected peers (each with a
  behaviour and the work it claimed in its `version` message) and a sync peer.
* The block manager's acceptance rule is a PARAMETER (`AcceptRule`) with exactly
  the two facts the composition needs and that C01/C02 establish for
  `handleHeadersMsg`: it only ever replaces the accepted chain by a valid,
  strictly heavier one (`sound`), and a valid strictly heavier chain offered in
  full is taken (`complete`).  `accStd` is a concrete rule with these properties.
* Events: a peer connects; the reply of an honest peer to the client's
  `getheaders` is delivered; a Byzantine peer sends an arbitrary chain; the peer
  library's stall detector disconnects a sync peer that does not deliver
  (ENVIRONMENT event — timing is not modelled); any peer disconnects; the honest
  side grows / reorganises to a heavier valid chain.

What is NOT modelled: time, the wire encoding, batching of 2000 headers, the
filter-header half of the sync (C03), the query dispatcher.  `current` mirrors
`BlockHeadersSynced`: the client listens to peers other than its sync peer only
when the sync peer has delivered what it claimed.

Core Lean only.
-/
namespace Neutrino.Net

abbrev Hdr := Nat
abbrev Chain := List Hdr

/-- Ground truth. -/
structure World where
  valid : Chain → Bool
  work  : Chain → Nat

/-- The block manager's acceptance rule: `acc current offered`. -/
structure AcceptRule (w : World) where
  acc      : Chain → Chain → Chain
  /-- only valid, strictly heavier chains replace the accepted one (C01 ∧ C02) -/
  sound    : ∀ c o, acc c o = c ∨ (w.valid (acc c o) = true ∧ w.work c < w.work (acc c o))
  /-- a valid strictly heavier chain offered in full is accepted in full -/
  complete : ∀ c o, w.valid o = true → w.work c < w.work o → acc c o = o

/-- The obvious rule: take the offer iff it is valid and strictly heavier. -/
def accStd (w : World) : AcceptRule w where
  acc c o := if w.valid o = true ∧ w.work c < w.work o then o else c
  sound c o := by
    by_cases h : w.valid o = true ∧ w.work c < w.work o
    · right; simp only [h, and_self, ↓reduceIte]
    · left; simp only [h, ↓reduceIte]
  complete c o hv hw := by simp only [hv, hw, and_self, ↓reduceIte]

inductive Beh where
  | honest   -- serves the most-work valid chain
  | byz      -- sends anything
  | silent   -- completes the handshake, never answers
deriving DecidableEq, Repr

structure Peer where
  id    : Nat
  beh   : Beh
  claim : Nat      -- work it announced when connecting (sync-peer selection looks at nothing else)
deriving DecidableEq, Repr

structure State where
  chain     : Chain          -- accepted chain
  peers     : List Peer      -- connected peers
  sync      : Option Peer    -- sync peer (the client has a `getheaders` outstanding to it)
  honestTip : Chain          -- what honest peers serve right now
deriving Repr

inductive Ev where
  | connect (p : Peer)
  | honestReply (p : Peer)
  | byzOffer (p : Peer) (o : Chain)
  | stall (p : Peer)
  | disconnect (p : Peer)
  | grow (c : Chain)
deriving Repr, DecidableEq

/-- `startSync`: the candidate that claims most (the later one on ties). -/
def pickSync : List Peer → Option Peer
  | [] => none
  | p :: ps =>
    match pickSync ps with
    | none => some p
    | some b => if p.claim < b.claim then some b else some p

def remove (q : Peer) : List Peer → List Peer
  | [] => []
  | p :: ps => if p = q then remove q ps else p :: remove q ps

def nonHonest : List Peer → Nat
  | [] => 0
  | p :: ps => (if p.beh = .honest then 0 else 1) + nonHonest ps

/-- `BlockHeadersSynced`: no sync peer, or it has delivered what it claimed. -/
def current (w : World) (s : State) : Bool :=
  match s.sync with
  | none => true
  | some q => decide (q.claim ≤ w.work s.chain)

/-- the client processes a `headers` message of p: p is the sync peer or the client is current -/
def listensTo (w : World) (s : State) (p : Peer) : Bool :=
  decide (p ∈ s.peers) && (decide (s.sync = some p) || current w s)

def drop (s : State) (p : Peer) : State :=
  let ps := remove p s.peers
  { s with peers := ps, sync := if s.sync = some p then pickSync ps else s.sync }

def step (w : World) (R : AcceptRule w) (s : State) : Ev → State
  | .connect p =>
    if p ∈ s.peers then s else
    let ps := s.peers ++ [p]
    { s with peers := ps, sync := match s.sync with | none => pickSync ps | some q => some q }
  | .honestReply p =>
    if p.beh = .honest ∧ listensTo w s p = true then { s with chain := R.acc s.chain s.honestTip } else s
  | .byzOffer p o =>
    if p.beh = .byz ∧ listensTo w s p = true then { s with chain := R.acc s.chain o } else s
  | .stall p =>
    if s.sync = some p ∧ p.beh ≠ .honest then drop s p else s
  | .disconnect p =>
    if p ∈ s.peers then drop s p else s
  | .grow c =>
    if w.valid c = true ∧ w.work s.honestTip < w.work c then { s with honestTip := c } else s

def run (w : World) (R : AcceptRule w) (s : State) : List Ev → State
  | [] => s
  | e :: es => run w R (step w R s e) es

/-- The events the fairness assumption is about: the delivery of an honest
peer's reply the client is listening for, and the stall-disconnect of a sync
peer that is not honest (ENVIRONMENT: btcd's peer library disconnects a peer
that owes a `headers` answer for 3 × 30 s; see the `emptyHeaders` finding for
the gap between this assumption and the real stack). -/
def FairEv (w : World) (s : State) : Ev → Prop
  | .honestReply p => p.beh = .honest ∧ listensTo w s p = true
  | .stall p => s.sync = some p ∧ p.beh ≠ .honest
  | _ => False

/-- every event of the list is a fair event enabled when it is taken -/
def FairRun (w : World) (R : AcceptRule w) (s : State) : List Ev → Prop
  | [] => True
  | e :: es => FairEv w s e ∧ FairRun w R (step w R s e) es

/-- the sync peer is a connected peer, and there is one whenever a peer is connected -/
structure Inv (w : World) (s : State) : Prop where
  sync_mem   : ∀ q, s.sync = some q → q ∈ s.peers
  sync_some  : s.peers ≠ [] → s.sync ≠ none
  tip_valid  : w.valid s.honestTip = true

/-- ranking function: peers that can block the sync + 1 while not converged -/
def rank (s : State) : Nat := nonHonest s.peers + (if s.chain = s.honestTip then 0 else 1)

/-- stall the non-honest sync peers one after the other (fuel = their number) -/
def stallSched (w : World) (R : AcceptRule w) : Nat → State → List Ev
  | 0, _ => []
  | n + 1, s =>
    match s.sync with
    | some q => if q.beh = .honest then [] else .stall q :: stallSched w R n (step w R s (.stall q))
    | none => []

/-- the schedule of `C04_progress`: stall every blocking sync peer, then deliver the honest sync peer's reply -/
def sched (w : World) (R : AcceptRule w) (s : State) : List Ev :=
  let l := stallSched w R (nonHonest s.peers) s
  match (run w R s l).sync with
  | some q => l ++ [.honestReply q]
  | none => l

/-- events that neither add peers nor move the honest side -/
def Ev.quiet : Ev → Bool
  | .connect _ => false
  | .grow _ => false
  | _ => true

/-- a fair event that does something: any stall, or a reply while not converged -/
def useful (w : World) (s : State) : Ev → Prop
  | .honestReply p => p.beh = .honest ∧ listensTo w s p = true ∧ s.chain ≠ s.honestTip
  | .stall p => s.sync = some p ∧ p.beh ≠ .honest
  | _ => False

instance (w : World) (s : State) (e : Ev) : Decidable (useful w s e) := by
  cases e <;> simp only [useful] <;> exact inferInstance

def usefulCount (w : World) (R : AcceptRule w) (s : State) : List Ev → Nat
  | [] => 0
  | e :: es => (if useful w s e then 1 else 0) + usefulCount w R (step w R s e) es

end Neutrino.Net
