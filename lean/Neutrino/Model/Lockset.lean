/-
C18 — lockset discipline over the extracted access table.

`Gen.AccessTable.rows` is every access (read/write) to the tracked shared fields
with the mutexes lexically held; `Gen.AccessTable.calls` are the calls to the
functions that touch them, with the mutexes held at the call.  Both are
regenerated from the source on every run.  The hand-written part
(`Model/Ownership.lean`) says on which kind of goroutine a function runs, which
kinds can run concurrently, which helper functions are only called with a lock
already held (checked against the call rows), and which lock expressions denote
the same mutex.  Core Lean only.
-/
import Neutrino.Gen.AccessTable
namespace Neutrino.Lockset
open Neutrino.Gen.AccessTable

/-- Kinds of goroutine a function can run on. -/
inductive Cls
  | init          -- constructors / Start before the goroutines exist / (re)opening a store: nothing else runs yet
  | api           -- any caller goroutine; any number of them at once
  | blockHandler  -- blockManager.blockHandler (one goroutine)
  | cfHandler     -- blockManager.cfHandler (one goroutine)
  | peerHandler   -- ChainService.peerHandler (one goroutine)
  | peerIn        -- the peer's input handler (one goroutine per ServerPeer)
  | scanner       -- UtxoScanner.batchManager (one goroutine)
  | scannerStop   -- UtxoScanner.Stop after batchManager has exited (`<-s.shutdown`)
  | subHandler    -- SubscriptionManager.subscriptionHandler (one goroutine)
  | subStop       -- SubscriptionManager.Stop after the handler has exited (`m.wg.Wait()`)
  | workerMulti   -- a per-response callback of a query with several requests: runs on the worker goroutine of whichever
                  -- peer answers, several invocations at once
  | workerSeq     -- a per-response callback of a single-request query: on a worker goroutine, one invocation at a time
                  -- (a retry on another worker starts after the first worker has reported to the dispatcher)
  deriving DecidableEq, Repr

/-- can a function of class `a` run at the same time as one of class `b` (on the same object)? -/
def concurrent : Cls → Cls → Bool
  | .init, _ => false
  | _, .init => false
  | .api, _ => true
  | _, .api => true
  | .scannerStop, .scanner => false
  | .scanner, .scannerStop => false
  | .subStop, .subHandler => false
  | .subHandler, .subStop => false
  | .workerMulti, _ => true
  | _, .workerMulti => true
  | a, b => a != b          -- one goroutine per class: a class is not concurrent with itself

structure Owner where
  fn : Nat
  cls : Cls

/-- helper `fn` is only ever called with `lock` held (exclusively if `excl`) -/
structure CallerHolds where
  fn : Nat
  lock : Nat
  excl : Bool

structure Racy where
  field : Nat
  fnA : Nat
  fnB : Nat
  /-- the finding is about `fnA` itself (it touches the field with no lock at all): the other side may be any function,
  so that moving the locked side's code into a helper does not turn the recorded finding into a new one -/
  anyB : Bool := false
  deriving DecidableEq

/-- a conflicting pair that is ordered by something other than a mutex (reviewed, with the reason) -/
structure Ordered where
  field : Nat
  fnA : Nat
  fnB : Nat
  reason : String

structure Tables where
  owners : List Owner
  callerHolds : List CallerHolds
  lockAlias : List (Nat × Nat)
  knownRacy : List Racy
  ordered : List Ordered := []

variable (T : Tables)

def clsOf (fn : Nat) : Cls :=
  match T.owners.find? (·.fn == fn) with
  | some o => o.cls
  | none =>
    -- callbacks registered with the work manager (extracted) run on worker goroutines
    match callbacks.find? (·.fn == fn) with
    | some cb => if cb.multi then .workerMulti else .workerSeq
    | none => .api        -- unknown functions are assumed callable from anywhere

def canon (l : Nat) : Nat :=
  match T.lockAlias.find? (·.1 == l) with
  | some a => a.2
  | none => l

/-- locks held at an access: lexically, plus what every caller of the function holds -/
def effHeld (fn : Nat) (held : List Held) : List Held :=
  held.map (fun h => ⟨canon T h.lock, h.excl⟩) ++
  ((T.callerHolds.filter (·.fn == fn)).map (fun c => ⟨canon T c.lock, c.excl⟩))

def share (a b : List Held) : Bool :=
  a.any (fun x => b.any (fun y => x.lock == y.lock && (x.excl || y.excl)))

def isKnown (f a b : Nat) : Bool :=
  T.knownRacy.any (fun k => k.field == f &&
    ((k.fnA == a && (k.anyB || k.fnB == b)) || (k.fnA == b && (k.anyB || k.fnB == a))))

/-- two rows conflict: same field, at least one write, their goroutine classes can run concurrently -/
def conflict (r s : Access) : Bool :=
  r.field == s.field && (r.write || s.write) && concurrent (clsOf T r.fn) (clsOf T s.fn)

def isOrdered (f a b : Nat) : Bool :=
  T.ordered.any (fun k => k.field == f && ((k.fnA == a && k.fnB == b) || (k.fnA == b && k.fnB == a)))

/-- the access is confined to the success verdict of the query (or precedes the query): it is not one of the
extracted `unguardedAccesses`.  The chain callback -> worker's result -> dispatcher -> error channel -> caller that an
`Ordered` entry stands for exists for the NIL verdict only; an error verdict (timeout, retry limit, shutdown) is sent
while a worker may still be inside the callback. -/
def onSuccessOnly (r : Access) : Bool :=
  !unguardedAccesses.any (fun u => u.field == r.field && u.fn == r.fn && u.line == r.line)

def pairOk (r s : Access) : Bool :=
  !conflict T r s || share (effHeld T r.fn r.held) (effHeld T s.fn s.held) ||
  (isOrdered T r.field r.fn s.fn && onSuccessOnly r && onSuccessOnly s)

def rowOk (rows : List Access) (r : Access) : Bool := rows.all (pairOk T r)

/-- the call rows justify a `callerHolds` entry: every call of the helper is made with the lock held (lexically or
because the caller is itself such a helper), or from a constructor -/
def callOk (e : CallerHolds) (c : Call) : Bool :=
  c.callee != e.fn || clsOf T c.caller == .init ||
  -- a `go` / `defer` call does not run where it is written: what is held there justifies nothing
  (!c.async &&
   (effHeld T c.caller c.held).any (fun h => h.lock == canon T e.lock && (h.excl || !e.excl)))

def callerHoldsOk (calls : List Call) (e : CallerHolds) : Bool :=
  calls.any (·.callee == e.fn) && calls.all (callOk T e)

/-- the call is made with a mutex held (lexically, or by every caller of the calling helper) that the callee locks
again in its own body: a certain deadlock for `Lock`, and for `RLock` a deadlock as soon as a writer queues in
between (sync.RWMutex blocks new readers behind a waiting writer) -/
def reentrant (acqs : List Acq) (c : Call) : Bool :=
  (effHeld T c.caller c.held).any (fun h => acqs.any (fun a => a.fn == c.callee && canon T a.lock == h.lock))

def nameOf (i : Nat) : String := names.getD i "?"

def describePair (r s : Access) : String :=
  nameOf r.field ++ ": " ++ (if r.write then "write" else "read") ++ " in " ++ nameOf r.fn ++ " (" ++ r.file ++ ":" ++ toString r.line ++ ") | " ++
  (if s.write then "write" else "read") ++ " in " ++ nameOf s.fn ++ " (" ++ s.file ++ ":" ++ toString s.line ++ ") share no lock"

end Neutrino.Lockset
