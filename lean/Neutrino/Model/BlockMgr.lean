/-
Model of the block-header path of blockmanager.go: `handleHeadersMsg` (connect
arm, reorganisation arm, checkpoint test, batch write, tips), `handleNewPeerMsg`
/ `startSync`, `handleDonePeerMsg`, `handleInvMsg`, `BlockHeadersSynced`,
`rollBackToHeight`, `writeCFHeadersMsg`, `NotificationsSinceHeight`.  Core Lean.

Headers are identified by small naturals (`0` = genesis).  Everything that is
Bitcoin arithmetic lives in the table `Tbl`: who a header's parent is, its work,
whether btcd accepts it *on its own branch* (`valid`: btcd's context + sanity
checks evaluated against the header's own ancestors) and whether its timestamp
is within 24 h of the time source (`fresh`).  What is neutrino's own code - and
what this model transcribes - is which headers get checked, against what, what
is compared with what, and what is written / rolled back / announced.

  `log`   the block-header store: ids by height (flat file + index, see C07);
          `corrupt` is raised when a batch is written whose claimed heights are
          not the file positions it lands on (headerfs trusts the caller, F11).
  `hl`    `headerList` (BoundedMemoryChain), NEWEST FIRST, at most `win` nodes.
  `ncp`   `nextCheckpoint`;  `sync` `syncPeer`;  `cand` candidate peers.
  `fst`   height of the filter-header store's tip;  `ftip` in-memory
          `filterHeaderTip(+Hash)`;  `htip` in-memory `headerTip(+Hash)`.
-/
namespace Neutrino.BM

structure Tbl where
  parent : Nat → Option Nat
  work   : Nat → Nat
  valid  : Nat → Bool
  fresh  : Nat → Bool
  /-- depth in the tree as the harness reports it; used only by the observation-level
  oracle (the model computes heights from positions, as the code does). -/
  height : Nat → Nat := fun _ => 0

structure Node where
  id     : Nat
  height : Nat
deriving DecidableEq, Repr, Inhabited

structure Cp where
  height : Nat
  id     : Nat
deriving DecidableEq, Repr, Inhabited

structure Cfg where
  tbl : Tbl
  cps : List Cp      -- ascending heights
  win : Nat          -- numMaxMemHeaders

structure Peer where
  id        : Nat
  cand      : Bool          -- advertises SFNodeNetwork
  lastBlock : Nat := 0
  disc      : Bool := false
deriving DecidableEq, Repr, Inhabited

inductive Ntfn where
  | conn (id height fstAtEmit : Nat)
  | disc (id height newTip : Nat)
deriving DecidableEq, Repr, Inhabited

structure State where
  log     : List Nat := [0]
  corrupt : Bool := false
  hl      : List Node := [⟨0, 0⟩]
  ncp     : Option Cp := none
  sync    : Option Nat := none
  cand    : List Nat := []
  peers   : List Peer := []
  htip    : Node := ⟨0, 0⟩
  ftip    : Node := ⟨0, 0⟩
  fst     : Nat := 0
deriving Repr

inductive Ev where
  | newPeer (p : Nat)
  | donePeer (p : Nat)
  | peerHeight (p h : Nat)
  | inv (p id : Nat)
  | headers (p : Nat) (hs : List Nat)
  | cfWrite (stop n : Nat) (prevOk : Bool)
  | backlog (h : Nat)
  /-- a `headers` message whose batch write (`WriteHeaders` after the loop) FAILS -/
  | headersFailWrite (p : Nat) (hs : List Nat)
  /-- headers (and `nf` filter headers) imported into the stores underneath the block manager,
  followed by `ResetHeaderState` -/
  | importReset (blocks : List Nat) (nf : Nat)
deriving Repr

inductive Res where
  | ok
  | err
deriving DecidableEq, Repr

structure Out where
  res  : Res := .ok
  ntf  : List Ntfn := []
  best : Nat := 0
  bl   : List Node := []
deriving Repr

/-! ### small helpers -/

def idxOf (l : List Nat) (x : Nat) : Option Nat :=
  match l with
  | [] => none
  | y :: ys => if y = x then some 0 else (idxOf ys x).map (· + 1)

def tipHeight (log : List Nat) : Nat := log.length - 1
def tipId (log : List Nat) : Nat := log.getLast?.getD 0

/-- `findPreviousHeaderCheckpoint h`: last checkpoint with height `< h`, genesis if none. -/
def findPrevCp (cps : List Cp) (h : Nat) : Cp :=
  cps.foldl (fun acc c => if c.height < h then c else acc) ⟨0, 0⟩

/-- `findNextHeaderCheckpoint h`: first checkpoint with height `> h`. -/
def findNextCp (cps : List Cp) (h : Nat) : Option Cp :=
  cps.find? (fun c => h < c.height)

def lastBlockOf (peers : List Peer) (p : Nat) : Nat :=
  ((peers.find? (·.id == p)).map (·.lastBlock)).getD 0

def isCand (peers : List Peer) (p : Nat) : Bool :=
  ((peers.find? (·.id == p)).map (·.cand)).getD false

/-- `peer.UpdateLastBlockHeight`: only ever increases. -/
def updLast (peers : List Peer) (p h : Nat) : List Peer :=
  peers.map (fun q => if q.id == p && q.lastBlock < h then { q with lastBlock := h } else q)

def disconnect (peers : List Peer) (p : Nat) : List Peer :=
  peers.map (fun q => if q.id == p then { q with disc := true } else q)

/-- `BoundedMemoryChain.PushBack` / `ResetHeaderState` on the abstract list. -/
def hlPush (win : Nat) (hl : List Node) (n : Node) : List Node := (n :: hl).take win
def hlReset (n : Node) : List Node := [n]

/-- re-anchor `headerList` on the stored tip (what `handleDonePeerMsg` does for the
sync peer, and - after the repair of F4/F11 - every early return that follows pushes). -/
def anchor (log : List Nat) : List Node := hlReset ⟨tipId log, tipHeight log⟩

/-- `BlockHeadersSynced`. -/
def synced (c : Cfg) (s : State) : Bool :=
  let th := tipHeight s.log
  let pastCps := match c.cps.getLast? with
    | some l => decide (l.height < th)
    | none => true
  let belowPeer := match s.sync with
    | some p => decide (th < lastBlockOf s.peers p)
    | none => false
  pastCps && !belowPeer && c.tbl.fresh (tipId s.log)

/-! ### rollBackToHeight -/

/-- One iteration per removed header, highest first.  `fuel` bounds the loop by
the length of the log.  Returns log, filter-store tip, in-memory filter tip and
the notifications in emission order. -/
def rollBack (h : Nat) : Nat → List Nat → Nat → Node → List Ntfn → List Nat × Nat × Node × List Ntfn
  | 0, log, fst, ft, out => (log, fst, ft, out)
  | fuel + 1, log, fst, ft, out =>
    let th := tipHeight log
    if th > h then
      let removed := tipId log
      let log' := log.dropLast
      let newTip := tipId log'
      -- only roll the filter headers back if they have caught up this far;
      -- the in-memory filter tip follows the store (repair of F10)
      let (fst', ft') := if th ≤ fst then (th - 1, (⟨newTip, th - 1⟩ : Node)) else (fst, ft)
      rollBack h fuel log' fst' ft' (out ++ [.disc removed th newTip])
    else (log, fst, ft, out)

def State.rollBackTo (s : State) (h : Nat) : State × List Ntfn :=
  let (log, fst, ft, out) := rollBack h s.log.length s.log s.fst s.ftip []
  ({ s with log := log, fst := fst, ftip := ft }, out)

/-! ### the store write -/

/-- `WriteHeaders` with the heights the caller claims: the file is appended in
order, the index records the claimed heights.  They agree iff the first claimed
height is the current length. -/
def State.write (s : State) (firstHeight : Nat) (ids : List Nat) : State :=
  if ids = [] then s
  else { s with log := s.log ++ ids, corrupt := s.corrupt || (firstHeight != s.log.length) }

/-! ### startSync / newPeer / donePeer / inv -/

def bestCand (peers : List Peer) : List Nat → Option Nat → Option Nat
  | [], best => best
  | p :: ps, best =>
    match best with
    | none => bestCand peers ps (some p)
    | some b => if lastBlockOf peers p > lastBlockOf peers b then bestCand peers ps (some p) else bestCand peers ps best

def startSync (s : State) : State :=
  match s.sync with
  | some _ => s
  | none =>
    let th := tipHeight s.log
    let cand := s.cand.filter (fun p => !(decide (lastBlockOf s.peers p < th)))
    { s with cand := cand, sync := bestCand s.peers cand none }

def newPeer (s : State) (p : Nat) : State :=
  if !isCand s.peers p then s else startSync { s with cand := s.cand ++ [p] }

def donePeer (s : State) (p : Nat) : State :=
  let s := { s with cand := s.cand.erase p }
  if s.sync = some p then startSync { s with sync := none, hl := anchor s.log } else s

def invMsg (c : Cfg) (s : State) (p id : Nat) : State :=
  if synced c s then
    match idxOf s.log id with
    | some h => { s with peers := updLast s.peers p h }
    | none => s
  else s

/-! ### handleHeadersMsg -/

def linked (t : Tbl) : List Nat → Bool
  | [] => true
  | [_] => true
  | a :: b :: rest => (t.parent b == some a) && linked t (b :: rest)

/-- work of the known chain from the in-memory tip down to (excluding) the fork
point: `n` steps, `headerList` nodes while they last, then the store through
`PrevBlock` (a failed store lookup is only logged; the stale header is reused). -/
def knownWalk (t : Tbl) (log : List Nat) : Nat → List Node → Nat → Nat → Nat
  | 0, _, _, acc => acc
  | n + 1, nd :: tl, _, acc => knownWalk t log n tl nd.id (acc + t.work nd.id)
  | n + 1, [], cur, acc =>
    let nxt := match t.parent cur with
      | some q => if q ∈ log then q else cur
      | none => cur
    knownWalk t log n [] nxt (acc + t.work nxt)

def sumWork (t : Tbl) (ids : List Nat) : Nat := (ids.map t.work).sum

/-- locals of the loop -/
structure Loc where
  batch       : List Nat := []     -- ids of `headerWriteBatch`
  batchFirst  : Nat := 0           -- height claimed for its first entry
  recvCp      : Bool := false
  finalId     : Nat := 0
  finalHeight : Nat := 0

/-- what happens after the loop: batch write, next checkpoint, tips. -/
def finish (c : Cfg) (s : State) (l : Loc) (ntf : List Ntfn) : State × List Ntfn :=
  let s := s.write l.batchFirst l.batch
  let s := if l.recvCp then { s with ncp := findNextCp c.cps l.finalHeight } else s
  ({ s with htip := ⟨l.finalId, l.finalHeight⟩ }, ntf)

/-- the checkpoint test both arms fall through to.  `some r`: the handler is done with
result `r` (`break` at a verified checkpoint, or mismatch: roll back to the previous
checkpoint, disconnect, re-anchor); `none`: go on with the next header. -/
def cpTest (c : Cfg) (p h : Nat) (s : State) (l : Loc) (ntf : List Ntfn) (nodeHeight : Nat) :
    Option (State × List Ntfn) :=
  match s.ncp with
  | some cp =>
    if nodeHeight = cp.height then
      if h = cp.id then some (finish c s { l with recvCp := true } ntf)     -- `break`
      else
        let r := s.rollBackTo (findPrevCp c.cps nodeHeight).height
        some ({ r.1 with peers := disconnect r.1.peers p, hl := anchor r.1.log }, ntf ++ r.2)
    else none
  | none => none

/-- what the non-connecting branch decides about header `h` (followed by `rest`) -/
inductive Reorg where
  | ignore                      -- return silently
  | skip                        -- `continue`
  | disconnect                  -- disconnect the peer and return
  | adopt (backHeight : Nat)    -- reorganise onto `h`, whose parent is stored at `backHeight`
deriving DecidableEq, Repr

def reorgDecision (c : Cfg) (s : State) (p : Nat) (prev : Node) (h : Nat) (rest : List Nat) : Reorg :=
  if s.sync != some p && !synced c s then .ignore
  else if h = prev.id then .skip
  else if h ∈ s.log then .skip
  else
    match (c.tbl.parent h).bind (idxOf s.log) with
    | none => .disconnect
    | some backHeight =>
      -- floor: the newest checkpoint at or below the tip (repair of F3: `prevNode.Height+1`)
      if backHeight < (findPrevCp c.cps (prev.height + 1)).height then .disconnect
      else if !(h :: rest).all c.tbl.valid then .disconnect
      else
        let total := sumWork c.tbl (h :: rest)
        let known := knownWalk c.tbl s.log (prev.height - backHeight) s.hl prev.id 0
        if known > total then .disconnect
        else if known = total then .ignore
        else .adopt backHeight

/-- the reorganisation itself: new sync peer, roll back to the fork point, write the
first header of the branch at once, reset the in-memory list to fork point + that header. -/
def doReorg (c : Cfg) (s : State) (p h backHeight : Nat) : State × List Ntfn :=
  let r := { s with sync := some p }.rollBackTo backHeight
  let s := r.1.write (backHeight + 1) [h]
  ({ s with hl := hlPush c.win (hlReset ⟨(c.tbl.parent h).getD 0, backHeight⟩) ⟨h, backHeight + 1⟩ }, r.2)

def pushBatch (l : Loc) (h nh : Nat) : Loc :=
  if l.batch = [] then { l with batch := [h], batchFirst := nh, finalHeight := nh }
  else { l with batch := l.batch ++ [h], finalHeight := nh }

/-- the loop over `msg.Headers`; the argument is the not yet processed part
(`msg.Headers[i:]`, which is what the reorganisation arm validates and weighs). -/
def loop (c : Cfg) (p : Nat) : List Nat → State → Loc → List Ntfn → State × List Ntfn
  | [], s, l, ntf => finish c s l ntf
  | h :: rest, s, l, ntf =>
    match s.hl.head? with
    | none => ({ s with peers := disconnect s.peers p }, ntf)
    | some prev =>
      if c.tbl.parent h = some prev.id then
        -- connect arm (never looks at who sent it)
        if !c.tbl.valid h then
          ({ s with peers := disconnect s.peers p, hl := anchor s.log }, ntf)
        else
          let nh := prev.height + 1
          let l' := pushBatch { l with finalId := h } h nh
          let s' := { s with peers := updLast s.peers p nh, hl := hlPush c.win s.hl ⟨h, nh⟩ }
          match cpTest c p h s' l' ntf nh with
          | some r => r
          | none => loop c p rest s' l' ntf
      else
        match reorgDecision c s p prev h rest with
        | .ignore => (s, ntf)
        | .skip => loop c p rest s { l with finalId := h } ntf
        | .disconnect => ({ s with peers := disconnect s.peers p }, ntf)
        | .adopt backHeight =>
          let r := doReorg c s p h backHeight
          -- (!) `node.Height` is still 0 when the checkpoint test runs after a reorganisation
          match cpTest c p h r.1 { l with finalId := h } (ntf ++ r.2) 0 with
          | some r' => r'
          | none => loop c p rest r.1 { l with finalId := h } (ntf ++ r.2)

def handleHeaders (c : Cfg) (s : State) (p : Nat) (hs : List Nat) : State × List Ntfn :=
  if hs = [] then (s, [])
  else if !linked c.tbl hs then ({ s with peers := disconnect s.peers p }, [])
  else loop c p hs s {} []

/-! ### writeCFHeadersMsg / NotificationsSinceHeight -/

def connRange (log : List Nat) (fstNew : Nat) : Nat → Nat → List Ntfn
  | _, 0 => []
  | start, n + 1 => .conn (log.getD start 0) start fstNew :: connRange log fstNew (start + 1) n

def cfWrite (s : State) (stop n : Nat) (prevOk : Bool) : State × Out :=
  if !prevOk then (s, { res := .err })
  else match idxOf s.log stop with
    | none => (s, { res := .err })
    | some endH =>
      if n = 0 || n - 1 > endH then (s, { res := .err })
      else
        let start := endH - (n - 1)
        -- store write first, then the in-memory tip, then the notifications
        ({ s with fst := endH, ftip := ⟨stop, endH⟩ }, { ntf := connRange s.log endH start n })

/-! ### inside one filter-header write: tip update versus event emission

After the store write `writeCFHeadersMsg` raises the in-memory filter tip and then announces the
blocks one by one; every send is a rendezvous with the subscription manager, which may serve a new
subscription (a backlog request) between two of them.  `tipFirst` is the order found in the source
(`Gen.BlockMgr.cfTipBeforeNotify`). -/

inductive CfStep where
  | raiseTip
  | emit (id height : Nat)
deriving DecidableEq, Repr

def cfEmits (log : List Nat) (start : Nat) : Nat → List CfStep
  | 0 => []
  | n + 1 => .emit (log.getD start 0) start :: cfEmits log (start + 1) n

def cfSteps (tipFirst : Bool) (log : List Nat) (start n : Nat) : List CfStep :=
  if tipFirst then .raiseTip :: cfEmits log start n else cfEmits log start n ++ [.raiseTip]

/-- run the micro-steps from in-memory tip `m`: each emission with the tip visible at that moment -/
def cfRun (endH : Nat) : Nat → List CfStep → List (Nat × Nat × Nat)
  | _, [] => []
  | _, .raiseTip :: rest => cfRun endH endH rest
  | m, .emit i h :: rest => (i, h, m) :: cfRun endH m rest

def backlogRange (log : List Nat) : Nat → Nat → Option (List Node)
  | _, 0 => some []
  | i, n + 1 =>
    match log[i]? with
    | none => none
    | some id => (backlogRange log (i + 1) n).map (⟨id, i⟩ :: ·)

def backlog (s : State) (h : Nat) : Out :=
  let best := s.ftip.height
  if h = 0 then { best := best }
  else if best = h then { best := best }
  else if h > best then { res := .err }
  else match backlogRange s.log (h + 1) (best - h) with
    | none => { res := .err }
    | some bl => { best := best, bl := bl }

/-! the lock scope inside one write: `newFilterHeadersMtx` is taken to raise the tip; a backlog
request (`NotificationsSinceHeight`) needs its read side.  `releaseFirst` is the order found in
the source (`Gen.BlockMgr.cfUnlockBeforeNotify`). -/

inductive CfLockStep where
  | acquire
  | raiseTip
  | release
  | emit (id height : Nat)
deriving DecidableEq, Repr

def cfLockEmits (log : List Nat) (start : Nat) : Nat → List CfLockStep
  | 0 => []
  | n + 1 => .emit (log.getD start 0) start :: cfLockEmits log (start + 1) n

def cfLockSteps (releaseFirst : Bool) (log : List Nat) (start n : Nat) : List CfLockStep :=
  if releaseFirst then [.acquire, .raiseTip, .release] ++ cfLockEmits log start n
  else [.acquire, .raiseTip] ++ cfLockEmits log start n ++ [.release]

/-- run the micro-steps: for each emission (height, whether a backlog request is enabled at that
moment, i.e. the writer does not hold the mutex while it waits for the event to be taken) -/
def cfLockRun : Bool → List CfLockStep → List (Nat × Bool)
  | _, [] => []
  | _, .acquire :: rest => cfLockRun true rest
  | _, .release :: rest => cfLockRun false rest
  | held, .raiseTip :: rest => cfLockRun held rest
  | held, .emit _ h :: rest => (h, !held) :: cfLockRun held rest

/-- the backlog a subscriber gets who registers right after the `k`-th event of the write
`cfWrite s stop n true` (1 ≤ k ≤ n): computed from the in-memory tip as it is at that moment -/
def cfProbe (tipFirst : Bool) (s : State) (stop n h : Nat) : Out :=
  if tipFirst then backlog (cfWrite s stop n true).1 h else backlog s h

/-! ### a failed batch write; an import underneath followed by `ResetHeaderState` -/

/-- `b` is a proper extension of `a` -/
def properExt (a b : List Nat) : Bool := decide (a.length < b.length) && b.take a.length == a

/-- `handleHeadersMsg` when the batch write after the loop fails: the error is logged, the list is
re-anchored on the stored tip, and the handler returns - nothing is stored, `nextCheckpoint` and
the tips stay as they were (the peer heights noted during the loop stay).  The write in question
is the one a run that only extends the stored chain ends with; on any other run (early return,
checkpoint rollback, reorganisation) the model lets the message through unchanged - the driver
injects the failure only into batches that extend the stored tip. -/
def handleHeadersFailWrite (c : Cfg) (s : State) (p : Nat) (hs : List Nat) : State × List Ntfn :=
  let r := handleHeaders c s p hs
  if properExt s.log r.1.log then ({ s with peers := r.1.peers, hl := anchor s.log }, []) else r

/-- what the importer checks before it writes: each header names the then-tip, is valid, and is
the checkpoint wherever there is one -/
def chainOk (c : Cfg) : List Nat → List Nat → Bool
  | _, [] => true
  | log, b :: bs =>
    (c.tbl.parent b == some (tipId log)) && c.tbl.valid b &&
    c.cps.all (fun cp => cp.height != log.length || cp.id == b) && chainOk c (log ++ [b]) bs

/-- import + `ResetHeaderState`: every in-memory field is re-read from the stores -/
def importReset (c : Cfg) (s : State) (blocks : List Nat) (nf : Nat) : State :=
  let log := if chainOk c s.log blocks then s.log ++ blocks else s.log
  let fst := if s.fst + nf ≤ tipHeight log then s.fst + nf else s.fst
  { s with log := log, fst := fst, ncp := findNextCp c.cps (tipHeight log), hl := anchor log,
           htip := ⟨tipId log, tipHeight log⟩, ftip := ⟨log.getD fst 0, fst⟩ }

/-! ### the machine -/

def step (c : Cfg) (s : State) : Ev → State × Out
  | .newPeer p => (newPeer s p, {})
  | .donePeer p => (donePeer s p, {})
  | .peerHeight p h => ({ s with peers := updLast s.peers p h }, {})
  | .inv p id => (invMsg c s p id, {})
  | .headers p hs => let (s', ntf) := handleHeaders c s p hs; (s', { ntf := ntf })
  | .cfWrite stop n ok => cfWrite s stop n ok
  | .backlog h => (s, backlog s h)
  | .headersFailWrite p hs => let (s', ntf) := handleHeadersFailWrite c s p hs; (s', { ntf := ntf })
  | .importReset blocks nf => (importReset c s blocks nf, {})

def init (c : Cfg) (peers : List Peer) : State :=
  { peers := peers, ncp := findNextCp c.cps 0 }

def run (c : Cfg) (s : State) : List Ev → State
  | [] => s
  | e :: es => run c (step c s e).1 es

/-! ### the by-hash lookups of the header store across roll-backs

`blockHeaderStore` answers `FetchHeader` / `HeightFromHash` from the hash->height index, which
`WriteHeaders` extends and `RollbackLastBlock` cuts back together with the file: the model's
by-hash view is `idxOf log`.  `memoOn = true` is a store that additionally remembers every answer
it gave in a table that roll-backs do not touch ("the height of a block is determined by its
hash"); it is the shape a look-up cache takes and is here to show which clause it breaks. -/

structure MemoSt where
  log  : List Nat := [0]
  memo : List (Nat × Nat) := []
deriving Repr

inductive SOp where
  | write (hs : List Nat)
  | rollback
  | ask (id : Nat)
deriving Repr

def MemoSt.resolve (memoOn : Bool) (s : MemoSt) (id : Nat) : Option Nat :=
  match (if memoOn then s.memo.lookup id else none) with
  | some h => some h
  | none => idxOf s.log id

def sstep (memoOn : Bool) (s : MemoSt) : SOp → MemoSt
  | .write hs => { s with log := s.log ++ hs }
  | .rollback => { s with log := s.log.dropLast }
  | .ask id =>
    match s.resolve memoOn id with
    | some h => if memoOn then { s with memo := (id, h) :: s.memo } else s
    | none => s

def srun (memoOn : Bool) (s : MemoSt) : List SOp → MemoSt
  | [] => s
  | o :: os => srun memoOn (sstep memoOn s o) os

end Neutrino.BM
