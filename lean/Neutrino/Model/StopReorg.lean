/-
C17 (with C01/C08) — Stop while the block handler is inside the roll-back of a
reorganisation.

`rollBackToHeight` removes one header per iteration (highest first), handing a
Disconnected notification over after each; the hand-over has `quit` as its
alternative, the LOOP has not: once the reorganisation arm of
`handleHeadersMsg` has decided to roll back, the roll-back runs to the fork
point whatever happens to `quit`, and only then are the headers of the new
branch appended (`WriteHeaders` with the heights fork+1 …: positional append to
the flat file, index entries at the claimed heights - they agree iff the first
claimed height is the length of the file, as in `BM.State.write`).

The model makes the moment at which `quit` is closed an explicit argument
(`quitAt = some i`: closed before iteration `i` of the roll-back, `none`:
never), and has the design decision as a parameter:
`interruptible = false` is the code, `true` is a roll-back that returns `nil`
when it sees `quit` at the top of an iteration (its caller then carries on as if
the chain ended at the fork point).  Core Lean only.
-/
namespace Neutrino.StopReorg

structure Store where
  file    : List Nat        -- header ids in file order
  tip     : Nat             -- height of the index tip
  corrupt : Bool := false   -- some index entry names a height that is not the entry's file position
deriving DecidableEq, Repr

/-- the consistent store holding exactly the chain `c` (genesis first) -/
def ofChain (c : List Nat) : Store := { file := c, tip := c.length - 1 }

/-- one iteration of `rollBackToHeight`: the last header leaves file and index -/
def popOne (s : Store) : Store := { s with file := s.file.dropLast, tip := s.tip - 1 }

def quitSeen (quitAt : Option Nat) (iter : Nat) : Bool :=
  match quitAt with
  | some q => decide (q ≤ iter)
  | none => false

/-- `rollBackToHeight h`; `iter` counts the iterations done, `fuel` bounds the loop -/
def rollBackQ (interruptible : Bool) (h : Nat) (quitAt : Option Nat) : Nat → Nat → Store → Store
  | _, 0, s => s
  | iter, fuel + 1, s =>
    if h < s.tip then
      if interruptible && quitSeen quitAt iter then s
      else rollBackQ interruptible h quitAt (iter + 1) fuel (popOne s)
    else s

/-- `WriteHeaders` of `ids` claiming the heights `first`, `first+1`, … -/
def write (s : Store) (first : Nat) (ids : List Nat) : Store :=
  if ids = [] then s
  else { file := s.file ++ ids, tip := first + ids.length - 1,
         corrupt := s.corrupt || (first != s.file.length) }

/-- the reorganisation arm: roll back to the fork point `h`, then write the new branch at `h+1 …` -/
def reorgQ (interruptible : Bool) (s : Store) (h : Nat) (branch : List Nat) (quitAt : Option Nat) : Store :=
  write (rollBackQ interruptible h quitAt 0 s.file.length s) (h + 1) branch

/-- what C01 asks of the reopened stores: every index entry sits at its file position and the tip is the last one -/
def consistent (s : Store) : Bool := !s.corrupt && s.tip + 1 == s.file.length

end Neutrino.StopReorg
