/-
Model of `VerifyBasicBlockFilter` (verification.go), the function that decides
whether a served compact filter is "provably inconsistent with the block".
Core Lean only.

Scripts are atoms (`Nat`).  The filter is seen through its membership test
`mem : Nat → Option Bool` — `filter.Match(key, script)`; `none` is the error
return of `Match` (a filter whose bit stream cannot be decoded), which the Go
code turns into an error of the whole verification.  Golomb-coded sets have
false positives: nothing below assumes `mem s = some true` only for committed
scripts; the theorems that need it say so.

What the Go code looks at, per transaction of the block:

* index 0 (the coinbase) is skipped entirely;
* outputs: an empty script is skipped; a script starting with `OP_RETURN` is
  matched and only counted; every other script — parsable or not — must
  match, else the filter is rejected;
* inputs: without witness data they are skipped; `ComputePkScript` failing
  (unsupported script type, or any other error) skips the input; a computed
  previous script is matched, a `Match` error fails the verification, a
  mismatch is only logged.
-/
namespace Neutrino.VerifyFilter

inductive OutKind where
  | empty    -- len(PkScript) == 0
  | opret    -- PkScript[0] == OP_RETURN
  | ord      -- everything else (incl. scripts that do not parse)
deriving DecidableEq, Repr

structure Out where
  kind   : OutKind
  script : Nat
deriving DecidableEq, Repr

inductive InKind where
  | nowit         -- len(in.Witness) == 0
  | unsupported   -- ComputePkScript: ErrUnsupportedScriptType
  | failed        -- ComputePkScript: any other error
  | computed      -- the previous output script was reconstructed
deriving DecidableEq, Repr

structure In where
  kind   : InKind
  script : Nat
deriving DecidableEq, Repr

structure Tx where
  outs : List Out
  ins  : List In
deriving DecidableEq, Repr

/-- result of the verification: `none` = rejected (an error is returned), `some n` = accepted with `n`
OP_RETURN outputs matched -/
abbrev Res := Option Nat

/-- the output loop of one transaction; `acc` = OP_RETURN matches so far -/
def verifyOuts (mem : Nat → Option Bool) : List Out → Nat → Res
  | [], acc => some acc
  | o :: os, acc =>
    match o.kind with
    | .empty => verifyOuts mem os acc
    | .opret =>
      match mem o.script with
      | none => none
      | some true => verifyOuts mem os (acc + 1)
      | some false => verifyOuts mem os acc
    | .ord =>
      match mem o.script with
      | none => none
      | some false => none
      | some true => verifyOuts mem os acc

/-- the input loop of one transaction: `false` = a `Match` error ended the verification -/
def verifyIns (mem : Nat → Option Bool) : List In → Bool
  | [] => true
  | i :: is =>
    match i.kind with
    | .computed =>
      match mem i.script with
      | none => false
      | some _ => verifyIns mem is      -- a mismatch is only logged
    | _ => verifyIns mem is

/-- the transactions after the coinbase -/
def verifyTxs (mem : Nat → Option Bool) : List Tx → Nat → Res
  | [], acc => some acc
  | t :: ts, acc =>
    match verifyOuts mem t.outs acc with
    | none => none
    | some acc' => if verifyIns mem t.ins then verifyTxs mem ts acc' else none

/-- `VerifyBasicBlockFilter(filter, block)`: `txs` are ALL transactions of the block, coinbase first -/
def verify (mem : Nat → Option Bool) (txs : List Tx) : Res :=
  verifyTxs mem txs.tail 0

/-! ### what the property talks about -/

/-- the scripts BIP158 makes a basic filter commit to on the output side: non-empty, not OP_RETURN -/
def ordScripts (txs : List Tx) : List Nat :=
  txs.flatMap (fun t => (t.outs.filter (·.kind == .ord)).map (·.script))

/-- OP_RETURN output scripts -/
def opretScripts (txs : List Tx) : List Nat :=
  txs.flatMap (fun t => (t.outs.filter (·.kind == .opret)).map (·.script))

/-- scripts the verification hands to `Match` on the input side -/
def inScripts (txs : List Tx) : List Nat :=
  txs.flatMap (fun t => (t.ins.filter (·.kind == .computed)).map (·.script))

/-- "the filter omits an output script" of a non-coinbase transaction -/
def omitsOutput (mem : Nat → Option Bool) (txs : List Tx) : Bool :=
  (ordScripts txs.tail).any (fun s => mem s == some false)

/-- `Match` answers without error on every script the verification asks about -/
def errorFree (mem : Nat → Option Bool) (txs : List Tx) : Bool :=
  (ordScripts txs.tail ++ opretScripts txs.tail ++ inScripts txs.tail).all (fun s => (mem s).isSome)

/-- number of OP_RETURN outputs (non-coinbase) the filter matches -/
def opretMatches (mem : Nat → Option Bool) (txs : List Tx) : Nat :=
  ((opretScripts txs.tail).filter (fun s => mem s == some true)).length

end Neutrino.VerifyFilter
