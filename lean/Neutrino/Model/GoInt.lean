/-
Prelude of the Go→Lean translator (`extract/trans.go` → `Gen/Trans.lean`).  Core Lean only.

Go's machine integers as the translator renders them:
* signed integer types are `Int`; signed overflow is NOT modelled (idealisation: heights, sizes and
  counts stay below 2^31, see DESIGN §4);
* unsigned integer types are `Nat`, and every operation that can wrap is a NAMED operation of this
  file (`uadd w`, `usub w`, `umul w`, `toU w`) so that wrap-around is visible in the translated term
  and a theorem has to discharge "in range" explicitly (`usub_of_le`, `uadd_of_lt`, …);
* slices are `List`s, `*Struct` is `Option Struct`, types the translator does not look into
  (hashes, interface values, channels, …) are atoms (`Atom = Nat`: only equality is ever used);
* run-time panics are not modelled: an index out of range / a nil dereference yields the type's
  `default` (= Go's zero value) in the translated term, a division by zero yields 0.  Theorems about a translated function speak
  about the code on the inputs on which the code does not panic.
-/
namespace Neutrino.GoInt

abbrev Atom := Nat

/-- result of a translated loop whose body contains `return`: fell out of the loop with the
loop-carried state, or returned from the enclosing function -/
inductive Ctl (σ ρ : Type) where
  | fall (s : σ)
  | ret (r : ρ)

def len {α} (xs : List α) : Int := Int.ofNat xs.length

/-- `xs[i]` for a signed index (out of range: `default`, the code panics there) -/
def idx {α} [Inhabited α] (xs : List α) (i : Int) : α :=
  if i < 0 then default else xs.getD i.toNat default

/-- `xs[i]` for an unsigned index -/
def idxN {α} [Inhabited α] (xs : List α) (i : Nat) : α := xs.getD i default

/-- `*p` / `p.f` on a pointer (nil: `default`, the code panics there) -/
def deref {α} [Inhabited α] : Option α → α
  | some a => a
  | none => default

/-- the values of `i` in `for i := lo; i < hi; i++` -/
def rangeUp (lo hi : Int) : List Int := (List.range (hi - lo).toNat).map (fun k => lo + Int.ofNat k)
/-- the values of `i` in `for i := hi; i >= lo; i--` -/
def rangeDown (hi lo : Int) : List Int := (rangeUp lo (hi + 1)).reverse
/-- `for i := lo; i < hi; i++` with an unsigned counter -/
def rangeUpN (lo hi : Nat) : List Nat := (List.range (hi - lo)).map (fun k => lo + k)

/-- `for i, v := range xs` when the body uses the index -/
def enumFrom {α} : Int → List α → List (Int × α)
  | _, [] => []
  | i, x :: xs => (i, x) :: enumFrom (i + 1) xs
def enum {α} (xs : List α) : List (Int × α) := enumFrom 0 xs

/-- `xs[a:b]` -/
def slice {α} (xs : List α) (a b : Int) : List α := (xs.take b.toNat).drop a.toNat
/-- `xs[i] = v` -/
def setIdx {α} (xs : List α) (i : Int) (v : α) : List α := if i < 0 then xs else xs.set i.toNat v

/-! ### unsigned arithmetic, width `w` -/

def wrap (w n : Nat) : Nat := n % 2 ^ w
def uadd (w a b : Nat) : Nat := wrap w (a + b)
def usub (w a b : Nat) : Nat := if b ≤ a then a - b else wrap w (a + 2 ^ w - b)
def umul (w a b : Nat) : Nat := wrap w (a * b)
def ushl (w a n : Nat) : Nat := wrap w (a * 2 ^ n)
/-- conversion of a signed value to an unsigned type of width `w` (two's complement) -/
def toU (w : Nat) (x : Int) : Nat := (x % ((2 ^ w : Nat) : Int)).toNat

theorem wrap_of_lt {w n : Nat} (h : n < 2 ^ w) : wrap w n = n := Nat.mod_eq_of_lt h
theorem uadd_of_lt {w a b : Nat} (h : a + b < 2 ^ w) : uadd w a b = a + b := wrap_of_lt h
theorem usub_of_le {w a b : Nat} (h : b ≤ a) : usub w a b = a - b := by simp [usub, h]
theorem umul_of_lt {w a b : Nat} (h : a * b < 2 ^ w) : umul w a b = a * b := wrap_of_lt h
/-- the wrap-around case, spelled out: `a - b` on `uint<w>` with `a < b` -/
theorem usub_of_lt {w a b : Nat} (h : a < b) (hb : b ≤ 2 ^ w) : usub w a b = a + 2 ^ w - b := by
  have : ¬ b ≤ a := by omega
  simp only [usub, this, ↓reduceIte]
  exact wrap_of_lt (by omega)
theorem toU_of_nonneg {w : Nat} {x : Int} (h0 : 0 ≤ x) (h : x < ((2 ^ w : Nat) : Int)) : toU w x = x.toNat := by
  unfold toU
  rw [Int.emod_eq_of_lt h0 h]

/-! ### bit operations on signed values (two's complement, arbitrary precision) -/

def iand : Int → Int → Int
  | .ofNat a, .ofNat b => .ofNat (a &&& b)
  | .ofNat a, .negSucc b => .ofNat (a ^^^ (a &&& b))
  | .negSucc a, .ofNat b => .ofNat (b ^^^ (b &&& a))
  | .negSucc a, .negSucc b => .negSucc (a ||| b)

def ior : Int → Int → Int
  | .ofNat a, .ofNat b => .ofNat (a ||| b)
  | .ofNat a, .negSucc b => .negSucc (b ^^^ (b &&& a))
  | .negSucc a, .ofNat b => .negSucc (a ^^^ (a &&& b))
  | .negSucc a, .negSucc b => .negSucc (a &&& b)

theorem iand_ofNat (a b : Nat) : iand (Int.ofNat a) (Int.ofNat b) = Int.ofNat (a &&& b) := rfl
theorem iand_natCast (a b : Nat) : iand (a : Int) (b : Int) = ((a &&& b : Nat) : Int) := rfl

/-! ### lists -/

@[simp] theorem deref_some {α} [Inhabited α] (a : α) : deref (some a) = a := rfl
@[simp] theorem len_nil {α} : len ([] : List α) = 0 := rfl
theorem len_eq {α} (xs : List α) : len xs = (xs.length : Int) := rfl
theorem len_nonneg {α} (xs : List α) : 0 ≤ len xs := Int.natCast_nonneg _
theorem len_eq_zero {α} {xs : List α} : len xs = 0 ↔ xs = [] := by
  cases xs <;> simp [len]
  omega

theorem idx_natCast {α} [Inhabited α] (xs : List α) (n : Nat) : idx xs (n : Int) = xs.getD n default := by
  unfold idx
  have : ¬ ((n : Int) < 0) := by omega
  simp only [this, ↓reduceIte, Int.toNat_natCast]

theorem rangeUp_zero_natCast (n : Nat) : rangeUp 0 (n : Int) = (List.range n).map (fun (k : Nat) => (k : Int)) := by
  unfold rangeUp
  simp

/-- `for i := 0; i < len(xs); i++ { … xs[i] … }` visits the elements of `xs` in order -/
theorem map_idx_rangeUp {α} [Inhabited α] (xs : List α) : (rangeUp 0 (len xs)).map (idx xs) = xs := by
  rw [len_eq, rangeUp_zero_natCast, List.map_map]
  apply List.ext_getElem
  · simp
  · intro i h1 h2
    simp only [List.length_map, List.length_range] at h1
    simp [idx_natCast, h1]

/-- `for i := len(xs)-1-k; i >= 0; i-- { … xs[i] … }` visits `xs` without its last `k` elements,
back to front -/
theorem map_idx_rangeDown {α} [Inhabited α] (xs : List α) (k : Nat) :
    (rangeDown (len xs - 1 - (k : Int)) 0).map (idx xs) = (xs.take (xs.length - k)).reverse := by
  unfold rangeDown
  have h : len xs - 1 - (k : Int) + 1 = (((xs.length - k : Nat)) : Int) ∨ xs.length < k := by
    rw [len_eq]; omega
  rcases h with h | h
  · rw [h, rangeUp_zero_natCast, ← List.map_reverse, List.map_map]
    rw [List.map_reverse]
    congr 1
    apply List.ext_getElem
    · simp
    · intro i h1 h2
      simp only [List.length_map, List.length_range] at h1
      simp only [List.getElem_map, List.getElem_range, Function.comp_apply, idx_natCast, List.getElem_take]
      have : i < xs.length := by omega
      simp [this]
  · have h0 : xs.length - k = 0 := by omega
    have h1 : (len xs - 1 - (k : Int) + 1 - 0).toNat = 0 := by rw [len_eq]; omega
    have h2 : len xs - 1 - (k : Int) + 1 ≤ 0 := by rw [len_eq]; omega
    simp [rangeUp, h0, h2]

/-! ### maps as association lists (lookups only; iteration order is never observed) -/

def mlookup {κ ν} [BEq κ] [Inhabited ν] (m : List (κ × ν)) (k : κ) : ν :=
  match m.find? (fun e => e.1 == k) with
  | some e => e.2
  | none => default
def mhas {κ ν} [BEq κ] (m : List (κ × ν)) (k : κ) : Bool := m.any (fun e => e.1 == k)
def merase {κ ν} [BEq κ] (m : List (κ × ν)) (k : κ) : List (κ × ν) := m.filter (fun e => !(e.1 == k))
def minsert {κ ν} [BEq κ] (m : List (κ × ν)) (k : κ) (v : ν) : List (κ × ν) := (k, v) :: merase m k

end Neutrino.GoInt
