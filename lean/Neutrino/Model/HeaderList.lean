/-
Model of headerlist/bounded_header_list.go + header_list.go: the bounded ring
`BoundedMemoryChain` (`PushBack`, `ResetHeaderState`, `Back`) and `Node.Prev`,
`Node.Ancestor`, `buildAncestor`, `getAncestorHeight`.  Core Lean only.

The Go nodes live IN the slots of `chain []Node` and point at each other with `*Node`
pointers into that slice: a pointer denotes a SLOT, and sees whatever node lives there now.
The model keeps exactly that: `prev` / `anc` are slot indices, slots are reused when the ring
wraps, nothing is cleared on reset (only the indices).  `(i+1) % maxSize` for `i < maxSize` is
written `next` (no `%`, so that `omega` can reason about it).
-/
namespace Neutrino.HL

structure Slot where
  height : Nat := 0
  id     : Nat := 0
  prev   : Option Nat := none
  anc    : Option Nat := none
deriving Repr, Inhabited

structure Ring where
  cap   : Nat
  slots : Nat → Slot := fun _ => {}
  head  : Option Nat := none      -- `headPtr` (-1 = none)
  tail  : Option Nat := none      -- `tailPtr`
  len   : Nat := 0

/-- `invertLowestOne n = n & (n - 1)` -/
def lowOff (n : Nat) : Nat := n &&& (n - 1)
/-- `getAncestorHeight` -/
def gah (h : Nat) : Nat := lowOff (lowOff h)

/-- `(i + 1) % cap` for `i < cap` -/
def next (cap i : Nat) : Nat := if i + 1 = cap then 0 else i + 1

def upd (f : Nat → Slot) (i : Nat) (g : Slot → Slot) : Nat → Slot := fun j => if j = i then g (f j) else f j

/-- the loop of `Node.Ancestor` (fuel bounds it; each step moves to a lower height) -/
def ancLoop (r : Ring) : Nat → Option Nat → Nat → Option Nat
  | 0, _, _ => none
  | _ + 1, none, _ => none
  | f + 1, some i, h =>
    let n := r.slots i
    if n.height = h then some i
    else match n.anc with
      | some a =>
        if gah n.height ≥ h ∧ (r.slots a).height ≥ h ∧ (r.slots a).height < n.height
        then ancLoop r f (some a) h
        else ancLoop r f n.prev h
      | none => ancLoop r f n.prev h

/-- `Node.Ancestor(height)` starting at slot `i` -/
def ancestor (r : Ring) (i : Option Nat) (h : Nat) : Option Nat :=
  match i with
  | none => none
  | some i => if h > (r.slots i).height then none else ancLoop r (r.cap + 1) (some i) h

/-- `PushBack` up to (not including) `buildAncestor` -/
def pushRaw (r : Ring) (height id : Nat) : Ring :=
  let prevElem := if r.cap = 1 then none else r.tail
  let t' := match r.tail with
    | none => 0
    | some t => next r.cap t
  let moveHead := match r.head with
    | none => true
    | some hd => decide (t' ≤ hd)
  let head' := if moveHead then some (match r.head with | none => 0 | some hd => next r.cap hd) else r.head
  let slots1 := if moveHead then upd r.slots (head'.getD 0) (fun s => { s with prev := none }) else r.slots
  let slots2 := upd slots1 t' (fun _ => { height := height, id := id, prev := prevElem, anc := none })
  { r with slots := slots2, head := head', tail := some t', len := min (r.len + 1) r.cap }

/-- `buildAncestor` for the node just pushed -/
def build (r : Ring) : Ring :=
  match r.tail with
  | none => r
  | some t =>
    match (r.slots t).prev with
    | none => r
    | some pe =>
      let a := ancestor r (some pe) (gah (r.slots t).height)
      { r with slots := upd r.slots t (fun s => { s with anc := a }) }

def push (r : Ring) (height id : Nat) : Ring := build (pushRaw r height id)

def reset (r : Ring) (height id : Nat) : Ring := push { r with head := none, tail := none, len := 0 } height id

inductive Op where
  | reset (height id : Nat)
  | push (height id : Nat)
deriving Repr

def step (r : Ring) : Op → Ring
  | .reset h i => reset r h i
  | .push h i => push r h i

def run (r : Ring) : List Op → Ring
  | [] => r
  | o :: os => run (step r o) os

/-- the slot reached from the back by `k` times `Prev` -/
def nthPrev (r : Ring) : Nat → Option Nat → Option Nat
  | 0, i => i
  | _ + 1, none => none
  | k + 1, some i => nthPrev r k (r.slots i).prev

/-! ### the abstract list the block-manager model uses (`hlPush` / `hlReset`) -/

structure ANode where
  id     : Nat
  height : Nat
deriving DecidableEq, Repr

/-- newest first, at most `cap` nodes -/
def specStep (cap : Nat) (l : List ANode) : Op → List ANode
  | .reset h i => [⟨i, h⟩]
  | .push h i => (⟨i, h⟩ :: l).take cap

def specRun (cap : Nat) (l : List ANode) : List Op → List ANode
  | [] => l
  | o :: os => specRun cap (specStep cap l o) os

/-- what `Ancestor(h)` from the `k`-th node must return: the live node of that height at or
behind `k`, nothing otherwise - never anything else -/
def specAncestor (l : List ANode) (k h : Nat) : Option ANode := (l.drop k).find? (fun n => n.height == h)

end Neutrino.HL
