/-
Model of query/worker.go `(*worker).Run`.  Core Lean only.

One `step` = the worker goroutine taking one arm of the select it is parked in:

  idle       `select { job = <-nextJob | <-msgChan (ignored) | <-OnDisconnect (return) | <-quit (return) }`
  pre-check  `select { <-job.cancelChan | <-job.internalCancelChan | default: QueueMessage }`   (part of the `job` event:
             the event says which arm the runtime took; `default` is only possible when neither channel is ready)
  waiting    `select { resp := <-msgChan ⇒ HandleResp | <-timeout.C | <-OnDisconnect | <-job.cancelChan |
                       <-job.internalCancelChan | <-quit }`
  reporting  `select { results <- jobResult | <-quit }`, then `return` after ErrPeerDisconnected.

How the job-holding arms END (fall into the wait loop / leave it with a result / something else) is a parameter
`Arms`, instantiated from the facts regenerated from the source (`Arms.ofSource`); an arm that does anything else
abandons the job without a result (`dropped`).
-/
import Neutrino.Model.Dispatcher
import Neutrino.Gen.Worker
namespace Neutrino.Wrk
open Neutrino.Disp (Err)

structure Arms where
  preExt        : Bool   -- pre-check arm on job.cancelChan leads into the wait loop
  preInt        : Bool   -- pre-check arm on job.internalCancelChan leads into the wait loop
  preDefault    : Bool   -- default arm queues the request and goes on to the wait loop
  waitFinished  : Bool   -- a finished response leaves the loop with a nil result
  waitTimeout   : Bool   -- the timer arm leaves the loop with ErrQueryTimeout
  waitDisc      : Bool   -- the OnDisconnect arm leaves the loop with ErrPeerDisconnected
  waitExt       : Bool   -- the cancelChan arm leaves the loop with ErrJobCanceled
  waitInt       : Bool   -- the internalCancelChan arm leaves the loop with ErrJobCanceled
  exitAfterDisc : Bool   -- Run returns after handing off ErrPeerDisconnected
deriving DecidableEq, Repr

def Arms.good : Arms := ⟨true, true, true, true, true, true, true, true, true⟩

def Arms.ofSource : Arms :=
  ⟨Gen.Worker.preExtCancelToWait, Gen.Worker.preIntCancelToWait, Gen.Worker.preDefaultSends,
   Gen.Worker.waitFinishedReports, Gen.Worker.waitTimeoutReports, Gen.Worker.waitDisconnectReports,
   Gen.Worker.waitExtCancelReports, Gen.Worker.waitIntCancelReports, Gen.Worker.exitAfterDisconnect⟩

inductive Phase where
  | idle
  | waiting (job : Nat) (sent : Bool)
  | reporting (job : Nat) (e : Err)
  | exited (byQuit : Bool)
deriving DecidableEq, Repr

structure State where
  phase    : Phase := .idle
  accepted : List Nat := []            -- jobs read from nextJob, in order
  reported : List (Nat × Err) := []    -- results taken by the dispatcher, in order
  sent     : List Nat := []            -- requests queued to the peer
  lost     : List Nat := []            -- ghost: job in hand when quit was seen
  dropped  : List Nat := []            -- ghost: jobs abandoned without a result by an arm that does not end as `Arms.good`
deriving Repr

/-- which arm of the pre-check select the runtime took -/
inductive Pre where
  | ext | int | none
deriving DecidableEq, Repr

/-- what the request's handler says about a message -/
inductive Resp where
  | finished | progressed | nothing
deriving DecidableEq, Repr

inductive Ev where
  | job (j : Nat) (pre : Pre)
  | msg (r : Resp)
  | timeout
  | disconnect
  | cancelExt
  | cancelInt
  | deliver
  | quit
deriving DecidableEq, Repr

/-- leave the wait loop with `e` if the arm does so, otherwise the job is abandoned -/
def leave (s : State) (ok : Bool) (j : Nat) (e : Err) : State :=
  if ok then { s with phase := .reporting j e }
  else { s with phase := .idle, dropped := s.dropped ++ [j] }

def step (a : Arms) (s : State) (ev : Ev) : State :=
  match s.phase with
  | .idle =>
    match ev with
    | .job j pre =>
      let s1 := { s with accepted := s.accepted ++ [j] }
      match pre with
      | .ext => if a.preExt then { s1 with phase := .waiting j false }
                else { s1 with dropped := s1.dropped ++ [j] }
      | .int => if a.preInt then { s1 with phase := .waiting j false }
                else { s1 with dropped := s1.dropped ++ [j] }
      | .none => if a.preDefault then { s1 with phase := .waiting j true, sent := s1.sent ++ [j] }
                 else { s1 with dropped := s1.dropped ++ [j] }
    | .msg _ => s
    | .disconnect => { s with phase := .exited false }
    | .quit => { s with phase := .exited true }
    | _ => s
  | .waiting j _ =>
    match ev with
    | .msg .finished => leave s a.waitFinished j .ok
    | .msg _ => s
    | .timeout => leave s a.waitTimeout j .timeout
    | .disconnect => leave s a.waitDisc j .disconnected
    | .cancelExt => leave s a.waitExt j .canceled
    | .cancelInt => leave s a.waitInt j .canceled
    | .quit => { s with phase := .exited true, lost := s.lost ++ [j] }
    | _ => s
  | .reporting j e =>
    match ev with
    | .deliver =>
      { s with reported := s.reported ++ [(j, e)],
               phase := if e = .disconnected ∧ a.exitAfterDisc = true then .exited false else .idle }
    | .quit => { s with phase := .exited true, lost := s.lost ++ [j] }
    | _ => s
  | .exited _ => s

def run (a : Arms) (s : State) : List Ev → State
  | [] => s
  | e :: es => run a (step a s e) es

def init : State := {}

/-- the job the worker holds -/
def inflight (s : State) : List Nat :=
  match s.phase with
  | .waiting j _ => [j]
  | .reporting j _ => [j]
  | _ => []

end Neutrino.Wrk
