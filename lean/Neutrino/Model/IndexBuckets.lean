import Neutrino.Model.Store
/-
The bbolt layout behind `Db.idx` (headerfs/index.go): hash ↦ height entries
live either directly in the root bucket (the place older versions used; such
databases are still read and rolled back) or in a sub-bucket named by the first
`numSubBucketBytes` bytes of the hash (where every new entry goes).

  * `putHeaderEntry`     — always into the sub-bucket, created on demand;
  * `getHeaderEntry`     — sub-bucket first, then the root bucket, both when the
                           sub-bucket is missing and when it lacks the key;
  * `deleteHeaderEntries`— classify every hash on the state before the call
                           (`len(root.Get(h)) == 4` ⇒ root), delete the root ones,
                           then the others from their sub-buckets; a missing
                           sub-bucket is an error (the transaction is rolled back).

`pre` is the bucket name of an id (the hash prefix).  Buckets are total maps
here (`none` = no such key / no such bucket); Core Lean only.
-/
namespace Neutrino.Store

structure Buckets where
  root : Nat → Option Nat
  sub  : Nat → Option (Nat → Option Nat)

def Buckets.empty : Buckets := { root := fun _ => none, sub := fun _ => none }

/-- `getHeaderEntry` -/
def Buckets.get (pre : Nat → Nat) (b : Buckets) (id : Nat) : Option Nat :=
  match b.sub (pre id) with
  | none => b.root id
  | some es =>
    match es id with
    | some h => some h
    | none => b.root id

/-- `putHeaderEntry` -/
def Buckets.put (pre : Nat → Nat) (b : Buckets) (id h : Nat) : Buckets :=
  let es : Nat → Option Nat := match b.sub (pre id) with | some es => es | none => fun _ => none
  { b with sub := fun p => if p = pre id then some (fun j => if j = id then some h else es j) else b.sub p }

def Buckets.inRoot (b : Buckets) (id : Nat) : Bool := (b.root id).isSome

def Buckets.delRoot (b : Buckets) (ids : List Nat) : Buckets :=
  { b with root := fun j => if j ∈ ids then none else b.root j }

/-- the sub-bucket phase of `deleteHeaderEntries`; `none` = "sub-bucket for prefix not found" -/
def Buckets.delSub (pre : Nat → Nat) (b : Buckets) : List Nat → Option Buckets
  | [] => some b
  | id :: rest =>
    match b.sub (pre id) with
    | none => none
    | some es =>
      Buckets.delSub pre
        { b with sub := fun p => if p = pre id then some (fun j => if j = id then none else es j) else b.sub p } rest

/-- `deleteHeaderEntries` -/
def Buckets.delEntries (pre : Nat → Nat) (b : Buckets) (ids : List Nat) : Option Buckets :=
  (b.delRoot (ids.filter b.inRoot)).delSub pre (ids.filter (fun id => !b.inRoot id))

/-- `addHeaders`' loop -/
def Buckets.putAll (pre : Nat → Nat) (b : Buckets) : List Nat → Nat → Buckets
  | [], _ => b
  | id :: rest, h => Buckets.putAll pre (b.put pre id h) rest (h + 1)

/-- `ensureIndexSubBuckets` (run by `newHeaderIndex` on every open): every prefix gets its bucket -/
def Buckets.ensure (b : Buckets) : Buckets :=
  { b with sub := fun p => match b.sub p with | some es => some es | none => some (fun _ => none) }

/-- every sub-bucket exists -/
def Buckets.Ready (b : Buckets) : Prop := ∀ p, b.sub p ≠ none

/-- `addHeaders`' loop as written: a missing sub-bucket is a hard error -/
def Buckets.addAll (pre : Nat → Nat) (b : Buckets) : List Nat → Nat → Option Buckets
  | [], _ => some b
  | id :: rest, h =>
    match b.sub (pre id) with
    | none => none
    | some _ => Buckets.addAll pre (b.put pre id h) rest (h + 1)

/-- no hash is stored in both places -/
def Buckets.Disjoint (pre : Nat → Nat) (b : Buckets) : Prop :=
  ∀ id es h, b.sub (pre id) = some es → es id = some h → b.root id = none

/-- the abstract index `db` answers every lookup like the bucket layout `b` -/
def Buckets.Refines (pre : Nat → Nat) (b : Buckets) (db : Db) : Prop :=
  ∀ id, b.get pre id = db.height? id

end Neutrino.Store
