/-
C17 — the hand-written, reviewed discharge table: blocking sites that have neither
a `default` nor a quit alternative closed in time, each with the reason why a
goroutine cannot stay parked there for ever once `Stop` runs.  An entry covers
every site of function `fn` one of whose alternatives is the channel `chan`
(names exactly as in `Gen.StopSites.sites`).  `C17_discharge_used` proves that no
entry is stale; a new site that matches no entry makes `C17_sites_partial` fail.

`knownBlocking` are the sites that were examined and are NOT harmless: they are
recorded findings (known-findings.txt) and are carried explicitly by the
partial theorem.
-/
import Neutrino.Model.Shutdown
namespace Neutrino.Shutdown
open Neutrino.Gen.StopSites

def rOwnWait := "the Wait of a Stop method itself: the quit channel is closed before it (C17_close_before_wait) and every site of the goroutines counted in this group is a row of this table"
def rReplyRecv := "reached only after peerHandler's MAIN loop accepted the request (the drain loop cannot accept it: every sender also selects on ChainService.quit, close(quit) decides every parked select before the drain loop starts, and nobody parks on a closed quit); handleQuery replies exactly once on every path for this message type"
def rReplySend := "reply to a requester that is parked in a bare receive on this channel right after its request was accepted (see the requester's row): the send always finds its receiver"
def rBuf1 := "send on a channel created with capacity 1 for this request/batch; exactly one send is made per channel (every send is followed by removing the batch/request from the pending set)"
def rPeerHandlerLive := "the counterpart is peerHandler's main loop, which keeps serving this channel until ChainService.quit is closed — the last step before the final Wait, i.e. after every earlier Wait that could be waiting for this goroutine"
def rWorkMgrVerdict := "errChan is the capacity-1 verdict channel of workManager.Query: the dispatcher answers every accepted batch exactly once, at the latest from its deferred loop when it exits (ErrWorkManagerShuttingDown), and Query answers at once when the work manager's quit is closed. When this runs on the UTXO scanner's goroutine the other alternative, ChainService.quit, closes too late; the release relies on workManager.Stop preceding utxoScanner.Stop (C17_stop_order)"
def rCondStop := "Stop re-signals this condition every 50 ms until the waiting goroutine has exited (C17_cond_wakers); after every wake-up the loop polls the quit channel (next row, has default)"

def discharge : List Discharge := [
  -- Waits of the Stop methods (and of the public WaitForShutdown)
  ⟨N.«ChainService.Stop», N.«ChainService.wg», rOwnWait⟩,
  ⟨N.«blockManager.Stop», N.«blockManager.wg», rOwnWait⟩,
  ⟨N.«query.peerWorkManager.Stop», N.«query.peerWorkManager.wg», rOwnWait⟩,
  ⟨N.«pushtx.Broadcaster.Stop», N.«pushtx.Broadcaster.wg», rOwnWait ++ "; the handler may be inside cfg.Broadcast (queryAllPeers), which is bounded by timeout x retries"⟩,
  ⟨N.«blockntfns.SubscriptionManager.Stop», N.«blockntfns.SubscriptionManager.wg», rOwnWait⟩,
  ⟨N.«blockntfns.SubscriptionManager.Stop», N.«wg», "waits for one newSubscription.cancel per subscriber, each of which terminates (row blockntfns.newSubscription.cancel)"⟩,
  ⟨N.«blockntfns.newSubscription.cancel», N.«blockntfns.newSubscription.wg», "waits for the forwarder goroutine started by NewSubscription; newSubscription.quit is closed on the line before and every select of the forwarder has that alternative"⟩,
  ⟨N.«chanutils.BatchWriter.Stop», N.«chanutils.BatchWriter.wg», rOwnWait⟩,
  ⟨N.«Rescan.WaitForShutdown», N.«Rescan.wg», "documented to be called after the caller closed its quit channel; the rescan goroutine's selects are rows of this table"⟩,
  ⟨N.«blockManager.Stop», N.«done», "helper goroutine: the 50 ms ticker alternative always fires; `done` is closed by Stop right after wg.Wait"⟩,
  ⟨N.«UtxoScanner.Stop», N.«UtxoScanner.shutdown», "the time.After(50 ms) alternative always fires; the loop ends when batchManager returns (defer close(shutdown)); batchManager polls quit before and after every callback — the callbacks themselves are the rows ChainService.GetBlock / GetCFilter below"⟩,
  ⟨N.«ChainService.GetBlock», N.«errChan», rWorkMgrVerdict⟩,
  ⟨N.«ChainService.GetCFilter», N.«errChan», rWorkMgrVerdict ++ "; GetCFilter holds mtxCFilter while it waits, so callers queued on that mutex are released with it"⟩,
  -- condition variables
  ⟨N.«blockManager.cfHandler», N.«blockManager.newHeadersSignal», rCondStop⟩,
  ⟨N.«UtxoScanner.batchManager», N.«UtxoScanner.cv», rCondStop⟩,
  -- request/reply with peerHandler
  ⟨N.«ChainService.ConnectedCount», N.«replyChan», rReplyRecv⟩,
  ⟨N.«ChainService.OutboundGroupCount», N.«replyChan», rReplyRecv⟩,
  ⟨N.«ChainService.AddedNodeInfo», N.«replyChan», rReplyRecv⟩,
  ⟨N.«ChainService.Peers», N.«replyChan», rReplyRecv⟩,
  ⟨N.«ChainService.DisconnectNodeByAddr», N.«replyChan», rReplyRecv⟩,
  ⟨N.«ChainService.DisconnectNodeByID», N.«replyChan», rReplyRecv⟩,
  ⟨N.«ChainService.RemoveNodeByAddr», N.«replyChan», rReplyRecv⟩,
  ⟨N.«ChainService.RemoveNodeByID», N.«replyChan», rReplyRecv⟩,
  ⟨N.«ChainService.ConnectNode», N.«replyChan», rReplyRecv⟩,
  ⟨N.«ChainService.ConnectedPeers», N.«replyChan», "reply channel has capacity 1 and peerHandler replies exactly once; runs on the work dispatcher, which is waited for before ChainService.quit closes: " ++ rPeerHandlerLive⟩,
  ⟨N.«ChainService.handleQuery», N.«getConnCountMsg.reply», rReplySend⟩,
  ⟨N.«ChainService.handleQuery», N.«getPeersMsg.reply», rReplySend⟩,
  ⟨N.«ChainService.handleQuery», N.«connectNodeMsg.reply», rReplySend⟩,
  ⟨N.«ChainService.handleQuery», N.«removeNodeMsg.reply», rReplySend⟩,
  ⟨N.«ChainService.handleQuery», N.«getOutboundGroup.reply», rReplySend⟩,
  ⟨N.«ChainService.handleQuery», N.«getAddedNodesMsg.reply», rReplySend⟩,
  ⟨N.«ChainService.handleQuery», N.«disconnectNodeMsg.reply», rReplySend⟩,
  -- requests served by peerHandler from goroutines that are waited for before ChainService.quit closes
  ⟨N.«ChainService.ConnectedPeers», N.«ChainService.query», rPeerHandlerLive⟩,
  ⟨N.«ChainService.Peers», N.«ChainService.query», rPeerHandlerLive⟩,
  ⟨N.«ChainService.UpdatePeerHeights», N.«ChainService.peerHeightsUpdate», rPeerHandlerLive⟩,
  -- queryAllPeers
  ⟨N.«ChainService.queryAllPeers», N.«timeout», "per-peer goroutine: the `timeout` alternative (time.After(qo.timeout)) fires in every one of the numRetries iterations"⟩,
  ⟨N.«ChainService.queryAllPeers», N.«wg», "detached helper waiting for the per-peer goroutines, each bounded by numRetries x timeout (previous row)"⟩,
  ⟨N.«ChainService.queryAllPeers», N.«allQuit», "allQuit is closed by the helper goroutine as soon as the per-peer goroutines have finished (bounded by numRetries x timeout)"⟩,
  ⟨N.«delayedCloser.closeEventually», N.«time.After()», "the time.After(timeout) alternative always fires"⟩,
  -- rescan
  ⟨N.«rescanState.rescan», N.«blockntfns.Subscription.Notifications», "SubscriptionManager.Stop cancels every subscriber, which closes its Notifications channel; the receive then yields !ok and the rescan returns an error (the caller's own quit is an additional alternative)"⟩,
  ⟨N.«rescanState.waitForBlocks», N.«blockntfns.Subscription.Notifications», "as above: closed by SubscriptionManager.Stop, the function returns an error"⟩,
  ⟨N.«Rescan.Update», N.«Rescan.running», "the rescan goroutine closes `running` when it returns (which Stop forces, rows above)"⟩,
  -- peers
  ⟨N.«ServerPeer.OnRead», N.«spMsgSubscription.quitChan», "one short-lived goroutine per message; quitChan is queryAllPeers' allQuit, closed when that query ends (bounded, rows above)"⟩,
  ⟨N.«ServerPeer.OnRead», N.«msgSubscription.quitChan», "one short-lived goroutine per message; quitChan is closed by the worker's `defer cancel()` when worker.Run returns, which the work manager's quit forces"⟩,
  -- subscription manager
  ⟨N.«blockntfns.SubscriptionManager.cancelSubscription», N.«blockntfns.SubscriptionManager.cancelSubscriptions», "called from the broadcaster's handler on exit, i.e. before the subscription manager stops: the subscription handler is running and always returns to its select (notifySubscriber never parks: the subscriber queue is unbounded)"⟩,
  -- batch writer
  ⟨N.«chanutils.BatchWriter.AddItem», N.«chanutils.BatchWriter.queue.ChanIn()», "the queue goroutine receives ChanIn into an unbounded overflow list until queue.Stop, which BatchWriter.Stop calls last; the only caller (cfilter response handler) runs on worker goroutines, which workManager.Stop has waited for BEFORE filterBatchWriter.Stop (C17_stop_order). As a stand-alone component AddItem after Stop blocks for ever"⟩]

/-! ### Discharge by capacity (`Gen.StopSites.chanMakes`)

A send that has no alternative released in time may still be unable to park: the channel was created with room for
every send that can ever be made on it.  Such an entry is only as good as the `make(chan …)` it speaks about, so it
names that creation and the capacity it relies on, and `C17_capacity_checked` compares both with the regenerated
rows on every run: the capacity of the creation in `makeFn` (found under the local name it gets there or under the
struct field it is stored in), the capacity of EVERY creation of a channel stored in the struct field named at the
site, and the number of send statements on that channel in the site's function.  What remains reviewed prose is the
bound on the number of sends (`reason`). -/

structure CapDischarge where
  /-- function of the blocking site(s) -/
  fn : Nat
  /-- the channel as named at the site -/
  chan : Nat
  /-- the function that creates the channel -/
  makeFn : Nat
  /-- the channel as named where it is created: the local variable, or a struct field it is stored in there -/
  makeChan : Nat
  /-- the capacity the reason relies on, in the canonical spelling of `Gen.StopSites.chanMakes` -/
  cap : String
  /-- number of send statements on `chan` in `fn` that the review looked at -/
  sendSites : Nat
  /-- why at most `cap` sends are ever made on one such channel -/
  reason : String

def capDischarge : List CapDischarge := [
  -- checkpointed filter-header sync: the per-response callback runs on a WORKER goroutine, so its quit alternative
  -- (blockManager.quit, closed by blockManager.Stop) comes too late for workManager.Stop, which is called earlier
  ⟨N.«checkpointedCFHeadersQuery.handleResponse», N.«checkpointedCFHeadersQuery.headerChan»,
     N.«blockManager.getCheckpointedCFHeaders», N.«checkpointedCFHeadersQuery.headerChan», "len(«checkpointedCFHeadersQuery.msgs»)", 1,
     "one slot per request of the query: requests() makes one query.Request per element of msgs, a request is finished (and removed from the batch) by the first response for which the callback returns Finished, and the send is made only on that path — so at most len(msgs) sends, none of which can park, whether or not the writer is still taking responses"⟩,
  -- peerHandler
  ⟨N.«ChainService.handleQuery», N.«subConnPeersMsg.reply», N.«ChainService.ConnectedPeers», N.«subConnPeersMsg.reply», "1", 1,
     "the requester (ConnectedPeers) creates the channel for one request, and handleQuery answers a request once"⟩,
  ⟨N.«ChainService.handleQuery», N.«peerChan», N.«ChainService.handleQuery», N.«peerChan», "‹*peerState›.Count()", 1,
     "created two lines above the loop; the loop (state.forAllPeers) sends at most once per peer in the state, and Count() is the number of peers in the state"⟩,
  -- work manager
  ⟨N.«query.peerWorkManager.workDispatcher», N.«b.errChan», N.«query.peerWorkManager.Query», N.«query.batch.errChan», "1", 1,
     rBuf1 ++ "; deferred loop over the batches still pending"⟩,
  ⟨N.«query.peerWorkManager.workDispatcher», N.«bp.errChan», N.«query.peerWorkManager.Query», N.«query.batch.errChan», "1", 1, rBuf1⟩,
  ⟨N.«query.peerWorkManager.workDispatcher», N.«batch.errChan», N.«query.peerWorkManager.Query», N.«query.batch.errChan», "1", 4, rBuf1⟩,
  ⟨N.«query.peerWorkManager.Query», N.«errChan», N.«query.peerWorkManager.Query», N.«errChan», "1", 1,
     "first send on the channel created a few lines above; the batch was not handed to the dispatcher on this path"⟩,
  -- rescan
  ⟨N.«Rescan.Start», N.«errChan», N.«Rescan.Start», N.«errChan», "1", 2, "created by Start; one send on each of the two paths"⟩,
  -- broadcaster
  ⟨N.«pushtx.Broadcaster.broadcastHandler», N.«rebroadcastSem», N.«pushtx.Broadcaster.broadcastHandler», N.«rebroadcastSem», "1", 2,
     "semaphore: filled once at start, and returned only by the rebroadcast goroutine that took the token"⟩,
  ⟨N.«pushtx.Broadcaster.broadcastHandler», N.«pushtx.broadcastReq.errChan», N.«pushtx.Broadcaster.Broadcast», N.«pushtx.broadcastReq.errChan», "1", 2,
     "Broadcast creates it for one request and the handler answers each request once (the two sends are on exclusive paths)"⟩,
  -- subscription manager
  ⟨N.«blockntfns.SubscriptionManager.subscriptionHandler», N.«blockntfns.newSubscription.errChan»,
     N.«blockntfns.SubscriptionManager.NewSubscription», N.«blockntfns.newSubscription.errChan», "1", 1,
     "NewSubscription creates it with the subscription; one registration per subscription"⟩]

def CapDischarge.toDischarge (d : CapDischarge) : Discharge :=
  ⟨d.fn, d.chan, "capacity " ++ d.cap ++ " covers every send: " ++ d.reason⟩

/-- the `make(chan …)` rows an entry speaks about: the creation in `makeFn` under the name `makeChan` -/
def CapDischarge.makeRows (d : CapDischarge) : List ChanMake :=
  chanMakes.filter (fun m => m.fn == d.makeFn && (m.name == d.makeChan || m.flows.contains d.makeChan))

/-- every creation, anywhere, of a channel that is stored in the struct field named at the site -/
def CapDischarge.sameFieldRows (d : CapDischarge) : List ChanMake :=
  chanMakes.filter (fun m => (m.field && m.name == d.chan) || m.flows.contains d.chan)

/-- number of send statements on `ch` in `fn` (select alternatives included) -/
def sendCount (fn ch : Nat) : Nat :=
  (sites.filter (·.fn == fn)).foldl (fun n s => n + (s.alts.filter (fun a => a.send && a.chan == ch)).length) 0

def CapDischarge.ok (d : CapDischarge) : Bool :=
  !d.makeRows.isEmpty && d.makeRows.all (·.cap == d.cap) && d.sameFieldRows.all (·.cap == d.cap) &&
  sendCount d.fn d.chan == d.sendSites

/-- the whole reviewed table: plain reasons and capacity reasons -/
def dischargeAll : List Discharge := discharge ++ capDischarge.map (·.toDischarge)

/-- Examined and NOT harmless (recorded in known-findings.txt).  Empty since the repairs of
`pushtx.Broadcaster.MarkAsConfirmed` (bare send, F8) and of the `ChainService.Stop` order (a UTXO scan waiting in
GetBlock/GetCFilter kept utxoScanner.Stop, then called before workManager.Stop, from returning). -/
def knownBlocking : List SiteKey := []

/-- the order facts the reasons above rely on: (stopped first, stopped later, why) -/
def orderDeps : List (Nat × Nat × String) := [
  (N.«call ChainService.workManager.Stop», N.«call ChainService.filterBatchWriter.Stop»,
     "BatchWriter.AddItem is a bare send issued from worker goroutines"),
  (N.«call ChainService.broadcaster.Stop», N.«call ChainService.blockSubscriptionMgr.Stop»,
     "the broadcaster's handler cancels its block subscription on exit and needs the subscription handler running"),
  (N.«call ChainService.workManager.Stop», N.«call ChainService.utxoScanner.Stop»,
     "a scan waiting in GetBlock/GetCFilter on the scanner's goroutine is released by the work manager's shutdown verdict, not by ChainService.quit"),
  (N.«call ChainService.workManager.Stop», N.«close ChainService.quit»,
     "the dispatcher's ConnectedPeers request is served by peerHandler"),
  (N.«call ChainService.blockManager.Stop», N.«close ChainService.quit»,
     "blockHandler's UpdatePeerHeights / Peers requests are served by peerHandler"),
  (N.«call ChainService.broadcaster.Stop», N.«close ChainService.quit»,
     "the broadcaster's queryAllPeers asks peerHandler for the peer list"),
  (N.«close ChainService.quit», N.«wait ChainService.wg», "peerHandler leaves its loop only on quit")]

/-- the order of ChainService.Stop that was reviewed -/
def reviewedOrder : List Nat := [
  N.«call ChainService.connManager.Stop», N.«call ChainService.broadcaster.Stop», N.«call ChainService.workManager.Stop»,
  N.«call ChainService.utxoScanner.Stop», N.«call ChainService.blockSubscriptionMgr.Stop», N.«call ChainService.blockManager.Stop»,
  N.«call ChainService.addrManager.Stop», N.«call ChainService.filterBatchWriter.Stop», N.«close ChainService.quit»,
  N.«wait ChainService.wg»]

/-! ### WaitGroup balance (`Gen.StopSites.wgAdds` / `wgDones`)

An `Add` whose slot is handed back by `defer wg.Done()` at the top of the goroutine it launches (`go-defer`,
`loop-go-defer`) is balanced by construction.  Everything else needs a reviewed entry here. -/

structure WgReview where
  fn : Nat
  wg : Nat
  /-- nobody ever waits on this group (checked against the site table) -/
  unwaited : Bool
  reason : String

def wgReviewed : List WgReview := [
  ⟨N.«ChainService.Start», N.«ChainService.wg», false,
     "go-done: the goroutine is peerHandler, whose single exit path (after its loop and the drain loop, no return statement in between) ends with s.wg.Done()"⟩,
  ⟨N.«UtxoScanner.Start», N.«UtxoScanner.wg», true,
     "never handed back and never waited for: UtxoScanner.Stop waits for batchManager on the `shutdown` channel (site UtxoScanner.Stop:UtxoScanner.shutdown), not on this group"⟩]

/-- explicit `Done` calls (not the top-level defer of a goroutine's function) that were reviewed -/
def wgDoneReviewed : List (Nat × Nat × String) := [
  (N.«ChainService.peerHandler», N.«ChainService.wg», "the last statement but one of peerHandler; pairs with the Add in ChainService.Start")]

end Neutrino.Shutdown
