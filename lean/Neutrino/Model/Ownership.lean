/-
C18 — hand-written, reviewed ownership table (trusted input, listed in the evidence):
which goroutine class each function that touches tracked state runs on, which helpers
are only called under a lock (checked against the extracted call rows by
`C18_caller_holds`), which lock expressions are the same mutex, and the pairs that
were examined and are real unsynchronised accesses (`knownRacy`, known-findings.txt).
A function that is not listed is assumed callable from any goroutine (`Cls.api`).

Names: functions are named as in the source.  Fields, mutexes and closures are named by ROLE, so that renaming an
unexported field, a mutex or a closure variable changes neither the generated table nor this file: a field that a
table speaks about keeps the name it had when it was reviewed (`headerfs.headerStore.mtx`, `blockManager.newHeadersMtx`,
`cfiltersQuery.targetFilter`, `ChainService.GetBlock.foundBlock`; the extractor finds the field that plays the role by
that name, else by type and ordinal — extract/accesstable.go `fieldRoles`), every other mutex is `Struct.mutex#k`, a
closure registered as a work-manager callback is `Func$callback`.  `Gen.AccessNames.goNames` maps each such name to
today's Go identifier; the diagnostics of Props/C18.lean print both.
-/
import Neutrino.Model.Lockset
namespace Neutrino.Lockset
open Neutrino.Gen.AccessTable

def owners : List Owner := [
  -- block manager: constructed, and re-read after a header import, before Start launches the handlers
  ⟨N.«newBlockManager», .init⟩,
  ⟨N.«blockManager.ResetHeaderState», .init⟩,      -- ChainService.Start calls it before blockManager.Start
  ⟨N.«blockManager.handleDonePeerMsg», .blockHandler⟩,
  ⟨N.«blockManager.startSync», .blockHandler⟩,
  ⟨N.«blockManager.handleInvMsg», .blockHandler⟩,
  ⟨N.«blockManager.handleHeadersMsg», .blockHandler⟩,
  ⟨N.«blockManager.cfHandler», .cfHandler⟩,
  ⟨N.«blockManager.writeCFHeadersMsg», .cfHandler⟩,  -- only from get(Un)CheckpointedCFHeaders, both called by cfHandler
  -- ChainService
  ⟨N.«NewChainService», .init⟩,
  ⟨N.«ChainService.handleAddPeerMsg», .peerHandler⟩,
  ⟨N.«ChainService.handleQuery», .peerHandler⟩,
  -- peers: OnRead is invoked by the peer's single input handler
  ⟨N.«ServerPeer.OnRead», .peerIn⟩,
  -- scanner
  ⟨N.«UtxoScanner.batchManager», .scanner⟩,
  ⟨N.«UtxoScanner.dequeueAtHeight», .scanner⟩,
  ⟨N.«UtxoScanner.Stop», .scannerStop⟩,
  -- subscription manager
  ⟨N.«blockntfns.SubscriptionManager.handleNewSubscription», .subHandler⟩,
  ⟨N.«blockntfns.SubscriptionManager.handleCancelSubscription», .subHandler⟩,
  ⟨N.«blockntfns.SubscriptionManager.notifySubscribers», .subHandler⟩,
  ⟨N.«blockntfns.SubscriptionManager.Stop», .subStop⟩,
  -- header stores: (re)opening happens before the store is handed out
  ⟨N.«headerfs.newHeaderStore», .init⟩,
  ⟨N.«headerfs.NewBlockHeaderStore», .init⟩,
  ⟨N.«headerfs.NewFilterHeaderStore», .init⟩,
  ⟨N.«headerfs.headerStore.trimPartialHeader», .init⟩,
  ⟨N.«headerfs.headerStore.resetInterruptedInit», .init⟩,   -- only called by the two constructors
  ⟨N.«headerfs.filterHeaderStore.maybeResetHeaderState», .init⟩]

/-- Helpers that are only called with a lock held, where the extractor cannot decide it (`Gen.AccessTable.inferredHolds`
covers the decidable case: unexported, never used as a value, every call site inside a lock region).  The entries below
have a call site outside any region - in a constructor, before the store is shared - which `C18_caller_holds` accepts
only because the caller is of class `init`. -/
def callerHolds : List CallerHolds := [
  ⟨N.«headerfs.headerFile.truncateHeaders», N.«headerfs.headerStore.mtx», true⟩,   -- also from New*HeaderStore (trim on open)
  ⟨N.«headerfs.blockHeaderStore.readHeader», N.«headerfs.headerStore.mtx», false⟩,  -- also from NewBlockHeaderStore
  ⟨N.«headerfs.filterHeaderStore.readHeader», N.«headerfs.headerStore.mtx», false⟩, -- also from NewFilterHeaderStore
  ⟨N.«headerfs.headerStore.readRaw», N.«headerfs.headerStore.mtx», false⟩]          -- only from the two readHeader above

/-- reviewed entries, then what the extractor inferred -/
def allCallerHolds : List CallerHolds :=
  callerHolds ++ inferredHolds.map (fun h => ⟨h.fn, h.lock, h.excl⟩)

/-- `sync.NewCond(&m)`: `c.L` is `m` -/
def lockAlias : List (Nat × Nat) := [
  (N.«blockManager.newHeadersSignal.L», N.«blockManager.newHeadersMtx»)]   -- newBlockManager: sync.NewCond(&bm.newHeadersMtx)
-- (UtxoScanner only ever uses `s.cv.L`, never `s.mu` directly: no alias needed)

/-- Examined; real unsynchronised pairs (see known-findings.txt and the report). -/
def knownRacy : List Racy := [
  -- (lru.Cache.RangeFILO / RangeFIFO used to walk the recency list without the mutex: repaired in /repo 6926388,
  --  they now copy the entries under the read lock; the pairs share c.mtx)
  -- (UtxoScanner.Stop used to drain pq without cv.L while an Enqueue that had passed its quit check could still be
  --  pushing: repaired in /repo d581b3e, the pair now shares cv.L)
  -- FetchHeaderAncestors reads h.file without the store mutex; truncateHeaders re-assigns it (windows branch only)
  ⟨N.«headerfs.headerFile.file», N.«headerfs.headerFile.truncateHeaders», N.«headerfs.blockHeaderStore.readHeaderRange», false⟩,
  ⟨N.«headerfs.headerFile.file», N.«headerfs.headerFile.truncateHeaders», N.«headerfs.filterHeaderStore.readHeaderRange», false⟩]

/-- The per-response callbacks handed to the work manager, as reviewed (the extracted list must equal this one:
`C18_callbacks_reviewed`).  `true` = the query consists of several requests, so the callback runs on several worker
goroutines at once and every write it makes needs a mutex; `false` = single-request query. -/
def reviewedCallbacks : List Callback := [
  -- one request per pair of checkpoint intervals (`requests()` builds them in a loop): answered by different peers
  ⟨N.«checkpointedCFHeadersQuery.handleResponse», true⟩,
  -- GetCFilter issues `[]*query.Request{filterQuery.request()}`: one request, whose handler accepts many cfilter messages
  ⟨N.«cfiltersQuery.handleResponse», false⟩,
  -- GetBlock issues one getdata request
  ⟨N.«ChainService.GetBlock$callback», false⟩]

def rVerdict := "(valid for accesses confined to the success verdict: C18_ordered_only_on_success) the reader runs only after it has received the nil verdict of the query from errChan; the dispatcher sends that verdict after it has received the worker's result for the (single) job, and the worker reports after its last callback invocation: callback -> result -> verdict -> read"

/-- Conflicting pairs ordered by channel communication rather than by a mutex (reviewed). -/
def ordered : List Ordered := [
  ⟨N.«cfiltersQuery.targetFilter», N.«cfiltersQuery.handleResponse», N.«ChainService.GetCFilter», rVerdict⟩,
  ⟨N.«cfiltersQuery.headerIndex», N.«cfiltersQuery.handleResponse», N.«ChainService.GetCFilter», rVerdict⟩,
  ⟨N.«ChainService.GetBlock.foundBlock», N.«ChainService.GetBlock$callback», N.«ChainService.GetBlock», rVerdict⟩]

def tables : Tables := ⟨owners, allCallerHolds, lockAlias, knownRacy, ordered⟩

end Neutrino.Lockset
