/-
C04 — what a `getheaders` request teaches the client (request/answer level; the
abstract composition of Model/Converge.lean delivers "the honest chain" as one
event - this file is about whether the REQUEST the client sends makes that
delivery happen when chains are longer than one `headers` message).

A full node answers `getheaders(locator, stop)` from the first locator hash that
is on its chain (genesis if none is), with at most `batch` (2000) headers.
Heights only: `loc` is the locator as seen by the asked peer - `some h`: a block
of its chain at height `h`, `none`: a block that is not on its chain; `ph` is
the height of the peer's chain; `fork` is the highest height at which the
client's stored chain and the peer's chain agree (everything the peer has above
`fork` is new to the client, everything at or below it is known).

The code's locators: `startSync` / `handleNewPeerMsg` send the header store's
`LatestBlockLocator` (tip, the ten blocks below it, then doubling steps, genesis
last); `handleInvMsg` sends the in-memory tip followed by that same store
locator ("locator from the database as backup"); `handleHeadersMsg` asks on
from the last header the sync peer has just delivered.  Core Lean only.
-/
namespace Neutrino.Locator

/-- first height of the answer -/
def startOf : List (Option Nat) → Nat
  | [] => 1
  | some h :: _ => h + 1
  | none :: rest => startOf rest

/-- number of headers in the answer -/
def count (batch ph start : Nat) : Nat := min batch (ph + 1 - start)

/-- how many headers of the answer lie above the fork point, i.e. are new to the client -/
def newCount (batch ph fork : Nat) (loc : List (Option Nat)) : Nat :=
  let s := startOf loc
  s + count batch ph s - max (fork + 1) s

/-- `handleInvMsg`'s locator: the in-memory tip, then the store's locator -/
def invLocator (memTip : Option Nat) (storeLoc : List (Option Nat)) : List (Option Nat) := memTip :: storeLoc

/-- the highest locator entry on the peer's chain is what the answer starts from when the entries come in
descending height (as both the in-memory tip ++ store locator and the store locator alone do) -/
def firstOn : List (Option Nat) → Option Nat
  | [] => none
  | some h :: _ => some h
  | none :: rest => firstOn rest

theorem startOf_firstOn (loc : List (Option Nat)) :
    startOf loc = match firstOn loc with | some a => a + 1 | none => 1 := by
  induction loc with
  | nil => rfl
  | cons x xs ih => cases x with
    | none => simpa only [startOf, firstOn] using ih
    | some h => rfl

end Neutrino.Locator
