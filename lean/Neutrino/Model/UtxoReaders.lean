/-
Any number of callers of `GetUtxoRequest.Result` on ONE request object, in any interleaving with
the scanner's deliveries.  Core Lean only.

`Result` takes the request's mutex for the whole call and looks at the cache first
(`Gen.Utxo.resultChecksCacheFirst`), so
the calls are serialised: a call that finds neither a cached result nor a buffered delivery keeps
waiting (and keeps every later caller waiting behind it); the moment a call returns is one atomic
`ReqObj.result` step.  A `read i` event is reader i's attempt to complete: with nothing to return
it is a no-op (the reader is still inside `Result`) and may be repeated any number of times.
-/
import Neutrino.Model.Utxo
namespace Neutrino.Utxo

inductive REv where
  | deliver (r : Res)      -- the scanner's `deliver` (non-blocking send on the 1-slot channel)
  | read (i : Nat)         -- reader i completes its `Result` call if there is something to return
deriving DecidableEq, Repr

/-- one event; the second component is what a completing reader was given -/
def stepR (o : ReqObj) : REv → ReqObj × Option (Nat × Res)
  | .deliver r => (o.deliver r, none)
  | .read i =>
    match o.result with
    | (o', some r) => (o', some (i, r))
    | (o', none) => (o', none)

/-- the object after `evs` and every answer handed out, in order -/
def runR (o : ReqObj) : List REv → ReqObj × List (Nat × Res)
  | [] => (o, [])
  | e :: es =>
    let p := stepR o e
    let q := runR p.1 es
    (q.1, p.2.toList ++ q.2)

/-- the answer every present and future reader of the object gets (`none`: not answered yet) -/
def ReqObj.answer (o : ReqObj) : Option Res :=
  match o.cache with
  | some c => some c
  | none => o.chan

end Neutrino.Utxo
