/-
The notification channel between the block manager's handlers and the subscription manager
(`blockNtfnChan`, `onBlockConnected` / `onBlockDisconnected` on one side, the subscription
manager's receive loop on the other).  Core Lean only.

The producer runs a straight-line program: for i = 0, 1, …: do the i-th piece of work (store
writes, tip updates), then send the i-th event.  `done` counts the pieces of work completed, so
the producer's state is the post-state of work `done`; `taken` counts the events the consumer has
received.  With capacity 0 a send completes only together with the receive (`sync`); with
capacity c > 0 a send completes as soon as there is room.
-/
namespace Neutrino.NtfnChan

structure Conf where
  done   : Nat := 0      -- pieces of work the producer has completed
  queued : Nat := 0      -- events sent but not yet taken
  taken  : Nat := 0      -- events the consumer has taken
deriving DecidableEq, Repr

inductive Act where
  | send     -- producer: next piece of work, then put its event into the buffer
  | recv     -- consumer: take the oldest buffered event
  | sync     -- capacity 0 only: next piece of work, then hand its event over directly
deriving DecidableEq, Repr

/-- one scheduler choice; a choice that is not enabled leaves the configuration unchanged -/
def step (cap total : Nat) (c : Conf) : Act → Conf
  | .send => if 0 < cap ∧ c.queued < cap ∧ c.done < total then { c with done := c.done + 1, queued := c.queued + 1 } else c
  | .recv => if 0 < c.queued then { c with queued := c.queued - 1, taken := c.taken + 1 } else c
  | .sync => if cap = 0 ∧ c.done < total then { c with done := c.done + 1, taken := c.taken + 1 } else c

def run (cap total : Nat) (c : Conf) : List Act → Conf
  | [] => c
  | a :: as => run cap total (step cap total c a) as

end Neutrino.NtfnChan
