/-
Model of the DECISION LOGIC by which neutrino.go enforces bans (no sockets, no
goroutines): `OnVersion`'s service-bit test, `outboundPeerConnected`,
`handleAddPeerMsg`, `BanPeer` (with its deferred disconnect of
`PeerByAddr(addr)` and of every connected peer of the banned network), `IsBanned`, on top of the store model of Model/Ban.lean.
Core Lean only.

A peer is its address string, i.e. (IP bytes as `net.ParseIP` yields them, port);
`PeerByAddr` compares that string, so it is equality of `Peer`s, while the ban
store is keyed by the IP network only (`ParseIPNet(addr, nil)`: the port is
dropped).

* `pending`   sockets created by `outboundPeerConnected` whose handshake has not
              finished (at most one per address: the connection manager has one
              outstanding request per address),
* `connected` the peers recorded in `peerState` by `handleAddPeerMsg`.
-/
import Neutrino.Model.Ban
namespace Neutrino.Ban

/-- `wire.SFNodeWitness` (1 << 3) -/
def sfNodeWitness : Nat := 8
/-- `wire.SFNodeCF` (1 << 6) -/
def sfNodeCF : Nat := 64
/-- `BanDuration` = 24 h -/
def banDurationMs : Int := 86400000
/-- `banman.NoCompactFilters` -/
def reasonNoCompactFilters : Nat := 2

/-- `peerServices&SFNodeWitness == SFNodeWitness && peerServices&SFNodeCF == SFNodeCF` -/
def hasRequired (services : Nat) : Bool :=
  Nat.land services sfNodeWitness == sfNodeWitness && Nat.land services sfNodeCF == sfNodeCF

structure Peer where
  ip   : Bytes
  port : Nat
deriving DecidableEq, Repr

/-- `banman.ParseIPNet(addr, nil)` of the peer's address string -/
def Peer.target (p : Peer) : Target := { via := .parse, ip := p.ip, mask := none, port := some p.port }

structure Net where
  store     : State := {}
  pending   : List Peer := []
  connected : List Peer := []
  maxPeers  : Nat := 125
deriving Repr

def without (l : List Peer) (p : Peer) : List Peer := l.filter (fun q => decide (q ≠ p))

/-- `ChainService.IsBanned`: `banStore.Status(...)` (a write transaction: it
deletes a lapsed record); any error counts as "not banned". -/
def isBanned (s : State) (now : Int) (p : Peer) : State × Bool :=
  match step s now (.status p.target) with
  | (s', .banned _ _) => (s', true)
  | (s', _) => (s', false)

/-- `peerNet.String() == banned.String()` on two `*net.IPNet`s: `IP.String()`
prints the 4-byte and the v4-mapped 16-byte form of an address alike, i.e. it
compares the 16-byte forms; the masks are compared as given. -/
def sameNet (a b : Bytes × Bytes) : Bool :=
  (to16 a.1).isSome && to16 a.1 == to16 b.1 && a.2 == b.2

/-- the peers `BanPeer`'s goroutine leaves connected: not the reported address
(`PeerByAddr(addr)`), and — when `ParseIPNet(addr, nil)` succeeds — no peer whose
own address parses to the banned network -/
def afterBan (connected : List Peer) (p : Peer) : List Peer :=
  match resolve p.target with
  | none => without connected p
  | some bn =>
    (without connected p).filter fun q =>
      match resolve q.target with
      | none => true
      | some qn => !sameNet qn bn

/-- `ChainService.BanPeer`: ban the IP network for `BanDuration` (an error is
only logged), disconnect `PeerByAddr(addr)` and every peer in `s.Peers()` whose
address lies in the banned network. -/
def banPeer (n : Net) (now : Int) (p : Peer) (reason : Nat) : Net :=
  { n with store := (step n.store now (.ban p.target reason banDurationMs)).1,
           connected := afterBan n.connected p }

inductive Ev where
  | outbound (p : Peer)                   -- outboundPeerConnected(c, conn)
  | version (p : Peer) (services : Nat)   -- OnVersion on a pending socket
  | addPeer (p : Peer)                    -- handleAddPeerMsg(state, sp)
  | banPeer (p : Peer) (reason : Nat)     -- BanPeer from query.go / blockmanager.go (misbehaviour detected)
  | unbanPeer (p : Peer)                  -- UnbanPeer's store call
  | done (p : Peer)                       -- the peer went away (donePeers)
deriving DecidableEq, Repr

def Ev.peer : Ev → Peer
  | .outbound p | .version p _ | .addPeer p | .banPeer p _ | .unbanPeer p | .done p => p

def stepNet (n : Net) (now : Int) : Ev → Net
  | .outbound p =>
    let r := isBanned n.store now p
    if r.2 then { n with store := r.1 }                                   -- banned: disconnect()
    else if p ∈ n.connected ∨ p ∈ n.pending then { n with store := r.1 }  -- already have it: keep the old one
    else { n with store := r.1, pending := p :: n.pending }
  | .version p services =>
    if p ∈ n.pending then
      if hasRequired services then n
      else
        let n' := banPeer n now p reasonNoCompactFilters     -- BanPeer(sp.Addr(), NoCompactFilters)
        { n' with pending := without n'.pending p }            -- sp.Disconnect()
    else n
  | .addPeer p =>
    if p ∈ n.pending then                                     -- sp.Connected()
      let r := isBanned n.store now p
      if r.2 then { n with store := r.1, pending := without n.pending p }           -- banned: Disconnect
      else if n.connected.length ≥ n.maxPeers then { n with store := r.1, pending := without n.pending p }
      else { n with store := r.1, pending := without n.pending p, connected := p :: n.connected }
    else n
  | .banPeer p reason => banPeer n now p reason
  | .unbanPeer p => { n with store := (step n.store now (.unban p.target)).1 }
  | .done p => { n with pending := without n.pending p, connected := without n.connected p }

abbrev EvHist := List (Int × Ev)

/-- The rejected ordering (seeded regression C13g-2): the service-bit test is made in `handleAddPeerMsg`, next to the
other admission rules, instead of in `OnVersion`; `svc p` is what `sp.Services()` answers once the peer's version
message is in.  `handleAddPeerMsg` is only reached through verack -> AddPeer, and returns early for a peer that is no
longer connected. -/
def stepNetDeferred (svc : Peer → Nat) (n : Net) (now : Int) : Ev → Net
  | .version _ _ => n
  | .addPeer p =>
    if p ∈ n.pending then
      if hasRequired (svc p) then stepNet n now (.addPeer p)
      else
        let n' := banPeer n now p reasonNoCompactFilters
        { n' with pending := without n'.pending p }
    else n
  | e => stepNet n now e

def runNetDeferred (svc : Peer → Nat) (n : Net) : EvHist → Net
  | [] => n
  | (t, e) :: rest => runNetDeferred svc (stepNetDeferred svc n t e) rest

def runNet (n : Net) : EvHist → Net
  | [] => n
  | (t, e) :: rest => runNet (stepNet n t e) rest

def monoEv (T : Int) : EvHist → Prop
  | [] => True
  | (t, _) :: rest => T ≤ t ∧ monoEv t rest

def endEv (T : Int) : EvHist → Int
  | [] => T
  | (t, _) :: rest => endEv t rest

end Neutrino.Ban
