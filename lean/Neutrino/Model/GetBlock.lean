/-
Model of `ChainService.GetBlock` (query.go) and of its `handleResp` closure.
Core Lean only.

A response is abstracted to what the handler looks at:
  `isBlock`  the message is a `*wire.MsgBlock`,
  `hdr`      id of its header hash (`response.BlockHash()`),
  `sane`     `blockchain.CheckBlockSanity` accepts it,
  `wit`      `blockchain.ValidateWitnessCommitment` accepts it,
  `merkle`   its transaction list reproduces the header's merkle root (implied
             by `sane`; carried so that the property can name it),
  `rid`      id of the exact block (all bytes), `size` its serialized size,
  `peer`     who sent it.
The dispatcher is adversarial: it delivers any list of responses from any
peers in any order, may or may not stop after the handler reports `Finished`
(`cont`), and ends the batch with any verdict (`nil`, an error, or never
because the service is shutting down).

The block cache is the abstract recency list `Lru.Spec` that C16 proves the
real `lru.Cache` refines.
-/
import Neutrino.Spec.Lru
namespace Neutrino.GetBlock
open Neutrino

structure Resp where
  peer    : Nat
  isBlock : Bool
  rid     : Nat
  hdr     : Nat
  sane    : Bool
  merkle  : Bool
  wit     : Bool
  size    : Nat
  /-- id of the stored header that has the same parent (`PrevBlock`) and the same
  `MerkleRoot` as this response's header, 0 if none.  `sib = hdr` for the stored
  headers themselves; `sib ≠ hdr`, `sib ≠ 0` is a re-mined sibling of a stored
  header.  The handler must not look at it: identity is the header HASH. -/
  sib     : Nat := 0
deriving DecidableEq, Repr, Inhabited

inductive Decision where
  | ignore   -- noProgress, nothing else
  | ban      -- BanPeer(peer, InvalidBlock); noProgress
  | accept   -- foundBlock = block; Finished ∧ Progressed
deriving DecidableEq, Repr

/-- The closure's tests in source order: message type, header hash, sanity,
witness commitment. -/
def decision (target : Nat) (r : Resp) : Decision :=
  if r.isBlock = false then .ignore
  else if r.hdr ≠ target then .ignore
  else if r.sane = false then .ban
  else if r.wit = false then .ban
  else .accept

inductive Progress where
  | none      -- noProgress
  | finished  -- {Finished: true, Progressed: true}
deriving DecidableEq, Repr

/-- What the closure can write: `foundBlock` and the ban store. -/
structure HState where
  found : Option Resp := none
  bans  : List Nat := []
deriving Repr

def handle (target : Nat) (h : HState) (r : Resp) : HState × Progress :=
  match decision target r with
  | .ignore => (h, .none)
  | .ban => ({ h with bans := r.peer :: h.bans }, .none)
  | .accept => ({ h with found := some r }, .finished)

/-- The dispatcher hands the responses to the handler one at a time; unless
`cont`, it stops after the first `Finished`. -/
def feed (cont : Bool) (target : Nat) : HState → List Resp → HState × List Progress
  | h, [] => (h, [])
  | h, r :: rs =>
    let hp := handle target h r
    if hp.2 = .finished ∧ cont = false then (hp.1, [hp.2])
    else
      let rest := feed cont target hp.1 rs
      (rest.1, hp.2 :: rest.2)

inductive Verdict where
  | nil    -- errChan delivers nil
  | err    -- errChan delivers an error
  | quit   -- s.quit is closed, errChan never delivers
deriving DecidableEq, Repr

structure Call where
  target  : Nat
  known   : Bool          -- the header store has the header for `target`
  base    : Bool          -- `Encoding(wire.BaseEncoding)`: inv type `InvTypeBlock`
  resps   : List Resp
  cont    : Bool
  verdict : Verdict
deriving Repr

inductive Result where
  | ret (rid : Nat)
  | errNoHeader
  | errQuery
  | errNotFound
  | errQuit
deriving DecidableEq, Repr

def Result.isRet : Result → Bool
  | .ret _ => true
  | _ => false

structure State where
  cache : Lru.Spec
  bans  : List Nat := []
deriving Repr

/-- cache key: the inv vector (type, hash) -/
def keyOf (target : Nat) (base : Bool) : Nat := 2 * target + (if base then 1 else 0)

structure Outcome where
  st      : State
  result  : Result
  prog    : List Progress    -- what the handler returned for each delivered response
  queries : Nat              -- calls of `workManager.Query`
deriving Repr

def getBlock (s : State) (c : Call) : Outcome :=
  if c.known = false then ⟨s, .errNoHeader, [], 0⟩
  else
    let k := keyOf c.target c.base
    match s.cache.step (.get k) with
    | (cache', .val v) => ⟨{ s with cache := cache' }, .ret v, [], 0⟩
    | (cache', _) =>
      let hp := feed c.cont c.target { found := none, bans := s.bans } c.resps
      let s1 : State := { cache := cache', bans := hp.1.bans }
      match c.verdict with
      | .quit => ⟨s1, .errQuit, hp.2, 1⟩
      | .err => ⟨s1, .errQuery, hp.2, 1⟩
      | .nil =>
        match hp.1.found with
        | none => ⟨s1, .errNotFound, hp.2, 1⟩
        | some r =>
          ⟨{ s1 with cache := (s1.cache.step (.put k r.rid r.size)).1 }, .ret r.rid, hp.2, 1⟩

def run (s : State) : List Call → State
  | [] => s
  | c :: cs => run (getBlock s c).st cs

def init (cap : Nat) : State := { cache := { cap := cap } }

end Neutrino.GetBlock
