/-
C04 — who gets asked for headers.  A model of the block manager's request logic
around "current", following the code of `handleNewPeerMsg`, `handleDonePeerMsg`,
`handleInvMsg`, `startSync` and the tail of `handleHeadersMsg`:

* `current` is `BlockHeadersSynced()` without checkpoints: the tip is fresh (its
  timestamp is within 24 hours of the adjusted time) and there is no sync peer or
  the sync peer's last known block is not above our tip;
* `startSync` does nothing while there is a sync peer; otherwise it drops the
  candidates whose last block is below our tip, picks one with the greatest
  last block, makes it the sync peer and sends it a `getheaders`;
* a new peer that announces more than our tip is asked at once if we are
  current; then `startSync` runs;
* the done event of the sync peer clears it and runs `startSync`;
* an `inv` is followed (a `getheaders` goes to its sender) only if the sender is
  the sync peer or we are current;
* a `headers` answer raises the tip; if we are then still not current the sender
  is asked again.

`asked` is the set of peers with a `getheaders` outstanding.  Heights stand for
work (one unit per block).  Core Lean only.
-/
namespace Neutrino.Ask

structure Peer where
  id    : Nat
  claim : Nat      -- StartingHeight / LastBlock: what it announced
deriving DecidableEq, Repr

structure State where
  tip   : Nat
  fresh : Bool
  peers : List Peer
  sync  : Option Peer
  asked : List Peer
deriving Repr

def current (s : State) : Bool :=
  s.fresh && (match s.sync with
    | none => true
    | some q => decide (q.claim ≤ s.tip))

/-- a candidate with the greatest claim -/
def best : List Peer → Option Peer
  | [] => none
  | p :: ps =>
    match best ps with
    | none => some p
    | some b => if p.claim < b.claim then some b else some p

def candidates (s : State) : List Peer := s.peers.filter fun p => decide (s.tip ≤ p.claim)

def startSync (s : State) : State :=
  match s.sync with
  | some _ => s
  | none =>
    match best (candidates s) with
    | none => s
    | some b => { s with sync := some b, asked := b :: s.asked }

inductive Ev where
  | newPeer (p : Peer)
  | donePeer (p : Peer)
  | inv (p : Peer) (h : Nat)
  | headers (p : Peer) (h : Nat)
  | age                      -- a day passes without a block
deriving Repr

def step (s : State) : Ev → State
  | .newPeer p =>
    if p ∈ s.peers then s else
    let s1 : State := { s with peers := s.peers ++ [p] }
    let s2 : State := if s1.tip < p.claim ∧ current s1 = true then { s1 with asked := p :: s1.asked } else s1
    startSync s2
  | .donePeer p =>
    let s1 : State := { s with peers := s.peers.filter (· ≠ p), asked := s.asked.filter (· ≠ p) }
    if s.sync = some p then startSync { s1 with sync := none } else s1
  | .inv p h =>
    if p ∈ s.peers ∧ (s.sync = some p ∨ current s = true) ∧ s.tip < h then { s with asked := p :: s.asked } else s
  | .headers p h =>
    if p ∈ s.asked ∧ s.tip < h then
      let s1 : State := { s with tip := h, asked := s.asked.filter (· ≠ p) }
      if current s1 = true then s1 else { s1 with asked := p :: s1.asked }
    else s
  | .age => { s with fresh := false }

def run (s : State) : List Ev → State
  | [] => s
  | e :: es => run (step s e) es

/-- a sync peer that is ahead of us has a request outstanding -/
def WF (s : State) : Prop := ∀ q, s.sync = some q → s.tip < q.claim → q ∈ s.asked

def init : State := { tip := 0, fresh := false, peers := [], sync := none, asked := [] }

end Neutrino.Ask
